(* Model/C14.v — a continuation token only resumes the stream method that minted it.
   Go: vgirpc/http_stream.go (handleStreamInit: packCursorToken + packCallTokenFor(method ...);
   handleStreamExchange: route lookup, input cast, cursor FIRST, resolveCall, the
   call.Method != method refusal, the CHECKED mode assertions, rehydrate, dispatch hook,
   cancel / producer / exchange turn), vgirpc/http_state.go (callTokenData.Method,
   resolvedCall.Method, packCallTokenFor, openCursorToken, resolveCall, callStateCache).

   Methods are a finite registry (name, mode producer | exchange | dynamic, the Go state
   type its init handler returns = a type id + the interfaces that type implements).
   Token plaintexts: cursor = call id + state; call = call id, METHOD, schema, stream id.
   The AEAD (XChaCha20-Poly1305 with gob / zstd / base64 folded in) is a pair of section
   variables; the executable [model] instantiates the symbolic ideal AEAD.
   The per-process call-state cache is the real bounded LRU (callStateCache.get / put):
   capacity, move-to-front on a hit, trim from the back on a put; the capacity is set by ops.
   One caller identity throughout (identity binding is C13); token age is C15; forged
   ciphertexts are C12: presented tokens are server-minted ones, as minted or with the
   unauthenticated envelope rewritten for the slot. *)
From VR Require Export Lib.Strs Gen.Consts.
Open Scope N_scope.

(* ---- methods, states ---------------------------------------------------------- *)
Inductive mode := Producer | Exchange | Dynamic.

(* a Go state type: id, and whether it implements ProducerState / ExchangeState / StreamCanceller *)
Record sty := { ty_id : N; ty_prod : bool; ty_exch : bool; ty_canc : bool }.

Record method := { m_name : bytes; m_mode : mode; m_hdr : bool; m_sty : sty }.

(* the state value sealed in a cursor: dynamic type + how many turns it has run *)
Record state := { st_ty : sty; st_pos : N }.

Definition registry := list method.
(* ops name methods by their index in the registry; an index out of range is a route
   no method is registered under *)
Definition lookup (reg : registry) (i : nat) : option method := nth_error reg i.
(* the path segment of a route that is not registered *)
Definition route_name (reg : registry) (i : nat) : bytes :=
  match lookup reg i with Some m => m_name m | None => [] end.

(* handleStreamInit / handleStreamExchange: producer mode? (dynamic: from the state type) *)
Definition is_producer (md : mode) (t : sty) : bool :=
  match md with Producer => true | Exchange => false | Dynamic => ty_prod t end.
(* the interface the chosen mode needs *)
Definition state_fits (md : mode) (t : sty) : bool :=
  if is_producer md t then ty_prod t else ty_exch t.
(* /init accepts the handler's state *)
Definition init_fits (md : mode) (t : sty) : bool :=
  match md with Producer => ty_prod t | Exchange => ty_exch t | Dynamic => ty_prod t || ty_exch t end.

(* ---- token plaintexts ----------------------------------------------------------- *)
Inductive kind := KCursor | KCall.
Definition kind_eqb (a b : kind) : bool :=
  match a, b with KCursor, KCursor | KCall, KCall => true | _, _ => false end.

(* what resolveCall hands back: callTokenData minus CreatedAt and CallID *)
Record resolved := { r_meth : bytes; r_schema : bool; r_stream : N }.

(* the fixed half /init seals for call c of method info (and caches) *)
Definition resolved_for (info : method) (c : N) : resolved :=
  {| r_meth := m_name info; r_schema := true; r_stream := c |}.

Inductive payload :=
| PCursor (c : N) (s : state)          (* cursorTokenData{CallID, State} *)
| PCall (c : N) (r : resolved).        (* callTokenData{CallID, Method, SchemaIPC, StreamID} *)

Definition pl_kind (p : payload) : kind := match p with PCursor _ _ => KCursor | PCall _ _ => KCall end.

(* associated data of the one (anonymous) caller, and the envelope version bytes:
   REGENERATED constants *)
Definition aad_of (k : kind) : bytes :=
  match k with KCursor => aad_prefix_cursor | KCall => aad_prefix_call end ++ aad_anon_tail.
Definition version_of (k : kind) : N :=
  Z.to_N match k with KCursor => tokver_cursor | KCall => tokver_call end.

(* ---- what user code can be observed doing during one continuation ------------- *)
Inductive act :=
| ARehyd (ty : N) (route : nat)        (* RehydrateFunc(state, method) *)
| AHook (route : nat) (cancelled : bool)  (* DispatchHook.OnDispatchStart *)
| AProduce (pos : N)                   (* state.Produce *)
| AExchange (pos : N)                  (* state.Exchange *)
| ACancel (pos : N).                   (* state.OnCancel *)

Definition act_eqb (a b : act) : bool :=
  match a, b with
  | ARehyd t r, ARehyd t' r' => (t =? t') && Nat.eqb r r'
  | AHook r c, AHook r' c' => Nat.eqb r r' && Bool.eqb c c'
  | AProduce p, AProduce p' | AExchange p, AExchange p' | ACancel p, ACancel p' => p =? p'
  | _, _ => false
  end.

(* one HTTP response, projected.  status 500 = the 200 + X-VGI-RPC-Error rewrite;
   panic = a panic escaped ServeHTTP (net/http aborts the connection; status 0);
   tok = the response carries a fresh cursor *)
Record result := R { r_status : N; r_exc : bytes; r_panic : bool; r_trace : list act; r_tok : bool }.

Definition result_eqb (a b : result) : bool :=
  (r_status a =? r_status b) && beqb (r_exc a) (r_exc b) && Bool.eqb (r_panic a) (r_panic b)
  && list_eqb act_eqb (r_trace a) (r_trace b) && Bool.eqb (r_tok a) (r_tok b).

(* the request body of a continuation: an empty-schema tick or an {x:int64} batch *)
Inductive body := Tick | Data.

(* call-state cache of one process (callStateCache): an LRU list, most recently used
   first, call id -> resolved call, holding at most [cap] entries; cap = 0 disables it *)
Definition cache := list (N * resolved).
Fixpoint cache_get (c : N) (ch : cache) : option resolved :=
  match ch with
  | [] => None
  | (c', r) :: t => if c' =? c then Some r else cache_get c t
  end.
Fixpoint remove_key (c : N) (ch : cache) : cache :=
  match ch with
  | [] => []
  | (c', r) :: t => if c' =? c then remove_key c t else (c', r) :: remove_key c t
  end.
(* put: an existing key is updated and moved to the front; a new key is pushed to the
   front and the list is trimmed from the back while it is longer than cap *)
Definition cache_put (cap : nat) (c : N) (r : resolved) (ch : cache) : cache :=
  firstn cap ((c, r) :: remove_key c ch).
(* get hit: MoveToFront *)
Definition touch (c : N) (ch : cache) : cache :=
  match cache_get c ch with
  | Some r => (c, r) :: remove_key c ch
  | None => ch
  end.
(* the size NewHttpServer gives the cache (any size the histories never reach) *)
Definition default_cap : nat := 1024.

Inductive tokref :=
| TNone                               (* slot left empty *)
| TTok (id : nat) (reenv : bool).     (* id-th minted token; envelope rewritten for the slot? *)

Inductive op :=
| OInit (inst : bool) (m : nat)       (* POST /{m}/init on instance inst *)
| OReset (inst : bool)                (* that process's cache loses its entries (restart) *)
| OOff (inst : bool)                  (* SetCallStateCacheEntries(0) *)
| OOn (inst : bool) (cap : nat)       (* SetCallStateCacheEntries(cap): a fresh cache of that size *)
| OCont (inst : bool) (route : nat) (cur call : tokref) (cancel : bool) (b : body) (rfail : bool).
                                      (* POST /{route}/exchange; rfail: the RehydrateFunc errs *)

(* the cast of the input batch to the registered input schema fails: exchange methods
   only (a dynamic method registers no input schema), skipped on cancel *)
Definition cast_blocks (info : method) (b : body) (cancel : bool) : bool :=
  negb cancel && match m_mode info, b with Exchange, Tick => true | _, _ => false end.

(* ---- the decisions, parametric in the AEAD -------------------------------------- *)
Section AEAD.
  Variable CT : Type.
  Variable seal : N -> bytes -> payload -> CT.     (* nonce, aad, plaintext *)
  Variable open : bytes -> CT -> option payload.   (* aad, ciphertext *)

  Record token := { t_ver : N; t_ct : CT }.

  Definition mint (n : N) (p : payload) : token :=
    {| t_ver := version_of (pl_kind p); t_ct := seal n (aad_of (pl_kind p)) p |}.

  (* what a holder can do without the key: rewrite the envelope for another slot *)
  Definition reenvelope (slot : kind) (t : token) : token :=
    {| t_ver := version_of slot; t_ct := t_ct t |}.

  (* openToken for a slot: version byte, AEAD under the slot's AAD, then the plaintext
     must decode as the slot's struct *)
  Definition open_slot (slot : kind) (t : token) : option payload :=
    if t_ver t =? version_of slot then
      match open (aad_of slot) (t_ct t) with
      | Some p => if kind_eqb (pl_kind p) slot then Some p else None
      | None => None
      end
    else None.

  (* resolveCall: the resolved call and whether the miss path stored it *)
  Definition resolve_dec (cache_on : bool) (ch : cache) (c : N) (tk : option token)
    : option (resolved * bool) :=
    match (if cache_on then cache_get c ch else None) with
    | Some r => Some (r, false)
    | None =>
        match tk with
        | None => None                                   (* Missing call token *)
        | Some t =>
            match open_slot KCall t with
            | Some (PCall c' r) => if c' =? c then Some (r, true) else None
            | _ => None
            end
        end
    end.

  (* outcome of one continuation: the response, the cache store of the miss path, and the
     state sealed into the fresh cursor *)
  Record outcome := { o_res : result; o_put : option (N * resolved); o_touch : option N;
                      o_next : option (N * state) }.

  (* o_touch: a cache hit moved the entry of that call to the front; o_put: the miss path
     stored the opened call token *)
  Definition refuse (status : N) (exc : bytes) (put : option (N * resolved)) (tch : option N) : outcome :=
    {| o_res := R status exc false [] false; o_put := put; o_touch := tch; o_next := None |}.

  (* the turn that runs once every check has passed *)
  Definition run_turn (route : nat) (info : method) (c : N) (s : state) (cancel rfail : bool)
             (put : option (N * resolved)) (tch : option N) : outcome :=
    let ty := st_ty s in
    let rehyd := ARehyd (ty_id ty) route in
    if rfail then
      {| o_res := R 500 exc_runtime_error false [rehyd] false; o_put := put; o_touch := tch; o_next := None |}
    else
      let pre := [rehyd; AHook route cancel] in
      if cancel then
        {| o_res := R 200 [] false (pre ++ if ty_canc ty then [ACancel (st_pos s)] else []) false;
           o_put := put; o_touch := tch; o_next := None |}
      else
        let a := if is_producer (m_mode info) ty then AProduce (st_pos s) else AExchange (st_pos s) in
        {| o_res := R 200 [] false (pre ++ [a]) true; o_put := put; o_touch := tch;
           o_next := Some (c, {| st_ty := ty; st_pos := st_pos s + 1 |}) |}.

  (* handleStreamExchange, in the order of the code *)
  Definition continue_dec (reg : registry) (route : nat) (b : body) (cancel rfail : bool)
             (cache_on : bool) (ch : cache) (tc tk : option token) : outcome :=
    match lookup reg route with
    | None => refuse 404 c14_exc_not_implemented None None
    | Some info =>
        (* cast of the input batch to the registered input schema (exchange methods only;
           a dynamic method registers none), skipped on cancel *)
        if cast_blocks info b cancel then refuse 400 c14_exc_cast None None else
        match tc with
        | None => refuse 400 exc_runtime_error None None                 (* Missing state token *)
        | Some tcur =>
            match open_slot KCursor tcur with
            | Some (PCursor c s) =>
                match resolve_dec cache_on ch c tk with
                | None => refuse 400 exc_runtime_error None None
                | Some (call, stored) =>
                    let put := if stored then Some (c, call) else None in
                    let tch := if stored then None else Some c in
                    (* THE METHOD CHECK: before rehydrate, hook, cancel, any state code *)
                    if negb (beqb (r_meth call) (m_name info)) then refuse 400 exc_runtime_error put tch
                    else if negb (state_fits (m_mode info) (st_ty s)) then refuse 400 exc_runtime_error put tch
                    else run_turn route info c s cancel rfail put tch
                end
            | _ => refuse 400 exc_runtime_error None None
            end
        end
    end.

  (* the code before commit e4cc5ac: no method in the call token, unchecked assertions
     placed after rehydrate / hook / cancel *)
  Definition continue_dec_legacy (reg : registry) (route : nat) (b : body) (cancel rfail : bool)
             (cache_on : bool) (ch : cache) (tc tk : option token) : outcome :=
    match lookup reg route with
    | None => refuse 404 c14_exc_not_implemented None None
    | Some info =>
        if cast_blocks info b cancel then refuse 400 c14_exc_cast None None else
        match tc with
        | None => refuse 400 exc_runtime_error None None
        | Some tcur =>
            match open_slot KCursor tcur with
            | Some (PCursor c s) =>
                match resolve_dec cache_on ch c tk with
                | None => refuse 400 exc_runtime_error None None
                | Some (call, stored) =>
                    let put := if stored then Some (c, call) else None in
                    let tch := if stored then None else Some c in
                    if cancel || rfail || state_fits (m_mode info) (st_ty s)
                    then run_turn route info c s cancel rfail put tch
                    else (* tokenData.State.(ProducerState) on a state that is not one *)
                      {| o_res := R 0 [] true [ARehyd (ty_id (st_ty s)) route; AHook route cancel] false;
                         o_put := put; o_touch := tch; o_next := None |}
                end
            | _ => refuse 400 exc_runtime_error None None
            end
        end
    end.

  (* ---- histories over two processes sharing the token key ---------------------- *)
  Record st := {
    s_toks : list token; s_ncalls : N; s_nonce : N;
    s_cap0 : nat; s_ch0 : cache; s_cap1 : nat; s_ch1 : cache }.

  Definition st0 : st :=
    {| s_toks := []; s_ncalls := 0; s_nonce := 0;
       s_cap0 := default_cap; s_ch0 := []; s_cap1 := default_cap; s_ch1 := [] |}.

  Definition cap_of (s : st) (i : bool) : nat := if i then s_cap1 s else s_cap0 s.
  (* callStateCache.get / put are no-ops when max <= 0 *)
  Definition on_of (s : st) (i : bool) : bool := negb (Nat.eqb (cap_of s i) 0).
  Definition ch_of (s : st) (i : bool) : cache := if i then s_ch1 s else s_ch0 s.
  Definition set_cache (s : st) (i : bool) (cap : nat) (ch : cache) : st :=
    if i then {| s_toks := s_toks s; s_ncalls := s_ncalls s; s_nonce := s_nonce s;
                 s_cap0 := s_cap0 s; s_ch0 := s_ch0 s; s_cap1 := cap; s_ch1 := ch |}
    else {| s_toks := s_toks s; s_ncalls := s_ncalls s; s_nonce := s_nonce s;
            s_cap0 := cap; s_ch0 := ch; s_cap1 := s_cap1 s; s_ch1 := s_ch1 s |}.
  Definition add_toks (s : st) (ts : list token) (calls nonces : N) : st :=
    {| s_toks := s_toks s ++ ts; s_ncalls := s_ncalls s + calls; s_nonce := s_nonce s + nonces;
       s_cap0 := s_cap0 s; s_ch0 := s_ch0 s; s_cap1 := s_cap1 s; s_ch1 := s_ch1 s |}.
  (* a cache store: LRU put within the process's capacity (capacity 0: nothing is kept) *)
  Definition store (s : st) (i : bool) (p : option (N * resolved)) : st :=
    match p with
    | Some (c, r) => set_cache s i (cap_of s i) (cache_put (cap_of s i) c r (ch_of s i))
    | None => s
    end.
  (* a cache hit moves the entry to the front *)
  Definition touched (s : st) (i : bool) (t : option N) : st :=
    match t with
    | Some c => set_cache s i (cap_of s i) (touch c (ch_of s i))
    | None => s
    end.

  Definition deref (s : st) (slot : kind) (r : tokref) : option token :=
    match r with
    | TNone => None
    | TTok id re => match nth_error (s_toks s) id with
                    | Some t => Some (if re then reenvelope slot t else t)
                    | None => None
                    end
    end.

  Definition quiet (status : N) (exc : bytes) : result := R status exc false [] false.

  Section Step.
    Variable reg : registry.
    (* which continuation handler runs: the current code or the pre-fix one *)
    Variable dec : registry -> nat -> body -> bool -> bool -> bool -> cache ->
                   option token -> option token -> outcome.

    Definition step (s : st) (o : op) : st * result :=
      match o with
      | OInit i m =>
          match lookup reg m with
          | None => (s, quiet 404 c14_exc_not_implemented)
          | Some info =>
              let ty := m_sty info in
              if negb (init_fits (m_mode info) ty) then (s, quiet 500 exc_runtime_error) else
              let c := s_ncalls s in
              (* a producer's first turn runs inside /init *)
              let s0 := {| st_ty := ty; st_pos := if is_producer (m_mode info) ty then 1 else 0 |} in
              let r := resolved_for info c in
              let s' := add_toks s [mint (s_nonce s) (PCursor c s0); mint (s_nonce s + 1) (PCall c r)] 1 2 in
              (store s' i (Some (c, r)), R 200 [] false [] true)
          end
      | OReset i => (set_cache s i (cap_of s i) [], quiet 0 [])
      | OOff i => (set_cache s i 0 [], quiet 0 [])
      | OOn i cap => (set_cache s i cap [], quiet 0 [])
      | OCont i route cur call cancel b rfail =>
          let out := dec reg route b cancel rfail (on_of s i) (ch_of s i)
                         (deref s KCursor cur) (deref s KCall call) in
          let s1 := store (touched s i (o_touch out)) i (o_put out) in
          let s2 := match o_next out with
                    | Some (c, nx) => add_toks s1 [mint (s_nonce s1) (PCursor c nx)] 0 1
                    | None => s1
                    end in
          (s2, o_res out)
      end.

    Fixpoint run (s : st) (ops : list op) : list result :=
      match ops with
      | [] => []
      | o :: r => let '(s', x) := step s o in x :: run s' r
      end.
    Fixpoint exec (s : st) (ops : list op) : st :=
      match ops with
      | [] => s
      | o :: r => exec (fst (step s o)) r
      end.
  End Step.
End AEAD.

Arguments t_ver {CT}. Arguments t_ct {CT}.

(* ---- the symbolic ideal AEAD: a ciphertext IS (nonce, aad, plaintext) ------------- *)
Definition sym_ct : Type := N * bytes * payload.
Definition sym_seal (n : N) (a : bytes) (p : payload) : sym_ct := (n, a, p).
Definition sym_open (a : bytes) (c : sym_ct) : option payload :=
  let '(_, a', p) := c in if beqb a a' then Some p else None.

(* ---- correspondence interface ------------------------------------------------- *)
Record input := { i_reg : registry; i_ops : list op }.
Definition obs := list result.

Definition model (i : input) : obs :=
  run sym_ct sym_seal (i_reg i) (continue_dec sym_ct sym_open) (st0 sym_ct) (i_ops i).
Definition model_legacy (i : input) : obs :=
  run sym_ct sym_seal (i_reg i) (continue_dec_legacy sym_ct sym_open) (st0 sym_ct) (i_ops i).
Definition obs_eqb (a b : obs) : bool := list_eqb result_eqb a b.

(* the registry the harness registers on the real server (vh: c14.go, same order) *)
Definition ty_both  : sty := {| ty_id := 1; ty_prod := true;  ty_exch := true;  ty_canc := false |}.
Definition ty_bothc : sty := {| ty_id := 2; ty_prod := true;  ty_exch := true;  ty_canc := true |}.
Definition ty_p     : sty := {| ty_id := 3; ty_prod := true;  ty_exch := false; ty_canc := true |}.
Definition ty_e     : sty := {| ty_id := 4; ty_prod := false; ty_exch := true;  ty_canc := true |}.
Definition std_reg : registry :=
  [ {| m_name := str "prod";   m_mode := Producer; m_hdr := false; m_sty := ty_both |};
    {| m_name := str "prod_h"; m_mode := Producer; m_hdr := true;  m_sty := ty_bothc |};
    {| m_name := str "exch";   m_mode := Exchange; m_hdr := false; m_sty := ty_both |};
    {| m_name := str "exch_h"; m_mode := Exchange; m_hdr := true;  m_sty := ty_bothc |};
    {| m_name := str "dyn_p";  m_mode := Dynamic;  m_hdr := true;  m_sty := ty_p |};
    {| m_name := str "dyn_e";  m_mode := Dynamic;  m_hdr := true;  m_sty := ty_e |};
    {| m_name := str "p2";     m_mode := Producer; m_hdr := false; m_sty := ty_p |};
    {| m_name := str "e2";     m_mode := Exchange; m_hdr := false; m_sty := ty_e |};
    {| m_name := str "dyn_b";  m_mode := Dynamic;  m_hdr := true;  m_sty := ty_bothc |} ].

(* ---- the property, decided on the implementation's outputs -------------------- *)
(* provenance of a minted token, read off the INPUT history and the implementation's
   own accept decisions only: kind, minting method (index), call *)
Definition prov : Type := kind * nat * N.

Definition pderef (ptoks : list prov) (r : tokref) : option prov :=
  match r with TNone => None | TTok id _ => nth_error ptoks id end.

Definition no_code (x : result) : bool :=
  match r_trace x with [] => true | _ => false end.

(* the distinct-names premise of the registry, and init always succeeding *)
Fixpoint names_distinct (reg : registry) : bool :=
  match reg with
  | [] => true
  | m :: t => negb (existsb (fun m' => beqb (m_name m) (m_name m')) t) && names_distinct t
  end.
Definition reg_ok (reg : registry) : bool :=
  names_distinct reg && forallb (fun m => init_fits (m_mode m) (m_sty m)) reg.

(* the shape of the one turn an accepted continuation runs *)
Definition one_turn (route : nat) (cancel : bool) (tr : list act) : bool :=
  match tr with
  | [ARehyd _ r; AHook r' c; AProduce _] | [ARehyd _ r; AHook r' c; AExchange _] =>
      Nat.eqb r route && Nat.eqb r' route && Bool.eqb c cancel && negb cancel
  | [ARehyd _ r; AHook r' c; ACancel _] | [ARehyd _ r; AHook r' c] =>
      Nat.eqb r route && Nat.eqb r' route && Bool.eqb c cancel && cancel
  | _ => false
  end.

(* the per-continuation clauses of the property *)
Definition foreign_ok (reg : registry) (route : nat) (pc : option prov) (x : result) : bool :=
  match pc with
  | Some (KCursor, m, _) =>
      (* a cursor minted by another method: client error, no user code at all, no cursor *)
      if Nat.eqb m route then true
      else (r_status x =? match lookup reg route with Some _ => 400 | None => 404 end)
           && no_code x && negb (r_tok x)
  | _ => (* nothing that opens as a cursor: 4xx, no code *)
      (400 <=? r_status x) && (r_status x <? 500) && no_code x && negb (r_tok x)
  end.

(* liveness: own cursor + own call token of the same call, presented as minted, with the
   body the route takes and a working RehydrateFunc: exactly one turn *)
Definition live_ok (reg : registry) (route : nat) (cur call : tokref) (cancel : bool) (b : body)
           (rfail : bool) (pc pk : option prov) (x : result) : bool :=
  match pc, pk, cur, call, lookup reg route with
  | Some (KCursor, m, c), Some (KCall, m', c'), TTok _ false, TTok _ false, Some info =>
      if Nat.eqb m route && Nat.eqb m' route && (c =? c') && negb rfail && negb (cast_blocks info b cancel)
      then (r_status x =? 200) && one_turn route cancel (r_trace x) && Bool.eqb (r_tok x) (negb cancel)
      else true
  | _, _, _, _, _ => true
  end.

(* whatever ran, ran as this route *)
Definition tags_ok (route : nat) (x : result) : bool :=
  forallb (fun a => match a with ARehyd _ r0 | AHook r0 _ => Nat.eqb r0 route | _ => true end) (r_trace x).

Definition cont_ok (reg : registry) (route : nat) (cur call : tokref) (cancel : bool) (b : body)
           (rfail : bool) (pc pk : option prov) (x : result) : bool :=
  negb (r_panic x)            (* the request never aborts the connection *)
  && foreign_ok reg route pc x && live_ok reg route cur call cancel b rfail pc pk x && tags_ok route x.

(* the cursor a response carries continues the presented cursor's call *)
Definition next_ptoks (ptoks : list prov) (pc : option prov) (x : result) : list prov :=
  if r_tok x then match pc with Some (_, m, c) => ptoks ++ [(KCursor, m, c)] | None => ptoks end
  else ptoks.

Fixpoint spec_run (reg : registry) (ops : list op) (o : obs) (ptoks : list prov) (ncalls : N) : bool :=
  match ops, o with
  | [], [] => true
  | OInit _ m :: r, x :: o' =>
      negb (r_panic x) && no_code x &&
      match lookup reg m with
      | Some _ => r_tok x && (r_status x =? 200)
                  && spec_run reg r o' (ptoks ++ [(KCursor, m, ncalls); (KCall, m, ncalls)]) (ncalls + 1)
      | None => negb (r_tok x) && spec_run reg r o' ptoks ncalls
      end
  | OCont _ route cur call cancel b rfail :: r, x :: o' =>
      let pc := pderef ptoks cur in
      cont_ok reg route cur call cancel b rfail pc (pderef ptoks call) x
      && spec_run reg r o' (next_ptoks ptoks pc x) ncalls
  | _ :: r, x :: o' => negb (r_panic x) && no_code x && spec_run reg r o' ptoks ncalls
  | _, _ => false
  end.

(* the property is claimed for well-formed registries (Go: a map keyed by name; init
   handlers returning a state of the registered mode) *)
Definition spec_ok (i : input) (o : obs) : bool :=
  if reg_ok (i_reg i) then spec_run (i_reg i) (i_ops i) o [] 0 else Nat.eqb (length o) (length (i_ops i)).
