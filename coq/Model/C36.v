(* Model/C36.v — one pipe connection whose client may own a shared-memory
   segment (vgirpc/server_serve.go shmConnState.ensure + the two pointer blocks
   of serveOne, server_unary.go / server_stream.go MaybeWriteToShm /
   ResolveShmBatch / FreeOffset, shm.go MaybeWriteToShm, AllocateAndWrite).

   A history is a list of calls. Each call is answered by [serve_call], the
   per-call description of serveOne (Model/C02.v proves, for the session
   without shared memory, that the reader-level serve loop is the concatenation
   of the per-call answers; the refusal of a pointer request is the
   OPtrNoSegment class there). What this file adds is the shared-memory state:

     - the connection's cached attachment (shmConnState: attached or not),
     - the segment's allocation table, with the real first-fit allocator of
       Model/C34.v (alloc / canfit / free, uint64 arithmetic included),
     - the client: it sends its request / exchange-input batches inline or as
       pointer batches (AllocateAndWrite into its own segment), reads every
       response right after the call, resolves the pointer batches it received
       and releases them (FreeOffset) at once or at the end of the history.

   A pointer frame carries the content it resolves to: reading back what was
   written at a live slot is property C35, live slots being disjoint is C34.
   Serialized sizes are an oracle (measured on the real batches): [i_szi] for
   the int64 batches by row count, [i_szb] for the u_blob results by length. *)
From VR Require Export Lib.Frames Gen.Consts.
From VR Require Model.C34.
Open Scope N_scope.

Definition tbl := C34.tbl.

(* ---------- what the client wants to do ---------------------------------- *)
Inductive mname := MBlob | MProd | MExch | MUnknown.
(* vgi_rpc.shm_segment_name / _size on the request: absent; the client's segment;
   the name without a size; the name with size 0; the name of no segment at all *)
Inductive adv := AdvNone | AdvGood | AdvNameOnly | AdvBadSize | AdvOther.
(* how a batch is sent when the client owns a segment: inline, as a pointer to a
   slot it allocates (inline when it does not fit), as a pointer to nowhere *)
Inductive wish := WInline | WPtr | WBad.
(* how a turn fails: the state returns an error / panics / emits nothing (output
   validation fails) / emits twice (the second Emit is refused) *)
Inductive errkind := EScript | EPanic | ENoEmit | EEmit2.
Inductive act := AEmit | AFinish | AErr (k : errkind).
Record turn := { t_rows : N; t_value : Z; t_act : act }.
Record script := {
  sc_fail : bool;                  (* unary handler / stream init fails *)
  sc_n : N;                        (* u_blob: length of the result *)
  sc_var : N;                      (* stream methods: which output schema the init handler builds for THIS call
                                      (a fresh schema object per call): 0 {v:int64}; 1, 2 the same with field
                                      metadata unit=a / unit=b; 3 with schema metadata; 4, 5 {d:fixed_size_binary[16 / 32]},
                                      each row the int64 value then zero padding. 0-3 and 4-5 share an Arrow fingerprint *)
  sc_turns : list turn }.
Record item := { it_wish : wish; it_rows : N; it_val : Z }.   (* exchange input: rows values, all val; producer: a tick *)
Record call := {
  c_method : mname;
  c_dyn : bool;                    (* MProd / MExch: the call goes to the DYNAMIC stream method (DynamicStreamWithHeader), whose
                                      init handler returns a producer resp. exchange state and no header. On a pipe a dynamic
                                      method is served exactly like the static one - every definition below ignores this
                                      field, so every theorem covers both registrations; the harness routes accordingly *)
  c_adv : adv; c_wish : wish; c_x : Z;
  c_script : script; c_items : list item;
  c_release_now : bool }.          (* the client frees the pointers of this response at once / at the end *)

Record sz := { z_buf : Z; z_est : Z; z_total : Z }.   (* batchBufferSize, estimateSerializedSize, stored length *)
Record cfg := {
  g_size : option N;               (* total segment size; None: the client has no segment *)
  g_gate : Z;                      (* shmMinBatchBytes *)
  g_szi : list (N * sz);
  g_szb : list (N * sz) }.

Definition no_sz : sz := {| z_buf := 0; z_est := 0; z_total := 0 |}.
Fixpoint lookup_sz (k : N) (l : list (N * sz)) : sz :=
  match l with [] => no_sz | (k', z) :: r => if k =? k' then z else lookup_sz k r end.

(* ---------- responses -------------------------------------------------------- *)
Inductive wframe :=
| WData (sch : N) (units : N) (sum : Z) (ptr : option (N * N))
    (* the schema the client decodes the batch under, rendered in full (names, types, widths, nullability, field and
       schema metadata) and numbered: the variant for stream batches, 50 for the u_blob result, 99 anything else;
       rows (blob: bytes); sum of the values; shipped as a pointer (offset, length) *)
| WExc (ty : bytes)
| WOther.

Definition exc_io_error : bytes := str "IOError".
Definition exc_value_error : bytes := str "ValueError".
Definition err_exc (k : errkind) : bytes := match k with EScript => exc_value_error | _ => exc_runtime_error end.

(* the client's view of a frame: pointers resolved *)
Definition view_frame (f : wframe) : wframe :=
  match f with WData v u s _ => WData v u s None | _ => f end.
Definition view (r : list (list wframe)) : list (list wframe) := map (map view_frame) r.

Definition ptr_offs (fs : list wframe) : list N :=
  flat_map (fun f => match f with WData _ _ _ (Some (off, _)) => [off] | _ => [] end) fs.

(* ---------- allocator steps (Model/C34.v) --------------------------------- *)
(* AllocateAndWrite: canFitLocked(estimate), then allocateLocked(stored length) *)
Definition write_slot (size : N) (z : sz) (t : tbl) : option (N * N) * tbl :=
  match C34.step size t (C34.Write (z_est z) (z_total z)) with
  | (C34.RWrite (Some (off, len)), t') => (Some (off, Z.to_N len), t')
  | (_, t') => (None, t')
  end.
(* FreeOffset, error ignored *)
Definition free_slot (off : N) (t : tbl) : tbl :=
  match C34.free off t with Some t' => t' | None => t end.
Definition free_all (offs : list N) (t : tbl) : tbl := fold_left (fun t o => free_slot o t) offs t.

Fixpoint remove_one (x : N) (l : list N) : list N :=
  match l with [] => [] | y :: r => if x =? y then r else y :: remove_one x r end.

(* ---------- the client puts one batch on the wire ----------------------------- *)
Inductive sent := SInline | SPtr (off : N) | SBad.
Definition is_ptr_sent (s : sent) : bool := match s with SInline => false | _ => true end.

Definition client_put (g : cfg) (w : wish) (rows : N) (t : tbl) : sent * tbl :=
  match g_size g, w with
  | None, _ => (SInline, t)
  | Some _, WInline => (SInline, t)
  | Some _, WBad => (SBad, t)
  | Some size, WPtr =>
      if rows =? 0 then (SInline, t)
      else match write_slot size (lookup_sz rows (g_szi g)) t with
           | (Some (off, _), t') => (SPtr off, t')
           | (None, t') => (SInline, t')
           end
  end.

(* ---------- shmConnState.ensure ---------------------------------------------- *)
(* (segment for this request, cached attachment afterwards) *)
Definition ensure (att : bool) (a : adv) : bool * bool :=
  match a with
  | AdvNone | AdvNameOnly | AdvBadSize => (att, att)   (* nothing usable advertised: the cached segment *)
  | AdvGood => (true, true)                            (* attach (or reuse) *)
  | AdvOther => (false, false)                         (* close the cached one, attach fails *)
  end.
Definition eff_adv (g : cfg) (a : adv) : adv := match g_size g with None => AdvNone | Some _ => a end.
Definition has_name (a : adv) : bool := match a with AdvNone => false | _ => true end.

(* ---------- MaybeWriteToShm on one response data batch ----------------------- *)
Definition ship (g : cfg) (engaged nonempty : bool) (units : N) (sum : Z) (z : sz) (t : tbl) : wframe * tbl :=
  match g_size g with
  | Some size =>
      if engaged && nonempty && negb (z_buf z <? g_gate g)%Z then
        match write_slot size z t with
        | (Some p, t') => (WData 0 units sum (Some p), t')
        | (None, t') => (WData 0 units sum None, t')        (* no room: falls back to the pipe *)
        end
      else (WData 0 units sum None, t)
  | None => (WData 0 units sum None, t)
  end.

(* the schema a frame is decoded under is the one the call's handler chose; the size oracle
   is keyed by variant * 65536 + rows *)
Definition set_var (v : N) (f : wframe) : wframe := match f with WData _ u s p => WData v u s p | _ => f end.
Definition retag (v : N) (fs : list wframe) : list wframe := map (set_var v) fs.
Definition sel_var (v : N) (l : list (N * sz)) : list (N * sz) :=
  flat_map (fun e => if fst e / 65536 =? v then [(fst e mod 65536, snd e)] else []) l.
Definition out_cfg (g : cfg) (v : N) : cfg :=
  {| g_size := g_size g; g_gate := g_gate g; g_szi := sel_var v (g_szi g); g_szb := g_szb g |}.
Definition blob_schema : N := 50.

(* ---------- the lockstep loop ------------------------------------------------ *)
Definition default_turn (exchange : bool) : turn :=
  if exchange then {| t_rows := 1; t_value := 0; t_act := AEmit |}
  else {| t_rows := 0; t_value := 0; t_act := AFinish |}.

Record lstate := { l_tab : tbl; l_own : list N }.   (* table; client slots not yet freed by the server (ghost) *)

(* items as sent: (how, rows, value) *)
Definition sitem := (sent * N * Z)%type.

Fixpoint lockstep (refuse : bool) (g : cfg) (exchange engaged : bool) (turns : list turn) (items : list sitem) (st : lstate)
  : list wframe * lstate * bool (* the loop met a pointer it could not resolve *) :=
  match items with
  | [] => ([], st, false)
  | (s, rows, val) :: rest =>
      (* ResolveShmBatch on the input batch, only when req.Shm is set *)
      let r :=
        match s with
        | SInline => inl (rows, st, false)
        | SPtr off => if engaged then inl (rows, {| l_tab := free_slot off (l_tab st); l_own := remove_one off (l_own st) |}, false)
                      else if refuse then inr tt         (* 29847dc: no segment engaged on this call: refused *)
                      else inl (0, st, true)             (* before: the zero-row pointer batch went to the handler as data *)
        | SBad => if engaged || refuse then inr tt else inl (0, st, true)
        end in
      match r with
      | inr _ => ([WExc exc_io_error], st, true)          (* shm resolve failed / pointer without a segment: the stream ends *)
      | inl (rows', st1, leak) =>
          let insum := if exchange then (Z.of_N rows' * val)%Z else 0%Z in
          let t := match turns with [] => default_turn exchange | t :: _ => t end in
          match t_act t with
          | AErr k => ([WExc (err_exc k)], st1, leak)
          | AFinish => if exchange then ([WExc exc_runtime_error], st1, leak) else ([], st1, leak)
          | AEmit =>
              let v := (t_value t + insum)%Z in
              let '(f, tab') := ship g engaged (negb (t_rows t =? 0)) (t_rows t) (Z.of_N (t_rows t) * v)%Z (lookup_sz (t_rows t) (g_szi g)) (l_tab st1) in
              let '(fs, st2, leak2) := lockstep refuse g exchange engaged (tl turns) rest {| l_tab := tab'; l_own := l_own st1 |} in
              (f :: fs, st2, leak || leak2)
          end
      end
  end.

(* ---------- one call ---------------------------------------------------------- *)
Record state := {
  s_att : bool;                    (* shmConnState holds the segment *)
  s_tab : tbl;                     (* the allocation table in the segment header *)
  s_deferred : list N;             (* pointers received, release deferred to the end *)
  s_own : list N;                  (* ghost: slots the client allocated that the server has not freed *)
  s_sent : list N;                 (* every slot the client allocated so far, in order *)
  s_alive : bool }.                (* the serve loop is still running *)

Record cobs := {
  b_req_ptr : bool;                (* the request went out as a pointer batch *)
  b_items_ptr : list bool;         (* likewise each exchange input *)
  b_resp : list (list wframe);     (* the streams read for this call *)
  b_tab : tbl }.                   (* table after the client dealt with the response *)

Definition is_stream (m : mname) : bool := match m with MProd | MExch => true | _ => false end.

Definition sptrs (items : list sitem) : list N :=
  flat_map (fun i => match fst (fst i) with SPtr off => [off] | _ => [] end) items.
Definition req_ptrs (rs : sent) : list N := match rs with SPtr off => [off] | _ => [] end.

(* the client sends the exchange inputs (a producer's ticks are never pointers) *)
Fixpoint put_items (g : cfg) (m : mname) (its : list item) (t : tbl) (own : list N) : list sitem * tbl * list N :=
  match its with
  | [] => ([], t, own)
  | it :: r =>
      let '(s, t1) := match m with MExch => client_put g (it_wish it) (it_rows it) t | _ => (SInline, t) end in
      let own1 := req_ptrs s ++ own in
      let '(ss, t2, own2) := put_items g m r t1 own1 in
      ((s, it_rows it, it_val it) :: ss, t2, own2)
  end.

(* code variants: the current tree drains a refused stream call's input (6a8fa9d) and
   refuses a pointer input on a call that engaged no segment (29847dc) *)
Record variant := { v_ptr_drain : bool; v_input_refuse : bool }.
Definition current : variant := {| v_ptr_drain := true; v_input_refuse := true |}.
Definition legacy_drain : variant := {| v_ptr_drain := false; v_input_refuse := true |}.     (* before 6a8fa9d *)
Definition legacy_input : variant := {| v_ptr_drain := true; v_input_refuse := false |}.     (* before 29847dc *)

(* a refused pointer request: one IOError stream; before the fix the input
   stream of a stream method stayed on the pipe and was read as the next request
   (no vgi_rpc.method: ProtocolError) - or ended the session when it was empty *)
Definition refusal (v : variant) (m : mname) (items : list sitem) : list (list wframe) * bool :=
  if is_stream m && negb (v_ptr_drain v) then
    match items with
    | [] => ([[WExc exc_io_error]], false)
    | _ => ([[WExc exc_io_error]; [WExc ss_exc_no_method]], true)
    end
  else ([[WExc exc_io_error]], true).

(* what the server does with one request as sent *)
Record answer := {
  a_resp : list (list wframe);     (* the streams written *)
  a_tab : tbl; a_own : list N;
  a_alive : bool;
  a_bad : bool }.                  (* the server met a pointer it could not resolve (refused request; input: garbage or call not engaged) *)

Definition serve (v : variant) (g : cfg) (seg_now : bool) (a : adv) (c : call) (rs : sent) (items : list sitem)
                 (t : tbl) (own : list N) : answer :=
  match rs, seg_now with
  | SBad, _ | SPtr _, false =>
      (* resolve failed / no segment attached: IOError, drainRefusedStreamInput *)
      {| a_resp := fst (refusal v (c_method c) items); a_tab := t; a_own := own;
         a_alive := snd (refusal v (c_method c) items); a_bad := true |}
  | _, _ =>
      (* a pointer request is resolved, its slot released *)
      let t' := match rs with SPtr off => free_slot off t | _ => t end in
      let own' := match rs with SPtr off => remove_one off own | _ => own end in
      let engaged := seg_now && (has_name a || is_ptr_sent rs) in
      let err ty := {| a_resp := [[WExc ty]]; a_tab := t'; a_own := own'; a_alive := true; a_bad := false |} in
      match c_method c with
      | MUnknown => err ss_exc_unknown_method
      | MBlob =>
          if sc_fail (c_script c) then err exc_value_error
          else
            let n := sc_n (c_script c) in
            (* serveUnary passes the one-row result batch to MaybeWriteToShm *)
            let ft := ship g engaged true n (Z.of_N n * c_x c)%Z (lookup_sz n (g_szb g)) t' in
            {| a_resp := [[set_var blob_schema (fst ft)]]; a_tab := snd ft; a_own := own'; a_alive := true; a_bad := false |}
      | MProd | MExch =>
          if sc_fail (c_script c) then err exc_value_error          (* init error: the input is drained unresolved *)
          else
            let exchange := match c_method c with MExch => true | _ => false end in
            let r := lockstep (v_input_refuse v) (out_cfg g (sc_var (c_script c))) exchange engaged (sc_turns (c_script c)) items {| l_tab := t'; l_own := own' |} in
            {| a_resp := [retag (sc_var (c_script c)) (fst (fst r))]; a_tab := l_tab (snd (fst r)); a_own := l_own (snd (fst r)); a_alive := true; a_bad := snd r |}
      end
  end.

(* one call: the client sends, the server answers, the client reads and releases *)
Definition serve_call (v : variant) (g : cfg) (st : state) (c : call) : cobs * state * bool :=
  let rq := client_put g (c_wish c) 1 (s_tab st) in
  let rs := fst rq in
  let own0 := req_ptrs rs ++ s_own st in
  let pi := if is_stream (c_method c) then put_items g (c_method c) (c_items c) (snd rq) own0 else ([], snd rq, own0) in
  let items := fst (fst pi) in
  let a := eff_adv g (c_adv c) in
  let en := ensure (s_att st) a in
  let ans := serve v g (fst en) a c rs items (snd (fst pi)) (snd pi) in
  let got := ptr_offs (concat (a_resp ans)) in
  let t3 := if c_release_now c then free_all got (a_tab ans) else a_tab ans in
  ({| b_req_ptr := is_ptr_sent rs; b_items_ptr := map (fun i => is_ptr_sent (fst (fst i))) items;
      b_resp := a_resp ans; b_tab := t3 |},
   {| s_att := snd en; s_tab := t3;
      s_deferred := if c_release_now c then s_deferred st else s_deferred st ++ got;
      s_own := a_own ans;
      s_sent := s_sent st ++ req_ptrs rs ++ sptrs items;
      s_alive := a_alive ans |},
   a_bad ans).

Definition dead_obs : cobs := {| b_req_ptr := false; b_items_ptr := []; b_resp := []; b_tab := [] |}.

Fixpoint run (v : variant) (g : cfg) (st : state) (cs : list call) : list (cobs * bool) * state :=
  match cs with
  | [] => ([], st)
  | c :: r =>
      if s_alive st then
        let '(o, st1, bad) := serve_call v g st c in
        let '(os, st2) := run v g st1 r in ((o, bad) :: os, st2)
      else
        let '(os, st2) := run v g st r in ((dead_obs, false) :: os, st2)     (* never read by the server *)
  end.

Definition init : state := {| s_att := false; s_tab := []; s_deferred := []; s_own := []; s_sent := []; s_alive := true |}.

(* the table once the client has released every pointer it received *)
Definition after_release (st : state) : tbl := free_all (s_deferred st) (s_tab st).

(* the same history on a connection whose client has no segment *)
Definition no_seg (g : cfg) : cfg := {| g_size := None; g_gate := g_gate g; g_szi := g_szi g; g_szb := g_szb g |}.

(* what a call is answered on a plain connection (no state involved) *)
Definition plain_call (c : call) : list (list wframe) :=
  b_resp (fst (fst (serve_call current {| g_size := None; g_gate := 0; g_szi := []; g_szb := [] |} init c))).

(* ---------- harness interface -------------------------------------------------- *)
Record input := { i_data : N; i_gate : Z; i_szi : list (N * sz); i_szb : list (N * sz); i_calls : list call }.
Record obs := {
  o_with : list cobs;                      (* the session of the client that owns a segment *)
  o_without : list (list (list wframe));   (* the same history, client without a segment *)
  o_after : tbl;                           (* table after the client released everything it received *)
  o_own : list N;                          (* offsets of the slots the client itself allocated *)
  o_escaped : bool }.

Definition HDR : N := Z.to_N c36_header_size.
Definition cfg_of (i : input) : cfg :=
  {| g_size := Some (HDR + i_data i); g_gate := i_gate i; g_szi := i_szi i; g_szb := i_szb i |}.

Definition model_v (v : variant) (i : input) : obs :=
  let g := cfg_of i in
  let '(os, st) := run v g init (i_calls i) in
  {| o_with := map fst os;
     o_without := map (fun o => b_resp (fst o)) (fst (run v (no_seg g) init (i_calls i)));
     o_after := after_release st;
     o_own := s_sent st;
     o_escaped := false |}.
Definition model : input -> obs := model_v current.

(* ---------- equality on observations ------------------------------------------- *)
Definition wframe_eqb (a b : wframe) : bool :=
  match a, b with
  | WData v u s p, WData v' u' s' p' => N.eqb v v' && N.eqb u u' && Z.eqb s s' && opt_eqb (pair_eqb N.eqb N.eqb) p p'
  | WExc t, WExc t' => beqb t t'
  | WOther, WOther => true
  | _, _ => false
  end.
Definition resp_eqb : list (list wframe) -> list (list wframe) -> bool := list_eqb (list_eqb wframe_eqb).
Definition tbl_eqb : tbl -> tbl -> bool := list_eqb (pair_eqb N.eqb N.eqb).
Definition cobs_eqb (a b : cobs) : bool :=
  Bool.eqb (b_req_ptr a) (b_req_ptr b) && list_eqb Bool.eqb (b_items_ptr a) (b_items_ptr b)
  && resp_eqb (b_resp a) (b_resp b) && tbl_eqb (b_tab a) (b_tab b).
Definition obs_eqb (a b : obs) : bool :=
  list_eqb cobs_eqb (o_with a) (o_with b) && list_eqb resp_eqb (o_without a) (o_without b)
  && tbl_eqb (o_after a) (o_after b) && list_eqb N.eqb (o_own a) (o_own b) && Bool.eqb (o_escaped a) (o_escaped b).

(* ---------- the property in decidable form, on one observation ------------------
   Judged from the input and from what the CLIENT itself can see: what it sent
   as pointers, the streams it read, the allocation table of its segment. *)
Definition no_ptr_frame (f : wframe) : bool := match f with WData _ _ _ (Some _) => false | _ => true end.

(* the first exchange input that went out as a pointer the server cannot resolve:
   the call did not engage the segment, or the pointer leads nowhere *)
Fixpoint first_unresolvable (engaged : bool) (its : list item) (flags : list bool) (k : nat) : option nat :=
  match its, flags with
  | it :: r, f :: fr =>
      if f && (negb engaged || match it_wish it with WBad => true | _ => false end) then Some k
      else first_unresolvable engaged r fr (S k)
  | _, _ => None
  end.
(* the lockstep loop gets as far as input k: the k turns before it all emit *)
Fixpoint emits_before (k : nat) (turns : list turn) : bool :=
  match k with
  | O => true
  | S k' => match turns with
            | [] => true                                   (* an exchange emits by default *)
            | t :: r => match t_act t with AEmit => emits_before k' r | _ => false end
            end
  end.

(* per call, walking the advertisements: att = the connection holds the segment *)
Fixpoint calls_ok (att : bool) (cs : list call) (ws : list cobs) (wo : list (list (list wframe))) : bool :=
  match cs, ws, wo with
  | [], [], [] => true
  | c :: cs', w :: ws', p :: wo' =>
      let '(seg_now, att') := ensure att (c_adv c) in
      let engaged := seg_now && (has_name (c_adv c) || b_req_ptr w) in
      (* every call is answered by exactly one stream, on both connections: the session continues, in frame *)
      Nat.eqb (length (b_resp w)) 1 && Nat.eqb (length p) 1
      && forallb (forallb no_ptr_frame) p
      && (if b_req_ptr w && (negb seg_now || match c_wish c with WBad => true | _ => false end) then
            (* a pointer request that cannot be resolved: exactly an IOError *)
            resp_eqb (b_resp w) [[WExc exc_io_error]]
          else
            match (match c_method c with
                   | MExch => if sc_fail (c_script c) then None
                              else match first_unresolvable engaged (c_items c) (b_items_ptr w) 0 with
                                   | Some k => if emits_before k (sc_turns (c_script c)) then Some k else None
                                   | None => None
                                   end
                   | _ => None
                   end) with
            | Some k =>
                (* the loop gets as far as an input that went out as a pointer it cannot resolve (the call
                   engaged no segment, or the pointer leads nowhere): the k answers before it, resolved,
                   are the plain ones, then exactly one IOError ends the stream *)
                match b_resp w, p with
                | [fs], [ps] => list_eqb wframe_eqb (map view_frame fs) (firstn k ps ++ [WExc exc_io_error])
                | _, _ => false
                end
            | None =>
                (* transparency: after resolving pointers the client sees what the plain session shows *)
                resp_eqb (view (b_resp w)) p
            end)
      && calls_ok att' cs' ws' wo'
  | _, _, _ => false
  end.

Definition sent_any (ws : list cobs) : bool :=
  existsb (fun w => b_req_ptr w || existsb (fun x => x) (b_items_ptr w)) ws.

(* every pointer the client sent was a request pointer the connection could resolve
   (no pointer inputs): the server consumed - resolved and released - all of them *)
Fixpoint all_consumed (att : bool) (cs : list call) (ws : list cobs) : bool :=
  match cs, ws with
  | c :: cs', w :: ws' =>
      let '(seg_now, att') := ensure att (c_adv c) in
      negb (existsb (fun x => x) (b_items_ptr w))
      && (negb (b_req_ptr w) || (seg_now && match c_wish c with WBad => false | _ => true end))
      && all_consumed att' cs' ws'
  | _, _ => true
  end.

(* ---------- the allocation table, call by call ------------------------------------
   Judged from the input and the client's own observations only. The client knows which
   of its slots the server was obliged to consume: the slot of a pointer request that was
   not refused, and the slot of every exchange input the lockstep loop got to - one input
   per answer it wrote, plus the input whose turn ended the stream with an error of the
   user code (an IOError means the pointer itself was refused, unresolved). Whatever the
   turn then does - answers, fails, panics, emits nothing, emits twice - the slot is gone. *)
Fixpoint processed (fs : list wframe) : nat :=
  match fs with
  | WData _ _ _ _ :: r => S (processed r)
  | WExc ty :: _ => if beqb ty exc_io_error then O else 1%nat
  | _ => O
  end.
Definition count_true (l : list bool) : nat := length (filter (fun x => x) l).
(* inputs that went out as pointers to slots the client really allocated *)
Fixpoint real_slots (its : list item) (flags : list bool) : list bool :=
  match its, flags with
  | it :: r, f :: fr => (f && match it_wish it with WBad => false | _ => true end) :: real_slots r fr
  | _, _ => []
  end.
(* client slots of this call that the server had no business freeing *)
Definition unconsumed (seg_now : bool) (c : call) (w : cobs) : nat :=
  let slots := real_slots (c_items c) (b_items_ptr w) in
  let wbad := match c_wish c with WBad => true | _ => false end in
  if b_req_ptr w && (negb seg_now || wbad) then ((if wbad then 0 else 1) + count_true slots)%nat
  else match c_method c with
       | MExch => if sc_fail (c_script c) then count_true slots
                  else match b_resp w with
                       | [fs] => count_true (skipn (processed fs) slots)
                       | _ => count_true slots
                       end
       | _ => count_true slots
       end.

(* after every call the table holds exactly the client slots left unconsumed so far plus
   the pointers whose release the client deferred; after the final release exactly the
   unconsumed client slots: none when every turn consumed its input, however it ended *)
Fixpoint tables_ok (att : bool) (own deferred : nat) (cs : list call) (ws : list cobs) (after_len : nat) : bool :=
  match cs, ws with
  | [], [] => Nat.eqb after_len own
  | c :: cs', w :: ws' =>
      let '(seg_now, att') := ensure att (c_adv c) in
      let own' := (own + unconsumed seg_now c w)%nat in
      let deferred' := if c_release_now c then deferred else (deferred + length (ptr_offs (concat (b_resp w))))%nat in
      Nat.eqb (length (b_tab w)) (own' + deferred') && tables_ok att' own' deferred' cs' ws' after_len
  | _, _ => false
  end.

Definition spec_ok (i : input) (o : obs) : bool :=
  negb (o_escaped o)
  && calls_ok false (i_calls i) (o_with o) (o_without o)
  (* no slot leak: what is still allocated after the client released every pointer it
     received is a slot the client allocated itself; nothing at all when it sent no pointer,
     or only request pointers that the server resolved *)
  && forallb (fun e => existsb (N.eqb (fst e)) (o_own o)) (o_after o)
  && (sent_any (o_with o) || match o_after o with [] => true | _ => false end)
  && (negb (all_consumed false (i_calls i) (o_with o)) || match o_after o with [] => true | _ => false end)
  (* exact count, after every call and at the end of the session *)
  && tables_ok false 0 0 (i_calls i) (o_with o) (length (o_after o)).
