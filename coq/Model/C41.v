(* Model/C41.v — property C41: every dispatch path releases the Arrow memory it
   allocates (vgirpc/server_serve.go serveOne, server_unary.go, server_stream.go,
   http_unary.go, http_stream.go, stream.go OutputCollector, wire.go
   castRecordBatch / write*Batch, external.go, shm.go).

   A call is a list of SEGMENTS; a segment is a list of ownership events
   [Alloc o | Retain o | Release o | Transfer o] over abstract reference-counted
   objects (record batches and their wrappers).  The segments of a call are
     - the outer segment: request batch, pointer resolution of the request,
       pre-dispatch refusals, the handler / stream init, header, unary result;
     - one segment per stream turn (pipe: one lockstep iteration; HTTP: one
       /exchange request or one iteration of the produce loop).
   No object crosses a segment boundary in the Go code (the request batch lives
   in the outer segment only; a turn owns what it allocates), so every segment is
   run on an empty heap and what it leaves behind is what the call leaks.

   [variant]: Legacy is the code before fixes ae22754 (EmitMap releases the
   batch Emit refuses) and a3f8652 (castRecordBatch releases its source datum);
   Current is the code as it is: those two repaired, the HTTP write-error path
   (a recorded finding: user code breaking the emit contract) still leaking;
   Repaired additionally releases the rest of the cycle there.  [model] is
   Current: the correspondence check compares it with the real allocator. *)
From Coq Require Import List Bool NArith ZArith.
From VR Require Export Lib.Bytes Gen.Consts.
Import ListNotations.
Open Scope N_scope.

(* ------------------------------------------------------------------ codes *)
(* one-byte codes of the four dimensions (tied to the Go table by
   Props.C41.paths_exhaustive) *)
Definition tP := 80. Definition tH := 72.
Definition kU := 85. Definition kV := 86. Definition kR := 82. Definition kX := 88.
Definition eOk := 111. Definition eUnk := 117. Definition eBad := 98. Definition eVer := 118.
Definition eErr := 101. Definition ePanic := 112. Definition eNil := 110.
Definition eTErr := 84. Definition eTPanic := 80. Definition eNoEmit := 78. Definition eDouble := 68.
Definition eCancel := 99. Definition eCastFail := 102. Definition eResolve := 114. Definition eWrite := 119.
Definition eCap := 67. Definition eLimit := 76. Definition eToken := 116.
Definition fNone := 110. Definition fLogs := 108. Definition fHdr := 104. Definition fExtOut := 101.
Definition fExtIn := 105. Definition fShm := 115. Definition fCast := 99. Definition fExtCast := 106.
(* external input pointers whose fetched payload has a particular shape *)
Definition fTail := 97.      (* a: end-of-stream marker cut to 1-3 bytes after a complete batch *)
Definition fTwoStreams := 98. (* b: a schema message where a batch belongs (two streams, no EOS between) *)
Definition fMulti := 100.    (* d: log batch + two data batches, the last one wins *)
Definition fRedirect := 103. (* g: failing pointer serves data batch + location pointer (redirect loop) *)
Definition fNoData := 121.   (* y: failing pointer serves a log batch only *)

Definition transports : list N := [tP; tH].
Definition kinds : list N := [kU; kV; kR; kX].
Definition exits : list N :=
  [eOk; eUnk; eBad; eVer; eErr; ePanic; eNil; eTErr; eTPanic; eNoEmit; eDouble; eCancel;
   eCastFail; eResolve; eWrite; eCap; eLimit; eToken].
Definition features : list N :=
  [fNone; fLogs; fHdr; fExtOut; fExtIn; fShm; fCast; fExtCast; fTail; fTwoStreams; fMulti; fRedirect; fNoData].

Definition mem (x : N) (l : list N) : bool := existsb (N.eqb x) l.
Definition is_stream (k : N) : bool := (k =? kR) || (k =? kX).
Definition ext_in (f : N) : bool :=
  mem f [fExtIn; fExtCast; fTail; fTwoStreams; fMulti; fRedirect; fNoData].

(* mirrors vgirpc.VerifC41Valid *)
Definition valid_feature (t k f : N) : bool :=
  if (f =? fNone) || (f =? fLogs) then true
  else if f =? fHdr then is_stream k
  else if f =? fExtOut then negb (k =? kV)
  else if mem f [fExtIn; fTail; fTwoStreams; fMulti; fRedirect; fNoData] then (t =? tH) || (k =? kX)
  else if f =? fShm then t =? tP
  else if (f =? fCast) || (f =? fExtCast) then k =? kX
  else false.

Definition valid_exit (t k e f : N) : bool :=
  if mem e [eOk; eUnk; eBad; eVer; eErr; ePanic] then true
  else if mem e [eNil; eTErr; eTPanic; eNoEmit; eDouble; eCancel; eWrite] then is_stream k
  else if e =? eCastFail then k =? kX
  else if e =? eResolve then ext_in f || ((f =? fShm) && negb (k =? kR))
  else if e =? eCap then t =? tH
  else if e =? eLimit then (t =? tH) && (k =? kR)
  else if e =? eToken then (t =? tH) && is_stream k
  else false.

(* the two late-refusal payloads only make sense on the resolve-failure exit *)
Definition valid (t k e f : N) : bool :=
  mem t transports && mem k kinds && valid_feature t k f && valid_exit t k e f
  && (negb (mem f [fRedirect; fNoData]) || (e =? eResolve)).

Definition class := (N * N * N * N)%type.
Definition all_classes : list class :=
  flat_map (fun t => flat_map (fun k => flat_map (fun e => flat_map (fun f =>
    if valid t k e f then [(t, k, e, f)] else []) features) exits) kinds) transports.
Definition class_code (c : class) : bytes := let '(t, k, e, f) := c in [t; k; e; f].

(* ------------------------------------------------------------------ objects *)
Inductive obj :=
| REQ   (* request batch read by ReadRequest (ipc reader: untracked allocator) *)
| RD    (* the input reader's current record (untracked) *)
| IN    (* batch materialised by ResolveExternalLocation (tracked: defaultAllocator) *)
| INP   (* an earlier batch of the fetched payload: log batch, superseded data batch (tracked) *)
| INS   (* batch materialised by ResolveShmBatch (untracked) *)
| CAST  (* result of castRecordBatch (tracked) *)
| OUT   (* data batch built by EmitMap and owned by the collector (tracked) *)
| OUT2  (* second EmitMap batch, refused by Emit (tracked) *)
| BAD   (* user-built batch of the wrong width handed to Emit (untracked) *)
| LOG   (* ClientLog batch emitted before the data batch (tracked) *)
| LOG2  (* ClientLog batch emitted after it / instead of it (tracked) *)
| WRAP  (* NewRecordBatchWithMetadata wrapper: shares columns, owns no buffer *)
| PTR   (* external-location / shm pointer batch (tracked) *)
| ERR   (* zero-row batch of writeErrorBatch (tracked) *)
| LOGW  (* zero-row batch of writeLogBatch (tracked) *)
| TOK   (* zero-row batch of writeStateTokenBatch (tracked) *)
| RES   (* unary result batch / void batch (tracked) *)
| HDR.  (* stream header batch (tracked) *)

Definition oid (o : obj) : N :=
  match o with
  | REQ => 0 | RD => 1 | IN => 2 | INS => 3 | CAST => 4 | OUT => 5 | OUT2 => 6 | BAD => 7
  | LOG => 8 | LOG2 => 9 | WRAP => 10 | PTR => 11 | ERR => 12 | LOGW => 13 | TOK => 14
  | RES => 15 | HDR => 16 | INP => 17
  end.
Definition obj_eqb (a b : obj) : bool := oid a =? oid b.

(* allocated through vgirpc.defaultAllocator(), i.e. visible to the shared
   CheckedAllocator of the leakcheck build *)
Definition tracked (o : obj) : bool :=
  match o with REQ | RD | INS | BAD | WRAP => false | _ => true end.

Inductive event := Alloc (o : obj) | Retain (o : obj) | Release (o : obj) | Transfer (o : obj).

Definition heap := list (obj * nat).

Fixpoint h_get (h : heap) (o : obj) : option nat :=
  match h with
  | [] => None
  | (x, n) :: t => if obj_eqb x o then Some n else h_get t o
  end.
Fixpoint h_set (h : heap) (o : obj) (n : nat) : heap :=
  match h with
  | [] => []
  | (x, m) :: t => if obj_eqb x o then (x, n) :: t else (x, m) :: h_set t o n
  end.
Fixpoint h_del (h : heap) (o : obj) : heap :=
  match h with
  | [] => []
  | (x, m) :: t => if obj_eqb x o then t else (x, m) :: h_del t o
  end.

(* reference-count semantics; None = the trace itself is ill-formed
   (use after free, double release, allocation of a live object) *)
Definition step (h : heap) (ev : event) : option heap :=
  match ev with
  | Alloc o => match h_get h o with Some _ => None | None => Some (h ++ [(o, 1%nat)]) end
  | Retain o => match h_get h o with Some n => Some (h_set h o (S n)) | None => None end
  | Release o =>
      match h_get h o with
      | Some (S (S n)) => Some (h_set h o (S n))
      | Some (S O) => Some (h_del h o)
      | _ => None
      end
  | Transfer o => match h_get h o with Some _ => Some h | None => None end
  end.

Fixpoint run (tr : list event) (h : heap) : option heap :=
  match tr with
  | [] => Some h
  | ev :: t => match step h ev with Some h' => run t h' | None => None end
  end.

(* ------------------------------------------------------------------ traces *)
Inductive variant := Legacy | Current | Repaired.
(* fixes ae22754 / a3f8652 are in Current; the HTTP write-error release is not *)
Definition fix_emit (v : variant) : bool := match v with Legacy => false | _ => true end.
Definition fix_cast (v : variant) : bool := match v with Legacy => false | _ => true end.
Definition fix_write (v : variant) : bool := match v with Repaired => true | _ => false end.

Definition when (b : bool) (l : list event) : list event := if b then l else [].
Definition tmp (o : obj) : list event := [Alloc o; Release o].
Definition wrapped (x : obj) (body : list event) : list event :=
  [Alloc WRAP; Retain x] ++ body ++ [Release WRAP; Release x].
Definition write_err := tmp ERR.
Definition write_log := tmp LOGW.
Definition write_tok := tmp TOK.
Definition release_all (os : list obj) : list event := map Release os.

(* external.go ResolveExternalLocation on a payload that resolves.  The reader
   owns its current record until the next Next(); the loop retains a data batch
   into resolvedBatch and releases the one it supersedes; the deferred
   reader.Release drops the reader's reference on the last record.  A payload
   whose tail is damaged AFTER a complete batch (fTail, fTwoStreams) ends the
   loop with reader.Err() set, which the code does not consult: the batch
   decoded so far is the result. *)
Definition resolve_ok (f : N) : list event :=
  when (f =? fMulti)
    ([Alloc INP; Release INP]                 (* log batch: skipped *)
     ++ [Alloc INP; Retain INP; Release INP])  (* decoy: retained, reader moves on *)
  ++ [Alloc IN; Retain IN]
  ++ when (f =? fMulti) [Release INP]          (* superseded batch released *)
  ++ [Release IN].                             (* reader.Release *)

(* ... on a payload that is refused after something was decoded *)
Definition resolve_fail (f : N) : list event :=
  if f =? fRedirect then
    [Alloc INP; Retain INP; Release INP]   (* data batch retained, reader moves on *)
    ++ [Alloc IN]                          (* the location-pointer record *)
    ++ [Release INP]                       (* redirect loop: resolvedBatch released *)
    ++ [Release IN]                        (* reader.Release *)
  else if f =? fNoData then [Alloc INP; Release INP]
  else [].

(* wire.go castRecordBatch: compute.NewDatum(srcCol) retains the source column;
   since a3f8652 srcDatum.Release() follows CastDatum on success and failure
   (before the cast result is wrapped); the legacy code never released it. *)
Definition cast_ok (v : variant) (src : obj) : list event :=
  [Retain src; Alloc CAST] ++ when (fix_cast v) [Release src].
Definition cast_fail (v : variant) (src : obj) : list event :=
  [Retain src] ++ when (fix_cast v) [Release src].

(* flushing the data batch OUT of one collector cycle *)
Definition flush_data (t k f : N) : list event :=
  if (t =? tH) && (k =? kX) then
    (* token-merged wrapper, optionally replaced by the uploaded pointer *)
    [Alloc WRAP; Retain OUT]
    ++ (if f =? fExtOut then [Alloc PTR; Release WRAP; Release OUT; Release PTR]
        else [Release WRAP; Release OUT])
    ++ [Release OUT]
  else if t =? tH then
    when (f =? fExtOut) (tmp PTR) ++ [Release OUT]
  else
    if (f =? fExtOut) || (f =? fShm) then [Alloc PTR; Release OUT; Release PTR] else [Release OUT].

(* what a turn does once its input is ready: handler + flush.
   ex is the behaviour of this turn: eOk = emit one batch. *)
Definition dispatch (v : variant) (t k ex f : N) : list event :=
  let logs := when (f =? fLogs) [Alloc LOG] in
  let rel_logs := when (f =? fLogs) [Release LOG] in
  let flush_log := when (f =? fLogs) (wrapped LOG [] ++ [Release LOG]) in
  let emit := [Alloc OUT; Transfer OUT] in
  let token_turn := (t =? tH) && (k =? kR) in
  if ex =? eOk then logs ++ emit ++ flush_log ++ flush_data t k f
  else if (ex =? eTErr) || (ex =? eTPanic) then
    logs ++ emit ++ (if t =? tP then write_err ++ rel_logs ++ [Release OUT]
                     else rel_logs ++ [Release OUT] ++ write_err)
  else if ex =? eNoEmit then logs ++ [Alloc LOG2] ++ write_err ++ rel_logs ++ [Release LOG2]
  else if ex =? eDouble then
    (* stream.go EmitMap -> emitOwned: the second batch is built, Emit refuses
       it; since ae22754 emitOwned releases it, the legacy code did not *)
    logs ++ emit ++ [Alloc OUT2] ++ when (fix_emit v) [Release OUT2]
    ++ write_err ++ rel_logs ++ [Release OUT]
  else if ex =? eWrite then
    logs ++ [Alloc BAD; Transfer BAD; Alloc LOG2] ++ flush_log
    ++ (if t =? tP then [Release BAD; Release LOG2]
        else if k =? kR then
          (* http_stream.go runProduceLoopInto: returns on the write error
             without releasing the rest of the cycle *)
          [Release BAD] ++ when (fix_write v) [Release LOG2]
        else
          (* http_stream.go handleExchangeCall: NewRecordBatchWithMetadata
             panics on the width mismatch; nothing of the cycle is released *)
          when (fix_write v) [Release BAD; Release LOG2])
  else if ex =? eCap then
    if f =? fExtOut then logs ++ emit ++ rel_logs ++ [Release OUT] ++ write_err
    else if token_turn then logs ++ emit ++ flush_log ++ flush_data t k f ++ write_tok
    else logs ++ emit ++ flush_log ++ flush_data t k f ++ write_err
  else [].

(* one stream turn; last = this is the exit turn (behaviour e), otherwise a
   successful emit turn *)
Definition turn (v : variant) (t k e f : N) (last : bool) : list event :=
  let ex := if last then e else eOk in
  if k =? kR then
    if t =? tP then [Alloc RD] ++ (if ex =? eCancel then [] else dispatch v t k ex f) ++ [Release RD]
    else if ex =? eToken then [Alloc RD] ++ write_err ++ [Release RD]
    else if ex =? eCancel then tmp RD
    else dispatch v t k ex f
           ++ when (negb last && mem e [eLimit; eCap; eCancel; eToken] && negb (ex =? eCap)) write_tok
  else
    if ex =? eCancel then tmp RD
    else
      (* pointer resolution *)
      let res_fail := (ex =? eResolve) in
      let '(res_ev, src, owned) :=
        if f =? fShm then ([Alloc INS], INS, [INS])
        else if ext_in f then (resolve_ok f, IN, [IN])
        else ([], RD, []) in
      if res_fail then [Alloc RD] ++ resolve_fail f ++ write_err ++ [Release RD]
      else
        let do_cast := (f =? fCast) || (f =? fExtCast) in
        if ex =? eCastFail then
          [Alloc RD] ++ res_ev ++ cast_fail v src ++ write_err ++ release_all owned ++ [Release RD]
        else
          let '(cast_ev, owned2) :=
            if do_cast then
              if t =? tP then (cast_ok v src ++ release_all owned, [CAST])
              else (cast_ok v src, CAST :: owned)
            else ([], owned) in
          [Alloc RD] ++ res_ev ++ cast_ev
          ++ (if ex =? eToken then write_err else dispatch v t k ex f)
          ++ release_all owned2 ++ [Release RD].

(* does the request itself fail to resolve (before any dispatch)? *)
Definition req_resolve_fails (t k e f : N) : bool :=
  (e =? eResolve) &&
  (((t =? tP) && (f =? fShm) && negb (is_stream k)) || ((t =? tH) && ext_in f && negb (k =? kX))).

Definition init_ok (t k e f : N) : bool :=
  negb (mem e [eUnk; eBad; eVer; eErr; ePanic; eNil]) && negb (req_resolve_fails t k e f).

(* the outer segment *)
Definition outer (v : variant) (t k e f : N) : list event :=
  if (t =? tH) && (e =? eUnk) then write_err
  else
    let '(req_ev, reqo) :=
      if (t =? tP) && (f =? fShm) && negb (is_stream k) then ([Alloc REQ; Alloc INS; Release REQ], INS)
      else if (t =? tH) && ext_in f then ([Alloc REQ] ++ resolve_ok f ++ [Release REQ], IN)
      else ([Alloc REQ], REQ) in
    if req_resolve_fails t k e f then
      [Alloc REQ] ++ when ((t =? tH) && ext_in f) (resolve_fail f) ++ write_err ++ [Release REQ]
    else
      let ilogs := when (f =? fLogs) (write_log ++ write_log) in
      let body :=
        if mem e [eUnk; eBad; eVer] then write_err
        else if is_stream k then
          if mem e [eErr; ePanic; eNil] then write_err
          else when (f =? fHdr) (tmp HDR) ++ when (f =? fLogs) write_log
               ++ when ((t =? tH) && (k =? kX)) write_tok
        else if mem e [eErr; ePanic] then ilogs ++ write_err
        else if k =? kV then ilogs ++ tmp RES ++ when ((t =? tH) && (e =? eCap)) write_err
        else
          [Alloc RES]
          ++ (if f =? fExtOut then
                if (t =? tH) && (e =? eCap) then ilogs ++ write_err ++ [Release RES]
                else [Alloc PTR; Alloc WRAP; Retain PTR; Release RES; Release PTR] ++ ilogs
                     ++ [Release WRAP; Release PTR]
              else if (t =? tP) && (f =? fShm) then [Alloc PTR] ++ ilogs ++ [Release PTR; Release RES]
              else ilogs ++ when ((t =? tH) && (e =? eCap)) write_err ++ [Release RES]) in
      req_ev ++ body ++ [Release reqo].

(* number of successful turns that really happen before the exit turn *)
Definition npre (t k e f : N) (pre : nat) : nat :=
  if (e =? eCastFail) && (t =? tP) then O            (* one schema per pipe input stream *)
  else if (e =? eCap) && ((k =? kX) || (f =? fExtOut)) then O   (* the first turn is the refused one *)
  else pre.

Definition has_exit_turn (t k e f : N) : bool :=
  mem e [eTErr; eTPanic; eNoEmit; eDouble; eCancel; eCastFail; eWrite; eToken]
  || ((e =? eResolve) && (k =? kX))
  || ((e =? eCap) && ((k =? kX) || (f =? fExtOut))).

Definition segments (v : variant) (t k e f : N) (pre : nat) : list (list event) :=
  outer v t k e f ::
  (if is_stream k && init_ok t k e f then
     repeat (turn v t k e f false) (npre t k e f pre)
     ++ (if has_exit_turn t k e f then [turn v t k e f true] else [])
   else []).

Fixpoint collect (l : list (option heap)) : option heap :=
  match l with
  | [] => Some []
  | None :: _ => None
  | Some h :: t => match collect t with Some h' => Some (h ++ h') | None => None end
  end.

(* everything the call leaves behind (all objects, tracked or not) *)
Definition outstanding (v : variant) (t k e f : N) (pre : nat) : option heap :=
  collect (map (fun s => run s []) (segments v t k e f pre)).

(* ------------------------------------------------------------------ model / obs *)
Inductive call := Call (t k e f : N) (pre : nat).
Inductive callobs := CallObs (d_bytes d_allocs : Z) (exc : bool).

Definition input := list call.
Definition obs := list callobs.

Definition n_tracked (h : heap) : nat := length (filter (fun p => tracked (fst p)) h).

(* the last response carries an exception (or an HTTP error status) *)
Definition exc_of (t k e f : N) : bool :=
  if mem e [eOk; eCancel; eWrite; eLimit] then false
  else if e =? eCap then negb ((k =? kR) && negb (f =? fExtOut))
  else true.

Definition model_call (c : call) : callobs :=
  let '(Call t k e f pre) := c in
  match outstanding Current t k e f pre with
  | Some h => let n := Z.of_nat (n_tracked h) in CallObs n n (exc_of t k e f)
  | None => CallObs (-1)%Z (-1)%Z (exc_of t k e f)
  end.

Definition model (i : input) : obs := map model_call i.

(* the allocator's numbers are compared on zero / non-zero only: byte and
   allocation counts of a leak depend on arrow-go's buffer sizes *)
Definition callobs_eqb (a b : callobs) : bool :=
  let '(CallObs b1 a1 x1) := a in
  let '(CallObs b2 a2 x2) := b in
  Bool.eqb (Z.eqb b1 0) (Z.eqb b2 0) && Bool.eqb (Z.eqb a1 0) (Z.eqb a2 0) && Bool.eqb x1 x2.

Fixpoint obs_eqb (a b : obs) : bool :=
  match a, b with
  | [], [] => true
  | x :: a', y :: b' => callobs_eqb x y && obs_eqb a' b'
  | _, _ => false
  end.

(* THE PROPERTY on one observation: after every call of the history the
   allocator is back at its baseline. *)
Definition call_clean (o : callobs) : bool :=
  let '(CallObs b a _) := o in Z.eqb b 0 && Z.eqb a 0.

Definition spec_ok (i : input) (o : obs) : bool :=
  Nat.eqb (length i) (length o) && forallb call_clean o.

(* the classes touched by the one recorded defect of the current code
   (finding-http-write-error-leak) *)
Definition in_finding (t k e f : N) : bool := (t =? tH) && (e =? eWrite).

(* the classes the two repaired defects touched (legacy code) *)
Definition in_legacy_finding (t k e f : N) : bool :=
  (e =? eDouble) || (f =? fCast) || (f =? fExtCast) || (e =? eCastFail).

Definition call_valid (c : call) : bool := let '(Call t k e f _) := c in valid t k e f.
Definition call_in_finding (c : call) : bool := let '(Call t k e f _) := c in in_finding t k e f.
