(* Model/C43.v — the OpenTelemetry dispatch hook (vgirpc/otel/otel.go
   otelHook.OnDispatchStart / OnDispatchEnd) as a state machine that talks to a
   telemetry backend, driven by the dispatch layer (server_serve.go serveOne,
   http_unary.go, http_stream.go startDispatchHook) over histories of calls
   whose Begin / Finish steps are interleaved by a schedule.

   The OTel SDK is an ORACLE: the sampler (is the new span recording), the
   propagator (which remote parent does the transport metadata carry) and the
   span life cycle (a span is recording from Start until its first End) are
   parameters of the hook machine; [model] instantiates them with the four SDK
   samplers the harness installs and with the W3C traceparent parser
   (propagation.TraceContext.Extract), both written out below and validated
   against the real SDK by the correspondence check.

   The dispatch context the server hands to OnDispatchStart may already be
   inside a span (Server.ServeWithContext with a session span, an HTTP
   middleware that opened its own span in r.Context()): this AMBIENT span
   context is an input of every dispatch.  Propagator.Extract replaces it by the
   caller's traceparent when a valid one was sent and leaves it alone otherwise. *)
From VR Require Export Lib.Strs Gen.Consts.
Open Scope N_scope.

(* ---- W3C traceparent (propagation/trace_context.go extract) -------------- *)
Record pctx := { p_trace : bytes; p_span : bytes; p_sampled : bool }.

Definition DASH : N := 45.
(* strings.Cut(h, "-"): (part, rest); rest is empty when there is no delimiter *)
Fixpoint cut (s : bytes) : bytes * bytes :=
  match s with
  | [] => ([], [])
  | c :: t => if c =? DASH then ([], t) else let (a, b) := cut t in (c :: a, b)
  end.
Definition lhex (c : N) : bool := ((48 <=? c) && (c <=? 57)) || ((97 <=? c) && (c <=? 102)).
Definition part_ok (n : nat) (p : bytes) : bool := Nat.eqb (length p) n && forallb lhex p.
Definition hexv (c : N) : N := if c <=? 57 then c - 48 else c - 87.
Definition all_zero (p : bytes) : bool := forallb (fun c => c =? 48) p.
Definition is_nil (b : bytes) : bool := match b with [] => true | _ => false end.

Definition parse_tp (h : bytes) : option pctx :=
  if is_nil h then None else
  let (ver, h1) := cut h in
  if negb (part_ok 2 ver) then None else
  if beqb ver (str "ff") then None else
  let (tr, h2) := cut h1 in
  if negb (part_ok 32 tr) then None else
  let (sp, h3) := cut h2 in
  if negb (part_ok 16 sp) then None else
  let (fl, h4) := cut h3 in
  if negb (part_ok 2 fl) then None else
  let flv := 16 * hexv (nth 0 fl 0) + hexv (nth 1 fl 0) in
  if beqb ver (str "00") && (negb (is_nil h4) || (3 <? flv)) then None else
  if all_zero tr || all_zero sp then None else
  Some {| p_trace := tr; p_span := sp; p_sampled := N.odd flv |}.

(* a version-00 traceparent built from its parts *)
Definition tp00 (tr sp fl : bytes) : bytes :=
  str "00" ++ [DASH] ++ tr ++ [DASH] ++ sp ++ [DASH] ++ fl.

(* ---- the telemetry backend as seen by the hook --------------------------- *)
Inductive stcode := SUnset | SError | SOk.
(* parent as observed: trace id, span id, child is in the parent's trace *)
Record opar := { op_trace : bytes; op_span : bytes; op_same : bool;
                 op_remote : bool; op_tstate : bytes (* TraceState().String() *) }.

Inductive bev :=
| BStart (sid : nat) (recording : bool) (name : bytes) (server_kind : bool) (parent : option opar)
| BEnd (sid : nat) (st : stcode) (exc : bool) (errtype : bytes) (stats : bool) (parent : option opar)
| BCount (meth mtype status : bytes) (n : Z)
| BHist (meth mtype status : bytes) (n : Z)
| BExported (sid : Z).

(* ---- the hook ------------------------------------------------------------ *)
Inductive sampler_kind := SAlways | SNever | SParentAlways | SParentNever.
Record cfg := { g_tracing : bool; g_metrics : bool; g_recexc : bool; g_propagate : bool;
                g_sampler : sampler_kind }.

(* DispatchInfo as far as the hook reads it *)
(* a span context as the tracer sees it (trace.SpanContext, valid ones only) *)
Record sctx := { x_trace : bytes; x_span : bytes; x_sampled : bool; x_remote : bool; x_tstate : bytes }.

(* what OnDispatchStart / OnDispatchEnd read: the span context already current in the
   dispatch ctx (None = bare / invalid) and the DispatchInfo fields *)
Record info := { n_method : bytes; n_mtype : bytes;
                 n_tp : bytes;           (* TransportMetadata traceparent, empty = absent *)
                 n_ts : bytes;           (* TransportMetadata tracestate as trace.ParseTraceState normalises it *)
                 n_amb : option sctx }.  (* trace.SpanContextFromContext(ctx) when valid *)

(* spanToken: the span (canonical id, parent) when tracing is on *)
Record token := { tk_span : option (nat * option opar) }.

(* SDK-side state: next span id; ids of spans that are recording (started, not ended) *)
Record sdk := { s_next : nat; s_live : list nat }.

Definition opar_of (p : sctx) : opar :=
  {| op_trace := x_trace p; op_span := x_span p; op_same := true; op_remote := x_remote p; op_tstate := x_tstate p |}.
(* the remote span context a valid traceparent + tracestate denotes *)
Definition remote_of (ts : bytes) (p : pctx) : sctx :=
  {| x_trace := p_trace p; x_span := p_span p; x_sampled := p_sampled p; x_remote := true; x_tstate := ts |}.

Section Hook.
  Variable extract : bytes -> bytes -> option sctx.  (* cfg.Propagator.Extract on the carrier (traceparent, tracestate) *)
  Variable sampler : option sctx -> bool.           (* SDK: does tracer.Start return a recording span *)
  Variable c : cfg.

  Definition span_name (i : info) : bytes := str "vgi_rpc/" ++ n_method i.

  (* OnDispatchStart *)
  Definition hook_start (s : sdk) (i : info) : sdk * token * list bev :=
    if negb (g_tracing c) then (s, {| tk_span := None |}, [])
    else
      (* Extract overrides the ambient span context only when it finds a valid one *)
      let par := match extract (n_tp i) (n_ts i) with Some p => Some p | None => n_amb i end in
      let opr := option_map opar_of par in
      let sid := s_next s in
      let recd := sampler par in
      ({| s_next := S sid; s_live := if recd then sid :: s_live s else s_live s |},
       {| tk_span := Some (sid, opr) |},
       [BStart sid recd (span_name i) true opr]).

  Definition mem_nat (n : nat) (l : list nat) : bool := existsb (Nat.eqb n) l.
  Definition remove_nat (n : nat) (l : list nat) : list nat := filter (fun m => negb (Nat.eqb n m)) l.

  Definition status_label (err : option bytes) : bytes :=
    match err with None => str "ok" | Some _ => str "error" end.

  (* OnDispatchEnd: metrics first, then the span iff it IsRecording *)
  Definition end_span (s : sdk) (t : token) (err : option bytes) : sdk * list bev :=
    match tk_span t with
    | Some (sid, opr) =>
        if mem_nat sid (s_live s) then
          ({| s_next := s_next s; s_live := remove_nat sid (s_live s) |},
           [match err with
            | None => BEnd sid SOk false [] true opr
            | Some ty => BEnd sid SError (g_recexc c) ty true opr
            end])
        else (s, [])
    | None => (s, [])
    end.

  Definition end_metrics (i : info) (err : option bytes) : list bev :=
    if g_metrics c then
      [BCount (n_method i) (n_mtype i) (status_label err) 1%Z;
       BHist (n_method i) (n_mtype i) (status_label err) 1%Z]
    else [].

  (* backend events in the canonical observation order: span events, then metric deltas *)
  Definition hook_end (s : sdk) (t : token) (i : info) (err : option bytes) : sdk * list bev :=
    let (s', sp) := end_span s t err in (s', sp ++ end_metrics i err).
End Hook.

Definition sampler_fn (k : sampler_kind) (par : option sctx) : bool :=
  match k, par with
  | SAlways, _ => true
  | SNever, _ => false
  | SParentAlways, None => true
  | SParentNever, None => false
  | (SParentAlways | SParentNever), Some p => x_sampled p
  end.
Definition extract_fn (propagate : bool) (h ts : bytes) : option sctx :=
  if propagate then option_map (remote_of ts) (parse_tp h) else None.

(* ---- the dispatch layer: calls and what they report to the hook ---------- *)
Inductive mkind := KUnary | KProd | KExch | KUnknown.
Inductive outcome := OOk | OErrRpc | OErrPlain | OPanic | ONil.
Inductive tact := TEmit | TFinish | TErr | TPanic | TNoEmit.
Inductive citem := ITick | ICancel.

Record call := {
  c_http : bool; c_kind : mkind;
  c_tp_meta : bytes;           (* traceparent in the request's IPC custom metadata *)
  c_tp_hdr : bytes;            (* Traceparent HTTP header *)
  c_tstate : bytes;            (* tracestate sent next to every traceparent, normalised (oracle: trace.ParseTraceState) *)
  c_amb : option sctx;         (* span context already current in the context the server is served with *)
  c_badparams : bool;
  c_init : outcome;            (* what the (init) handler does *)
  c_turns : list tact;         (* Produce / Exchange script *)
  c_inputs : list citem }.     (* client input: pipe ticks / HTTP exchange continuations *)

Definition E_VALUE := str "ValueError".
Definition E_RUNTIME := str "RuntimeError".
Definition E_TYPE := str "TypeError".
Definition E_PLAIN := str "*errors.errorString".

Definition meth_name (k : mkind) : bytes :=
  match k with KUnary => str "unary" | KProd => str "prod" | KExch => str "exch" | KUnknown => str "no_such_method" end.
Definition mtype_name (k : mkind) : bytes :=
  match k with KUnary => str "unary" | _ => str "stream" end.

(* the handler error handed to OnDispatchEnd (None = nil), as its error_type *)
Definition init_err (k : mkind) (o : outcome) : option bytes :=
  match o with
  | OOk => None
  | OErrRpc => Some E_VALUE
  | OErrPlain => Some E_PLAIN
  | OPanic => Some E_RUNTIME
  | ONil => match k with KUnary => None | _ => Some E_RUNTIME end
  end.

Inductive tres := Continue | StopOk | StopErr (ty : bytes).
Definition turn_res (prod : bool) (a : tact) : tres :=
  match a with
  | TEmit => Continue
  | TFinish => if prod then StopOk else StopErr E_PLAIN   (* Finish on an exchange stream is an error *)
  | TErr => StopErr E_VALUE
  | TPanic => StopErr E_RUNTIME
  | TNoEmit => StopErr E_RUNTIME                         (* No data batch was emitted *)
  end.
Definition next_turn (prod : bool) (ts : list tact) : tact * list tact :=
  match ts with a :: r => (a, r) | [] => (if prod then TFinish else TEmit, []) end.

(* pipe lockstep loop (server_stream.go) *)
Fixpoint pipe_loop (prod : bool) (ts : list tact) (ins : list citem) : option bytes :=
  match ins with
  | [] => None
  | ICancel :: _ => None
  | ITick :: rest =>
      let (a, ts') := next_turn prod ts in
      match turn_res prod a with
      | Continue => pipe_loop prod ts' rest
      | StopOk => None
      | StopErr ty => Some ty
      end
  end.

(* HTTP producer: the whole produce loop runs inside the init request (no batch limit) *)
Fixpoint http_prod_loop (ts : list tact) : option bytes :=
  match ts with
  | [] => None
  | a :: r => match turn_res true a with
              | Continue => http_prod_loop r
              | StopOk => None
              | StopErr ty => Some ty
              end
  end.

Definition is_stream (k : mkind) : bool := match k with KProd | KExch => true | _ => false end.
Definition is_prod (k : mkind) : bool := match k with KProd => true | _ => false end.

(* error reported by the (first) dispatch of a call *)
Definition call_err (cl : call) : option bytes :=
  if c_badparams cl then Some E_TYPE else
  match init_err (c_kind cl) (c_init cl) with
  | Some ty => Some ty
  | None =>
      match c_kind cl with
      | KProd => if c_http cl then http_prod_loop (c_turns cl) else pipe_loop true (c_turns cl) (c_inputs cl)
      | KExch => if c_http cl then None else pipe_loop false (c_turns cl) (c_inputs cl)
      | _ => None
      end
  end.

Definition call_tp (cl : call) : bytes :=
  if c_http cl && negb (is_nil (c_tp_hdr cl)) then c_tp_hdr cl else c_tp_meta cl.
Definition call_info (cl : call) : info :=
  {| n_method := meth_name (c_kind cl); n_mtype := mtype_name (c_kind cl); n_tp := call_tp cl;
     n_ts := if is_nil (call_tp cl) then [] else c_tstate cl; n_amb := c_amb cl |}.
(* HTTP exchange continuation: only the HTTP headers reach TransportMetadata *)
Definition cont_info (cl : call) : info :=
  {| n_method := meth_name KExch; n_mtype := str "stream"; n_tp := c_tp_hdr cl;
     n_ts := if is_nil (c_tp_hdr cl) then [] else c_tstate cl; n_amb := c_amb cl |}.

Definition reaches_hook (cl : call) : bool := match c_kind cl with KUnknown => false | _ => true end.
(* the handler gate sits at the top of the unary / init handler *)
Definition enters_gate (cl : call) : bool := reaches_hook cl && negb (c_badparams cl).

(* HTTP exchange continuations of one call: each client item is one dispatch *)
Fixpoint cont_errs (ts : list tact) (ins : list citem) : list (option bytes) :=
  match ins with
  | [] => []
  | ICancel :: _ => [None]
  | ITick :: rest =>
      let (a, ts') := next_turn false ts in
      match turn_res false a with
      | Continue => None :: cont_errs ts' rest
      | StopOk => [None]
      | StopErr ty => [Some ty]
      end
  end.
Definition conts (cl : call) : list (option bytes) :=
  match c_kind cl with
  | KExch => if c_http cl then
               match call_err cl with None => cont_errs (c_turns cl) (c_inputs cl) | Some _ => [] end
             else []
  | _ => []
  end.

(* ---- histories ------------------------------------------------------------ *)
Inductive op := Begin (k : nat) | Finish (k : nat).
Inductive cstate := Running (t : token) | Done.

Record input := { i_cfg : cfg; i_calls : list call; i_sched : list op }.
(* observation: the backend events, one SEGMENT per dispatch step (a Begin is one
   segment; a Finish is one segment for the end of the gated dispatch plus one per
   HTTP exchange continuation; an ignored op is one empty segment), and what the
   SDK exported at the end *)
Record obs := { o_segs : list (list bev); o_exported : list bev }.

Record state := { st_sdk : sdk; st_calls : list (nat * cstate) }.
Definition init_state : state := {| st_sdk := {| s_next := 0; s_live := [] |}; st_calls := [] |}.

Fixpoint lookup {A} (k : nat) (l : list (nat * A)) : option A :=
  match l with [] => None | (j, v) :: r => if Nat.eqb j k then Some v else lookup k r end.

Fixpoint ended_of (evs : list bev) : list nat :=
  match evs with
  | [] => []
  | BEnd sid _ _ _ _ _ :: r => sid :: ended_of r
  | _ :: r => ended_of r
  end.

Section Run.
  Variable extract : bytes -> bytes -> option sctx.
  Variable sampler : option sctx -> bool.
  Variable c : cfg.
  Variable calls : list call.

  (* one whole dispatch: Start; End *)
  Definition whole (s : sdk) (i : info) (err : option bytes) : sdk * list bev :=
    let '(s1, t, e1) := hook_start extract sampler c s i in
    let (s2, e2) := hook_end c s1 t i err in (s2, e1 ++ e2).

  Fixpoint run_conts (s : sdk) (i : info) (errs : list (option bytes)) : sdk * list (list bev) :=
    match errs with
    | [] => (s, [])
    | e :: r => let (s1, e1) := whole s i e in let (s2, e2) := run_conts s1 i r in (s2, e1 :: e2)
    end.

  Definition step (st : state) (o : op) : state * list (list bev) :=
    match o with
    | Begin k =>
        match nth_error calls k, lookup k (st_calls st) with
        | Some cl, None =>
            if negb (reaches_hook cl) then ({| st_sdk := st_sdk st; st_calls := (k, Done) :: st_calls st |}, [[]])
            else if enters_gate cl then
              let '(s1, t, e1) := hook_start extract sampler c (st_sdk st) (call_info cl) in
              ({| st_sdk := s1; st_calls := (k, Running t) :: st_calls st |}, [e1])
            else
              let (s1, e1) := whole (st_sdk st) (call_info cl) (call_err cl) in
              ({| st_sdk := s1; st_calls := (k, Done) :: st_calls st |}, [e1])
        | _, _ => (st, [[]])
        end
    | Finish k =>
        match nth_error calls k, lookup k (st_calls st) with
        | Some cl, Some (Running t) =>
            let (s1, e1) := hook_end c (st_sdk st) t (call_info cl) (call_err cl) in
            let (s2, e2) := run_conts s1 (cont_info cl) (conts cl) in
            ({| st_sdk := s2; st_calls := (k, Done) :: st_calls st |}, e1 :: e2)
        | _, _ => (st, [[]])
        end
    end.

  Fixpoint run (st : state) (sched : list op) : state * list (list bev) :=
    match sched with
    | [] => (st, [])
    | o :: r => let (st1, e) := step st o in let (st2, es) := run st1 r in (st2, e ++ es)
    end.
End Run.

Definition run_input (i : input) : state * list (list bev) :=
  run (extract_fn (g_propagate (i_cfg i))) (sampler_fn (g_sampler (i_cfg i))) (i_cfg i) (i_calls i)
      init_state (i_sched i).

Definition exported_of (flat : list bev) : list bev := map (fun n => BExported (Z.of_nat n)) (ended_of flat).

Definition model (i : input) : obs :=
  let segs := snd (run_input i) in
  {| o_segs := segs; o_exported := exported_of (concat segs) |}.

(* ---- obs equality ---------------------------------------------------------- *)
Definition stcode_eqb (a b : stcode) : bool :=
  match a, b with SUnset, SUnset | SError, SError | SOk, SOk => true | _, _ => false end.
Definition opar_eqb (a b : opar) : bool :=
  beqb (op_trace a) (op_trace b) && beqb (op_span a) (op_span b) && Bool.eqb (op_same a) (op_same b)
  && Bool.eqb (op_remote a) (op_remote b) && beqb (op_tstate a) (op_tstate b).
Definition bev_eqb (a b : bev) : bool :=
  match a, b with
  | BStart s1 r1 n1 k1 p1, BStart s2 r2 n2 k2 p2 =>
      Nat.eqb s1 s2 && Bool.eqb r1 r2 && beqb n1 n2 && Bool.eqb k1 k2 && opt_eqb opar_eqb p1 p2
  | BEnd s1 c1 x1 t1 a1 p1, BEnd s2 c2 x2 t2 a2 p2 =>
      Nat.eqb s1 s2 && stcode_eqb c1 c2 && Bool.eqb x1 x2 && beqb t1 t2 && Bool.eqb a1 a2 && opt_eqb opar_eqb p1 p2
  | BCount m1 t1 s1 n1, BCount m2 t2 s2 n2 => beqb m1 m2 && beqb t1 t2 && beqb s1 s2 && Z.eqb n1 n2
  | BHist m1 t1 s1 n1, BHist m2 t2 s2 n2 => beqb m1 m2 && beqb t1 t2 && beqb s1 s2 && Z.eqb n1 n2
  | BExported a1, BExported a2 => Z.eqb a1 a2
  | _, _ => false
  end.
Definition obs_eqb (a b : obs) : bool :=
  list_eqb (list_eqb bev_eqb) (o_segs a) (o_segs b) && list_eqb bev_eqb (o_exported a) (o_exported b).

(* ---- the property, decided on one observation ------------------------------
   Independent of the hook model: [plan] replays only the DISPATCH layer (which
   dispatch starts / ends in which segment, with which DispatchInfo and which
   handler error); the backend events the implementation produced are then judged
   against it. *)
Definition is_start (e : bev) : bool := match e with BStart _ _ _ _ _ => true | _ => false end.
Definition is_end (e : bev) : bool := match e with BEnd _ _ _ _ _ _ => true | _ => false end.
Definition is_metric (e : bev) : bool := match e with BCount _ _ _ _ | BHist _ _ _ _ => true | _ => false end.

(* per segment: the dispatch that starts in it, the dispatch that ends in it *)
Definition seg_plan := (option info * option (info * option bytes))%type.

Definition plan_step (calls : list call) (tbl : list (nat * bool)) (o : op) : list (nat * bool) * list seg_plan :=
  match o with
  | Begin k =>
      match nth_error calls k, lookup k tbl with
      | Some cl, None =>
          if negb (reaches_hook cl) then ((k, false) :: tbl, [(None, None)])
          else if enters_gate cl then ((k, true) :: tbl, [(Some (call_info cl), None)])
          else ((k, false) :: tbl, [(Some (call_info cl), Some (call_info cl, call_err cl))])
      | _, _ => (tbl, [(None, None)])
      end
  | Finish k =>
      match nth_error calls k, lookup k tbl with
      | Some cl, Some true =>
          ((k, false) :: tbl,
           (None, Some (call_info cl, call_err cl))
             :: map (fun e => (Some (cont_info cl), Some (cont_info cl, e))) (conts cl))
      | _, _ => (tbl, [(None, None)])
      end
  end.
Fixpoint plan (calls : list call) (tbl : list (nat * bool)) (sched : list op) : list (nat * bool) * list seg_plan :=
  match sched with
  | [] => (tbl, [])
  | o :: r => let (t1, p) := plan_step calls tbl o in let (t2, ps) := plan calls t1 r in (t2, p ++ ps)
  end.
(* no call is left running (table entries are newest first) *)
Fixpoint none_running (seen : list nat) (tbl : list (nat * bool)) : bool :=
  match tbl with
  | [] => true
  | (k, r) :: t => (existsb (Nat.eqb k) seen || negb r) && none_running (k :: seen) t
  end.

(* the parent the property demands: the caller's traceparent (remote, with its
   tracestate) when a valid one was sent and propagation is on — whatever span is
   already current in the dispatch context; otherwise that ambient span context;
   otherwise none (a root span) *)
Definition want_parent (g : cfg) (i : info) : option opar :=
  match (if g_propagate g then parse_tp (n_tp i) else None) with
  | Some p => Some {| op_trace := p_trace p; op_span := p_span p; op_same := true;
                      op_remote := true; op_tstate := n_ts i |}
  | None => option_map opar_of (n_amb i)
  end.

(* at most one span is started per segment: none if tracing is off or no dispatch starts;
   otherwise exactly one server span named after the method, parented on the caller's
   traceparent (a root span when none / an invalid one was sent) *)
Definition starts_ok (g : cfg) (ps : option info) (got : list bev) : bool :=
  match got, (if g_tracing g then ps else None) with
  | [], None => true
  | [BStart _ _ name kind par], Some i =>
      beqb name (span_name i) && kind && opt_eqb opar_eqb par (want_parent g i)
  | _, _ => false
  end.

(* a span ended in a segment is ended once, by the dispatch that ends there, with
   status Error (error recorded iff configured, error type attached) iff that dispatch
   failed, and it still carries the caller's traceparent as parent *)
Definition end_matches (g : cfg) (d : info * option bytes) (e : bev) : bool :=
  match e with
  | BEnd _ st exc ty stats par =>
      stats && opt_eqb opar_eqb par (want_parent g (fst d)) &&
      match snd d with
      | None => stcode_eqb st SOk && negb exc && is_nil ty
      | Some t => stcode_eqb st SError && Bool.eqb exc (g_recexc g) && beqb ty t
      end
  | _ => false
  end.
Definition ends_ok (g : cfg) (pe : option (info * option bytes)) (got : list bev) : bool :=
  match got, pe with
  | [], _ => true
  | [e], Some d => g_tracing g && end_matches g d e
  | _, _ => false
  end.

(* exactly one counter increment and one duration sample per dispatch that ended,
   labelled with its method, method type and ok / error; nothing when metrics are off *)
Definition counts_ok (g : cfg) (pe : option (info * option bytes)) (got : list bev) : bool :=
  match got, (if g_metrics g then pe else None) with
  | [], None => true
  | [BCount m t s n; BHist m' t' s' n'], Some (i, err) =>
      beqb m (n_method i) && beqb t (n_mtype i) && beqb s (status_label err) && Z.eqb n 1
      && beqb m' (n_method i) && beqb t' (n_mtype i) && beqb s' (status_label err) && Z.eqb n' 1
  | _, _ => false
  end.

Definition seg_ok (g : cfg) (p : seg_plan) (evs : list bev) : bool :=
  starts_ok g (fst p) (filter is_start evs)
  && ends_ok g (snd p) (filter is_end evs)
  && counts_ok g (snd p) (filter is_metric evs)
  && Nat.eqb (length evs) (length (filter is_start evs) + length (filter is_end evs) + length (filter is_metric evs)).

Fixpoint segs_ok (g : cfg) (ps : list seg_plan) (segs : list (list bev)) : bool :=
  match ps, segs with
  | [], [] => true
  | p :: ps', e :: es => seg_ok g p e && segs_ok g ps' es
  | _, _ => false
  end.

Fixpoint started_rec (evs : list bev) : list nat :=
  match evs with
  | [] => []
  | BStart sid true _ _ _ :: r => sid :: started_rec r
  | _ :: r => started_rec r
  end.

Definition mem_n (n : nat) (l : list nat) : bool := existsb (Nat.eqb n) l.
Fixpoint nodup_n (l : list nat) : bool :=
  match l with [] => true | x :: r => negb (mem_n x r) && nodup_n r end.

Definition spec_ok (i : input) (o : obs) : bool :=
  let g := i_cfg i in
  let flat := concat (o_segs o) in
  let (tbl, ps) := plan (i_calls i) [] (i_sched i) in
  (* per dispatch: span started with the right parent, ended with the call's outcome, counted once *)
  segs_ok g ps (o_segs o)
  (* no span is ended twice; only spans that were started recording are ended *)
  && nodup_n (ended_of flat)
  && forallb (fun sid => mem_n sid (started_rec flat)) (ended_of flat)
  (* once every started call has finished, every recording span has been ended *)
  && (if none_running [] tbl then forallb (fun sid => mem_n sid (ended_of flat)) (started_rec flat) else true)
  (* and the SDK exported exactly the ended spans, once each *)
  && list_eqb bev_eqb (o_exported o) (exported_of flat).
