(* Model/C08.v — values <-> Arrow wire values (vgirpc/types_serialize.go buildArray /
   appendToBuilder, types_deserialize.go setFieldFromArrow / timestampToTime,
   types_schema.go goTypeToArrowTypeAt, types_convert.go toInt64 / toUint64).

   Go values [gv] and Arrow wire values [wv] are trees; a field type [ty] names
   the Go type together with the Arrow type its vgirpc tag selects.  [enc] is
   the serializer, [dec] the deserializer, both at the wire-VALUE level (the
   Arrow IPC byte codec is arrow-go and is not modelled: the harness reads the
   wire values back with arrow-go).  Go's fixed-width arithmetic is written out
   where the code relies on it.  time.Time = (unix seconds, nanosecond in
   [0,1e9)); time.Duration = int64 nanoseconds. *)
From VR Require Export Lib.Bytes Gen.Consts.
Open Scope Z_scope.

(* ---- fixed width -------------------------------------------------------- *)
Definition wrapU (bits z : Z) : Z := z mod 2 ^ bits.
Definition wrapS (bits z : Z) : Z :=
  let r := z mod 2 ^ bits in if r <? 2 ^ (bits - 1) then r else r - 2 ^ bits.

Inductive ity := I8 | I16 | I32 | I64 | U8 | U16 | U32 | U64.
Definition ibits (k : ity) : Z :=
  match k with I8 | U8 => 8 | I16 | U16 => 16 | I32 | U32 => 32 | I64 | U64 => 64 end.
Definition isigned (k : ity) : bool :=
  match k with I8 | I16 | I32 | I64 => true | _ => false end.
Definition iwrap (k : ity) (z : Z) : Z := if isigned k then wrapS (ibits k) z else wrapU (ibits k) z.
Definition irange (k : ity) (z : Z) : bool :=
  if isigned k then (- 2 ^ (ibits k - 1) <=? z) && (z <? 2 ^ (ibits k - 1))
  else (0 <=? z) && (z <? 2 ^ ibits k).
Definition wide (k : ity) : ity := if isigned k then I64 else U64.

(* toInt64 / toUint64 (reinterpret at 64 bits, chosen by the ARROW type), then
   the narrowing cast int32(v) / uint8(v) ... *)
Definition enc_int (g a : ity) (x : Z) : Z := iwrap a (iwrap (wide a) x).
(* int64(c.Value) / uint64(c.Value), setIntField / setUintField cross-casts,
   then reflect.SetInt / SetUint truncating to the Go field's width *)
Definition dec_int (g a : ity) (w : Z) : Z := iwrap g (iwrap (wide g) w).

(* ---- time --------------------------------------------------------------- *)
Definition i64 := wrapS 64.
Definition i32 := wrapS 32.
Definition in64 (z : Z) : bool := (- 2 ^ 63 <=? z) && (z <? 2 ^ 63).
Definition in32 (z : Z) : bool := (- 2 ^ 31 <=? z) && (z <? 2 ^ 31).
Definition E3 := 1000. Definition E6 := 1000000. Definition E9 := 1000000000.
Definition DAY := 86400.

(* Time.UnixMicro: unixSec*1e6 + nsec/1e3 in int64 *)
Definition unix_micro (sec ns : Z) : Z := i64 (sec * E6 + Z.quot ns E3).

(* time.Unix(sec, nsec) normalisation, Go's truncating / and % *)
Definition go_unix (sec nsec : Z) : Z * Z :=
  if (nsec <? 0) || (E9 <=? nsec) then
    let n := Z.quot nsec E9 in
    let sec' := sec + n in
    let nsec' := nsec - n * E9 in
    if nsec' <? 0 then (sec' - 1, nsec' + E9) else (sec', nsec')
  else (sec, nsec).

Inductive tunit := USec | UMilli | UMicro | UNano.

(* timeToTimestamp (fix 98f5cb3): Unix / UnixMilli / UnixMicro / UnixNano in
   int64 arithmetic, chosen by the unit the column declares *)
Definition ts_raw (u : tunit) (sec ns : Z) : Z :=
  match u with
  | USec => sec
  | UMilli => sec * E3 + Z.quot ns E6
  | UMicro => sec * E6 + Z.quot ns E3
  | UNano => sec * E9 + ns
  end.
Definition enc_ts (u : tunit) (sec ns : Z) : Z := i64 (ts_raw u sec ns).
(* pre-fix: UnixMicro whatever the unit *)
Definition enc_ts_legacy (u : tunit) (sec ns : Z) : Z := unix_micro sec ns.
(* the sub-second part a unit keeps *)
Definition ts_trunc (u : tunit) (ns : Z) : Z :=
  match u with USec => 0 | UMilli => ns / E6 * E6 | UMicro => ns / E3 * E3 | UNano => ns end.

(* timestampToTime after fix b1d6d23 *)
Definition dec_ts (u : tunit) (v : Z) : Z * Z :=
  match u with
  | USec => go_unix v 0
  | UMilli => go_unix (Z.quot v E3) (Z.rem v E3 * E6)
  | UMicro => go_unix (Z.quot v E6) (Z.rem v E6 * E3)
  | UNano => go_unix 0 v
  end.

(* Time.Add on the epoch: dsec = d/1e9, nsec = d%1e9, borrow when negative *)
Definition epoch_add (d : Z) : Z * Z :=
  let dsec := Z.quot d E9 in
  let nsec := Z.rem d E9 in
  if nsec <? 0 then (dsec - 1, nsec + E9) else (dsec, nsec).

(* pre-fix timestampToTime: time.Unix(0,0).Add(Duration(v) * unit) *)
Definition unit_ns (u : tunit) : Z :=
  match u with USec => E9 | UMilli => E6 | UMicro => E3 | UNano => 1 end.
Definition dec_ts_legacy (u : tunit) (v : Z) : Z * Z := epoch_add (i64 (v * unit_ns u)).

(* daysSinceEpoch after fix 5236ebf *)
Definition enc_date (sec : Z) : Z :=
  let days := Z.quot sec DAY in
  i32 (if Z.rem sec DAY <? 0 then days - 1 else days).
(* pre-fix: int32(t.Sub(epoch) / 24h); Sub saturates to the int64 Duration range *)
Definition sat64 (z : Z) : Z := if z <? - 2 ^ 63 then - 2 ^ 63 else if 2 ^ 63 <=? z then 2 ^ 63 - 1 else z.
Definition enc_date_legacy (sec ns : Z) : Z := i32 (Z.quot (sat64 (sec * E9 + ns)) (DAY * E9)).
(* time.Date(1970,1,1,..).AddDate(0,0,d): the calendar normalisation of the Go
   runtime lands on midnight of day d (trusted; exercised over the int32 range) *)
Definition dec_date (d : Z) : Z * Z := (d * DAY, 0).

(* microsSinceMidnight: Clock() of the UTC instant *)
Definition enc_time (sec ns : Z) : Z :=
  let s := sec mod DAY in
  let h := s / 3600 in let m := (s mod 3600) / 60 in let ss := s mod 60 in
  h * 3600000000 + m * 60000000 + ss * E6 + Z.quot ns E3.
Definition dec_time (us : Z) : Z * Z := epoch_add (i64 (us * E3)).

Definition enc_dur (ns : Z) : Z := Z.quot ns E3.          (* Duration.Microseconds *)
Definition dec_dur (us : Z) : Z := i64 (us * E3).         (* Duration(v) * Microsecond *)
Definition dur_guard (us : Z) : bool := (- (2 ^ 63 / E3) <=? us) && (us <=? (2 ^ 63 - 1) / E3).

(* ---- decimal128(precision, scale): Go side is text ----------------------- *)
Definition is_digit (c : N) : bool := (48 <=? c)%N && (c <=? 57)%N.
Fixpoint digits_val (acc : Z) (s : bytes) : option Z :=
  match s with
  | [] => Some acc
  | c :: t => if is_digit c then digits_val (acc * 10 + (Z.of_N c - 48)) t else None
  end.
Fixpoint split_dot (s : bytes) : bytes * option bytes :=
  match s with
  | [] => ([], None)
  | c :: t => if (c =? 46)%N then ([], Some t)
              else let '(a, b) := split_dot t in (c :: a, b)
  end.
Definition SC : nat := Z.to_nat c08_dec_scale.
Definition P10 (n : nat) : Z := 10 ^ Z.of_nat n.
Fixpoint pad0 (n : nat) (s : bytes) : bytes :=
  match n with O => [] | S k => match s with [] => 48%N :: pad0 k [] | c :: t => c :: pad0 k t end end.

(* unsigned text -> unscaled value at the column scale, rounding half away from
   zero (decimal128.FromString adds 0.5 and truncates) *)
Definition parse_udec (s : bytes) : option Z :=
  let '(ip, fpo) := split_dot s in
  let fp := match fpo with Some f => f | None => [] end in
  match (length ip + length fp)%nat with
  | O => None
  | _ =>
    match digits_val 0 ip, digits_val 0 (pad0 SC fp), digits_val 0 (skipn SC fp) with
    | Some i, Some f, Some r =>
        let k := length (skipn SC fp) in
        Some (i * P10 SC + f + (if (0 <? Z.of_nat k) && (P10 k <=? 2 * r) then 1 else 0))
    | _, _, _ => None
    end
  end.
Definition dec_fits (n : Z) : bool := Z.abs n <? 10 ^ c08_dec_precision.
Definition parse_dec (s : bytes) : option Z :=
  let r := match s with
           | 45%N :: t => option_map Z.opp (parse_udec t)
           | 43%N :: t => parse_udec t
           | _ => parse_udec s
           end in
  match r with Some n => if dec_fits n then Some n else None | None => None end.

Definition dig (n : Z) : N := Z.to_N (48 + n mod 10).
Fixpoint show_fuel (fuel : nat) (n : Z) : bytes :=
  match fuel with
  | O => [dig n]
  | S k => if n / 10 =? 0 then [dig n] else show_fuel k (n / 10) ++ [dig n]
  end.
Definition show_nat (n : Z) : bytes := show_fuel (Z.to_nat (Z.log2 n)) n.
Fixpoint show_fixed (k : nat) (n : Z) : bytes :=
  match k with O => [] | S k' => show_fixed k' (n / 10) ++ [dig n] end.
(* Num.ToString(scale): always [scale] fraction digits *)
Definition fmt_dec (n : Z) : bytes :=
  let a := Z.abs n in
  (if n <? 0 then [45%N] else []) ++ show_nat (a / P10 SC)
  ++ (match SC with O => [] | _ => 46%N :: show_fixed SC (a mod P10 SC) end).

(* ---- types and values ---------------------------------------------------- *)
Inductive skind := SUtf8 | SLarge | SEnum.
Inductive bkind := BBin | BLarge | BFix (n : Z).

(* the method set of a NAMED Go type (type Priority string + methods).  The
   serializer works on the value's Kind; none of these may influence what goes
   on the wire (Theorem roundtrip_ignores_methods). *)
Record meths := {
  m_stringer_val : bool;      (* String() on the value receiver, not the identity *)
  m_stringer_ptr : bool;      (* String() on the pointer receiver *)
  m_stringer_id : bool;       (* String() returning the underlying value *)
  m_error : bool;             (* Error() *)
  m_text : bool }.            (* MarshalText() *)

Inductive ty :=
| TInt (g a : ity)            (* Go integer kind g carried in Arrow integer type a *)
| TFlt (is64 : bool)          (* float64 / float32, bit patterns *)
| TBool
| TStr (k : skind)
| TBin (k : bkind)
| TDate | TTs (u : tunit) (utc : bool) | TTime | TDur
| TDec
| TPtr (t : ty)
| TList (t : ty)
| TMap (k v : ty)
| TStruct (fs : list ty)
| TNamed (m : meths) (t : ty).   (* a named type with method set m whose underlying type is t *)

Inductive gv :=
| GInt (z : Z) | GFlt (b : Z) | GBool (b : bool)
| GBytes (nilp : bool) (b : bytes)        (* string, []byte (nil tracked), decimal text *)
| GTime (sec ns : Z) | GDur (ns : Z)
| GNil | GPtr (v : gv)
| GList (nilp : bool) (l : list gv)
| GMap (nilp : bool) (l : list (gv * gv))
| GStruct (l : list gv).

Inductive wv :=
| WInt (z : Z) | WFlt (b : Z) | WBool (b : bool) | WBytes (b : bytes)
| WNull
| WList (l : list wv) | WMap (l : list (wv * wv)) | WStruct (l : list wv).

Definition obind {A B} (f : A -> option B) (o : option A) : option B :=
  match o with Some a => f a | None => None end.
Definition mapM {A B} (f : A -> option B) : list A -> option (list B) :=
  fix go (l : list A) : option (list B) :=
  match l with
  | [] => Some []
  | a :: t => match f a, go t with Some b, Some bt => Some (b :: bt) | _, _ => None end
  end.
Definition leqb {A} (e : A -> A -> bool) : list A -> list A -> bool :=
  fix go (a b : list A) : bool :=
  match a, b with
  | [], [] => true
  | x :: a', y :: b' => e x y && go a' b'
  | _, _ => false
  end.
Definition zipM {A B C} (f : A -> B -> option C) : list A -> list B -> option (list C) :=
  fix go (la : list A) (lb : list B) : option (list C) :=
  match la, lb with
  | [], [] => Some []
  | a :: la', b :: lb' => match f a b, go la' lb' with Some c, Some cs => Some (c :: cs) | _, _ => None end
  | _, _ => None
  end.
Definition zip_all {A B} (f : A -> B -> bool) : list A -> list B -> bool :=
  fix go (la : list A) (lb : list B) : bool :=
  match la, lb with
  | [], [] => true
  | a :: la', b :: lb' => f a b && go la' lb'
  | _, _ => false
  end.
Definition zip_map {A B C} (f : A -> B -> C) : list A -> list B -> list C :=
  fix go (la : list A) (lb : list B) : list C :=
  match la, lb with
  | a :: la', b :: lb' => f a b :: go la' lb'
  | _, _ => []
  end.
Definition pairM {A B C D} (f : A -> option C) (g : B -> option D) (p : A * B) : option (C * D) :=
  match f (fst p), g (snd p) with Some c, Some d => Some (c, d) | _, _ => None end.

Definition fix_ok (k : bkind) (b : bytes) : bool :=
  match k with BFix n => Z.of_nat (length b) =? n | _ => true end.
Definition is_ptr (t : ty) : bool := match t with TPtr _ => true | _ => false end.

(* which underlying types the serializer accepts under a NAMED Go type: every
   leaf kind.  asString / asBytes / asBool / asTime / asDuration and (since fix
   d741a8f) toInt64 / toUint64 / toFloat64 go by the value's Kind or
   convertibility, as the schema derivation and the decoder do; the decoder
   converts into a named time / duration field type. *)
Definition named_enc_ok (t : ty) : bool :=
  match t with
  | TPtr _ | TList _ | TMap _ _ | TStruct _ | TNamed _ _ => false
  | _ => true
  end.
(* before d741a8f: toInt64 / toUint64 / toFloat64 and the BOOL / BINARY cases
   switched on the exact Go type and refused a named integer / float / bool and
   a named []byte in a plain binary column; a named time / duration field was
   written but could not be set on decode *)
Definition named_enc_ok_legacy (t : ty) : bool :=
  match t with
  | TStr _ | TDec | TDate | TTs _ _ | TTime | TDur => true
  | TBin BBin => false
  | TBin _ => true
  | _ => false
  end.
Definition named_dec_ok_legacy (t : ty) : bool :=
  match t with TDate | TTs _ _ | TTime | TDur => false | _ => true end.

Fixpoint enc (t : ty) (x : gv) {struct t} : option wv :=
  match t, x with
  | TInt g a, GInt z => Some (WInt (enc_int g a z))
  | TFlt _, GFlt b => Some (WFlt b)
  | TBool, GBool b => Some (WBool b)
  | TStr _, GBytes _ b => Some (WBytes b)
  | TBin k, GBytes _ b => if fix_ok k b then Some (WBytes b) else None
  | TDate, GTime s _ => Some (WInt (enc_date s))
  | TTs u _, GTime s n => Some (WInt (enc_ts u s n))
  | TTime, GTime s n => Some (WInt (enc_time s n))
  | TDur, GDur n => Some (WInt (enc_dur n))
  | TDec, GBytes _ b => option_map WInt (parse_dec b)
  | TNamed _ t', _ => if named_enc_ok t' then enc t' x else None   (* the method set is not consulted *)
  | TPtr _, GNil => Some WNull
  | TPtr t', GPtr v => enc t' v
  | TList t', GList _ l => option_map WList (mapM (enc t') l)
  | TMap k v, GMap _ l => option_map WMap (mapM (pairM (enc k) (enc v)) l)
  | TStruct fs, GStruct l => option_map WStruct (zipM enc fs l)
  | _, _ => None
  end.

(* the Go zero value a field keeps when its column is null (decoded nil and
   empty collections are rendered alike by the harness: nilp = false) *)
Fixpoint zero (t : ty) : gv :=
  match t with
  | TInt _ _ => GInt 0 | TFlt _ => GFlt 0 | TBool => GBool false
  | TStr _ => GBytes false [] | TBin _ => GBytes false [] | TDec => GBytes false []
  | TDate | TTs _ _ | TTime => GTime (-62135596800) 0     (* time.Time{} *)
  | TDur => GDur 0
  | TPtr _ => GNil
  | TList _ => GList false [] | TMap _ _ => GMap false []
  | TStruct fs => GStruct (map zero fs)
  | TNamed _ t' => zero t'
  end.

(* what a slot that IS null yields when the reader does not look at the validity
   bit (setMapField items BEFORE fix 6a47532): the builders fill null slots with
   zero / empty.  Used only by the legacy model below. *)
Fixpoint blind (t : ty) : gv :=
  match t with
  | TInt _ _ => GInt 0 | TFlt _ => GFlt 0 | TBool => GBool false
  | TStr _ => GBytes false [] | TBin _ => GBytes false [] | TDec => GBytes false (fmt_dec 0)
  | TDate | TTs _ _ | TTime => GTime 0 0
  | TDur => GDur 0
  | TPtr t' => GPtr (blind t')
  | TList _ => GList false [] | TMap _ _ => GMap false []
  | TStruct fs => GStruct (map zero fs)
  | TNamed _ t' => blind t'
  end.

Definition tm (p : Z * Z) : gv := GTime (fst p) (snd p).

(* reading one slot of a column: [dflt] says what a null slot yields *)
Definition slot (dflt : ty -> gv) (dec : ty -> wv -> option gv) (t : ty) (w : wv) : option gv :=
  match w with WNull => Some (dflt t) | _ => dec t w end.

Fixpoint dec (t : ty) (w : wv) {struct t} : option gv :=
  match t, w with
  | TInt g a, WInt z => Some (GInt (dec_int g a z))
  | TFlt _, WFlt b => Some (GFlt b)
  | TBool, WBool b => Some (GBool b)
  | TStr _, WBytes b => Some (GBytes false b)
  | TBin _, WBytes b => Some (GBytes false b)
  | TDate, WInt d => Some (tm (dec_date d))
  | TTs u _, WInt v => Some (tm (dec_ts u v))
  | TTime, WInt v => Some (tm (dec_time v))
  | TDur, WInt v => Some (GDur (dec_dur v))
  | TDec, WInt n => Some (GBytes false (fmt_dec n))
  | TNamed _ t', _ => dec t' w       (* reflect.SetString / SetInt / SetBytes work on the Kind *)
  | TPtr _, WNull => Some GNil
  | TPtr t', w' => option_map GPtr (dec t' w')
  | TList t', WList l =>
      (* setListField: a null element leaves the slot at its zero value *)
      option_map (GList false) (mapM (slot zero dec t') l)
  | TMap k v, WMap l =>
      (* setMapField: a null item leaves the zero value (fix 6a47532); keys cannot be null *)
      option_map (GMap false) (mapM (pairM (dec k) (slot zero dec v)) l)
  | TStruct fs, WStruct l =>
      (* setStructField / deserializeParams: a null child leaves the zero value *)
      option_map GStruct (zipM (slot zero dec) fs l)
  | _, _ => None
  end.

(* pre-d741a8f behaviour for a field of a named type *)
Definition enc_named_legacy (t : ty) (x : gv) : option wv :=
  if named_enc_ok_legacy t then enc t x else None.
Definition dec_named_legacy (t : ty) (w : wv) : option gv :=
  if named_dec_ok_legacy t then dec t w else None.

(* pre-fix setMapField: the item's validity bit is not consulted *)
Definition dec_map_legacy (k v : ty) (w : wv) : option gv :=
  match w with
  | WMap l => option_map (GMap false) (mapM (pairM (dec k) (slot blind dec v)) l)
  | _ => None
  end.

(* ---- documented precision / nil ~ empty: the normal form of a Go value ---- *)
Fixpoint trunc (t : ty) (x : gv) {struct t} : gv :=
  match t, x with
  | TStr _, GBytes _ b => GBytes false b
  | TBin _, GBytes _ b => GBytes false b
  | TDec, GBytes _ b => match parse_dec b with Some n => GBytes false (fmt_dec n) | None => x end
  | TDate, GTime s _ => GTime (s / DAY * DAY) 0
  | TTs u _, GTime s n => GTime s (ts_trunc u n)
  | TTime, GTime s n => GTime (s mod DAY) (n / E3 * E3)
  | TDur, GDur n => GDur (Z.quot n E3 * E3)
  | TNamed _ t', _ => trunc t' x
  | TPtr t', GPtr v => GPtr (trunc t' v)
  | TList t', GList _ l => GList false (map (trunc t') l)
  | TMap k v, GMap _ l => GMap false (map (fun p => (trunc k (fst p), trunc v (snd p))) l)
  | TStruct fs, GStruct l => GStruct (zip_map trunc fs l)
  | _, _ => x
  end.

(* ---- which Go values are representable in the field's wire type ---------- *)
Definition time_ok (s n : Z) : bool := (0 <=? n) && (n <? E9).
Fixpoint val_ok (t : ty) (x : gv) {struct t} : bool :=
  match t, x with
  | TInt g a, GInt z => irange g z && irange a z
  | TFlt is64, GFlt b => (0 <=? b) && (b <? 2 ^ (if is64 then 64 else 32))
  | TBool, GBool _ => true
  | TStr _, GBytes np _ => negb np
  | TBin k, GBytes _ b => fix_ok k b
  | TDec, GBytes np b => negb np && match parse_dec b with Some _ => true | None => false end
  | TDate, GTime s n => time_ok s n && in32 (s / DAY)
  | TTs u _, GTime s n => time_ok s n && in64 (ts_raw u s n)
  | TTime, GTime s n => time_ok s n
  | TDur, GDur n => in64 n
  | TNamed _ t', _ => val_ok t' x
  | TPtr _, GNil => true
  | TPtr t', GPtr v => val_ok t' v
  | TList t', GList _ l => forallb (val_ok t') l
  | TMap k v, GMap _ l => forallb (fun p => val_ok k (fst p) && val_ok v (snd p)) l
  | TStruct fs, GStruct l => zip_all val_ok fs l
  | _, _ => false
  end.

(* which wire values are in the field's wire domain (and, for integers carried
   in a wider Arrow type than the Go field, inside the Go field) *)
Fixpoint wire_ok (t : ty) (w : wv) {struct t} : bool :=
  match t, w with
  | TInt g a, WInt z => irange g z && irange a z
  | TFlt is64, WFlt b => (0 <=? b) && (b <? 2 ^ (if is64 then 64 else 32))
  | TBool, WBool _ => true
  | TStr _, WBytes _ => true
  | TBin k, WBytes b => fix_ok k b
  | TDec, WInt n => dec_fits n
  | TDate, WInt d => in32 d
  | TTs _ _, WInt v => in64 v
  | TTime, WInt v => (0 <=? v) && (v <? DAY * E6)
  | TDur, WInt v => dur_guard v
  | TNamed _ t', _ => wire_ok t' w
  | TPtr _, WNull => true
  | TPtr t', w' => wire_ok t' w'
  | TList t', WList l => forallb (wire_ok t') l
  | TMap k v, WMap l => forallb (fun p => wire_ok k (fst p) && wire_ok v (snd p)) l
  | TStruct fs, WStruct l => zip_all wire_ok fs l
  | _, _ => false
  end.

(* field types on which the theorems hold: no pointer to pointer (list elements,
   struct children and map items are nullable through ONE pointer), no nullable
   map key, fixed-size binaries of positive width.  All four timestamp units.
   Named types (with any method set) over every leaf kind. *)
Fixpoint ty_ok (t : ty) : bool :=
  match t with
  | TBin (BFix n) => 0 <? n
  | TPtr t' => negb (is_ptr t') && ty_ok t'
  | TList t' => ty_ok t'
  | TMap k v => negb (is_ptr k) && ty_ok k && ty_ok v
  | TStruct fs => forallb ty_ok fs
  | TNamed _ t' => named_enc_ok t' && ty_ok t'
  | _ => true
  end.

(* ---- derived Arrow schema (goTypeToArrowTypeAt) -------------------------- *)
Inductive aty :=
| AInt (k : ity) | AF64 | AF32 | ABool | AUtf8 | ALUtf8 | ADict | ABin | ALBin | AFix (n : Z)
| ADate32 | ATs (u : tunit) (utc : bool) | ATime64us | ADurUs | ADec (p s : Z)
| AList (e : aty) | AMap (k v : aty) | AStruct (fs : list (aty * bool)).   (* bool = nullable *)

Fixpoint arrow_of (t : ty) : aty :=
  match t with
  | TInt _ a => AInt a
  | TFlt true => AF64 | TFlt false => AF32 | TBool => ABool
  | TStr SUtf8 => AUtf8 | TStr SLarge => ALUtf8 | TStr SEnum => ADict
  | TBin BBin => ABin | TBin BLarge => ALBin | TBin (BFix n) => AFix n
  | TDate => ADate32 | TTs u z => ATs u z | TTime => ATime64us | TDur => ADurUs
  | TDec => ADec c08_dec_precision c08_dec_scale
  | TPtr t' => arrow_of t'
  | TList t' => AList (arrow_of t')
  | TMap k v => AMap (arrow_of k) (arrow_of v)
  | TStruct fs => AStruct (map (fun f => (arrow_of f, is_ptr f)) fs)
  | TNamed _ t' => arrow_of t'
  end.

(* ---- decidable equalities ------------------------------------------------ *)
Fixpoint gv_eqb (a b : gv) {struct a} : bool :=
  match a, b with
  | GInt x, GInt y | GFlt x, GFlt y | GDur x, GDur y => x =? y
  | GBool x, GBool y => Bool.eqb x y
  | GBytes n x, GBytes m y => Bool.eqb n m && beqb x y
  | GTime s n, GTime s' n' => (s =? s') && (n =? n')
  | GNil, GNil => true
  | GPtr x, GPtr y => gv_eqb x y
  | GList n x, GList m y => Bool.eqb n m && leqb gv_eqb x y
  | GMap n x, GMap m y =>
      Bool.eqb n m && leqb (fun p q => gv_eqb (fst p) (fst q) && gv_eqb (snd p) (snd q)) x y
  | GStruct x, GStruct y => leqb gv_eqb x y
  | _, _ => false
  end.

Fixpoint wv_eqb (a b : wv) {struct a} : bool :=
  match a, b with
  | WInt x, WInt y | WFlt x, WFlt y => x =? y
  | WBool x, WBool y => Bool.eqb x y
  | WBytes x, WBytes y => beqb x y
  | WNull, WNull => true
  | WList x, WList y | WStruct x, WStruct y => leqb wv_eqb x y
  | WMap x, WMap y => leqb (fun p q => wv_eqb (fst p) (fst q) && wv_eqb (snd p) (snd q)) x y
  | _, _ => false
  end.

Definition tunit_eqb (a b : tunit) : bool :=
  match a, b with USec, USec | UMilli, UMilli | UMicro, UMicro | UNano, UNano => true | _, _ => false end.
Definition ity_eqb (a b : ity) : bool :=
  (ibits a =? ibits b) && Bool.eqb (isigned a) (isigned b).
Fixpoint aty_eqb (a b : aty) {struct a} : bool :=
  match a, b with
  | AInt x, AInt y => ity_eqb x y
  | AF64, AF64 | AF32, AF32 | ABool, ABool | AUtf8, AUtf8 | ALUtf8, ALUtf8 | ADict, ADict
  | ABin, ABin | ALBin, ALBin | ADate32, ADate32 | ATime64us, ATime64us | ADurUs, ADurUs => true
  | AFix n, AFix m => n =? m
  | ATs u z, ATs u' z' => tunit_eqb u u' && Bool.eqb z z'
  | ADec p s, ADec p' s' => (p =? p') && (s =? s')
  | AList x, AList y => aty_eqb x y
  | AMap k v, AMap k' v' => aty_eqb k k' && aty_eqb v v'
  | AStruct x, AStruct y => leqb (fun p q => aty_eqb (fst p) (fst q) && Bool.eqb (snd p) (snd q)) x y
  | _, _ => false
  end.

(* ---- correspondence interface ------------------------------------------- *)
Inductive input :=
| G2W (t : ty) (x : gv)        (* serialize a Go value, read the wire, decode it back *)
| W2G (t : ty) (w : wv).       (* decode a hand-built wire value, serialize it again *)

Record obs := {
  o_wire : option wv;          (* G2W: what the serializer wrote; W2G: what re-serializing wrote *)
  o_go : option gv;            (* the decoded Go value *)
  o_schema : aty;              (* schema derived on the first call ... *)
  o_schema2 : aty;             (* ... on a later call (memoised), and by a fresh uncached walk *)
  o_schema3 : aty }.

Definition model (i : input) : obs :=
  match i with
  | G2W t x => let w := enc t x in
      {| o_wire := w; o_go := obind (dec t) w;
         o_schema := arrow_of t; o_schema2 := arrow_of t; o_schema3 := arrow_of t |}
  | W2G t w => let x := dec t w in
      {| o_wire := obind (enc t) x; o_go := x;
         o_schema := arrow_of t; o_schema2 := arrow_of t; o_schema3 := arrow_of t |}
  end.

Definition obs_eqb (a b : obs) : bool :=
  opt_eqb wv_eqb (o_wire a) (o_wire b) && opt_eqb gv_eqb (o_go a) (o_go b)
  && aty_eqb (o_schema a) (o_schema b) && aty_eqb (o_schema2 a) (o_schema2 b)
  && aty_eqb (o_schema3 a) (o_schema3 b).

(* The property on one observation.  G2W: a value representable in the field's
   wire type comes back as its normal form (documented precision, nil ~ empty),
   and the schema is the same on every derivation.  W2G: a value of the wire domain is re-serialized to
   itself.  Deliberately NOT restricted to ty_ok. *)
Definition spec_ok (i : input) (o : obs) : bool :=
  aty_eqb (o_schema o) (o_schema2 o) && aty_eqb (o_schema o) (o_schema3 o) &&
  match i with
  | G2W t x =>
      if val_ok t x then
        opt_eqb gv_eqb (o_go o) (Some (trunc t x))
      else true
  | W2G t w =>
      if wire_ok t w then opt_eqb wv_eqb (o_wire o) (Some w) else true
  end.

Definition input_ty (i : input) : ty := match i with G2W t _ | W2G t _ => t end.
Definition input_ok (i : input) : bool := ty_ok (input_ty i).
