(* Model/C40.v — concurrent serving: the lazy transport binding of
   vgirpc/server.go (notifyTransport, two mutexes) and the sync.Once cells that
   guard the protocol hash, the HTML pages and the health body.

   Part 1, notifyTransport.  N request threads; thread t calls
   notifyTransport(kind_t, caps_t) and, when that returns nil, reads
   Server.TransportKind() (what the dispatch path puts into CallContext.Kind).
   One atomic step per critical section of the Go code (pc of the thread in
   brackets):

     [PStart]      s.transportNotifyMu.Lock()      enabled only while the gate
                                                   is free: a second caller
                                                   BLOCKS here while the first
                                                   is anywhere up to its return
     [PCheck]      s.transportMu section 1: compare (transportKind, caps) with
                   the request; equal -> return nil (fast path, no hook);
                   otherwise read s.serveStartHook: non-nil -> call it,
                   nil -> go straight to the commit
     [PHookEnter]  the hook starts (run number = hooks started so far; its
                   outcome is the script entry of that run number).  What the
                   hook sees when it calls Server.TransportKind() (another
                   transportMu section; nobody can write the binding meanwhile
                   because writers need the gate) is recorded
     [PInHook ok]  the hook returns: error -> log, return err WITHOUT touching
                   the binding; nil -> commit
     [PCommit]     s.transportMu section 2: transportKind/caps := request
     [PRelease r]  deferred s.transportNotifyMu.Unlock(), return r
     [PRead]       (after nil) Server.TransportKind(): transportMu section
     [PDone r]

   A binding is (kind id, capability-set id); (0,0) is the zero value the
   Server starts with (kind = empty string, caps = nil).  [step] is partial:
   None = the thread cannot move (blocked on the gate, finished, or no such
   thread); a schedule is an arbitrary list of [Th t | Peek] items and a
   disabled step is skipped ([exec]).  Peek is an outside observer calling
   Server.TransportKind().

   The correspondence input is a coarser list of driver events (what a harness
   can force from outside by gating the hook): [Go t] runs thread t from PStart
   until it blocks, parks inside the hook, or finishes; [Release] lets the
   parked hook return and runs its thread to the end; [Peek].  Both are defined
   with the same [step], so every coarse run is a fine run (Proofs: coarse_is_fine).

   Part 2, Once cells: sync.Once.Do(f) as enter / finish steps, a second caller
   blocks while f runs; each thread would compute its own candidate value. *)
From Coq Require Import List NArith Bool Arith.
From VR Require Export Lib.Bytes Gen.Consts.
Import ListNotations.
Open Scope N_scope.

(* ====================================================================== *)
(* Part 1: notifyTransport                                                 *)
(* ====================================================================== *)

Definition binding := (N * N)%type.
Definition unbound : binding := (0, 0).
Definition bind_eqb (a b : binding) : bool := (fst a =? fst b) && (snd a =? snd b).

Inductive res := ROk | RErr.

Inductive pc :=
| PStart | PCheck | PHookEnter | PInHook (ok : bool) | PCommit
| PRelease (r : res) | PRead | PDone (r : res).

Record hookrun := { h_tid : nat; h_bind : binding; h_seen : binding; h_overlap : bool }.

Record cfg := {
  c_hook : bool;               (* a ServeStartHook is registered *)
  c_binds : list binding;      (* per thread: the (kind, caps) it announces *)
  c_outcomes : list bool       (* per hook run number: returns nil?  (default nil) *)
}.

Definition nthreads (c : cfg) : nat := length (c_binds c).
Definition bind_of (c : cfg) (t : nat) : binding := nth t (c_binds c) unbound.

(* histories are newest-first *)
Record state := {
  s_bound : binding;                       (* transportKind, transportCapabilities *)
  s_gate : option nat;                     (* holder of transportNotifyMu *)
  s_inhook : nat;                          (* hook executions in progress *)
  s_runs : list hookrun;                   (* hook entries *)
  s_outs : list (nat * bool);              (* hook returns: thread, nil? *)
  s_commits : list (binding * binding);    (* stores to the binding: (old, new) *)
  s_pcs : nat -> pc;
  s_reads : list (nat * binding);          (* thread's own TransportKind() after nil *)
  s_peeks : list binding
}.

Definition init : state :=
  {| s_bound := unbound; s_gate := None; s_inhook := 0; s_runs := []; s_outs := [];
     s_commits := []; s_pcs := fun _ => PStart; s_reads := []; s_peeks := [] |}.

Definition upd (f : nat -> pc) (t : nat) (v : pc) : nat -> pc :=
  fun x => if Nat.eqb x t then v else f x.

Definition set_pc (s : state) (t : nat) (v : pc) : state :=
  {| s_bound := s_bound s; s_gate := s_gate s; s_inhook := s_inhook s; s_runs := s_runs s;
     s_outs := s_outs s; s_commits := s_commits s; s_pcs := upd (s_pcs s) t v;
     s_reads := s_reads s; s_peeks := s_peeks s |}.

Definition step (c : cfg) (s : state) (t : nat) : option state :=
  if negb (Nat.ltb t (nthreads c)) then None else
  let b := bind_of c t in
  match s_pcs s t with
  | PStart =>
      match s_gate s with
      | Some _ => None
      | None => Some {| s_bound := s_bound s; s_gate := Some t; s_inhook := s_inhook s;
                        s_runs := s_runs s; s_outs := s_outs s; s_commits := s_commits s;
                        s_pcs := upd (s_pcs s) t PCheck; s_reads := s_reads s; s_peeks := s_peeks s |}
      end
  | PCheck =>
      Some (set_pc s t (if bind_eqb (s_bound s) b then PRelease ROk
                        else if c_hook c then PHookEnter else PCommit))
  | PHookEnter =>
      let ok := nth (length (s_runs s)) (c_outcomes c) true in
      Some {| s_bound := s_bound s; s_gate := s_gate s; s_inhook := S (s_inhook s);
              s_runs := {| h_tid := t; h_bind := b; h_seen := s_bound s;
                           h_overlap := negb (Nat.eqb (s_inhook s) 0) |} :: s_runs s;
              s_outs := s_outs s; s_commits := s_commits s;
              s_pcs := upd (s_pcs s) t (PInHook ok); s_reads := s_reads s; s_peeks := s_peeks s |}
  | PInHook ok =>
      Some {| s_bound := s_bound s; s_gate := s_gate s; s_inhook := pred (s_inhook s);
              s_runs := s_runs s; s_outs := (t, ok) :: s_outs s; s_commits := s_commits s;
              s_pcs := upd (s_pcs s) t (if ok then PCommit else PRelease RErr);
              s_reads := s_reads s; s_peeks := s_peeks s |}
  | PCommit =>
      Some {| s_bound := b; s_gate := s_gate s; s_inhook := s_inhook s; s_runs := s_runs s;
              s_outs := s_outs s; s_commits := (s_bound s, b) :: s_commits s;
              s_pcs := upd (s_pcs s) t (PRelease ROk); s_reads := s_reads s; s_peeks := s_peeks s |}
  | PRelease r =>
      Some {| s_bound := s_bound s; s_gate := None; s_inhook := s_inhook s; s_runs := s_runs s;
              s_outs := s_outs s; s_commits := s_commits s;
              s_pcs := upd (s_pcs s) t (match r with ROk => PRead | RErr => PDone RErr end);
              s_reads := s_reads s; s_peeks := s_peeks s |}
  | PRead =>
      Some {| s_bound := s_bound s; s_gate := s_gate s; s_inhook := s_inhook s; s_runs := s_runs s;
              s_outs := s_outs s; s_commits := s_commits s;
              s_pcs := upd (s_pcs s) t (PDone ROk); s_reads := (t, s_bound s) :: s_reads s;
              s_peeks := s_peeks s |}
  | PDone _ => None
  end.

Definition peek (s : state) : state :=
  {| s_bound := s_bound s; s_gate := s_gate s; s_inhook := s_inhook s; s_runs := s_runs s;
     s_outs := s_outs s; s_commits := s_commits s; s_pcs := s_pcs s; s_reads := s_reads s;
     s_peeks := s_bound s :: s_peeks s |}.

Inductive item := Th (t : nat) | Peek.

Definition exec (c : cfg) (s : state) (i : item) : state :=
  match i with
  | Th t => match step c s t with Some s' => s' | None => s end
  | Peek => peek s
  end.

Definition run (c : cfg) (sched : list item) (s : state) : state := fold_left (exec c) sched s.

(* ---- coarse driver events --------------------------------------------- *)
Definition is_inhook (p : pc) : bool := match p with PInHook _ => true | _ => false end.
Definition is_start (p : pc) : bool := match p with PStart => true | _ => false end.

(* run thread t until it cannot move or is parked inside the hook *)
Fixpoint burst (c : cfg) (fuel : nat) (t : nat) (s : state) : state :=
  match fuel with
  | O => s
  | S f => match step c s t with
           | None => s
           | Some s' => if is_inhook (s_pcs s' t) then s' else burst c f t s'
           end
  end.

Definition burst_fuel : nat := 10.

Inductive ev := Go (t : nat) | Release | EPeek.

Definition do_ev (c : cfg) (s : state) (e : ev) : state :=
  match e with
  | Go t => if is_start (s_pcs s t) then burst c burst_fuel t s else s
  | Release =>
      match s_gate s with
      | Some t => if is_inhook (s_pcs s t) then burst c burst_fuel t s else s
      | None => s
      end
  | EPeek => peek s
  end.

Definition run_evs (c : cfg) (evs : list ev) (s : state) : state := fold_left (do_ev c) evs s.

(* ---- projections -------------------------------------------------------- *)
Inductive tres := TNone | TErr | TOk (v : option binding).

Definition read_of (s : state) (t : nat) : option binding :=
  match find (fun p => Nat.eqb (fst p) t) (s_reads s) with Some p => Some (snd p) | None => None end.

Definition tres_of (s : state) (t : nat) : tres :=
  match s_pcs s t with
  | PRead => TOk None
  | PDone ROk => TOk (read_of s t)
  | PDone RErr => TErr
  | _ => TNone
  end.

Definition run_tuple (h : hookrun) : nat * binding * binding * bool :=
  (h_tid h, h_bind h, h_seen h, h_overlap h).

(* ====================================================================== *)
(* Part 2: Once cells                                                      *)
(* ====================================================================== *)
Inductive opc := OStart | OComputing | ODone (v : N).

Record ostate := {
  o_val : option N;        (* the cached field, once done *)
  o_running : bool;        (* some thread is inside f *)
  o_count : nat;           (* how many times f was started *)
  o_pcs : nat -> opc
}.

Definition oinit : ostate := {| o_val := None; o_running := false; o_count := 0; o_pcs := fun _ => OStart |}.

Definition oupd (f : nat -> opc) (t : nat) (v : opc) : nat -> opc :=
  fun x => if Nat.eqb x t then v else f x.

(* cands: the value thread t's execution of f would produce *)
Definition ostep (cands : list N) (s : ostate) (t : nat) : option ostate :=
  if negb (Nat.ltb t (length cands)) then None else
  match o_pcs s t with
  | OStart =>
      match o_val s with
      | Some v => Some {| o_val := o_val s; o_running := o_running s; o_count := o_count s;
                          o_pcs := oupd (o_pcs s) t (ODone v) |}
      | None => if o_running s then None
                else Some {| o_val := None; o_running := true; o_count := S (o_count s);
                             o_pcs := oupd (o_pcs s) t OComputing |}
      end
  | OComputing =>
      let v := nth t cands 0 in
      Some {| o_val := Some v; o_running := false; o_count := o_count s;
              o_pcs := oupd (o_pcs s) t (ODone v) |}
  | ODone _ => None
  end.

Definition oexec (cands : list N) (s : ostate) (t : nat) : ostate :=
  match ostep cands s t with Some s' => s' | None => s end.
Definition orun (cands : list N) (sched : list nat) (s : ostate) : ostate :=
  fold_left (oexec cands) sched s.

Definition oread (s : ostate) (t : nat) : option N :=
  match o_pcs s t with ODone v => Some v | _ => None end.

(* coarse events for a gated f: Go t = call Do (enters f and parks there,
   blocks, or returns with the cached value); ORelease = the parked f returns *)
Inductive oev := OGo (t : nat) | ORelease.
Definition is_ostart (p : opc) : bool := match p with OStart => true | _ => false end.
Definition is_ocomp (p : opc) : bool := match p with OComputing => true | _ => false end.

Fixpoint find_comp (s : ostate) (n : nat) : option nat :=
  match n with
  | O => None
  | S k => if is_ocomp (o_pcs s k) then Some k else find_comp s k
  end.

Definition do_oev (cands : list N) (s : ostate) (e : oev) : ostate :=
  match e with
  | OGo t => if is_ostart (o_pcs s t) then oexec cands s t else s
  | ORelease => match find_comp s (length cands) with Some t => oexec cands s t | None => s end
  end.
Definition run_oevs (cands : list N) (evs : list oev) (s : ostate) : ostate :=
  fold_left (do_oev cands) evs s.

(* ====================================================================== *)
(* Part 3: the pooled codec writers (http_compression.go)                  *)
(* ====================================================================== *)
(* One sync.Pool per (codec, level).  A response checks an encoder out for the
   duration of compressResponseWriter.finish (newCompressWriter: pool.Get, or
   New when the pool is empty) and pooledCodecWriter.Close hands it back with
   exactly one pool.Put, whether or not the codec's final flush succeeded.
   Requests are numbers; encoders are numbers (p_next = encoders created so
   far).  [dbl] is the seeded variant in which a FAILING Close puts the encoder
   back twice (explicit Close + deferred Close); the code is [dbl = false].
   sync.Pool may also drop entries at any time, which only shrinks p_pool. *)
Inductive cop := CGet (r : nat) | CPut (r : nat) (fail : bool).

Record pstate := { p_pool : list nat; p_next : nat; p_held : list (nat * nat) (* request, encoder *) }.
Definition pinit : pstate := {| p_pool := []; p_next := 0; p_held := [] |}.

Fixpoint take_req (r : nat) (h : list (nat * nat)) : option (nat * list (nat * nat)) :=
  match h with
  | [] => None
  | (r', e) :: t =>
      if Nat.eqb r' r then Some (e, t)
      else match take_req r t with
           | Some (e', t') => Some (e', (r', e) :: t')
           | None => None
           end
  end.

Definition pstep (dbl : bool) (s : pstate) (o : cop) : pstate :=
  match o with
  | CGet r =>
      match take_req r (p_held s) with
      | Some _ => s
      | None =>
          match p_pool s with
          | e :: p => {| p_pool := p; p_next := p_next s; p_held := (r, e) :: p_held s |}
          | [] => {| p_pool := []; p_next := S (p_next s); p_held := (r, p_next s) :: p_held s |}
          end
      end
  | CPut r fail =>
      match take_req r (p_held s) with
      | None => s
      | Some (e, rest) =>
          {| p_pool := (if dbl && fail then [e; e] else [e]) ++ p_pool s;
             p_next := p_next s; p_held := rest |}
      end
  end.

Definition prun (dbl : bool) (ops : list cop) (s : pstate) : pstate := fold_left (pstep dbl) ops s.

Fixpoint nodupb (l : list nat) : bool :=
  match l with
  | [] => true
  | x :: t => negb (existsb (Nat.eqb x) t) && nodupb t
  end.

(* a history of HTTP responses against one server: codec 0 = gzip, else zstd *)
Inductive hop :=
| HAbort (codec : N) (after : N)           (* the client's writer fails after [after] bytes *)
| HPlain (codec : N) (x : N)               (* one response, alone; payload x *)
| HOverlap (codec : N) (xs : list N).      (* all in flight at once: the first is a slow reader *)

Inductive resp := ROwn (v : N) | RBad | RStuck.

Record hstate := { hs_gz : pstate; hs_zs : pstate; hs_req : nat }.
Definition hs_pool (codec : N) (s : hstate) : pstate := if codec =? 0 then hs_gz s else hs_zs s.
Definition hs_set (codec : N) (s : hstate) (p : pstate) (req : nat) : hstate :=
  if codec =? 0 then {| hs_gz := p; hs_zs := hs_zs s; hs_req := req |}
  else {| hs_gz := hs_gz s; hs_zs := p; hs_req := req |}.

Definition hstep (dbl : bool) (s : hstate) (o : hop) : hstate * list resp :=
  let r := hs_req s in
  match o with
  | HAbort codec _ =>
      (hs_set codec s (prun dbl [CGet r; CPut r true] (hs_pool codec s)) (S r), [])
  | HPlain codec x =>
      (hs_set codec s (prun dbl [CGet r; CPut r false] (hs_pool codec s)) (S r), [ROwn x])
  | HOverlap codec xs =>
      let rs := seq r (length xs) in
      let p1 := prun dbl (map CGet rs) (hs_pool codec s) in
      (* every response in flight must hold its own encoder *)
      let ok := nodupb (map snd (p_held p1)) in
      let p2 := prun dbl (map (fun q => CPut q false) rs) p1 in
      (hs_set codec s p2 (r + length xs)%nat, map (fun x => if ok then ROwn x else RBad) xs)
  end.

Fixpoint hrun (dbl : bool) (s : hstate) (h : list hop) : list (list resp) :=
  match h with
  | [] => []
  | o :: t => let '(s', out) := hstep dbl s o in out :: hrun dbl s' t
  end.

Definition hinit : hstate := {| hs_gz := pinit; hs_zs := pinit; hs_req := 0 |}.

(* ====================================================================== *)
(* correspondence interface                                                *)
(* ====================================================================== *)
Inductive input :=
| Notify (c : cfg) (evs : list ev)
| OnceRun (cands : list N) (evs : list oev)
  (* free-running readers of the real Once-guarded values; nreaders goroutines *)
| OnceFree (nreaders : N)
  (* race-detector run: goroutines x rounds of mixed traffic *)
| Race (goroutines rounds : N)
  (* a history of compressed responses, some aborted by the client, some overlapping *)
| Codec (level : N) (hist : list hop).

Inductive obs :=
| ONotify (runs : list (nat * binding * binding * bool))  (* hook entries, oldest first *)
          (outs : list (nat * bool))                       (* hook returns, oldest first *)
          (results : list tres)                            (* per thread *)
          (peeks : list binding)                           (* oldest first *)
          (final : binding)
          (stuck : bool)   (* the harness watchdog fired: some caller neither returned, parked nor blocked *)
| OOnce (count : N) (reads : list (option N)) (cached : option N) (stuck : bool)
| OOnceFree (readers distinct faults : N) (refmatch : bool)
| ORace (built : bool) (races errors : N)
| OCodec (resps : list (list resp)).

Definition model (i : input) : obs :=
  match i with
  | Notify c evs =>
      let s := run_evs c evs init in
      ONotify (rev (map run_tuple (s_runs s))) (rev (s_outs s))
              (map (tres_of s) (seq 0 (nthreads c))) (rev (s_peeks s)) (s_bound s) false
  | OnceRun cands evs =>
      let s := run_oevs cands evs oinit in
      OOnce (N.of_nat (o_count s)) (map (oread s) (seq 0 (length cands))) (o_val s) false
  | OnceFree n => OOnceFree n 1 0 true
  | Race _ _ => ORace true 0 0
  | Codec _ hist => OCodec (hrun false hinit hist)
  end.

Definition run_eqb (a b : nat * binding * binding * bool) : bool :=
  let '(t1, b1, s1, o1) := a in let '(t2, b2, s2, o2) := b in
  Nat.eqb t1 t2 && bind_eqb b1 b2 && bind_eqb s1 s2 && Bool.eqb o1 o2.
Definition out_eqb (a b : nat * bool) : bool := Nat.eqb (fst a) (fst b) && Bool.eqb (snd a) (snd b).
Definition tres_eqb (a b : tres) : bool :=
  match a, b with
  | TNone, TNone => true
  | TErr, TErr => true
  | TOk x, TOk y => opt_eqb bind_eqb x y
  | _, _ => false
  end.

Definition resp_eqb (a b : resp) : bool :=
  match a, b with
  | ROwn x, ROwn y => x =? y
  | RBad, RBad => true
  | RStuck, RStuck => true
  | _, _ => false
  end.

Definition obs_eqb (a b : obs) : bool :=
  match a, b with
  | ONotify r1 o1 t1 p1 f1 k1, ONotify r2 o2 t2 p2 f2 k2 =>
      list_eqb run_eqb r1 r2 && list_eqb out_eqb o1 o2 && list_eqb tres_eqb t1 t2
      && list_eqb bind_eqb p1 p2 && bind_eqb f1 f2 && Bool.eqb k1 k2
  | OOnce c1 r1 v1 k1, OOnce c2 r2 v2 k2 =>
      (c1 =? c2) && list_eqb (opt_eqb N.eqb) r1 r2 && opt_eqb N.eqb v1 v2 && Bool.eqb k1 k2
  | OOnceFree n1 d1 f1 m1, OOnceFree n2 d2 f2 m2 =>
      (n1 =? n2) && (d1 =? d2) && (f1 =? f2) && Bool.eqb m1 m2
  | ORace b1 r1 e1, ORace b2 r2 e2 => Bool.eqb b1 b2 && (r1 =? r2) && (e1 =? e2)
  | OCodec a1, OCodec a2 => list_eqb (list_eqb resp_eqb) a1 a2
  | _, _ => false
  end.

(* ---- the property, decided on one observation -------------------------- *)
Definition mem_bind (b : binding) (l : list binding) : bool := existsb (bind_eqb b) l.

(* bindings for which a hook run returned nil *)
Definition ok_binds (c : cfg) (outs : list (nat * bool)) : list binding :=
  map (fun p => bind_of c (fst p)) (filter (fun p => snd p) outs).

(* bindings a reader may legitimately see: the zero value, or one whose hook
   succeeded (with a hook) / one that some thread announced (without) *)
Definition visible (c : cfg) (outs : list (nat * bool)) (v : binding) : bool :=
  bind_eqb v unbound || (if c_hook c then mem_bind v (ok_binds c outs) else mem_bind v (c_binds c)).

Definition same_binds (c : cfg) : option binding :=
  match c_binds c with
  | [] => None
  | b :: r => if forallb (bind_eqb b) r && negb (bind_eqb b unbound) then Some b else None
  end.

(* oks only at the very end of the (oldest-first) return list *)
Fixpoint ok_only_last (outs : list (nat * bool)) : bool :=
  match outs with
  | [] => true
  | [_] => true
  | p :: r => negb (snd p) && ok_only_last r
  end.

Definition tres_ok (c : cfg) (outs : list (nat * bool)) (t : nat) (r : tres) : bool :=
  let b := bind_of c t in
  match r with
  | TNone => true
  | TErr => c_hook c && existsb (fun p => Nat.eqb (fst p) t && negb (snd p)) outs
  | TOk v =>
      (* success only after a successful hook run for that binding *)
      (bind_eqb b unbound || negb (c_hook c) || mem_bind b (ok_binds c outs))
      && match v with Some x => visible c outs x | None => true end
  end.

Fixpoint tres_all (c : cfg) (outs : list (nat * bool)) (t : nat) (rs : list tres) : bool :=
  match rs with
  | [] => true
  | r :: rest => tres_ok c outs t r && tres_all c outs (S t) rest
  end.

Definition is_tok (r : tres) : bool := match r with TOk _ => true | _ => false end.

Definition notify_spec (c : cfg) (runs : list (nat * binding * binding * bool))
           (outs : list (nat * bool)) (results : list tres) (peeks : list binding)
           (final : binding) : bool :=
  (* hooks never overlap; a hook never sees its own binding committed; the
     hook is only ever called when one is registered, with the caller's binding *)
  forallb (fun r => let '(t, b, seen, ov) := r in
             negb ov && negb (bind_eqb seen b) && bind_eqb b (bind_of c t) && c_hook c
             && visible c outs seen) runs
  && (length outs <=? length runs)%nat && (length runs <=? S (length outs))%nat
  && tres_all c outs 0 results
  && forallb (visible c outs) peeks && visible c outs final
  (* one binding announced by everybody: one successful hook run at most, no
     run after it, every successful caller reads that binding *)
  && match same_binds c with
     | None => true
     | Some b =>
         (if c_hook c then ok_only_last outs else true)
         && forallb (fun r => match r with TOk (Some v) => bind_eqb v b | _ => true end) results
         && (if existsb is_tok results then bind_eqb final b else true)
     end.

Definition once_spec (cands : list N) (count : N) (reads : list (option N)) (cached : option N) : bool :=
  (count <=? 1)
  && forallb (fun r => match r with None => true | Some v => opt_eqb N.eqb cached (Some v) end) reads
  && match cached with None => true | Some v => (count =? 1) && existsb (N.eqb v) cands end.

(* every completed response decodes to its OWN payload; nothing is stuck *)
Definition hop_expect (o : hop) : list N :=
  match o with HAbort _ _ => [] | HPlain _ x => [x] | HOverlap _ xs => xs end.
Definition hop_ok (o : hop) (rs : list resp) : bool :=
  list_eqb resp_eqb rs (map ROwn (hop_expect o)).
Fixpoint codec_spec (h : list hop) (rs : list (list resp)) : bool :=
  match h, rs with
  | [], [] => true
  | o :: h', r :: rs' => hop_ok o r && codec_spec h' rs'
  | _, _ => false
  end.

Definition spec_ok (i : input) (o : obs) : bool :=
  match i, o with
  | Notify c _, ONotify runs outs results peeks final stuck =>
      negb stuck && notify_spec c runs outs results peeks final
  | OnceRun cands _, OOnce count reads cached stuck => negb stuck && once_spec cands count reads cached
  | OnceFree n, OOnceFree n' d f m => (n =? n') && (d =? 1) && (f =? 0) && m
  | Race _ _, ORace built races errors => built && (races =? 0) && (errors =? 0)
  | Codec _ hist, OCodec resps => codec_spec hist resps
  | _, _ => false
  end.
