(* Model/C18.v — request bodies are decoded exactly and never beyond their caps.
   Go: vgirpc/http.go (SetMaxRequestBytes / SetMaxBodySize / SetMaxDecompressedBodySize,
   the ContentLength pre-check of ServeHTTP, isMaxBytesExempt), vgirpc/http_helpers.go
   (readHTTPBody, writeBodyReadError), vgirpc/http_compression.go (decompressBounded,
   DecodeContentEncoding, decodedBodyTooLargeError).

   The codecs are NOT modelled: an [oracle] maps (coding name, wire data) to the
   [stream] the codec library sees in that data: the segments (zstd frames / gzip
   members) with the window memory each needs and the bytes each decodes to, whether
   the data ends cleanly after them, the content size declared in the first zstd
   frame header, and whether a failure is reported together with the last bytes.
   What IS modelled, line by line: cap selection, io.LimitReader(capPlusOne(cap)) as a
   counter (capPlusOne and saturatingMul16 saturate at MaxInt64 since afb7453; the
   wrapping arithmetic of the code before it is kept as [model_wrap]), the order of the checks, the
   decoder's window check at each frame start, the mapping of errors to statuses.
   The executable [model] instantiates the oracle with a finite table supplied per
   case by the harness (computed there with decoders that are not vgirpc's).
   No proofs in this file. *)
From VR Require Export Lib.Strs Gen.Consts.
Open Scope Z_scope.

Definition COMMA : N := 44%N.
Definition zlen (b : bytes) : Z := Z.of_nat (length b).
Definition memb (x : bytes) (l : list bytes) : bool := existsb (beqb x) l.

(* ---- Go int64 ---------------------------------------------------------------- *)
Definition two63 : Z := 9223372036854775808.
Definition two64 : Z := 18446744073709551616.
Definition max64 : Z := two63 - 1.
Definition wrap64 (z : Z) : Z := (z + two63) mod two64 - two63.

(* ---- deterministic payload bytes (the harness has the same generator) -------- *)
Definition patbyte (s i : Z) : N :=
  Z.to_N (if Z.even s then (s + i mod 7) mod 256
          else ((i + s) * (i + s + 3) / 8 + i / 5) mod 256).
Fixpoint pat_from (s off : Z) (n : nat) : bytes :=
  match n with O => [] | S k => patbyte s off :: pat_from s (off + 1) k end.
Definition pat (s off n : Z) : bytes := pat_from s off (Z.to_nat n).

(* ---- configuration: the three setters, applied to a fresh server ------------- *)
Record config := { mrb : Z; mbs : Z; mds : Z }.
Inductive setter := SetMaxRequestBytes (n : Z) | SetMaxBodySize (n : Z) | SetMaxDecompressed (n : Z).
Definition apply_setter (c : config) (s : setter) : config :=
  match s with
  | SetMaxRequestBytes n => {| mrb := n; mbs := mbs c; mds := mds c |}
  | SetMaxBodySize n => {| mrb := mrb c; mbs := n; mds := mds c |}
  | SetMaxDecompressed n => {| mrb := mrb c; mbs := mbs c; mds := n |}
  end.
Definition default_config : config :=
  {| mrb := c18_default_max_request_bytes; mbs := c18_default_max_body_size;
     mds := c18_default_max_decompressed |}.
Definition configure (ops : list setter) : config := fold_left apply_setter ops default_config.

(* ---- what a codec library sees in a byte string ------------------------------- *)
Record seg := { s_win : Z; s_out : bytes }.
Record stream := { st_fcs : option Z; st_segs : list seg; st_clean : bool; st_sticky : bool }.
Definition oracle := bytes -> bytes -> stream.
Definition garbage : stream := {| st_fcs := None; st_segs := []; st_clean := false; st_sticky := false |}.
Definition table := list (bytes * bytes * stream).
Fixpoint tbl_oracle (t : table) (c d : bytes) : stream :=
  match t with
  | [] => garbage
  | (c', d', s) :: r => if beqb c c' && beqb d d' then s else tbl_oracle r c d
  end.
Definition total (st : stream) : bytes := concat (map s_out (st_segs st)).

(* ---- io.ReadAll(io.LimitReader(r, n)) ------------------------------------------ *)
(* n <= 0: LimitReader reports EOF at once, nothing is read *)
Definition take_z (n : Z) (l : bytes) : bytes :=
  if n <=? 0 then [] else if zlen l <=? n then l else firstn (Z.to_nat n) l.
(* capPlusOne: limit+1, saturating at MaxInt64 *)
Definition lim_plus_one (l : Z) : Z := if l =? max64 then l else l + 1.

(* ---- errors of readHTTPBody / decompressBounded, by Go type -------------------- *)
Inductive berr :=
| ETransport                    (* the body reader failed *)
| EReqTooLarge (n : Z)          (* *requestBodyTooLargeError: names max_request_bytes=n *)
| ERawTooLarge (n : Z)          (* *RpcError ValueError: wire body over maxBodySize *)
| EDecTooLarge (n : Z)          (* *decodedBodyTooLargeError *)
| ECodec                        (* zstd/gzip init or stream error *)
| EUnsupported (e : bytes).     (* *unsupportedEncodingError *)

(* ---- decompressBounded --------------------------------------------------------- *)
Definition is_zstd (c : bytes) : bool := beqb c c18_zstd.
(* WithDecoderMaxMemory(m) lowers the decoder's window ceiling to m *)
Definition maxwin (m : Z) : Z := if 0 <? m then Z.min m c18_zstd_max_window else c18_zstd_max_window.
(* frames are started one after another; a frame whose window need exceeds the
   ceiling stops the stream there *)
Fixpoint run_segs (mw : Z) (ss : list seg) : bytes * bool :=
  match ss with
  | [] => ([], false)
  | s :: t => if mw <? s_win s then ([], true)
              else let '(o, f) := run_segs mw t in (s_out s ++ o, f)
  end.

Inductive dres := DOk (b : bytes) | DErr (e : berr).

(* (result, bytes pulled out of the decoder) *)
Definition decompress_bounded (orc : oracle) (c data : bytes) (m : Z) : dres * Z :=
  let st := orc c data in
  if is_zstd c && (0 <? m) && (match st_fcs st with Some f => m <? f | None => false end)
  then (DErr (EDecTooLarge m), 0)
  else
    let '(pre, wfail) := run_segs (maxwin m) (st_segs st) in
    let failed := wfail || negb (st_clean st) in
    if 0 <? m then
      let n := lim_plus_one m in
      let got := take_z n pre in
      if failed && (if st_sticky st then zlen pre <=? n else zlen pre <? n) then (DErr ECodec, zlen got)
      else if m <? zlen got then (DErr (EDecTooLarge m), zlen got)
      else (DOk got, zlen got)
    else if failed then (DErr ECodec, zlen pre) else (DOk pre, zlen pre).

(* ---- readHTTPBody ---------------------------------------------------------------- *)
Record request := {
  r_exempt : bool;     (* isMaxBytesExempt(path) *)
  r_cl : Z;            (* r.ContentLength; -1 = not declared (chunked) *)
  r_raw : bytes;       (* the wire body *)
  r_rderr : bool;      (* the body ends in a transport error instead of EOF *)
  r_ce : bytes         (* Content-Encoding header value *)
}.

(* the literal 16 in readHTTPBody (decompressedCap = limit * 16): modelled by hand, tied
   by the derived-cap boundary cases of the correspondence *)
Definition derive_factor : Z := 16.
(* saturatingMul16 *)
Definition sat_mul16 (l : Z) : Z := if max64 / derive_factor <? l then max64 else l * derive_factor.

(* limit, requestCapApplied *)
Definition raw_limit (c : config) (ex : bool) : Z * bool :=
  if (0 <? mrb c) && negb ex && ((mbs c <=? 0) || (mrb c <=? mbs c)) then (mrb c, true)
  else (mbs c, false).

Definition decode_cap (c : config) (limit : Z) (rca : bool) : Z :=
  let d := mds c in
  if rca && ((d <=? 0) || (limit <? d)) then limit
  else if (d <=? 0) && (0 <? limit) then sat_mul16 limit
  else d.

Definition norm_coding (ce : bytes) : bytes := to_lower (trim_space ce).
Definition is_identity (e : bytes) : bool := beqb e [] || beqb e c18_identity.

(* (result, bytes read from the request body) *)
Definition read_body (orc : oracle) (c : config) (rq : request) : dres * Z :=
  let '(limit, rca) := raw_limit c (r_exempt rq) in
  let body := if 0 <? limit then take_z (lim_plus_one limit) (r_raw rq) else r_raw rq in
  let reached_end := if 0 <? limit then zlen (r_raw rq) <? lim_plus_one limit else true in
  let nread := zlen body in
  if r_rderr rq && reached_end then (DErr ETransport, nread)
  else if (0 <? limit) && (limit <? nread)
  then (DErr (if rca then EReqTooLarge limit else ERawTooLarge limit), nread)
  else
    let enc := norm_coding (r_ce rq) in
    if is_identity enc then (DOk body, nread)
    else if memb enc c18_decodable_codings then
      let dcap := decode_cap c limit rca in
      match fst (decompress_bounded orc enc body dcap) with
      | DErr (EDecTooLarge k) =>
          if rca && (dcap =? limit) then (DErr (EReqTooLarge limit), nread)
          else (DErr (EDecTooLarge k), nread)
      | r => (r, nread)
      end
    else (DErr (EUnsupported enc), nread).

(* writeBodyReadError *)
Definition status_of (e : berr) : Z :=
  match e with
  | EReqTooLarge _ => c18_status_request_too_large
  | EUnsupported _ => c18_status_unsupported
  | _ => c18_status_other
  end.

(* the ContentLength pre-check of ServeHTTP *)
Definition precheck (c : config) (rq : request) : bool :=
  (0 <? mrb c) && (mrb c <? r_cl rq) && negb (r_exempt rq).

(* ---- DecodeContentEncoding ---------------------------------------------------------- *)
Fixpoint decode_loop (orc : oracle) (m : Z) (toks : list bytes) (cur : bytes) : dres :=
  match toks with
  | [] => DOk cur
  | t :: r =>
      let name := norm_coding t in
      if memb name c18_decodable_codings then
        match fst (decompress_bounded orc name cur m) with
        | DOk b => decode_loop orc m r b
        | DErr e => DErr e
        end
      else decode_loop orc m r cur
  end.
Definition decode_ce (orc : oracle) (data ce : bytes) (m : Z) : dres :=
  match ce with
  | [] => DOk data
  | _ => decode_loop orc m (rev (split_on COMMA ce)) data
  end.

(* ---- isMaxBytesExempt: which paths escape the advertised max_request_bytes ------------------- *)
(* for base in {prefix + "/health", "/health"}: path == base || HasPrefix(path, base + "/") *)
Definition SLASH : N := 47%N.
Definition health_route : bytes := str "/health".
Definition path_under (base path : bytes) : bool := beqb path base || has_prefix (base ++ [SLASH]) path.
Definition is_exempt (pfx path : bytes) : bool :=
  path_under (pfx ++ health_route) path || path_under health_route path.
Definition with_exempt (ex : bool) (rq : request) : request :=
  {| r_exempt := ex; r_cl := r_cl rq; r_raw := r_raw rq; r_rderr := r_rderr rq; r_ce := r_ce rq |}.

(* ---- inputs and observables ----------------------------------------------------------- *)
Inductive input :=
| Direct (ops : list setter) (rq : request) (t : table)   (* readHTTPBody + writeBodyReadError *)
| Http (ops : list setter) (rq : request) (t : table)     (* the same through ServeHTTP and a route *)
| Stack (data ce : bytes) (m : Z) (t : table)             (* DecodeContentEncoding *)
(* Direct / Http with the exemption COMPUTED from the server's route prefix (SetPrefix) and
   the request path; the r_exempt field of rq is ignored *)
| DirectAt (pfx path : bytes) (ops : list setter) (rq : request) (t : table)
| HttpAt (pfx path : bytes) (ops : list setter) (rq : request) (t : table).

(* an At input becomes a plain one once the exemption is decided by [ex] *)
Definition resolve (ex : bytes -> bytes -> bool) (i : input) : input :=
  match i with
  | DirectAt pfx path ops rq t => Direct ops (with_exempt (ex pfx path) rq) t
  | HttpAt pfx path ops rq t => Http ops (with_exempt (ex pfx path) rq) t
  | i' => i'
  end.

Inductive obs :=
| OBody (status : Z) (body : bytes) (nread : Z)
| ORefused (status : Z) (e : berr) (nread : Z)
| OHttpRefused (status : Z) (names_mrb : option Z) (plain : bool) (nread : Z)
| OStack (r : dres).

Definition names_of (e : berr) : option Z := match e with EReqTooLarge n => Some n | _ => None end.

Definition model_core (i : input) : obs :=
  match i with
  | Direct ops rq t =>
      match read_body (tbl_oracle t) (configure ops) rq with
      | (DOk b, n) => OBody 200 b n
      | (DErr e, n) => ORefused (status_of e) e n
      end
  | Http ops rq t =>
      let c := configure ops in
      if precheck c rq then OHttpRefused c18_status_precheck (Some (mrb c)) true 0
      else match read_body (tbl_oracle t) c rq with
           | (DOk b, n) => OBody 200 b n
           | (DErr e, n) => OHttpRefused (status_of e) (names_of e) false n
           end
  | Stack data ce m t => OStack (decode_ce (tbl_oracle t) data ce m)
  | _ => OStack (DOk [])   (* unreachable after resolve *)
  end.
Definition model (i : input) : obs := model_core (resolve is_exempt i).

(* ---- decidable equality of observables -------------------------------------------------- *)
Definition berr_eqb (a b : berr) : bool :=
  match a, b with
  | ETransport, ETransport | ECodec, ECodec => true
  | EReqTooLarge x, EReqTooLarge y | ERawTooLarge x, ERawTooLarge y | EDecTooLarge x, EDecTooLarge y => x =? y
  | EUnsupported x, EUnsupported y => beqb x y
  | _, _ => false
  end.
Definition dres_eqb (a b : dres) : bool :=
  match a, b with
  | DOk x, DOk y => beqb x y
  | DErr x, DErr y => berr_eqb x y
  | _, _ => false
  end.
Definition obs_eqb (a b : obs) : bool :=
  match a, b with
  | OBody s x n, OBody s' x' n' => (s =? s') && beqb x x' && (n =? n')
  | ORefused s e n, ORefused s' e' n' => (s =? s') && berr_eqb e e' && (n =? n')
  | OHttpRefused s k p n, OHttpRefused s' k' p' n' =>
      (s =? s') && opt_eqb Z.eqb k k' && Bool.eqb p p' && (n =? n')
  | OStack r, OStack r' => dres_eqb r r'
  | _, _ => false
  end.

(* ======== SPEC: the property, written without the mechanics above ========================== *)
(* the caps in force, as options; the flag says the cap IS the advertised max_request_bytes *)
Definition s_adv (c : config) (ex : bool) : option Z := if (0 <? mrb c) && negb ex then Some (mrb c) else None.
Definition s_wire (c : config) : option Z := if 0 <? mbs c then Some (mbs c) else None.
Definition s_raw_cap (c : config) (ex : bool) : option (Z * bool) :=
  match s_adv c ex, s_wire c with
  | Some a, Some w => if a <=? w then Some (a, true) else Some (w, false)
  | Some a, None => Some (a, true)
  | None, Some w => Some (w, false)
  | None, None => None
  end.
(* decoded-size cap: when the advertised cap governs the wire size it also governs the
   decoded size unless an explicit decompressed-size limit is tighter; otherwise the
   explicit limit, else sixteen times the wire cap (at most MaxInt64), else none *)
Definition s_dec_cap (c : config) (ex : bool) : option (Z * bool) :=
  match s_raw_cap c ex with
  | Some (a, true) => if (0 <? mds c) && (mds c <? a) then Some (mds c, false) else Some (a, true)
  | Some (w, false) => if 0 <? mds c then Some (mds c, false) else Some (sat_mul16 w, false)
  | None => if 0 <? mds c then Some (mds c, false) else None
  end.
Definition within (n : Z) (cap : option (Z * bool)) : bool :=
  match cap with Some (k, _) => n <=? k | None => true end.
Definition s_maxwin (cap : option (Z * bool)) : Z :=
  match cap with Some (k, _) => Z.min k c18_zstd_max_window | None => c18_zstd_max_window end.
(* a stream the property quantifies over: a clean encoding whose frames each need no
   more window memory than the decoded-size cap, and whose declared size is honest *)
Definition in_scope (st : stream) (mw : Z) : bool :=
  st_clean st && forallb (fun s => s_win s <=? mw) (st_segs st) &&
  match st_fcs st with Some f => f <=? zlen (total st) | None => true end.

(* refusal for exceeding [cap]: 413 naming the cap iff it is the advertised one, else 400 *)
Definition refusal_ok (http : bool) (cap : Z * bool) (decoded : bool) (o : obs) : bool :=
  let '(k, adv) := cap in
  match o with
  | ORefused s e _ =>
      negb http &&
      if adv then (s =? 413) && berr_eqb e (EReqTooLarge k)
      else (s =? 400) && berr_eqb e (if decoded then EDecTooLarge k else ERawTooLarge k)
  | OHttpRefused s nm plain _ =>
      http && negb plain &&
      if adv then (s =? 413) && opt_eqb Z.eqb nm (Some k) else (s =? 400) && opt_eqb Z.eqb nm None
  | _ => false
  end.
Definition nread_of (o : obs) : Z :=
  match o with OBody _ _ n | ORefused _ _ n | OHttpRefused _ _ _ n => n | OStack _ => 0 end.
Definition delivered (o : obs) (b : bytes) (n : Z) : bool :=
  match o with OBody s x k => (s =? 200) && beqb x b && (k =? n) | _ => false end.
Definition refused_with (o : obs) (http : bool) (st : Z) : bool :=
  match o with
  | ORefused s e _ => negb http && (s =? st) && (match names_of e with None => true | Some _ => false end)
  | OHttpRefused s nm plain _ => http && (s =? st) && negb plain && (match nm with None => true | Some _ => false end)
  | _ => false
  end.

Definition spec_request (http : bool) (orc : oracle) (c : config) (rq : request) (o : obs) : bool :=
  let len := zlen (r_raw rq) in
  let rc := s_raw_cap c (r_exempt rq) in
  if http && (match s_adv c (r_exempt rq) with Some a => a <? r_cl rq | None => false end)
  then (* declared length over the advertised cap: refused at once, nothing read *)
    match o with
    | OHttpRefused s nm plain n =>
        (s =? 413) && opt_eqb Z.eqb nm (s_adv c (r_exempt rq)) && plain && (n =? 0)
    | _ => false
    end
  else
    (* never reads past cap + 1 *)
    (nread_of o <=? len) && (match rc with Some (k, _) => nread_of o <=? k + 1 | None => true end) &&
    match rc with
    | Some (k, adv) =>
        if k <? len then refusal_ok http (k, adv) false o && (nread_of o =? k + 1) else true
    | None => true
    end &&
    (if within len rc then
       if r_rderr rq then refused_with o http 400
       else
         let enc := norm_coding (r_ce rq) in
         if is_identity enc then delivered o (r_raw rq) len
         else if memb enc c18_decodable_codings then
           let dc := s_dec_cap c (r_exempt rq) in
           let st := orc enc (r_raw rq) in
           if in_scope st (s_maxwin dc) then
             if within (zlen (total st)) dc then delivered o (total st) len
             else match dc with Some cap => refusal_ok http cap true o | None => false end
           else (* outside the quantifier: never more than the cap, never a 415 *)
             match o with
             | OBody s b _ => (s =? 200) && within (zlen b) dc
             | ORefused s _ _ | OHttpRefused s _ _ _ => negb (s =? 415)
             | OStack _ => false
             end
         else (* unknown coding *)
           match o with
           | ORefused s e _ => negb http && (s =? 415) && berr_eqb e (EUnsupported enc)
           | OHttpRefused s nm plain _ => http && (s =? 415) && negb plain && opt_eqb Z.eqb nm None
           | _ => false
           end
     else true).

(* the intermediary decoder: the applied codings are the decodable names of the header,
   undone last to first; each step must stay within the per-coding limit *)
Definition s_layers (ce : bytes) : list bytes :=
  filter (fun n => memb n c18_decodable_codings) (map norm_coding (rev (split_on COMMA ce))).
Definition s_cap (m : Z) : option (Z * bool) := if 0 <? m then Some (m, false) else None.
(* None = outside the quantifier from here on *)
Fixpoint s_peel (orc : oracle) (m : Z) (ls : list bytes) (cur : bytes) : option dres :=
  match ls with
  | [] => Some (DOk cur)
  | c :: r =>
      let st := orc c cur in
      if in_scope st (s_maxwin (s_cap m)) then
        if within (zlen (total st)) (s_cap m) then s_peel orc m r (total st)
        else Some (DErr (EDecTooLarge m))
      else None
  end.
Definition spec_stack (orc : oracle) (data ce : bytes) (m : Z) (r : dres) : bool :=
  match ce with
  | [] => dres_eqb r (DOk data)
  | _ =>
      match s_peel orc m (s_layers ce) data with
      | Some want => dres_eqb r want
      | None => match r with DErr (EUnsupported _) => false | _ => true end
      end &&
      (* never more than the per-coding limit once a coding was undone *)
      match r, s_layers ce with
      | DOk b, _ :: _ => within (zlen b) (s_cap m)
      | _, _ => true
      end
  end.

(* SPEC of the exemption, written differently from the code: the path starts with the health
   route and either ends there or goes on with a slash right after it *)
Definition s_under (base path : bytes) : bool :=
  has_prefix base path &&
  match skipn (length base) path with [] => true | ch :: _ => N.eqb ch SLASH end.
Definition s_exempt (pfx path : bytes) : bool :=
  s_under (pfx ++ health_route) path || s_under health_route path.

Definition spec_core (i : input) (o : obs) : bool :=
  match i with
  | Direct ops rq t => spec_request false (tbl_oracle t) (configure ops) rq o
  | Http ops rq t => spec_request true (tbl_oracle t) (configure ops) rq o
  | Stack data ce m t => match o with OStack r => spec_stack (tbl_oracle t) data ce m r | _ => false end
  | _ => true
  end.
Definition spec_ok (i : input) (o : obs) : bool := spec_core (resolve s_exempt i) o.

(* the only guard left: byte strings are shorter than MaxInt64 bytes (a Go slice of that
   length cannot exist); under a cap of exactly MaxInt64 the code has no byte past the cap
   to read, so it relies on this *)
Definition short (b : bytes) : bool := zlen b <? max64.
Definition fits_tbl (t : table) : bool := forallb (fun e => short (total (snd e))) t.
Definition fits (i : input) : bool :=
  match i with
  | Direct _ rq t | Http _ rq t | DirectAt _ _ _ rq t | HttpAt _ _ _ rq t => short (r_raw rq) && fits_tbl t
  | Stack _ _ _ t => fits_tbl t
  end.

(* ======== the pre-fix behaviour (before d7c7597), for the _legacy_refuted theorem ============ *)
(* decompressBounded returned requestBodyTooLargeError itself: every decoded-size overrun
   was answered 413 naming max_request_bytes = the decoder's cap *)
Definition read_body_legacy (orc : oracle) (c : config) (rq : request) : dres * Z :=
  match read_body orc c rq with
  | (DErr (EDecTooLarge k), n) => (DErr (EReqTooLarge k), n)
  | r => r
  end.
Definition model_legacy (i : input) : obs :=
  match i with
  | Direct ops rq t =>
      match read_body_legacy (tbl_oracle t) (configure ops) rq with
      | (DOk b, n) => OBody 200 b n
      | (DErr e, n) => ORefused (status_of e) e n
      end
  | _ => model i
  end.

(* ======== the arithmetic before afb7453: cap+1 and cap*16 wrapped in int64 ==================== *)
Definition lim_plus_one_wrap (l : Z) : Z := wrap64 (l + 1).
Definition decompress_bounded_wrap (orc : oracle) (c data : bytes) (m : Z) : dres :=
  let st := orc c data in
  if is_zstd c && (0 <? m) && (match st_fcs st with Some f => m <? f | None => false end)
  then DErr (EDecTooLarge m)
  else
    let '(pre, wfail) := run_segs (maxwin m) (st_segs st) in
    let failed := wfail || negb (st_clean st) in
    if 0 <? m then
      let n := lim_plus_one_wrap m in
      let got := take_z n pre in
      if n <=? 0 then
        (* LimitReader with a non-positive count yields EOF at once; only gzip, whose header
           is read when the reader is made, can still fail (nothing decodable at all) *)
        (if negb (is_zstd c) && negb (st_clean st) && (match st_segs st with [] => true | _ => false end)
         then DErr ECodec else DOk [])
      else if failed && (if st_sticky st then zlen pre <=? n else zlen pre <? n) then DErr ECodec
      else if m <? zlen got then DErr (EDecTooLarge m)
      else DOk got
    else if failed then DErr ECodec else DOk pre.
Definition read_body_wrap (orc : oracle) (c : config) (rq : request) : dres * Z :=
  let '(limit, rca) := raw_limit c (r_exempt rq) in
  let body := if 0 <? limit then take_z (lim_plus_one_wrap limit) (r_raw rq) else r_raw rq in
  let reached_end := if 0 <? limit then zlen (r_raw rq) <? lim_plus_one_wrap limit else true in
  let nread := zlen body in
  if r_rderr rq && reached_end then (DErr ETransport, nread)
  else if (0 <? limit) && (limit <? nread)
  then (DErr (if rca then EReqTooLarge limit else ERawTooLarge limit), nread)
  else
    let enc := norm_coding (r_ce rq) in
    if is_identity enc then (DOk body, nread)
    else if memb enc c18_decodable_codings then
      let d := mds c in
      let dcap := if rca && ((d <=? 0) || (limit <? d)) then limit
                  else if (d <=? 0) && (0 <? limit) then wrap64 (limit * derive_factor) else d in
      match decompress_bounded_wrap orc enc body dcap with
      | DErr (EDecTooLarge k) =>
          if rca && (dcap =? limit) then (DErr (EReqTooLarge limit), nread)
          else (DErr (EDecTooLarge k), nread)
      | r => (r, nread)
      end
    else (DErr (EUnsupported enc), nread).
Fixpoint decode_loop_wrap (orc : oracle) (m : Z) (toks : list bytes) (cur : bytes) : dres :=
  match toks with
  | [] => DOk cur
  | t :: r =>
      let name := norm_coding t in
      if memb name c18_decodable_codings then
        match decompress_bounded_wrap orc name cur m with
        | DOk b => decode_loop_wrap orc m r b
        | DErr e => DErr e
        end
      else decode_loop_wrap orc m r cur
  end.
Definition model_wrap (i : input) : obs :=
  match i with
  | Direct ops rq t =>
      match read_body_wrap (tbl_oracle t) (configure ops) rq with
      | (DOk b, n) => OBody 200 b n
      | (DErr e, n) => ORefused (status_of e) e n
      end
  | Http ops rq t =>
      let c := configure ops in
      if precheck c rq then OHttpRefused c18_status_precheck (Some (mrb c)) true 0
      else match read_body_wrap (tbl_oracle t) c rq with
           | (DOk b, n) => OBody 200 b n
           | (DErr e, n) => OHttpRefused (status_of e) (names_of e) false n
           end
  | Stack data ce m t =>
      OStack (match ce with
              | [] => DOk data
              | _ => decode_loop_wrap (tbl_oracle t) m (rev (split_on COMMA ce)) data
              end)
  | i' => model i'
  end.
