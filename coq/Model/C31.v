(* Model/C31.v — external fetches obey the URL validator and the size limits on
   every hop (vgirpc/external.go: ResolveExternalLocation's validate-then-retry
   loop, fetchExternalData with its CheckRedirect policy, the clamp methods
   maxRetries/maxRedirects/maxFetchBytes/maxDecompressedBytes,
   decompressZstdCapped's acceptance test, redactExternalURL, HTTPSOnlyValidator).

   The ENVIRONMENT is an adversary: [origin] gives, for every attempt number and
   every URL, an arbitrary answer (redirect to any URL / to an unparseable
   Location, any final status, any body, a transport failure); the validator is
   an arbitrary predicate on URLs.  The machine is parametric in the type [U] of
   URLs.  What the client does is a list of EVENTS in program order: a validator
   call on a URL, or a request handed to the transport for a URL (the flag says
   whether it is the first request of an attempt).

   Oracles (supplied per case by the harness from the Go runtime, never computed
   here): url.Parse (the [parts] record of every URL), the net/http client
   redirect contract (CheckRedirect is called with len(via) = requests already
   sent, before the next request is sent; a CheckRedirect error ends the
   attempt), the gzip and zstd decoders (decoded length, and for zstd the window
   size of a frame).

   The main model is the code AFTER fix 75e15f4 (the request names its codings, so
   the transport never inflates gzip on its own; gzip bodies are read under the
   fetch cap and decoded under the decompression cap; fetchSimple reports the
   redacted URL).  [read_body_legacy] / [simple_run_legacy] / [model_legacy] are
   the code before that fix, kept for the three refutation witnesses. *)
From VR Require Export Lib.Strs.
From VR Require Import Gen.Consts.
Open Scope N_scope.

(* ---- the clamp methods --------------------------------------------------- *)
Definition max_retries (c : Z) : Z := if (c <=? 0)%Z then 2%Z else if (2 <? c)%Z then 2%Z else c.
Definition max_redirects (c : Z) : Z := if (c <=? 0)%Z then 5%Z else c.
Definition max_fetch (c : Z) : Z := if (c <=? 0)%Z then 268435456%Z else c.
Definition max_decomp (c : Z) : Z := if (c <=? 0)%Z then 4294967296%Z else c.
(* maxAttempts := config.maxRetries() + 1 *)
Definition eff_attempts (c : Z) : nat := Z.to_nat (max_retries c + 1).

(* ---- answers of the origin ------------------------------------------------ *)
Inductive enc := EncId | EncZstd | EncGzip.
(* EncId: no Content-Encoding the fetcher acts on (absent, or any value other than
   exactly zstd / gzip).  EncZstd: Content-Encoding == zstd.  EncGzip:
   Content-Encoding == gzip. *)
Record body := {
  b_declared : option N;   (* Content-Length announced by the origin *)
  b_wire : N;              (* bytes of the body on the wire *)
  b_trunc : option N;      (* Some k: the connection dies after k body bytes *)
  b_enc : enc;
  b_dec : option N;        (* decoder oracle: length of the decoded payload, None = undecodable *)
  b_win : N                (* zstd oracle: window size the frame asks for *)
}.

Inductive eclass :=
| EInitRejected     (* the location URL itself is refused; nothing is sent *)
| ERedirectLimit | ETargetRejected
| EGet              (* client.Get failed for any other reason *)
| EStatus (n : N)
| EDeclaredCap | EBodyCap | ERead | EDecode.
Inductive result := ROk (n : N) | RErr (e : eclass).

Definition is_some {A} (o : option A) : bool := match o with Some _ => true | None => false end.

(* bytes the response-body reader yields before it ends, and whether it ends in an error *)
Definition stream_len (b : body) : N :=
  match b_trunc b with Some k => N.min k (b_wire b) | None => b_wire b end.
Definition stream_err (b : body) : bool := is_some (b_trunc b).

(* fetchExternalData after a 200 answer: Content-Length test, LimitReader(max+1),
   length test, then zstd with decompressZstdCapped / gzip with decompressBounded
   (cap > 0 always after the clamp) *)
Definition read_body (maxF maxD : N) (b : body) : result :=
  let declared_over := match b_declared b with Some c => maxF <? c | None => false end in
  if declared_over then RErr EDeclaredCap
  else if maxF + 1 <=? stream_len b then RErr EBodyCap
  else if stream_err b then RErr ERead
  else match b_enc b with
       | EncZstd => match b_dec b with
                    | Some d => if (b_win b <=? maxD) && (d <=? maxD) then ROk d else RErr EDecode
                    | None => RErr EDecode
                    end
       | EncGzip => match b_dec b with
                    | Some d => if d <=? maxD then ROk d else RErr EDecode
                    | None => RErr EDecode
                    end
       | EncId => ROk (stream_len b)
       end.

(* BEFORE fix 75e15f4.  [auto]: the caller's transport inflates gzip on its own
   (Go's default): the body reader then yields DECODED bytes, ContentLength is -1
   and the Content-Encoding header is gone, so the decoded bytes are counted
   against the FETCH cap and the decompression cap is never consulted.  Without
   [auto] a gzip body was handed back as it came. *)
Definition read_body_legacy (auto : bool) (maxF maxD : N) (b : body) : result :=
  match b_enc b, auto with
  | EncGzip, true =>
      match b_dec b with
      | Some d => if maxF + 1 <=? d then RErr EBodyCap else ROk d
      | None => RErr ERead
      end
  | EncGzip, false =>
      read_body maxF maxD {| b_declared := b_declared b; b_wire := b_wire b; b_trunc := b_trunc b;
                             b_enc := EncId; b_dec := None; b_win := 0 |}
  | _, _ => read_body maxF maxD b
  end.

Inductive target (U : Type) := TUrl (u : U) | TBad.
Arguments TUrl {U} u.
Arguments TBad {U}.
Inductive answer (U : Type) :=
| ARedirect (t : target U)   (* 301/302/303/307/308 with a Location *)
| AStatus (n : N)            (* any other final status than 200 (incl. 3xx without Location) *)
| ABody (b : body)           (* 200 *)
| AFail                      (* the transport fails: refused, reset, unsupported scheme *)
| ANoSend.                   (* the client cannot even build the request (unparseable URL) *)
Arguments ARedirect {U} t.
Arguments AStatus {U} n.
Arguments ABody {U} b.
Arguments AFail {U}.
Arguments ANoSend {U}.

Inductive event (U : Type) := EvValidate (u : U) | EvSend (first : bool) (u : U).
Arguments EvValidate {U} u.
Arguments EvSend {U} first u.

(* what a caller-supplied CheckRedirect says about a hop *)
Inductive pverdict := POk | PRefuse | PUseLast.

(* ---- the fetch machine ----------------------------------------------------- *)
Section Machine.
  Variable U : Type.
  Variable validator : option (U -> bool).      (* config.URLValidator; true = accepted *)
  Variable origin : nat -> U -> answer U.       (* attempt number -> URL -> answer *)
  Variable maxR : nat.                          (* maxRedirects() *)
  Variable rb : body -> result.                 (* what is made of a 200 body: [read_body maxF maxD] *)
  (* the CheckRedirect the caller's own HTTPClient carries (None: it has none), asked
     AFTER the hop limit and the validator; its argument is the redirect budget left
     when it is asked (= maxRedirects + 1 - len(via)) *)
  Variable prev : option (nat -> pverdict).

  Definition policy_says (left : nat) : option eclass :=
    match prev with
    | None => None
    | Some p => match p left with
                | POk => None
                | PRefuse => Some EGet            (* an ordinary error: client.Do fails *)
                | PUseLast => Some (EStatus 0)    (* http.ErrUseLastResponse: the 3xx answer itself comes back *)
                end
    end.

  Definition accepts (u : U) : bool := match validator with Some f => f u | None => true end.
  Definition val_event (u : U) : list (event U) :=
    match validator with Some _ => [EvValidate u] | None => [] end.

  (* client.Get with the CheckRedirect policy of fetchExternalData.  [left] =
     redirects that may still be followed: CheckRedirect refuses when
     len(via) > maxRedirects, checked BEFORE the validator is asked. *)
  Fixpoint follow (att : nat) (left : nat) (first : bool) (u : U) : list (event U) * result :=
    match origin att u with
    | ANoSend => ([], RErr EGet)
    | AFail => ([EvSend first u], RErr EGet)
    | AStatus n => ([EvSend first u], RErr (EStatus n))
    | ABody b => ([EvSend first u], rb b)
    | ARedirect TBad => ([EvSend first u], RErr EGet)
    | ARedirect (TUrl v) =>
        match left with
        | O => ([EvSend first u], RErr ERedirectLimit)
        | S l => if accepts v
                 then match policy_says (S l) with
                      | None => let '(t, r) := follow att l false v in (EvSend first u :: val_event v ++ t, r)
                      | Some e => (EvSend first u :: val_event v, RErr e)
                      end
                 else (EvSend first u :: val_event v, RErr ETargetRejected)
        end
    end.

  (* the retry loop: every failure is retried, a success stops it *)
  Fixpoint attempts (n att : nat) (u0 : U) : list (event U) * result * nat :=
    match n with
    | O => ([], RErr EGet, O)
    | S n' =>
        let '(t, r) := follow att maxR true u0 in
        match r with
        | ROk _ => (t, r, 1%nat)
        | RErr _ =>
            match n' with
            | O => (t, r, 1%nat)
            | S _ => let '(t', r', k) := attempts n' (S att) u0 in (t ++ t', r', S k)
            end
        end
    end.

  (* ResolveExternalLocation: validate the location URL once, then the loop *)
  Definition resolve (nattempts : nat) (u0 : U) : list (event U) * result * nat :=
    if accepts u0
    then let '(t, r, k) := attempts nattempts O u0 in (val_event u0 ++ t, r, k)
    else (val_event u0, RErr EInitRejected, O).
End Machine.

(* ---- URLs as url.Parse sees them; redaction -------------------------------- *)
Record parts := {
  p_valid : bool;          (* url.Parse succeeded *)
  p_scheme : bytes; p_opaque : bytes;
  p_host : bytes;          (* as String() prints it *)
  p_path : bytes;          (* EscapedPath() *)
  p_omit : bool;           (* URL.OmitHost *)
  (* the secret part *)
  p_user : bytes; p_pass : bytes; p_query : bytes; p_frag : bytes
}.
(* everything of a URL that redaction may show *)
Record pub := { v_valid : bool; v_scheme : bytes; v_opaque : bytes; v_host : bytes; v_path : bytes; v_omit : bool }.
Definition pub_of (p : parts) : pub :=
  {| v_valid := p_valid p; v_scheme := p_scheme p; v_opaque := p_opaque p; v_host := p_host p;
     v_path := p_path p; v_omit := p_omit p |}.

Definition nonempty (b : bytes) : bool := match b with [] => false | _ => true end.
Definition first_segment_has_colon (path : bytes) : bool :=
  mem 58 (match index_byte 47 path with Some n => take n path | None => path end).

(* URL.String() of a URL whose User, RawQuery, ForceQuery and Fragment were cleared *)
Definition go_string (v : pub) : bytes :=
  let s1 := if nonempty (v_scheme v) then v_scheme v ++ [58] else [] in
  if nonempty (v_opaque v) then s1 ++ v_opaque v
  else
    let auth := if nonempty (v_scheme v) || nonempty (v_host v)
                then (if v_omit v && negb (nonempty (v_host v)) then []
                      else (if nonempty (v_host v) || nonempty (v_path v) then [47; 47] else []) ++ v_host v)
                else [] in
    let sl := match v_path v with
              | c :: _ => if negb (c =? 47) && nonempty (v_host v) then [47] else []
              | [] => []
              end in
    let pre := s1 ++ auth ++ sl in
    let dot := if negb (nonempty pre) && first_segment_has_colon (v_path v) then [46; 47] else [] in
    pre ++ dot ++ v_path v.

(* redactExternalURL *)
Definition redact (v : pub) : bytes := if v_valid v then go_string v else c31_invalid_url_text.

(* ---- inputs ------------------------------------------------------------------ *)
Inductive verdict := VAccept | VReject (echo : bool).   (* echo: the validator's message quotes the URL *)
Inductive vkind := VNone | VScript | VHttps.            (* no validator / scripted / HTTPSOnlyValidator *)
(* cfg.HTTPClient's own CheckRedirect: none (nil HTTPClient, or a client without one);
   always nil; an error / ErrUseLastResponse once len(via) >= k, nil before *)
Inductive cpolicy := CPNone | CPAllow | CPRefuseFrom (k : nat) | CPUseLastFrom (k : nat).
Definition cpolicy_at (c : cpolicy) (nvia : nat) : pverdict :=
  match c with
  | CPNone | CPAllow => POk
  | CPRefuseFrom k => if (k <=? nvia)%nat then PRefuse else POk
  | CPUseLastFrom k => if (k <=? nvia)%nat then PUseLast else POk
  end.
Definition cpolicy_fn (c : cpolicy) (maxR : nat) : option (nat -> pverdict) :=
  match c with
  | CPNone => None
  | _ => Some (fun left => cpolicy_at c (S maxR - left))
  end.
Record site_url := { s_parts : parts; s_verdict : verdict; s_answers : list (answer nat) }.
Record fetch_in := {
  f_vkind : vkind;
  f_policy : cpolicy;
  f_retries : Z; f_redirects : Z; f_maxfetch : Z; f_maxdecomp : Z;
  f_site : list site_url;          (* URL number k is the k-th entry; the location URL is number 0.
                                      Entries are distinct FULL URLs: two of them may share every public
                                      part (scheme, host, path) and differ in user info / query / fragment
                                      only; verdict and answers are per entry, i.e. per full URL *)
  f_secrets2 : list bytes          (* the secrets of the second run (same case, other secrets) *)
}.
(* fetchSimple (the plain-GET fall back of FetchWithParallelRangeRequests): one URL,
   the caller's client, FetchConfig.MaxFetchBytes used as it is (no clamp) *)
Record simple_in := { q_parts : parts; q_raw : bytes; q_maxfetch : Z; q_answer : answer nat }.
Inductive input := IFetch (f : fetch_in) | IRedact (p : parts) | ISimple (q : simple_in).

(* the public view: what the model is allowed to look at *)
Record pub_url := { w_pub : pub; w_verdict : verdict; w_answers : list (answer nat) }.
Record pub_in := { g_vkind : vkind; g_policy : cpolicy; g_retries : Z; g_redirects : Z; g_maxfetch : Z; g_maxdecomp : Z;
                   g_site : list pub_url }.
Definition view_url (s : site_url) : pub_url :=
  {| w_pub := pub_of (s_parts s); w_verdict := s_verdict s; w_answers := s_answers s |}.
Definition view (f : fetch_in) : pub_in :=
  {| g_vkind := f_vkind f; g_policy := f_policy f; g_retries := f_retries f; g_redirects := f_redirects f;
     g_maxfetch := f_maxfetch f; g_maxdecomp := f_maxdecomp f; g_site := map view_url (f_site f) |}.

Definition https_bytes : bytes := [104; 116; 116; 112; 115].
Definition https_ok (v : pub) : bool := v_valid v && beqb (v_scheme v) https_bytes.

Definition site_accepts (k : vkind) (site : list pub_url) (u : nat) : bool :=
  match k with
  | VNone => true
  | VScript => match nth_error site u with
               | Some w => match w_verdict w with VAccept => true | VReject _ => false end
               | None => false
               end
  | VHttps => match nth_error site u with Some w => https_ok (w_pub w) | None => false end
  end.
Definition site_validator (k : vkind) (site : list pub_url) : option (nat -> bool) :=
  match k with VNone => None | _ => Some (site_accepts k site) end.
(* answers are scripted per attempt; the last one repeats *)
Definition site_origin (site : list pub_url) (att u : nat) : answer nat :=
  match nth_error site u with
  | None => AFail
  | Some w => nth att (w_answers w) (last (w_answers w) AFail)
  end.

(* which error classes quote the (redacted) location URL *)
Definition init_reject_mentions (k : vkind) (site : list pub_url) : bool :=
  match nth_error site O with
  | None => false
  | Some w => match k with
              | VNone => false
              | VScript => match w_verdict w with VReject e => e | VAccept => false end
              | VHttps => negb (v_valid (w_pub w))    (* invalid URL: parse <url>: ... *)
              end
  end.
Definition mentions (k : vkind) (site : list pub_url) (e : eclass) : bool :=
  match e with
  | EInitRejected => init_reject_mentions k site
  | EGet | EStatus _ | ERead | EDecode => true
  | ERedirectLimit | ETargetRejected | EDeclaredCap | EBodyCap => false
  end.

(* HTTPSOnlyValidator on an UNPARSEABLE location URL answers with url.Parse's own
   error, which quotes the URL (without its fragment); whether the caller's
   exact-substring redaction then matches depends on the URL text.  The property
   speaks about syntactically valid URLs only; this prose is not modelled. *)
Definition valid0 (site : list pub_url) : bool :=
  match nth_error site O with Some w => v_valid (w_pub w) | None => true end.
Definition prose_unchecked (k : vkind) (site : list pub_url) (e : eclass) : bool :=
  match e, k with
  | EInitRejected, VHttps => negb (valid0 site)
  | _, _ => false
  end.

(* ---- observables --------------------------------------------------------------- *)
Record fetch_obs := {
  o_clamps : Z * Z * (Z * Z);      (* maxRetries, maxRedirects, maxFetchBytes, maxDecompressedBytes *)
  o_trace : list (event nat);
  o_result : option N;             (* Some n: resolved, n decoded bytes; None: an error was returned *)
  o_mentions : bool;               (* model: the error quotes the redacted location URL *)
  o_unchecked : bool;              (* model: the prose of this error is not compared (see [prose_unchecked]) *)
  o_text : bytes;                  (* implementation: the error text; model: the redacted URL if quoted *)
  o_text2 : bytes                  (* the error text of the second run *)
}.
Inductive obs := OFetch (o : fetch_obs) | ORedact (t : bytes) | OSimple (r : option N) (t : bytes) | ODesync.

Definition red0 (site : list pub_url) : bytes :=
  match nth_error site O with Some w => redact (w_pub w) | None => [] end.

Definition run_with (reader : N -> N -> body -> result) (g : pub_in) : fetch_obs :=
  let maxR := Z.to_nat (max_redirects (g_redirects g)) in
  let maxF := Z.to_N (max_fetch (g_maxfetch g)) in
  let maxD := Z.to_N (max_decomp (g_maxdecomp g)) in
  let '(t, r, _) := resolve nat (site_validator (g_vkind g) (g_site g)) (site_origin (g_site g))
                            maxR (reader maxF maxD) (cpolicy_fn (g_policy g) maxR) (eff_attempts (g_retries g)) O in
  let m := match r with ROk _ => false | RErr e => mentions (g_vkind g) (g_site g) e end in
  let txt := if m then red0 (g_site g) else [] in
  {| o_clamps := (max_retries (g_retries g), max_redirects (g_redirects g),
                  (max_fetch (g_maxfetch g), max_decomp (g_maxdecomp g)));
     o_trace := t;
     o_result := match r with ROk n => Some n | RErr _ => None end;
     o_mentions := m;
     o_unchecked := match r with ROk _ => false | RErr e => prose_unchecked (g_vkind g) (g_site g) e end;
     o_text := txt; o_text2 := txt |}.
Definition run (g : pub_in) : fetch_obs := run_with read_body g.

(* fetchSimple: whole body read (no bound while reading), then refused when longer
   than the cap; every error that names the URL names the REDACTED one.  Only
   identity bodies are modelled (zstd goes through decompressZstdCapped as above;
   the caller's transport may inflate gzip on its own here). *)
Definition simple_run (q : simple_in) : option N * bytes :=
  let red := redact (pub_of (q_parts q)) in
  match q_answer q with
  | AStatus _ => (None, red)
  | AFail => (None, red)
  | ABody b => if stream_err b then (None, red)
               else if (q_maxfetch q <? Z.of_N (stream_len b))%Z then (None, [])
               else (Some (stream_len b), [])
  | _ => (None, [])
  end.
(* before fix 75e15f4: status other than 200 -> an error quoting the RAW url;
   transport failure -> the client's own url.Error (password masked, user name
   and query string kept) *)
Definition simple_run_legacy (q : simple_in) : option N * bytes :=
  match q_answer q with
  | AStatus _ => (None, q_raw q)
  | AFail => (None, p_query (q_parts q))
  | ABody b => if stream_err b then (None, [])
               else if (q_maxfetch q <? Z.of_N (stream_len b))%Z then (None, [])
               else (Some (stream_len b), [])
  | _ => (None, [])
  end.

Definition model (i : input) : obs :=
  match i with
  | IFetch f => OFetch (run (view f))
  | IRedact p => ORedact (redact (pub_of p))
  | ISimple q => let '(r, t) := simple_run q in OSimple r t
  end.
(* the code before fix 75e15f4; [auto]: the caller's transport inflates gzip itself *)
Definition model_legacy (auto : bool) (i : input) : obs :=
  match i with
  | IFetch f => OFetch (run_with (read_body_legacy auto) (view f))
  | IRedact p => ORedact (redact (pub_of p))
  | ISimple q => let '(r, t) := simple_run_legacy q in OSimple r t
  end.

(* ---- comparing model and implementation ------------------------------------------ *)
Definition contains (sub s : bytes) : bool := is_some (index sub s).
Definition scheme_sep : bytes := [58; 47; 47].

Definition event_eqb (a b : event nat) : bool :=
  match a, b with
  | EvValidate x, EvValidate y => Nat.eqb x y
  | EvSend f x, EvSend g y => Bool.eqb f g && Nat.eqb x y
  | _, _ => false
  end.
Definition clamps_eqb (a b : Z * Z * (Z * Z)) : bool :=
  let '(a1, a2, (a3, a4)) := a in let '(b1, b2, (b3, b4)) := b in
  (a1 =? b1)%Z && (a2 =? b2)%Z && (a3 =? b3)%Z && (a4 =? b4)%Z.

(* [obs_eqb (model i) impl]: clamps, the whole event trace and the outcome must be
   equal; of the error prose only this is compared: it quotes the redacted
   location URL exactly when the model says so, and otherwise shows no URL at all. *)
Definition obs_eqb (m o : obs) : bool :=
  match m, o with
  | OFetch a, OFetch b =>
      clamps_eqb (o_clamps a) (o_clamps b)
      && list_eqb event_eqb (o_trace a) (o_trace b)
      && opt_eqb N.eqb (o_result a) (o_result b)
      && (o_unchecked a
          || (if o_mentions a then contains (o_text a) (o_text b) else negb (contains scheme_sep (o_text b))))
  | ORedact a, ORedact b => beqb a b
  | OSimple r a, OSimple r' b => opt_eqb N.eqb r r' && contains a b
  | _, _ => false
  end.

(* ---- the property in decidable form, on the implementation's observables ---------- *)
Fixpoint mem_nat (x : nat) (l : list nat) : bool :=
  match l with [] => false | y :: t => Nat.eqb x y || mem_nat x t end.

(* One pass over the event trace.  [seen]: URLs the validator was asked about so
   far; [left]: redirects the current attempt may still follow; [atts]: attempts
   that may still be started.  Every request must go to an accepted URL that the
   validator was asked about BEFORE (when one is configured). *)
Fixpoint trace_ok (acc : nat -> bool) (has_val : bool) (maxR : nat)
         (seen : list nat) (left atts : nat) (t : list (event nat)) : bool :=
  match t with
  | [] => true
  | EvValidate u :: t' => trace_ok acc has_val maxR (u :: seen) left atts t'
  | EvSend true u :: t' =>
      match atts with
      | O => false
      | S a => acc u && (negb has_val || mem_nat u seen) && trace_ok acc has_val maxR seen maxR a t'
      end
  | EvSend false u :: t' =>
      match left with
      | O => false
      | S l => acc u && (negb has_val || mem_nat u seen) && trace_ok acc has_val maxR seen l atts t'
      end
  end.

Fixpoint last_send (t : list (event nat)) : option nat :=
  match t with
  | [] => None
  | EvSend _ u :: t' => match last_send t' with Some v => Some v | None => Some u end
  | _ :: t' => last_send t'
  end.

Definition encoded (b : body) : bool := match b_enc b with EncId => false | _ => true end.
(* a resolved fetch must stem from a body within both caps, and return exactly its payload *)
Definition caps_ok (maxF maxD : N) (b : body) (n : N) : bool :=
  (b_wire b <=? maxF) && negb (is_some (b_trunc b))
  && (if encoded b then opt_eqb N.eqb (b_dec b) (Some n) && (n <=? maxD) else n =? b_wire b).

Definition long_enough (s : bytes) : bool := (6 <=? length s)%nat.
Definition secrets_of (p : parts) : list bytes :=
  if p_valid p then filter long_enough [p_user p; p_pass p; p_query p; p_frag p] else [].
(* a secret may show in an error only in so far as the redacted URL itself shows it *)
Definition free_of (secrets : list bytes) (red text : bytes) : bool :=
  forallb (fun s => implb (contains s text) (contains s red)) secrets.

Definition has_validator (k : vkind) : bool := match k with VNone => false | _ => true end.

Definition spec_fetch (f : fetch_in) (o : fetch_obs) : bool :=
  let g := view f in
  let maxR := Z.to_nat (max_redirects (f_redirects f)) in
  let maxF := Z.to_N (max_fetch (f_maxfetch f)) in
  let maxD := Z.to_N (max_decomp (f_maxdecomp f)) in
  let red := red0 (g_site g) in
  trace_ok (site_accepts (f_vkind f) (g_site g)) (has_validator (f_vkind f)) maxR [] O
           (eff_attempts (f_retries f)) (o_trace o)
  && (eff_attempts (f_retries f) <=? 3)%nat
  && match o_result o with
     | None => true
     | Some n =>
         match last_send (o_trace o) with
         | None => false
         | Some u => existsb (fun att => match site_origin (g_site g) att u with
                                         | ABody b => caps_ok maxF maxD b n
                                         | _ => false
                                         end) (seq 0 (eff_attempts (f_retries f)))
         end
     end
  && free_of (concat (map (fun s => secrets_of (s_parts s)) (f_site f))) red (o_text o)
  && free_of (f_secrets2 f) red (o_text2 o)
  && (negb (valid0 (g_site g)) || beqb (o_text o) (o_text2 o)).

Definition spec_ok (i : input) (o : obs) : bool :=
  match i, o with
  | IFetch f, OFetch fo => spec_fetch f fo
  | IRedact p, ORedact t => free_of (secrets_of p) (redact (pub_of p)) t
  | ISimple q, OSimple r t =>
      free_of (secrets_of (q_parts q)) (redact (pub_of (q_parts q))) t
      && match r with Some n => (Z.of_N n <=? q_maxfetch q)%Z | None => true end
  | _, _ => false
  end.
