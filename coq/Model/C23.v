(* Model/C23.v — authenticator failures and chains.
   vgirpc/http.go  HttpServer.authenticate : status mapping of the error an
                   AuthenticateFunc returns (errors.As for *AuthUnavailableError,
                   asAuthFailure for *AuthFailure, a DIRECT type assertion for
                   *RpcError);
   vgirpc/unauthorized.go  asAuthFailure / classifyAuthError / AuthReason.known /
                   writeUnauthorized : reason code, detail and headers of a 401;
   vgirpc/auth.go  AuthUnavailableError.retryAfterSeconds;
   vgirpc/bearer.go  ChainAuthenticate.

   Error values are trees.  [Wrap] is any error with [Unwrap() error]
   (fmt.Errorf with one %w, a custom wrapper), [Join] any error with
   [Unwrap() []error] (errors.Join, fmt.Errorf with several %w, a custom
   multi-wrapper; nil entries are skipped by the library and are not modelled),
   [Other] any leaf that is none of the three package types (errors.New, a
   wrapper whose Unwrap returns nil, ...).  *AuthFailure, *AuthUnavailableError
   and *RpcError have no Unwrap / As method, so they are leaves.

   errors.As is a pre-order depth-first search through both kinds of Unwrap
   ([find_unavail]); asAuthFailure follows ONLY [Unwrap() error] ([find_failure]);
   the RpcError tests look at the returned value itself.

   Authenticators are scripts: [Script o] returns the outcome [o] on every call,
   [Chain l] is ChainAuthenticate applied to the (recursively built) list. Scripts
   are numbered left to right; the call trace is the list of numbers called. *)
From Coq Require Import ZArith.
From VR Require Export Lib.Strs Gen.Consts.
Open Scope N_scope.

(* ---- error values -------------------------------------------------------- *)
Inductive aerr :=
| Failure (reason detail : bytes)       (* *AuthFailure *)
| Unavailable (retry : Z)               (* *AuthUnavailableError{RetryAfter} *)
| Rpc (ty msg : bytes)                  (* *RpcError *)
| Other
| Wrap (e : aerr)
| Join (es : list aerr).

Inductive outcome := Ok (principal : bytes) | Err (e : aerr).

(* errors.As(err, **AuthUnavailableError): first hit of the pre-order walk *)
Fixpoint find_unavail (e : aerr) : option Z :=
  match e with
  | Unavailable r => Some r
  | Wrap e' => find_unavail e'
  | Join es =>
      (fix first (l : list aerr) : option Z :=
         match l with
         | [] => None
         | x :: t => match find_unavail x with Some r => Some r | None => first t end
         end) es
  | _ => None
  end.

(* asAuthFailure: the single-Unwrap chain only *)
Fixpoint find_failure (e : aerr) : option (bytes * bytes) :=
  match e with
  | Failure r d => Some (r, d)
  | Wrap e' => find_failure e'
  | _ => None
  end.

Definition ty_value_error : bytes := c23_chain_exhausted_type.
Definition ty_permission_error : bytes := c23_permission_error_type.

(* AuthReason.known and the normalisation applied by classifyAuthError and
   again by writeUnauthorized *)
Definition known (r : bytes) : bool := existsb (beqb r) c23_auth_reasons.
Definition norm (r : bytes) : bytes := if known r then r else c23_reason_unauthorized.
(* the pre-fix normalisation: only the empty reason was replaced *)
Definition norm_legacy (r : bytes) : bytes :=
  match r with [] => c23_reason_unauthorized | _ => r end.

(* retryAfterSeconds *)
Definition retry_after (r : Z) : Z := if (r >? 0)%Z then r else c23_default_retry_after.

(* isRpc && (Type == ValueError || Type == PermissionError) on the value itself *)
Definition direct_reject (e : aerr) : bool :=
  match e with
  | Rpc ty _ => beqb ty ty_value_error || beqb ty ty_permission_error
  | _ => false
  end.

Definition is_some {A} (o : option A) : bool := match o with Some _ => true | None => false end.

(* classifyAuthError under a normalisation [nm] *)
Definition classify_with (nm : bytes -> bytes) (e : aerr) : bytes * bytes :=
  match find_failure e with
  | Some (r, d) => (nm r, d)
  | None =>
      match e with
      | Rpc ty msg =>
          if beqb ty ty_permission_error then (c23_reason_insufficient_scope, msg)
          else (c23_reason_unauthorized, msg)
      | _ => (c23_reason_unauthorized, [])  (* err.Error(): not reachable from authenticate *)
      end
  end.

Inductive resp := R503 (retry : Z) | R401 (reason detail : bytes) | R500.

(* authenticate's error branch *)
Definition status_with (nm : bytes -> bytes) (e : aerr) : resp :=
  match find_unavail e with
  | Some r => R503 (retry_after r)
  | None =>
      if is_some (find_failure e) || direct_reject e then
        let '(r, d) := classify_with nm e in R401 (nm r) d
      else R500
  end.
Definition status_of := status_with norm.
Definition status_legacy := status_with norm_legacy.

(* ---- chains -------------------------------------------------------------- *)
Definition exhausted : aerr := Rpc c23_chain_exhausted_type c23_chain_exhausted_msg.

(* does ChainAuthenticate move on past this outcome? (unavailable is tested first) *)
Definition passes (o : outcome) : bool :=
  match o with
  | Ok _ => false
  | Err e =>
      match find_unavail e with
      | Some _ => false
      | None => match e with Rpc ty _ => beqb ty ty_value_error | _ => false end
      end
  end.

(* flat chain over the outcomes of its members: (number called, result) *)
Fixpoint chain (l : list outcome) : nat * outcome :=
  match l with
  | [] => (0%nat, Err exhausted)
  | o :: t => if passes o then let '(n, r) := chain t in (S n, r) else (1%nat, o)
  end.

Inductive auth := Script (o : outcome) | Chain (l : list auth).

Fixpoint size (a : auth) : nat :=
  match a with
  | Script _ => 1%nat
  | Chain l => (fix sum (l : list auth) : nat :=
                  match l with [] => 0%nat | x :: t => (size x + sum t)%nat end) l
  end.

(* ChainAuthenticate panics on an empty list when the chain is BUILT *)
Fixpoint buildable (a : auth) : bool :=
  match a with
  | Script _ => true
  | Chain l => match l with [] => false | _ => true end &&
               (fix all (l : list auth) : bool :=
                  match l with [] => true | x :: t => buildable x && all t end) l
  end.

(* where a result came from: script number, or the end of a chain *)
Inductive origin := FromScript (id : nat) | FromExhausted.

(* one call of the authenticator: (trace, origin of the result, result) *)
Fixpoint run (a : auth) (base : nat) : list nat * origin * outcome :=
  match a with
  | Script o => ([base], FromScript base, o)
  | Chain l =>
      (fix go (l : list auth) (base : nat) : list nat * origin * outcome :=
         match l with
         | [] => ([], FromExhausted, Err exhausted)
         | x :: t =>
             let '(tr, og, o) := run x base in
             if passes o then
               let '(tr2, og2, o2) := go t (base + size x)%nat in (tr ++ tr2, og2, o2)
             else (tr, og, o)
         end) l base
  end.

(* ---- the HTTP exchange ---------------------------------------------------- *)
Record cfg := { c_www : bytes;      (* configured WWW-Authenticate; [] = none *)
                c_proxy : bool }.   (* SetProxyAuthHeaders configured *)
Record input := { i_cfg : cfg; i_auth : auth }.

(* what calling the installed AuthenticateFunc directly returns *)
Inductive dres :=
| DOk (principal : bytes)
| DSame (id : nat)              (* the very error value script [id] returned *)
| DExhausted (ty msg : bytes)   (* a fresh *RpcError *)
| DNone.

Record body401 := { b_error : bytes; b_reason : bytes; b_detail : bytes; b_hint : bool }.

Record obs := {
  o_built : bool;             (* building the authenticator did not panic *)
  o_dtrace : list nat;        (* call trace of a direct call *)
  o_dres : dres;
  o_trace : list nat;         (* call trace of the HTTP request *)
  o_status : Z;
  o_retry : list Z;           (* Retry-After values *)
  o_reason : list bytes;      (* VGI-Auth-Reason values *)
  o_cache : list bytes;       (* Cache-Control values *)
  o_www : list bytes;         (* WWW-Authenticate values *)
  o_proxy : list bytes;       (* VGI-Auth-Proxy-Required values *)
  o_body : option body401;    (* decoded JSON envelope of a 401 *)
  o_reached : list bytes      (* principals seen by the method handler *)
}.

Definition true_bytes : bytes := str "true".

Definition dres_of (og : origin) (o : outcome) : dres :=
  match o with
  | Ok p => DOk p
  | Err e =>
      match og with
      | FromScript id => DSame id
      | FromExhausted => match e with Rpc ty msg => DExhausted ty msg | _ => DNone end
      end
  end.

Definition mk_obs (tr : list nat) (d : dres) (status : Z) (retry : list Z)
    (reason cache www proxy : list bytes) (body : option body401) (reached : list bytes) : obs :=
  {| o_built := true; o_dtrace := tr; o_dres := d; o_trace := tr; o_status := status;
     o_retry := retry; o_reason := reason; o_cache := cache; o_www := www; o_proxy := proxy;
     o_body := body; o_reached := reached |}.

Definition respond (c : cfg) (tr : list nat) (og : origin) (o : outcome) : obs :=
  let d := dres_of og o in
  match o with
  | Ok p => mk_obs tr d 200%Z [] [] [] [] [] None [p]
  | Err e =>
      match status_of e with
      | R503 r => mk_obs tr d 503%Z [r] [] [] [] [] None []
      | R500 => mk_obs tr d 500%Z [] [] [] [] [] None []
      | R401 reason detail =>
          mk_obs tr d 401%Z [] [reason] [c23_cache_control_401]
            (match c_www c with [] => [] | w => [w] end)
            (if c_proxy c then [true_bytes] else [])
            (Some {| b_error := c23_body_error_401; b_reason := reason;
                     b_detail := detail; b_hint := c_proxy c |})
            []
      end
  end.

Definition unbuilt : obs :=
  {| o_built := false; o_dtrace := []; o_dres := DNone; o_trace := []; o_status := 0%Z;
     o_retry := []; o_reason := []; o_cache := []; o_www := []; o_proxy := [];
     o_body := None; o_reached := [] |}.

Definition model (i : input) : obs :=
  if buildable (i_auth i) then
    let '(tr, og, o) := run (i_auth i) 0 in respond (i_cfg i) tr og o
  else unbuilt.

(* ---- equality of observations -------------------------------------------- *)
Definition dres_eqb (a b : dres) : bool :=
  match a, b with
  | DOk p, DOk q => beqb p q
  | DSame i, DSame j => Nat.eqb i j
  | DExhausted t m, DExhausted t' m' => beqb t t' && beqb m m'
  | DNone, DNone => true
  | _, _ => false
  end.
Definition body_eqb (a b : body401) : bool :=
  beqb (b_error a) (b_error b) && beqb (b_reason a) (b_reason b)
  && beqb (b_detail a) (b_detail b) && Bool.eqb (b_hint a) (b_hint b).
Definition obs_eqb (a b : obs) : bool :=
  Bool.eqb (o_built a) (o_built b)
  && list_eqb Nat.eqb (o_dtrace a) (o_dtrace b) && dres_eqb (o_dres a) (o_dres b)
  && list_eqb Nat.eqb (o_trace a) (o_trace b)
  && Z.eqb (o_status a) (o_status b) && list_eqb Z.eqb (o_retry a) (o_retry b)
  && list_eqb beqb (o_reason a) (o_reason b) && list_eqb beqb (o_cache a) (o_cache b)
  && list_eqb beqb (o_www a) (o_www b) && list_eqb beqb (o_proxy a) (o_proxy b)
  && opt_eqb body_eqb (o_body a) (o_body b)
  && list_eqb beqb (o_reached a) (o_reached b).

(* ======================================================================== *)
(* The property in decidable form, evaluated on the implementation's          *)
(* observables.  Written from the property text with its own literals and its *)
(* own traversals ([s_...]); it does not mention [run], [chain], [status_of].  *)
(* ======================================================================== *)
Definition s_value_error : bytes := str "ValueError".
Definition s_permission_error : bytes := str "PermissionError".
Definition s_unauthorized : bytes := str "unauthorized".
Definition s_insufficient_scope : bytes := str "insufficient_scope".
Definition s_closed_set : list bytes :=
  [str "missing_credential"; str "invalid_credential"; str "expired_credential";
   str "insufficient_scope"; str "proxy_required"; str "unauthorized"].
Definition s_in_set (r : bytes) : bool := existsb (beqb r) s_closed_set.

(* every AuthUnavailableError anywhere in the tree, in walk order *)
Fixpoint s_unavails (e : aerr) : list Z :=
  match e with
  | Unavailable r => [r]
  | Wrap e' => s_unavails e'
  | Join es => flat_map s_unavails es
  | _ => []
  end.

(* the end of the single-Unwrap chain *)
Fixpoint s_chain_end (e : aerr) : aerr :=
  match e with Wrap e' => s_chain_end e' | _ => e end.

(* "a rejection": reason and detail it must be reported with *)
Definition s_rejection (e : aerr) : option (bytes * bytes) :=
  match s_chain_end e with
  | Failure r d => Some (if s_in_set r then r else s_unauthorized, d)
  | _ =>
      match e with
      | Rpc ty msg =>
          if beqb ty s_permission_error then Some (s_insufficient_scope, msg)
          else if beqb ty s_value_error then Some (s_unauthorized, msg)
          else None
      | _ => None
      end
  end.

(* "a directly returned ValueError RpcError" *)
Definition s_moves_on (o : outcome) : bool :=
  match o with Err (Rpc ty _) => beqb ty s_value_error | _ => false end.

(* the scripts of an authenticator, left to right *)
Fixpoint s_scripts (a : auth) : list outcome :=
  match a with
  | Script o => [o]
  | Chain l => flat_map s_scripts l
  end.

Definition s_is_chain (a : auth) : bool := match a with Chain _ => true | _ => false end.

(* trace [tr] is a correct run: scripts 0..k-1 in order, every one but the last
   moved on, and the chain ended for the right reason. Returns the outcome the
   request must be answered with. *)
Definition s_stop (a : auth) (tr : list nat) : option (origin * outcome) :=
  let ss := s_scripts a in
  let k := length tr in
  if negb (list_eqb Nat.eqb tr (seq 0 k)) then None
  else match k with
  | O => None
  | S k' =>
      if negb (forallb s_moves_on (firstn k' ss)) then None
      else match nth_error ss k' with
      | None => None
      | Some last =>
          if s_moves_on last && s_is_chain a then
            (* every member moved on: only legal at the very end *)
            if Nat.eqb k (length ss) then Some (FromExhausted, Err (Rpc s_value_error [])) else None
          else Some (FromScript k', last)
      end
  end.

Definition s_dres_ok (og : origin) (o : outcome) (d : dres) : bool :=
  match og, o, d with
  | FromScript _, Ok p, DOk q => beqb p q
  | FromScript id, Err _, DSame j => Nat.eqb id j
  | FromExhausted, _, DExhausted ty _ => beqb ty s_value_error
  | _, _, _ => false
  end.

Definition s_no401 (ob : obs) : bool :=
  match o_reason ob, o_proxy ob, o_body ob with [], [], None => true | _, _, _ => false end.

Definition s_response_ok (c : cfg) (og : origin) (o : outcome) (ob : obs) : bool :=
  match o with
  | Ok p =>
      Z.eqb (o_status ob) 200 && list_eqb beqb (o_reached ob) [p]
      && list_eqb Z.eqb (o_retry ob) [] && s_no401 ob
  | Err e =>
      list_eqb beqb (o_reached ob) [] &&
      match s_unavails e with
      | r :: _ =>
          Z.eqb (o_status ob) 503
          && list_eqb Z.eqb (o_retry ob) [if (0 <? r)%Z then r else 5%Z] && s_no401 ob
      | [] =>
          let rej := match og with
                     | FromExhausted => Some (s_unauthorized, None)
                     | FromScript _ =>
                         match s_rejection e with
                         | Some (r, d) => Some (r, Some d) | None => None end
                     end in
          match rej with
          | Some (r, d) =>
              Z.eqb (o_status ob) 401 && list_eqb Z.eqb (o_retry ob) []
              && s_in_set r
              && list_eqb beqb (o_reason ob) [r]
              && list_eqb beqb (o_cache ob) [str "no-store"]
              && list_eqb beqb (o_www ob) (match c_www c with [] => [] | w => [w] end)
              && list_eqb beqb (o_proxy ob) (if c_proxy c then [str "true"] else [])
              && match o_body ob with
                 | Some b => beqb (b_error b) s_unauthorized && beqb (b_reason b) r
                             && match d with Some d => beqb (b_detail b) d | None => true end
                             && Bool.eqb (b_hint b) (c_proxy c)
                 | None => false
                 end
          | None =>
              Z.eqb (o_status ob) 500 && list_eqb Z.eqb (o_retry ob) [] && s_no401 ob
          end
      end
  end.

Definition spec_ok (i : input) (ob : obs) : bool :=
  if negb (buildable (i_auth i)) then true   (* documented panic at build time; outside the property *)
  else
    o_built ob &&
    list_eqb Nat.eqb (o_dtrace ob) (o_trace ob) &&
    match s_stop (i_auth i) (o_trace ob) with
    | None => false
    | Some (og, o) => s_dres_ok og o (o_dres ob) && s_response_ok (i_cfg i) og o ob
    end.
