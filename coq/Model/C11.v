(* Model/C11.v — a stream call over the pipe (vgirpc/server_stream.go serveStream:
   one lockstep loop holding the live state) and over HTTP (vgirpc/http_stream.go
   handleStreamInit / handleStreamExchange / handleProducerContinuation /
   handleExchangeCall / runProduceLoopInto, http_state.go packCursorToken /
   packCallTokenFor / openCursorToken / resolveCall / callStateCache): /init runs
   the init handler and, for producers, up to L produce cycles (L = producer batch
   limit, 0 = unlimited) or until max_response_bytes is reached, then seals the
   state into a cursor token + call token; every continuation request opens the
   cursor, resolves the call (per-instance LRU cache hit, or opens the echoed call
   token), checks the minting method, runs one exchange turn or up to L produce
   cycles, and re-seals.

   The first half is GENERIC: any deterministic step function, any state codec
   (gob) and any AEAD, as Section variables. The second half instantiates it with
   the harness's scripted state (rpcutil.go ScriptState) and trivial codecs to
   obtain the executable [model] that is compared with the real code. *)
From VR Require Export Lib.Frames Gen.Consts.
Open Scope N_scope.

(* ---------------------------------------------------------------- shared *)
Inductive tres (S : Type) :=
| TOk (s' : S) (outs : list frame) (fin : bool)  (* flushed batches of one validated turn; fin = out.Finish() was called *)
| TErr (e : frame).                               (* the turn failed: one EXCEPTION batch, collected output dropped *)
Arguments TOk {S}. Arguments TErr {S}.

(* the fixed half of a stream's state: callTokenData / resolvedCall *)
Record callinfo := { ci_id : bytes; ci_method : bytes; ci_schema : bytes;
                     ci_inschema : bytes }.   (* runtime input schema of a method that registers none; [] = absent *)

(* callStateCache: bounded LRU, front = most recently used; max = 0 disables it *)
Definition cache := list (bytes * callinfo).
Fixpoint cfind (k : bytes) (c : cache) : option callinfo :=
  match c with [] => None | (k', v) :: t => if beqb k k' then Some v else cfind k t end.
Definition cdel (k : bytes) (c : cache) : cache := filter (fun e => negb (beqb k (fst e))) c.
Definition cput (max : nat) (k : bytes) (v : callinfo) (c : cache) : cache :=
  match max with O => c | _ => firstn max ((k, v) :: cdel k c) end.
Definition cget (max : nat) (k : bytes) (c : cache) : option (callinfo * cache) :=
  match max with
  | O => None
  | _ => match cfind k c with Some v => Some (v, (k, v) :: cdel k c) | None => None end
  end.
Definition upd (caches : nat -> cache) (inst : nat) (c : cache) : nat -> cache :=
  fun n => if Nat.eqb n inst then c else caches n.
(* an instance's cache never maps this call's id to anything but this call's fixed half *)
Definition cache_ok (cid : bytes) (info : callinfo) (c : cache) : Prop :=
  forall v, cfind cid c = Some v -> v = info.
Definition caches_ok (cid : bytes) (info : callinfo) (caches : nat -> cache) : Prop :=
  forall n, cache_ok cid info (caches n).

(* ---------------------------------------------------------------- pipe *)
Section Pipe.
  Context {state inp raw : Type}.
  Variable step : state -> inp -> tres state.
  Variable cast : raw -> inp + frame.      (* castRecordBatch against the input schema; identity for ticks *)

  (* serveStream's lockstep loop: one turn per client input batch, until the
     input ends, a turn fails (cast error, handler error, validation) or a
     producer finishes. *)
  Fixpoint pipe_loop (s : state) (ins : list raw) : list frame :=
    match ins with
    | [] => []
    | r :: rest =>
        match cast r with
        | inr e => [e]
        | inl i => match step s i with
                   | TErr e => [e]
                   | TOk s' outs fin => outs ++ (if fin then [] else pipe_loop s' rest)
                   end
        end
    end.
End Pipe.

(* ---------------------------------------------------------------- HTTP *)
Inductive rclass :=
| RNormal       (* 200: the body carries the outcome *)
| RHandlerErr   (* 500 rewritten by writeArrow to 200 + X-VGI-RPC-Error: true *)
| RRefused.     (* 400: request refused before any user code ran; empty-schema error stream *)

Record resp (token : Type) := {
  rs_class : rclass;
  rs_schema : bytes;             (* schema of the data stream (registered, or recovered from the call token) *)
  rs_frames : list frame;        (* batches other than the token sentinel *)
  rs_tok : option token;         (* cursor returned to the client *)
  rs_sentinel : bool }.          (* the cursor travels on its own zero-row batch (producer, exchange init) *)
Arguments rs_class {token}. Arguments rs_schema {token}. Arguments rs_frames {token}.
Arguments rs_tok {token}. Arguments rs_sentinel {token}.

Section Http.
  Context {state inp raw mid sbytes token ctoken : Type}.
  Variable step : state -> inp -> tres state.
  (* handleStreamExchange casts in two places: against the REGISTERED input schema
     before any token is opened (nothing happens there for a method that registers
     none), and, once the call is resolved, against the runtime input schema the
     call token carries for such a method *)
  Variable cast1 : raw -> mid + frame.
  Variable cast2 : callinfo -> mid -> inp + frame.
  (* oracles: gob state codec, XChaCha20-Poly1305 envelope of both token kinds *)
  Variable ser : state -> sbytes.
  Variable deser : sbytes -> option state.
  Variable seal_cur : bytes * sbytes -> token.
  Variable open_cur : token -> option (bytes * sbytes).
  Variable seal_call : callinfo -> ctoken.
  Variable open_call : ctoken -> option callinfo.
  (* configuration *)
  Variable L : nat.                         (* producerBatchLimit, 0 = unlimited *)
  Variable cut : list frame -> bool.        (* body.Len() >= max_response_bytes after these batches *)
  Variable cmax : nat.                      (* call-state cache entries per instance, 0 = disabled *)
  Variable route : nat -> nat.              (* request number -> instance that serves it *)
  Variable mth : bytes.                     (* method named by the request path *)
  Variable schema_of : callinfo -> bytes.   (* output schema used by a continuation *)
  Variable refusal : frame.                 (* error batch of a token refusal *)
  (* OTHER streams served by the same instances: what their /init and continuation
     requests did to every instance's cache between this stream's request k-1
     and its request k (their own cput / cget / LRU evictions) *)
  Variable env : nat -> (nat -> cache) -> (nat -> cache).

  Definition limit_hit (n : nat) : bool := Nat.ltb 0 L && Nat.leb L n.

  Inductive pstop := PFin | PErr | PMore (s : state).

  (* runProduceLoopInto. [ticks] is the number of produce cycles the client is
     willing to consume (on the pipe: the ticks it sends); [acc] is the response
     body so far (init logs). *)
  Fixpoint produce (s : state) (ticks : list inp) (n : nat) (acc : list frame)
    : list frame * pstop * list inp :=
    match ticks with
    | [] => (acc, PMore s, [])
    | i :: rest =>
        match step s i with
        | TErr e => (acc ++ [e], PErr, rest)
        | TOk s' outs true => (acc ++ outs, PFin, rest)
        | TOk s' outs false =>
            let acc' := acc ++ outs in
            let n' := (n + count is_data outs)%nat in
            if limit_hit n' || cut acc' then (acc', PMore s', rest) else produce s' rest n' acc'
        end
    end.

  (* resolveCall *)
  Definition resolve (c : cache) (cid : bytes) (ct : ctoken) : option callinfo * cache :=
    match cget cmax cid c with
    | Some (info, c') => (Some info, c')
    | None =>
        match open_call ct with
        | None => (None, c)
        | Some info => if beqb (ci_id info) cid then (Some info, cput cmax cid info c) else (None, c)
        end
    end.

  (* handleStreamExchange up to the mode switch: open the cursor (AEAD, then gob),
     resolve the call, require the minting method *)
  Definition open_request (c : cache) (tok : token) (ct : ctoken) : option (bytes * state * callinfo) * cache :=
    match open_cur tok with
    | None => (None, c)
    | Some (cid, sb) =>
        match deser sb with
        | None => (None, c)
        | Some s =>
            match resolve c cid ct with
            | (None, c') => (None, c')
            | (Some info, c') => if beqb (ci_method info) mth then (Some (cid, s, info), c') else (None, c')
            end
        end
    end.

  Definition refused (e : frame) : resp token :=
    {| rs_class := RRefused; rs_schema := []; rs_frames := [e]; rs_tok := None; rs_sentinel := false |}.

  (* ---- exchange *)
  Definition exchange_req (c : cache) (tok : token) (ct : ctoken) (r : raw) : resp token * cache :=
    match cast1 r with
    | inr e => (refused e, c)
    | inl m =>
        match open_request c tok ct with
        | (None, c') => (refused refusal, c')
        | (Some (cid, s, info), c') =>
            match cast2 info m with
            | inr e => (refused e, c')
            | inl i =>
                match step s i with
                | TErr e => ({| rs_class := RHandlerErr; rs_schema := schema_of info; rs_frames := [e]; rs_tok := None; rs_sentinel := false |}, c')
                | TOk s' outs _ => ({| rs_class := RNormal; rs_schema := schema_of info; rs_frames := outs;
                                       rs_tok := Some (seal_cur (cid, ser s')); rs_sentinel := false |}, c')
                end
            end
        end
    end.

  (* the client: one request per input, echoing the latest cursor and the call token of /init *)
  Fixpoint exch_client (k : nat) (caches : nat -> cache) (tok : token) (ct : ctoken) (ins : list raw) : list (resp token) :=
    match ins with
    | [] => []
    | r :: rest =>
        let caches := env k caches in
        let inst := route k in
        let (rs, c') := exchange_req (caches inst) tok ct r in
        rs :: match rs_tok rs with
              | Some tok' => exch_client (S k) (upd caches inst c') tok' ct rest
              | None => []
              end
    end.

  Definition http_exch (info : callinfo) (schema : bytes) (caches : nat -> cache) (s0 : state) (pre : list frame) (ins : list raw) : list (resp token) :=
    let cid := ci_id info in
    let tok := seal_cur (cid, ser s0) in
    let caches' := upd caches (route 0) (cput cmax cid info (caches (route 0))) in
    {| rs_class := RNormal; rs_schema := schema; rs_frames := pre; rs_tok := Some tok; rs_sentinel := true |}
      :: exch_client 1 caches' tok (seal_call info) ins.

  (* ---- producer *)
  Definition token_resp (schema cid : bytes) (fs : list frame) (stop : pstop) : resp token :=
    {| rs_class := RNormal; rs_schema := schema; rs_frames := fs;
       rs_tok := match stop with PMore s' => Some (seal_cur (cid, ser s')) | _ => None end; rs_sentinel := true |}.

  Definition prod_req (c : cache) (tok : token) (ct : ctoken) (ticks : list inp) : resp token * cache * list inp :=
    match open_request c tok ct with
    | (None, c') => (refused refusal, c', [])
    | (Some (cid, s, info), c') =>
        let '(fs, stop, rest) := produce s ticks 0 [] in (token_resp (schema_of info) cid fs stop, c', rest)
    end.

  Fixpoint prod_client (fuel k : nat) (caches : nat -> cache) (tok : token) (ct : ctoken) (ticks : list inp) : list (resp token) :=
    match fuel, ticks with
    | O, _ | _, [] => []
    | S f, _ =>
        let caches := env k caches in
        let inst := route k in
        let '(rs, c', rest) := prod_req (caches inst) tok ct ticks in
        rs :: match rs_tok rs with
              | Some tok' => prod_client f (S k) (upd caches inst c') tok' ct rest
              | None => []
              end
    end.

  Definition http_prod (info : callinfo) (schema : bytes) (caches : nat -> cache) (s0 : state) (pre : list frame) (ticks : list inp) : list (resp token) :=
    let cid := ci_id info in
    let '(fs, stop, rest) := produce s0 ticks 0 pre in
    let r0 := token_resp schema cid fs stop in
    let caches' := match stop with
                   | PMore _ => upd caches (route 0) (cput cmax cid info (caches (route 0)))
                   | _ => caches
                   end in
    r0 :: match rs_tok r0 with
          | Some tok' => prod_client (length rest) 1 caches' tok' (seal_call info) rest
          | None => []
          end.
End Http.

(* the two HTTP casts of one exchange input, composed *)
Definition cast_http {raw mid inp : Type} (cast1 : raw -> mid + frame) (cast2 : callinfo -> mid -> inp + frame)
  (info : callinfo) (r : raw) : inp + frame :=
  match cast1 r with inr e => inr e | inl m => cast2 info m end.

(* the client view of a list of HTTP responses, for any projection [vw] of one
   batch under its stream's schema: every response's batches in order, the
   token sentinel, the status and the error header dropped *)
Definition resp_schema {T} (r : resp T) : bytes := match rs_class r with RRefused => [] | _ => rs_schema r end.
Definition resps_view {T V} (vw : bytes -> frame -> list V) (rs : list (resp T)) : list V :=
  flat_map (fun r => flat_map (vw (resp_schema r)) (rs_frames r)) rs.

(* producer chunking on its own: L = 0 is one chunk *)
Fixpoint chunks_aux {A} (fuel L : nat) (xs : list A) : list (list A) :=
  match fuel with
  | O => [xs]
  | S f => match xs with [] => [] | _ => firstn L xs :: chunks_aux f L (skipn L xs) end
  end.
Definition chunks {A} (L : nat) (xs : list A) : list (list A) :=
  match L with O => [xs] | _ => chunks_aux (length xs) L xs end.

(* ================================================================ concrete *)
(* scripted user code: harness rpcutil.go LogSpec / ErrSpec / TurnScript / StreamScript *)
Record logmsg := { lg_level : bytes; lg_msg : bytes; lg_extras : kvlist }.
Inductive failure :=
| ERpc (ty msg : bytes) | EPlain (msg : bytes) | EWrapped (ty msg : bytes) | EPanic (shown : bytes).
Inductive act := AEmit | AEmit2 | ANoEmit | AFinish | AEmitFinish | AErr (f : failure).
Record tscript := { t_logs : list logmsg; t_act : act; t_value : Z; t_meta : kvlist }.

Inductive mkind := MProd | MProdH | MExch | MExchH | MDynProd | MDynExch.
Inductive coltype := CI64 | CI32 | CBadName.   (* input column: {x:int64} | {x:int32} | {y:int64} *)

Record input := {
  i_kind : mkind; i_reqid : bytes; i_loglevel : bytes;
  i_initlogs : list logmsg; i_initfail : option failure; i_header : option Z;
  i_ocol : bytes;                                   (* output column a DYNAMIC method's init handler chooses at run time *)
  i_turns : list tscript;
  i_col : coltype; i_ins : list (list Z);          (* one entry per client input batch / tick *)
  i_L : nat; i_capevery : bool; i_cmax : nat; i_route : list nat;
  i_compress : bool }.                              (* decoded by the client before parsing: not visible to the model *)

Record hresp := { h_status : Z; h_errhdr : bool; h_streams : list stream; h_tok : bool }.
Record obs := { o_pipe : list stream; o_http : list hresp }.

Definition is_producer (k : mkind) : bool := match k with MProd | MProdH | MDynProd => true | _ => false end.
Definition has_header (k : mkind) : bool := match k with MProd | MExch => false | _ => true end.
Definition is_dynamic (k : mkind) : bool := match k with MDynProd | MDynExch => true | _ => false end.
Definition method_name (k : mkind) : bytes :=
  match k with MProd => str "prod" | MProdH => str "prod_h" | MExch => str "exch" | MExchH => str "exch_h" | _ => str "dyn" end.
Definition reg_out_schema : bytes := str "v:int64".
(* output schema of the call: registered {v:int64}, or the one the dynamic init handler returned *)
Definition out_schema_of (k : mkind) (ocol : bytes) : bytes :=
  match k with MDynProd | MDynExch => ocol ++ str ":int64" | _ => reg_out_schema end.
Definition hdr_schema : bytes := str "h:int64".
(* schema of the error stream of a failed init on the pipe: the REGISTERED output schema *)
Definition reg_schema (k : mkind) : bytes := if is_dynamic k then [] else reg_out_schema.

(* log.go logLevelPriority / context.go ClientLog (init logs only: the per-turn
   OutputCollector.ClientLog does not filter) *)
Fixpoint prio_in (tbl : list bytes) (l : bytes) (n : Z) : Z :=
  match tbl with [] => log_prio_unknown | x :: t => if beqb x l then n else prio_in t l (n + 1)%Z end.
Definition prio (l : bytes) : Z := prio_in log_levels l 0%Z.
Definition effective_level (l : bytes) : bytes := match l with [] => level_trace | _ => l end.
Definition admitted (req : bytes) (m : logmsg) : bool := (prio (lg_level m) <=? prio (effective_level req))%Z.

Definition rpc_text (ty msg : bytes) : bytes := ty ++ c11_rpc_sep ++ msg.
Definition exc_type (f : failure) : bytes := match f with ERpc ty _ => ty | _ => exc_runtime_error end.
Definition init_exc_msg (f : failure) : bytes :=
  match f with
  | ERpc ty m => rpc_text ty m
  | EPlain m => m
  | EWrapped ty m => wrap_prefix ++ rpc_text ty m
  | EPanic s => rpc_text exc_runtime_error (panic_prefix ++ s)
  end.
Definition turn_exc_msg (f : failure) : bytes :=
  match f with EPanic s => rpc_text exc_runtime_error s | _ => init_exc_msg f end.

Definition log_frame (rid : bytes) (m : logmsg) : frame := FLog (lg_level m) (lg_msg m) rid (kv_sort (lg_extras m)).
Definition exc (ty msg : bytes) : frame := FExc ty msg [] [].
(* the pipe stamps the request id on the error batch it writes; HTTP passes "" *)
Definition stamp (rid : bytes) (f : frame) : frame := match f with FExc t m _ k => FExc t m rid k | _ => f end.

(* ScriptState.turn followed by the framework's validation of the collector *)
Definition sstate := list tscript.
Definition default_turn (prod : bool) : tscript :=
  {| t_logs := []; t_act := if prod then AFinish else AEmit; t_value := 0; t_meta := [] |}.
Definition sstep (prod : bool) (s : sstate) (x : Z) : tres sstate :=
  let t := match s with [] => default_turn prod | t :: _ => t end in
  let s' := tl s in
  let logs := map (log_frame []) (t_logs t) in
  let data := FData 1 [(t_value t + x)%Z] (kv_sort (t_meta t)) in
  let fin_ex := TErr (exc c11_exc_finish_exchange c11_err_finish_exchange) in
  match t_act t with
  | AEmit => TOk s' (logs ++ [data]) false
  | AEmit2 => TErr (exc c11_exc_two_batches c11_err_two_batches)
  | ANoEmit => TErr (exc c11_exc_no_data c11_err_no_data)
  | AFinish => if prod then TOk s' logs true else fin_ex
  | AEmitFinish => if prod then TOk s' (logs ++ [data]) true else fin_ex
  | AErr f => TErr (exc (exc_type f) (turn_exc_msg f))
  end.

(* what the state receives for one input batch *)
Definition zsum (l : list Z) : Z := fold_right Z.add 0%Z l.
Definition cast_exc : frame := exc c11_exc_cast_name c11_err_cast_name.
Definition cast_pipe (r : coltype * list Z) : Z + frame :=
  match fst r with CBadName => inr cast_exc | _ => inl (zsum (snd r)) end.
(* HTTP, first cast: against the registered input schema {x:int64}, which a
   dynamic method does not have (its batch passes as sent) *)
Definition cast_reg (k : mkind) (r : coltype * list Z) : (coltype * list Z) + frame :=
  if is_dynamic k then inl r
  else match cast_pipe r with inl _ => inl (CI64, snd r) | inr e => inr e end.
(* what the scripted state reads off a batch handed over without a cast: -999
   when the column is not int64 *)
Definition deliver (m : coltype * list Z) : Z := match fst m with CI32 => (-999)%Z | _ => zsum (snd m) end.
(* HTTP, second cast: against the runtime input schema carried by the call token *)
Definition cast_rt (info : callinfo) (m : coltype * list Z) : Z + frame :=
  match ci_inschema info with [] => inl (deliver m) | _ => cast_pipe m end.
Definition in_schema : bytes := str "x:int64".

Definition out_schema (i : input) : bytes := out_schema_of (i_kind i) (i_ocol i).
Definition hdr (i : input) : option Z := if has_header (i_kind i) then i_header i else None.
Definition adm (i : input) : list logmsg := filter (admitted (i_loglevel i)) (i_initlogs i).
Definition hdr_streams (i : input) : list stream :=
  match hdr i with
  | Some h => [ {| st_schema := hdr_schema; st_frames := map (log_frame []) (adm i) ++ [FData 1 [h] []] |} ]
  | None => []
  end.
(* init logs not drained into a header stream open the data stream *)
Definition pre (rid : bytes) (i : input) : list frame :=
  match hdr i with Some _ => [] | None => map (log_frame rid) (adm i) end.
Definition init_exc (rid : bytes) (f : failure) : frame := FExc (exc_type f) (init_exc_msg f) rid [].
Definition raws (i : input) : list (coltype * list Z) := map (pair (i_col i)) (i_ins i).
Definition ticks (i : input) : list Z := map (fun _ => 0%Z) (i_ins i).

(* the lockstep loop of this call on the pipe (producers: no cast, one turn per tick) *)
Definition loop (i : input) : list frame :=
  if is_producer (i_kind i)
  then pipe_loop (sstep true) (@inl Z frame) (i_turns i) (ticks i)
  else pipe_loop (sstep false) cast_pipe (i_turns i) (raws i).

Definition pipe_obs (i : input) : list stream :=
  match i_initfail i with
  | Some f => [ {| st_schema := reg_schema (i_kind i); st_frames := [init_exc (i_reqid i) f] |} ]
  | None =>
      hdr_streams i ++ [ {| st_schema := out_schema i; st_frames := pre (i_reqid i) i ++ map (stamp (i_reqid i)) (loop i) |} ]
  end.

(* trivial codecs for the executable model *)
Definition cid0 : bytes := str "call".
Definition route_of (l : list nat) (k : nat) : nat := match l with [] => O | _ => nth (Nat.modulo k (length l)) l O end.
Definition refusal0 : frame := exc exc_runtime_error [].

(* [legacy] = the code before the repair: the call token did not carry the runtime
   input schema, so a dynamic exchange stream was never cast over HTTP *)
Definition call_info (legacy : bool) (k : mkind) (ocol : bytes) : callinfo :=
  {| ci_id := cid0; ci_method := method_name k; ci_schema := out_schema_of k ocol;
     ci_inschema := if negb legacy && is_dynamic k && negb (is_producer k) then in_schema else [] |}.

Definition http_resps_gen (legacy : bool) (i : input) : list (resp (bytes * sstate)) :=
  let k := i_kind i in
  if is_producer k
  then http_prod (sstep true) (fun s => s) (@Some sstate) (fun x => x) (@Some _) (fun x => x) (@Some callinfo)
                 (i_L i) (fun _ => i_capevery i) (i_cmax i)
                 (route_of (i_route i)) (method_name k) ci_schema refusal0
                 (fun _ c => c)
                 (call_info legacy k (i_ocol i)) (out_schema i) (fun _ => []) (i_turns i) (pre [] i) (ticks i)
  else http_exch (sstep false) (cast_reg k) cast_rt (fun s => s) (@Some sstate) (fun x => x) (@Some _) (fun x => x) (@Some callinfo)
                 (i_cmax i)
                 (route_of (i_route i)) (method_name k) ci_schema refusal0
                 (fun _ c => c)
                 (call_info legacy k (i_ocol i)) (out_schema i) (fun _ => []) (i_turns i) (pre [] i) (raws i).
Definition http_resps := http_resps_gen false.

Definition render {T} (r : resp T) : hresp :=
  let tokf := match rs_tok r with Some _ => if rs_sentinel r then [FToken] else [] | None => [] end in
  {| h_status := match rs_class r with RRefused => 400%Z | _ => 200%Z end;
     h_errhdr := match rs_class r with RHandlerErr => true | _ => false end;
     h_streams := [ {| st_schema := resp_schema r; st_frames := rs_frames r ++ tokf |} ];
     h_tok := match rs_tok r with Some _ => true | None => false end |}.

Definition with_header (hs : list stream) (r : hresp) : hresp :=
  {| h_status := h_status r; h_errhdr := h_errhdr r; h_streams := hs ++ h_streams r; h_tok := h_tok r |}.

Definition http_obs_gen (legacy : bool) (i : input) : list hresp :=
  match i_initfail i with
  | Some f => [ {| h_status := 200%Z; h_errhdr := true;
                   h_streams := [ {| st_schema := []; st_frames := [init_exc [] f] |} ]; h_tok := false |} ]
  | None =>
      match map render (http_resps_gen legacy i) with
      | [] => []
      | r0 :: rest => with_header (hdr_streams i) r0 :: rest
      end
  end.

Definition http_obs := http_obs_gen false.
Definition model (i : input) : obs := {| o_pipe := pipe_obs i; o_http := http_obs i |}.
Definition legacy_model (i : input) : obs := {| o_pipe := pipe_obs i; o_http := http_obs_gen true i |}.

Definition hresp_eqb (a b : hresp) : bool :=
  Z.eqb (h_status a) (h_status b) && Bool.eqb (h_errhdr a) (h_errhdr b)
  && list_eqb stream_eqb (h_streams a) (h_streams b) && Bool.eqb (h_tok a) (h_tok b).
Definition obs_eqb (a b : obs) : bool :=
  list_eqb stream_eqb (o_pipe a) (o_pipe b) && list_eqb hresp_eqb (o_http a) (o_http b).

(* ---- the property in decidable form ------------------------------------
   CLIENT VIEW: the header stream (its logs and the header batch) and, in order,
   every data batch (schema, rows, values, user metadata), every log message
   (level, text, extras) and the terminating error (type, text).
   Projected OUT, because the two transports are allowed to differ there:
   the token sentinel batches and how the output is cut into HTTP responses,
   the request id echoed on log / error batches (the pipe echoes it on init
   logs and on the error batch, HTTP never does), the HTTP status and the
   X-VGI-RPC-Error header, and the schema of a stream that carries only an
   error batch (the HTTP refusals use the empty schema). *)
Inductive vframe :=
| VData (schema : bytes) (rows : N) (vals : list Z) (umeta : kvlist)
| VLog (level msg : bytes) (extras : kvlist)
| VErr (etype msg : bytes)
| VPtr.
Definition vf (sch : bytes) (f : frame) : list vframe :=
  match f with
  | FData r v m => [VData sch r v m]
  | FLog l m _ e => [VLog l m e]
  | FExc t m _ _ => [VErr t m]
  | FToken => []
  | FPtr => [VPtr]
  end.
Definition sview (s : stream) : list vframe := flat_map (vf (st_schema s)) (st_frames s).
Record view := { v_header : option (list vframe); v_body : list vframe }.
Definition split_header (ss : list stream) : option stream * list stream :=
  match ss with [h; d] => (Some h, [d]) | _ => (None, ss) end.
Definition pipe_view (ss : list stream) : view :=
  let (h, ds) := split_header ss in {| v_header := option_map sview h; v_body := flat_map sview ds |}.
Definition http_view (rs : list hresp) : view :=
  match rs with
  | [] => {| v_header := None; v_body := [] |}
  | r0 :: rest =>
      let (h, ds) := split_header (h_streams r0) in
      {| v_header := option_map sview h;
         v_body := flat_map sview ds ++ flat_map (fun r => flat_map sview (h_streams r)) rest |}
  end.

Definition vframe_eqb (a b : vframe) : bool :=
  match a, b with
  | VData s r v m, VData s' r' v' m' => beqb s s' && N.eqb r r' && list_eqb Z.eqb v v' && kv_eqb m m'
  | VLog l m e, VLog l' m' e' => beqb l l' && beqb m m' && kv_eqb e e'
  | VErr t m, VErr t' m' => beqb t t' && beqb m m'
  | VPtr, VPtr => true
  | _, _ => false
  end.
Definition view_eqb (a b : view) : bool :=
  opt_eqb (list_eqb vframe_eqb) (v_header a) (v_header b) && list_eqb vframe_eqb (v_body a) (v_body b).

(* where the code BEFORE the repair already cast like the pipe: the method has a
   registered input schema (static exchange), takes no input (producer), or the
   input already has the declared schema *)
Definition cast_safe (i : input) : bool :=
  negb (is_dynamic (i_kind i)) || is_producer (i_kind i) || match i_col i with CI64 => true | _ => false end.

Definition spec_ok (i : input) (o : obs) : bool := view_eqb (pipe_view (o_pipe o)) (http_view (o_http o)).
