(* Model/C20.v — correlation and capability headers of the HTTP transport
   (vgirpc/http.go: resolveRequestID, ServeHTTP, addCapabilityHeaders,
   addCorsHeaders, authenticate; unauthorized.go: writeUnauthorized;
   http_sticky.go: addStickyCapabilityHeaders, writeStickyResponseHeaders;
   http_helpers.go: writeArrow; http_compression.go: finish).

   Three parts:
   (a) [resolve_request_id]: Go's strings.TrimSpace on the first header value
       (Unicode White_Space, decided on the UTF-8 byte sequences), 1..128 bytes
       echoed, otherwise the minted id, which is an oracle value [mint]
       (crypto/rand); its shape (16 lower-case hex) is a premise of the
       theorems and is checked on the implementation's value by [spec_ok].
   (b) [serve_one]/[serve_seq]: the exit-path tree of ServeHTTP as a decision
       tree over a configuration and a request CLASS; every exit yields the
       status and the set of tracked response headers.
   (c) [emittable]/[expose_std]: per configuration of the 14-toggle feature
       lattice, everything the server can put on a response and what
       addCorsHeaders lists in Access-Control-Expose-Headers. Header names and
       the tabulated lattice points come from Gen/Consts.v (real functions
       called under each configuration by vgirpc/verif_c20.go). *)
From VR Require Export Lib.Strs Gen.Consts.
Open Scope N_scope.

(* ---------------------------------------------------------------- (a) *)
(* UTF-8 encodings of the runes for which unicode.IsSpace holds:
   U+0009..U+000D, U+0020, U+0085, U+00A0, U+1680, U+2000..U+200A, U+2028,
   U+2029, U+202F, U+205F, U+3000.  A byte string starts (ends) with a space
   rune in the sense of utf8.DecodeRune (DecodeLastRune) iff it starts (ends)
   with one of these tokens: invalid or over-long sequences decode to
   RuneError, which is not a space. *)
Definition space_tokens : list bytes :=
  [ [9]; [10]; [11]; [12]; [13]; [32];
    [194;133]; [194;160]; [225;154;128];
    [226;128;128]; [226;128;129]; [226;128;130]; [226;128;131]; [226;128;132];
    [226;128;133]; [226;128;134]; [226;128;135]; [226;128;136]; [226;128;137];
    [226;128;138]; [226;128;168]; [226;128;169]; [226;128;175]; [226;129;159];
    [227;128;128] ].

Fixpoint strip_tok (toks : list bytes) (s : bytes) : option bytes :=
  match toks with
  | [] => None
  | t :: r => if has_prefix t s then Some (drop (length t) s) else strip_tok r s
  end.

Fixpoint utrim_left (toks : list bytes) (fuel : nat) (s : bytes) : bytes :=
  match fuel with
  | O => s
  | S f => match strip_tok toks s with Some s' => utrim_left toks f s' | None => s end
  end.

Definition go_trim_left (s : bytes) : bytes := utrim_left space_tokens (length s) s.
Definition go_trim_right (s : bytes) : bytes :=
  rev (utrim_left (map (@rev N) space_tokens) (length s) (rev s)).
Definition go_trim_space (s : bytes) : bytes := go_trim_right (go_trim_left s).

Definition has_suffix (t s : bytes) : bool := has_prefix (rev t) (rev s).

(* http.Header.Get: first value, empty when the header is absent *)
Definition hdr_get (vs : list bytes) : bytes := match vs with [] => [] | v :: _ => v end.

Definition max_rid : nat := Z.to_nat c20_max_rid_len.
Definition mint_len : nat := Z.to_nat c20_mint_len.

Definition resolve_request_id (vs : list bytes) (mint : bytes) : bytes :=
  let id := go_trim_space (hdr_get vs) in
  match id with
  | [] => mint
  | _ => if Nat.ltb max_rid (length id) then mint else id
  end.

Definition is_lhex (c : N) : bool := ((48 <=? c) && (c <=? 57)) || ((97 <=? c) && (c <=? 102)).
Definition mint_shape (m : bytes) : bool := Nat.eqb (length m) mint_len && forallb is_lhex m.

(* the caller's id is usable: trimmed value of 1..128 bytes *)
Definition usable (id : bytes) : bool :=
  match id with [] => false | _ => negb (Nat.ltb max_rid (length id)) end.

(* ---------------------------------------------------------------- (c) *)
Inductive hdr :=
  | H_rid | H_supenc | H_ext_enabled | H_maxreq | H_maxresp | H_maxext | H_upload | H_maxupload
  | H_proof_required | H_introspect | H_sticky_enabled | H_sticky_ttl | H_sticky_echo_headers
  | H_session | H_session_close | H_echo_probe | H_www_auth | H_auth_reason | H_auth_proxy
  | H_rpc_error | H_content_encoding | H_retry_after.
Scheme Equality for hdr.

Definition all_hdrs : list hdr :=
  [H_rid; H_supenc; H_ext_enabled; H_maxreq; H_maxresp; H_maxext; H_upload; H_maxupload;
   H_proof_required; H_introspect; H_sticky_enabled; H_sticky_ttl; H_sticky_echo_headers;
   H_session; H_session_close; H_echo_probe; H_www_auth; H_auth_reason; H_auth_proxy;
   H_rpc_error; H_content_encoding; H_retry_after].

(* lower-cased wire names, regenerated from the compiled constants *)
Definition hdr_name (h : hdr) : bytes :=
  match h with
  | H_rid => h_request_id | H_supenc => h_supported_encodings
  | H_ext_enabled => h_externalization_enabled | H_maxreq => h_max_request_bytes
  | H_maxresp => h_max_response_bytes | H_maxext => h_max_ext_response_bytes
  | H_upload => h_upload_url_support | H_maxupload => h_max_upload_bytes
  | H_proof_required => h_proof_required | H_introspect => h_introspect_enabled
  | H_sticky_enabled => h_sticky_enabled | H_sticky_ttl => h_sticky_default_ttl
  | H_sticky_echo_headers => h_sticky_echo_headers | H_session => h_session
  | H_session_close => h_session_close | H_echo_probe => h_echo_probe
  | H_www_auth => h_www_authenticate | H_auth_reason => h_auth_reason
  | H_auth_proxy => h_auth_proxy_required | H_rpc_error => h_rpc_error
  | H_content_encoding => h_content_encoding | H_retry_after => h_retry_after
  end.

Definition hmem (h : hdr) (l : list hdr) : bool := existsb (hdr_beq h) l.
Definition hsubset (a b : list hdr) : bool := forallb (fun h => hmem h b) a.
Definition opt (b : bool) (h : hdr) : list hdr := if b then [h] else [].

(* one point of the feature lattice; field i is bit i of a lattice mask *)
Record toggles := {
  t_compress : bool; t_ext : bool; t_maxreq : bool; t_maxresp : bool; t_maxext : bool;
  t_upload : bool; t_maxupload : bool; t_proof : bool; t_extraproxy : bool;
  t_introspect : bool; t_sticky : bool; t_echo : bool; t_oauth : bool; t_auth : bool }.

(* addCapabilityHeaders + addStickyCapabilityHeaders *)
Definition caps (t : toggles) : list hdr :=
  [H_supenc] ++ opt (t_maxreq t) H_maxreq ++ opt (t_maxresp t) H_maxresp ++ opt (t_maxext t) H_maxext
  ++ [H_ext_enabled]
  ++ (if t_upload t then H_upload :: opt (t_maxupload t) H_maxupload else [])
  ++ opt (t_proof t) H_proof_required ++ opt (t_introspect t) H_introspect
  ++ (if t_sticky t then [H_sticky_enabled; H_sticky_ttl] ++ opt (t_echo t) H_sticky_echo_headers else []).

Definition proxy_dep (t : toggles) : bool := t_proof t || t_extraproxy t.

(* writeUnauthorized *)
Definition unauth_hdrs (t : toggles) : list hdr :=
  opt (proxy_dep t) H_auth_proxy ++ [H_auth_reason] ++ opt (t_oauth t) H_www_auth.

(* everything a response of this configuration can carry (echo headers are
   represented by the probe name here; arbitrary names are handled apart) *)
Definition emittable (t : toggles) : list hdr :=
  [H_rid] ++ caps t ++ [H_rpc_error] ++ opt (t_compress t) H_content_encoding
  ++ (if t_auth t then unauth_hdrs t ++ [H_retry_after] else [])
  ++ (if t_sticky t then [H_session; H_session_close] ++ opt (t_echo t) H_echo_probe else []).

Definition nth_bit (u : list bytes) (name : bytes) : N :=
  (fix go (u : list bytes) (i : N) : N :=
     match u with [] => 0 | x :: r => if beqb x name then N.shiftl 1 i else go r (i + 1) end) u 0.
Definition hbit (h : hdr) : N := nth_bit c20_universe (hdr_name h).
Definition mask_of (l : list hdr) : N := fold_right (fun h a => N.lor (hbit h) a) 0 l.

Definition be (l : bytes) : N := fold_left (fun a b => 256 * a + b) l 0.
Definition row_cfg (r : bytes) : N := be (take 2 r).
Definition row_emit (r : bytes) : N := be (take 4 (drop 2 r)).
Definition row_expose (r : bytes) : N := be (take 4 (drop 6 r)).

(* addCorsHeaders: the Access-Control-Expose-Headers list (probe echo name) *)
Definition expose_gen (retry : bool) (t : toggles) : list hdr :=
  [H_www_auth; H_rid; H_content_encoding; H_rpc_error; H_maxresp; H_maxext; H_ext_enabled; H_supenc;
   H_sticky_enabled; H_sticky_ttl; H_sticky_echo_headers; H_session; H_session_close]
  ++ opt (t_maxreq t) H_maxreq
  ++ (if t_upload t then H_upload :: opt (t_maxupload t) H_maxupload else [])
  ++ opt (t_proof t) H_proof_required ++ opt (t_introspect t) H_introspect
  ++ [H_auth_reason] ++ opt retry H_retry_after ++ opt (proxy_dep t) H_auth_proxy
  ++ opt (t_echo t) H_echo_probe.
Definition expose_std : toggles -> list hdr := expose_gen true.
(* before fix 846e992 Retry-After was emitted (503, 429) but not exposed *)
Definition expose_std_legacy : toggles -> list hdr := expose_gen false.

Definition toggles_of_mask (m : N) : toggles :=
  {| t_compress := N.testbit m 0; t_ext := N.testbit m 1; t_maxreq := N.testbit m 2;
     t_maxresp := N.testbit m 3; t_maxext := N.testbit m 4; t_upload := N.testbit m 5;
     t_maxupload := N.testbit m 6; t_proof := N.testbit m 7; t_extraproxy := N.testbit m 8;
     t_introspect := N.testbit m 9; t_sticky := N.testbit m 10; t_echo := N.testbit m 11;
     t_oauth := N.testbit m 12; t_auth := N.testbit m 13 |}.

(* the whole lattice, 2^14 points *)
Definition bools : list bool := [false; true].
Definition all_toggles : list toggles :=
  flat_map (fun a => flat_map (fun b => flat_map (fun c => flat_map (fun d =>
  flat_map (fun e => flat_map (fun f => flat_map (fun g => flat_map (fun h =>
  flat_map (fun i => flat_map (fun j => flat_map (fun k => flat_map (fun l =>
  flat_map (fun m => map (fun n =>
    {| t_compress := a; t_ext := b; t_maxreq := c; t_maxresp := d; t_maxext := e; t_upload := f;
       t_maxupload := g; t_proof := h; t_extraproxy := i; t_introspect := j; t_sticky := k;
       t_echo := l; t_oauth := m; t_auth := n |}) bools) bools) bools) bools) bools) bools) bools)
  bools) bools) bools) bools) bools) bools) bools.

(* a tabulated lattice point agrees with the hand model *)
Definition row_ok (r : bytes) : bool :=
  let t := toggles_of_mask (row_cfg r) in
  (mask_of (emittable t) =? row_emit r) && (mask_of (expose_std t) =? row_expose r).

(* ... and satisfies the property itself, directly on the masks the real
   functions produced: emitted and not exposed is empty *)
Definition row_covered (r : bytes) : bool :=
  N.land (row_emit r) (N.lnot (row_expose r) 32) =? 0.

(* echo headers for arbitrary configured names *)
Definition echo_name (n : bytes) : bytes := h_echo_prefix ++ to_lower n.

(* ---------------------------------------------------------------- (b) *)
Inductive auth_mode :=
  | A_none          (* no authenticator installed *)
  | A_ok            (* accepts, principal not allowed to introspect *)
  | A_introspector  (* accepts, principal allowed to introspect *)
  | A_fail          (* *AuthFailure -> 401 *)
  | A_valerr        (* *RpcError{ValueError} -> 401 *)
  | A_unavail       (* *AuthUnavailableError -> 503 *)
  | A_error.        (* any other error -> 500 *)

(* Server.SetExternalLocation: never called / nil; a resolve-only config (present,
   no Storage backend); a config with a Storage backend *)
Inductive ext_mode := E_none | E_resolve_only | E_storage.
Definition is_storage (e : ext_mode) : bool := match e with E_storage => true | _ => false end.

Record config := {
  c_compress : bool; c_extmode : ext_mode; c_maxreq : bool; c_maxresp : bool; c_maxext : bool;
  c_upload : bool; c_maxupload : bool; c_proof : bool; c_extraproxy : bool; c_introspect : bool;
  c_sticky : bool; c_oauth : bool;
  c_cors : bool; c_notfound : bool; c_prefix : bool;   (* c_prefix: routes under /vgi; no effect *)
  c_echo : list bytes; c_auth : auth_mode }.

Definition has_auth (a : auth_mode) : bool := match a with A_none => false | _ => true end.
Definition nonempty {A} (l : list A) : bool := match l with [] => false | _ => true end.

Definition tg (c : config) : toggles :=
  {| t_compress := c_compress c; t_ext := is_storage (c_extmode c); t_maxreq := c_maxreq c; t_maxresp := c_maxresp c;
     t_maxext := c_maxext c; t_upload := c_upload c; t_maxupload := c_maxupload c; t_proof := c_proof c;
     t_extraproxy := c_extraproxy c; t_introspect := c_introspect c; t_sticky := c_sticky c;
     t_echo := nonempty (c_echo c); t_oauth := c_oauth c; t_auth := has_auth (c_auth c) |}.

(* request classes: one per route / rejection path driven by the harness *)
Inductive rkind :=
  | Q_options | Q_health | Q_unknown_path | Q_wrong_method
  | Q_unary_ok | Q_unary_err | Q_unary_open | Q_unary_open_close | Q_unary_big
  | Q_bad_encoding | Q_bad_ctype | Q_unknown_method | Q_malformed
  | Q_describe_page | Q_describe_rpc | Q_init_ok | Q_exchange_bad
  | Q_upload_init | Q_introspect | Q_session_delete.

Record request := {
  q_kind : rkind;
  q_rid : list bytes;        (* X-Request-ID header values as sent *)
  q_accept_zstd : bool;      (* X-VGI-Accept-Encoding: zstd *)
  q_sess_accept : bool;      (* VGI-Session-Accept: true *)
  q_mint : bytes }.          (* oracle: what newRequestID yields for this request *)

(* a handler outcome: status, Arrow body?, tracked headers it adds, echo headers? *)
Definition outcome := (N * bool * list hdr * bool)%type.
Definition plain (st : N) : outcome := (st, false, [], false).
Definition arrow (st : N) (hs : list hdr) : outcome := (st, true, hs, false).

(* HttpServer.authenticate in front of a handler continuation *)
Definition authd (c : config) (k : outcome) : outcome :=
  match c_auth c with
  | A_none | A_ok | A_introspector => k
  | A_fail | A_valerr => (401, false, unauth_hdrs (tg c), false)
  | A_unavail => (503, false, [H_retry_after], false)
  | A_error => plain 500
  end.

Definition wrong_method (c : config) : outcome := plain (if c_notfound c then 404 else 405).

Definition route (c : config) (q : request) : outcome :=
  match q_kind q with
  | Q_options => plain 204                               (* not reached: answered before the mux *)
  | Q_health => plain 200
  | Q_unknown_path => plain 404
  | Q_wrong_method => wrong_method c
  | Q_unary_ok | Q_unary_big | Q_describe_rpc | Q_init_ok => authd c (arrow 200 [])
  | Q_unary_err => authd c (arrow 200 [H_rpc_error])
  | Q_unary_open =>
      authd c (if c_sticky c && q_sess_accept q then (200, true, [H_session], true)
               else arrow 200 [H_rpc_error])
  | Q_unary_open_close =>
      authd c (if c_sticky c && q_sess_accept q then (200, true, [H_session; H_session_close], true)
               else arrow 200 [H_rpc_error])
  | Q_bad_encoding | Q_bad_ctype => authd c (arrow 415 [])
  | Q_unknown_method => authd c (arrow 404 [])
  | Q_malformed | Q_exchange_bad => authd c (arrow 400 [])
  | Q_describe_page => plain 200
  | Q_upload_init => if c_upload c then arrow 200 [] else plain 404
  | Q_introspect =>
      if c_introspect c then
        authd c (match c_auth c with A_introspector => (503, false, [H_retry_after], false) | _ => plain 403 end)
      else plain 404
  | Q_session_delete => if c_sticky c then plain 200 else wrong_method c
  end.

(* r_ext: the VGI-Externalization-Enabled value, 0 absent / 1 false / 2 true *)
Record resp := {
  r_status : N; r_rid : bytes; r_std : list hdr; r_echo : list bytes;
  r_expose : option (list hdr * list bytes); r_ext : N }.

Definition ext_code (c : config) : N := if is_storage (c_extmode c) then 2 else 1.

Definition is_big (k : rkind) : bool := match k with Q_unary_big => true | _ => false end.
Definition is_options (k : rkind) : bool := match k with Q_options => true | _ => false end.

(* ServeHTTP, one request. hook_ok: the serve-start hook has succeeded (now or earlier). *)
Definition serve_one_gen (expose : toggles -> list hdr) (c : config) (hook_ok : bool) (q : request) : resp :=
  let rid := resolve_request_id (q_rid q) (q_mint q) in
  if negb hook_ok then {| r_status := 500; r_rid := rid; r_std := [H_rid]; r_echo := []; r_expose := None; r_ext := 0 |}
  else
    let base := H_rid :: caps (tg c) in
    let ex := if c_cors c then Some (expose (tg c), c_echo c) else None in
    if is_options (q_kind q) then
      {| r_status := 204; r_rid := rid; r_std := base; r_echo := []; r_expose := ex; r_ext := ext_code c |}
    else if is_big (q_kind q) && c_maxreq c then
      {| r_status := 413; r_rid := rid; r_std := base; r_echo := []; r_expose := ex; r_ext := ext_code c |}
    else
      let '(st, arr, extra, echo) := route c q in
      let enc := opt (arr && c_compress c && q_accept_zstd q) H_content_encoding in
      {| r_status := st; r_rid := rid; r_std := base ++ extra ++ enc;
         r_echo := if echo then c_echo c else []; r_expose := ex; r_ext := ext_code c |}.

Definition serve_one := serve_one_gen expose_std.

(* a sequence of requests against one server whose serve-start hook fails for
   the first [nfail] requests (the hook is retried until it succeeds once) *)
Fixpoint serve_seq_gen (one : config -> bool -> request -> resp) (c : config) (nfail : nat)
         (qs : list request) : list resp :=
  match qs with
  | [] => []
  | q :: r => match nfail with
              | O => one c true q :: serve_seq_gen one c O r
              | S n => one c false q :: serve_seq_gen one c n r
              end
  end.
Definition serve_seq := serve_seq_gen serve_one.

(* ---- correspondence interface ----------------------------------------- *)
Inductive input :=
  | RidOnly (vals : list bytes) (mint : bytes)
  | Serve (c : config) (nfail : nat) (qs : list request).

Record robs := {
  o_status : N;
  o_rid : option bytes;            (* X-Request-ID value, None = header absent *)
  o_present : list bytes;          (* lower-cased tracked header names present *)
  o_expose : option (list bytes);  (* lower-cased Access-Control-Expose-Headers entries *)
  o_ext : N }                      (* VGI-Externalization-Enabled: 0 absent, 1 false, 2 true, 3 anything else *).

Inductive obs := ORid (v : bytes) | OServe (rs : list robs).

Definition names (std : list hdr) (echo : list bytes) : list bytes :=
  map hdr_name (filter (fun h => negb (hdr_beq h H_echo_probe)) std) ++ map echo_name echo.

Definition render (r : resp) : robs :=
  {| o_status := r_status r; o_rid := Some (r_rid r); o_present := names (r_std r) (r_echo r);
     o_expose := match r_expose r with Some (s, e) => Some (names s e) | None => None end;
     o_ext := r_ext r |}.

Definition model_gen (one : config -> bool -> request -> resp) (i : input) : obs :=
  match i with
  | RidOnly vs m => ORid (resolve_request_id vs m)
  | Serve c nfail qs => OServe (map render (serve_seq_gen one c nfail qs))
  end.
Definition model : input -> obs := model_gen serve_one.
(* the server before fix 846e992 *)
Definition model_legacy : input -> obs := model_gen (serve_one_gen expose_std_legacy).

(* oracle premise of the theorems: every minted id has newRequestID's shape *)
Definition oracle_ok (i : input) : bool :=
  match i with
  | RidOnly _ m => mint_shape m
  | Serve _ _ qs => forallb (fun q => mint_shape (q_mint q)) qs
  end.

Definition bmem (x : bytes) (l : list bytes) : bool := existsb (beqb x) l.
Definition bsubset (a b : list bytes) : bool := forallb (fun x => bmem x b) a.
Definition set_eqb (a b : list bytes) : bool := bsubset a b && bsubset b a.

Definition robs_eqb (a b : robs) : bool :=
  N.eqb (o_status a) (o_status b) && opt_eqb beqb (o_rid a) (o_rid b)
  && set_eqb (o_present a) (o_present b) && opt_eqb set_eqb (o_expose a) (o_expose b)
  && N.eqb (o_ext a) (o_ext b).

Definition obs_eqb (a b : obs) : bool :=
  match a, b with
  | ORid x, ORid y => beqb x y
  | OServe x, OServe y => list_eqb robs_eqb x y
  | _, _ => false
  end.

(* ---- the property, decided on the implementation's observables ---------- *)
Definition rid_ok (vs : list bytes) (v : bytes) : bool :=
  let id := go_trim_space (hdr_get vs) in
  if usable id then beqb v id else mint_shape v.

(* names that are not themselves part of the CORS machinery: every tracked
   header on the response is a correlation, capability, rejection or session
   header *)
Definition resp_ok (c : config) (hook_ok : bool) (q : request) (o : robs) : bool :=
  match o_rid o with Some v => rid_ok (q_rid q) v | None => false end
  && bmem h_request_id (o_present o)
  && (if hook_ok then
        bsubset (map hdr_name (caps (tg c))) (o_present o)
        && (if c_cors c then
              match o_expose o with Some ex => bsubset (o_present o) ex | None => false end
            else true)
        && N.eqb (o_ext o) (ext_code c)   (* "true" iff a Storage backend is configured, else "false": never absent *)
      else true).

Fixpoint seq_ok (c : config) (nfail : nat) (qs : list request) (os : list robs) : bool :=
  match qs, os with
  | [], [] => true
  | q :: qr, o :: orr =>
      match nfail with
      | O => resp_ok c true q o && seq_ok c O qr orr
      | S n => resp_ok c false q o && seq_ok c n qr orr
      end
  | _, _ => false
  end.

Definition spec_ok (i : input) (o : obs) : bool :=
  match i, o with
  | RidOnly vs _, ORid v => rid_ok vs v
  | Serve c nfail qs, OServe os => seq_ok c nfail qs os
  | _, _ => false
  end.
