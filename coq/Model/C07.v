(* Model/C07.v — parameter binding (vgirpc/types_deserialize.go deserializeParams,
   setFieldFromArrow, setFieldFromString; types_schema.go goTypeToArrowTypeAt,
   structFieldsOf; types_cache.go resolveColumn; server_unary.go serveUnary's
   TypeError branch) together with arrow-go v18 Schema.Equal / Field.Equal /
   TypeEqual(CheckMetadata) as the gate.

   What is modelled by hand and how:
   - Arrow types: the inductive [ty]/[fields] below.  It carries exactly what
     arrow-go's TypeEqual compares: list item name, map entry/key/value names and
     map keysSorted are NOT compared by arrow-go and are therefore absent; field
     metadata IS compared by Field.Equal and is present (as its key-sorted
     association list — arrow-go compares metadata after sorting by key).
     Schema-level metadata is ignored by Schema.Equal and is absent.
   - a Go parameter struct: a list of [dfield] (Go kind, pointer, tag options).
   - values: [val]; integers/temporal values are [VI] in the column's own unit,
     floats are integer-valued ([VI]), strings/binary/decimal text are [VS].
   - the wrapped `request` shape: [Wrapped]; IPC decoding of the inner payload is
     the codec oracle (the harness hands over the decoded inner batch). *)
From VR Require Export Lib.Bytes Gen.Consts.
Open Scope N_scope.

(* ---------------------------------------------------------------- Arrow types *)
Definition meta := list (bytes * bytes).
Inductive tunit := USec | UMilli | UMicro | UNano.
Inductive iw := W8 | W16 | W32 | W64.
Inductive fw := F16 | F32 | F64.

Inductive prim :=
| PNull | PBool | PInt (signed : bool) (w : iw) | PFloat (w : fw)
| PUtf8 | PLargeUtf8 | PBinary | PLargeBinary | PFixedBin (n : N)
| PDate32 | PDate64 | PTimestamp (u : tunit) (tz : bytes)
| PTime32 (u : tunit) | PTime64 (u : tunit) | PDuration (u : tunit)
| PDecimal128 (p s : Z).

Inductive ty :=
| TPrim (p : prim)
| TDict (idx vals : ty) (ordered : bool)
| TList (elem : ty) (enull : bool) (emeta : meta)
| TMap (k v : ty) (vnull : bool)
| TStruct (fs : fields)
with fields :=
| FNil
| FCons (name : bytes) (t : ty) (nullable : bool) (m : meta) (rest : fields).

(* a schema IS a field list *)
Definition schema := fields.

Definition tunit_eqb (a b : tunit) : bool :=
  match a, b with USec, USec | UMilli, UMilli | UMicro, UMicro | UNano, UNano => true | _, _ => false end.
Definition iw_eqb (a b : iw) : bool :=
  match a, b with W8, W8 | W16, W16 | W32, W32 | W64, W64 => true | _, _ => false end.
Definition fw_eqb (a b : fw) : bool :=
  match a, b with F16, F16 | F32, F32 | F64, F64 => true | _, _ => false end.
Definition meta_eqb : meta -> meta -> bool := list_eqb (pair_eqb beqb beqb).

(* TypeEqual on non-nested types: same ID and reflect.DeepEqual of the type's
   parameters (width, unit, time zone, precision, scale) *)
Definition prim_eqb (a b : prim) : bool :=
  match a, b with
  | PNull, PNull | PBool, PBool | PUtf8, PUtf8 | PLargeUtf8, PLargeUtf8
  | PBinary, PBinary | PLargeBinary, PLargeBinary | PDate32, PDate32 | PDate64, PDate64 => true
  | PInt s1 w1, PInt s2 w2 => Bool.eqb s1 s2 && iw_eqb w1 w2
  | PFloat w1, PFloat w2 => fw_eqb w1 w2
  | PFixedBin n1, PFixedBin n2 => N.eqb n1 n2
  | PTimestamp u1 z1, PTimestamp u2 z2 => tunit_eqb u1 u2 && beqb z1 z2
  | PTime32 u1, PTime32 u2 | PTime64 u1, PTime64 u2 | PDuration u1, PDuration u2 => tunit_eqb u1 u2
  | PDecimal128 p1 s1, PDecimal128 p2 s2 => Z.eqb p1 p2 && Z.eqb s1 s2
  | _, _ => false
  end.

(* TypeEqual(l, r, CheckMetadata()) and the field-by-field loop of Schema.Equal /
   StructType comparison: name, nullability, type, field metadata, in order. *)
Fixpoint ty_eqb (a b : ty) : bool :=
  match a, b with
  | TPrim p, TPrim q => prim_eqb p q
  | TDict i1 v1 o1, TDict i2 v2 o2 => ty_eqb i1 i2 && ty_eqb v1 v2 && Bool.eqb o1 o2
  | TList e1 n1 m1, TList e2 n2 m2 => ty_eqb e1 e2 && meta_eqb m1 m2 && Bool.eqb n1 n2
  | TMap k1 v1 n1, TMap k2 v2 n2 => ty_eqb k1 k2 && ty_eqb v1 v2 && Bool.eqb n1 n2
  | TStruct f1, TStruct f2 => fields_eqb f1 f2
  | _, _ => false
  end
with fields_eqb (a b : fields) : bool :=
  match a, b with
  | FNil, FNil => true
  | FCons n1 t1 u1 m1 r1, FCons n2 t2 u2 m2 r2 =>
      beqb n1 n2 && Bool.eqb u1 u2 && ty_eqb t1 t2 && meta_eqb m1 m2 && fields_eqb r1 r2
  | _, _ => false
  end.
Definition schema_eqb : schema -> schema -> bool := fields_eqb.

Fixpoint fnames (f : fields) : list bytes :=
  match f with FNil => [] | FCons n _ _ _ r => n :: fnames r end.
Fixpoint ftypes (f : fields) : list ty :=
  match f with FNil => [] | FCons _ t _ _ r => t :: ftypes r end.
Fixpoint flen (f : fields) : nat := match f with FNil => O | FCons _ _ _ _ r => S (flen r) end.

(* ---------------------------------------------------------------- Go side *)
Inductive gkind :=
| KString | KInt | KInt64 | KInt32 | KInt16 | KInt8 | KUint64 | KUint32 | KUint16 | KUint8
| KFloat64 | KFloat32 | KBool | KBytes | KTime | KDuration.

(* the type option of a vgirpc tag *)
Inductive over :=
| ONone | OInt8 | OInt16 | OInt32 | OUint8 | OUint16 | OUint32 | OUint64 | OFloat32
| OEnum | ODictString | OBinary | OLargeString | OLargeBinary | ODate | OTimestamp | OTimestampUTC
| OTime | ODuration | ODecimal | OFixedBin (n : N) | OStruct.

Inductive gty :=
| GLeaf (k : gkind)
| GSlice (k : gkind) (eo : over)                 (* []k with an optional elem= override *)
| GMap (k v : gkind)                             (* map[k]v *)
| GStruct (cs : list (bytes * gkind * bool * over)).  (* struct of (tag name, kind, pointer, type option) *)

Record dfield := {
  d_name : bytes; d_go : gty; d_ptr : bool; d_over : over;
  d_nullable : bool; d_default : option bytes }.

Definition UTC : bytes := str "UTC".
Definition P t := Some (TPrim t).

(* the explicit tag overrides of goTypeToArrowTypeAt *)
Definition over_ty (o : over) : option ty :=
  match o with
  | ONone | OStruct => None
  | OInt8 => P (PInt true W8) | OInt16 => P (PInt true W16) | OInt32 => P (PInt true W32)
  | OUint8 => P (PInt false W8) | OUint16 => P (PInt false W16) | OUint32 => P (PInt false W32)
  | OUint64 => P (PInt false W64) | OFloat32 => P (PFloat F32)
  | OEnum | ODictString => Some (TDict (TPrim (PInt true W16)) (TPrim PUtf8) false)
  | OBinary => P PBinary | OLargeString => P PLargeUtf8 | OLargeBinary => P PLargeBinary
  | ODate => P PDate32 | OTimestamp => P (PTimestamp UMicro []) | OTimestampUTC => P (PTimestamp UMicro UTC)
  | OTime => P (PTime64 UMicro) | ODuration => P (PDuration UMicro) | ODecimal => P (PDecimal128 20 4)
  | OFixedBin n => if n =? 0 then None else P (PFixedBin n)
  end.

(* the reflect.Kind switch *)
Definition leaf_ty (k : gkind) : option ty :=
  match k with
  | KString => P PUtf8 | KInt | KInt64 | KDuration => P (PInt true W64)
  | KInt32 => P (PInt true W32) | KInt16 => P (PInt true W16) | KInt8 => P (PInt true W8)
  | KUint64 => P (PInt false W64) | KUint32 => P (PInt false W32) | KUint16 => P (PInt false W16)
  | KUint8 => P (PInt false W8) | KFloat64 => P (PFloat F64) | KFloat32 => P (PFloat F32)
  | KBool => P PBool | KBytes => P PBinary | KTime => None
  end.

Definition is_k_uint8 (k : gkind) : bool := match k with KUint8 => true | _ => false end.

(* a struct child is described by the same rules (type option first, else the
   kind); children that are themselves structs / slices / maps are not modelled *)
Definition child_ty (k : gkind) (o : over) : option ty :=
  match over_ty o with Some t => Some t | None => leaf_ty k end.

Fixpoint children (cs : list (bytes * gkind * bool * over)) : option fields :=
  match cs with
  | [] => Some FNil
  | (n, k, ptr, o) :: r =>
      match child_ty k o, children r with
      | Some t, Some fr => Some (FCons n t ptr [] fr)
      | _, _ => None
      end
  end.

(* goTypeToArrowTypeAt: None = registration error *)
Definition derive_ty (g : gty) (o : over) : option ty :=
  match over_ty o with
  | Some t => Some t
  | None =>
      match o with
      | OStruct => match g with
                   | GStruct [] => None
                   | GStruct cs => option_map TStruct (children cs)
                   | _ => None
                   end
      | OFixedBin _ => None
      | _ =>
          match g with
          | GLeaf k => leaf_ty k
          | GSlice k eo =>
              if is_k_uint8 k then P PBinary
              else match (match over_ty eo with Some t => Some t | None => leaf_ty k end) with
                   | Some e => Some (TList e true [])
                   | None => None
                   end
          | GMap k v => match leaf_ty k, leaf_ty v with
                        | Some tk, Some tv => Some (TMap tk tv true)
                        | _, _ => None
                        end
          | GStruct _ => None
          end
      end
  end.

Fixpoint derive (ds : list dfield) : option schema :=
  match ds with
  | [] => Some FNil
  | d :: r =>
      match derive_ty (d_go d) (d_over d), derive r with
      | Some t, Some fr => Some (FCons (d_name d) t (d_nullable d || d_ptr d) [] fr)
      | _, _ => None
      end
  end.

(* ---------------------------------------------------------------- values *)
Inductive val :=
| VNull | VI (z : Z) | VB (b : bool) | VS (s : bytes) | VL (l : list val)
| VD (i : Z) (d : list bytes).
  (* a dictionary-encoded cell as it is on the wire: the row's index [i] into
     the column's dictionary [d] (which may hold unused and duplicate entries) *)

Fixpoint val_eqb (a b : val) : bool :=
  match a, b with
  | VNull, VNull => true
  | VI x, VI y => Z.eqb x y
  | VB x, VB y => Bool.eqb x y
  | VS x, VS y => beqb x y
  | VD i x, VD j y => Z.eqb i j && list_eqb beqb x y
  | VL x, VL y =>
      (fix go (x y : list val) : bool :=
         match x, y with
         | [], [] => true
         | a :: x', b :: y' => val_eqb a b && go x' y'
         | _, _ => false
         end) x y
  | _, _ => false
  end.

Definition is_null (v : val) : bool := match v with VNull => true | _ => false end.
Definition zof (v : val) : Z := match v with VI z => z | _ => 0%Z end.

(* Go integer kinds: (signed, bits); SetInt/SetUint store the value truncated to
   the field's width *)
Definition kind_int (k : gkind) : option (bool * Z) :=
  match k with
  | KInt | KInt64 | KDuration => Some (true, 64%Z) | KInt32 => Some (true, 32%Z)
  | KInt16 => Some (true, 16%Z) | KInt8 => Some (true, 8%Z)
  | KUint64 => Some (false, 64%Z) | KUint32 => Some (false, 32%Z)
  | KUint16 => Some (false, 16%Z) | KUint8 => Some (false, 8%Z)
  | _ => None
  end.
Definition wrap (signed : bool) (bits z : Z) : Z :=
  let m := (2 ^ bits)%Z in
  if signed then ((z + m / 2) mod m - m / 2)%Z else (z mod m)%Z.

Definition ZERO_TIME : val := VS (str "zero-time").
Definition zero_kind (k : gkind) : val :=
  match k with
  | KString | KBytes => VS []
  | KBool => VB false
  | KTime => ZERO_TIME
  | _ => VI 0
  end.

(* setFieldFromArrow on a non-nested column into a Go field of kind k.
   None = the reflect setter panics (wrong Go kind for that array type) or the
   array type is not handled. *)
Definition conv_prim (k : gkind) (p : prim) (v : val) : option val :=
  match p with
  | PUtf8 | PLargeUtf8 | PDecimal128 _ _ => match k with KString => Some v | _ => None end
  | PInt _ _ => match kind_int k with Some (s, b) => Some (VI (wrap s b (zof v))) | None => None end
  | PFloat F32 | PFloat F64 => match k with KFloat64 | KFloat32 => Some v | _ => None end
  | PBool => match k with KBool => Some v | _ => None end
  | PBinary | PLargeBinary | PFixedBin _ => match k with KBytes => Some v | _ => None end
  | PDate32 | PTimestamp _ _ | PTime64 _ => match k with KTime => Some v | _ => None end
  | PDuration _ => match k with KDuration => Some (VI (wrap true 64 (zof v * 1000))) | _ => None end
  | PNull | PDate64 | PTime32 _ | PFloat F16 => None
  end.

Definition conv_leaf (k : gkind) (t : ty) (v : val) : option val :=
  match t with
  | TPrim p => conv_prim k p v
  | TDict _ _ _ =>
      (* dict.Value(c.GetValueIndex(idx)): the dictionary entry the ROW'S INDEX
         selects (an index outside the dictionary panics) *)
      match k, v with
      | KString, VD i d => if (i <? 0)%Z then None else option_map VS (nth_error d (Z.to_nat i))
      | _, _ => None
      end
  | _ => None
  end.

(* element of a list / value of a map: a null slot leaves the zero value *)
Definition conv_elem (k : gkind) (t : ty) (v : val) : option val :=
  if is_null v then Some (zero_kind k) else conv_leaf k t v.

Fixpoint conv_list (k : gkind) (t : ty) (vs : list val) : option (list val) :=
  match vs with
  | [] => Some []
  | v :: r => match conv_elem k t v, conv_list k t r with
              | Some x, Some xs => Some (x :: xs)
              | _, _ => None
              end
  end.

Fixpoint conv_pairs (kk kv : gkind) (tk tv : ty) (vs : list val) : option (list val) :=
  match vs with
  | [] => Some []
  | VL [a; b] :: r =>
      match conv_leaf kk tk a, conv_elem kv tv b, conv_pairs kk kv tk tv r with
      | Some x, Some y, Some xs => Some (VL [x; y] :: xs)
      | _, _, _ => None
      end
  | _ :: _ => None
  end.

(* struct children, positional (names are equal after the gate): a null child
   leaves nil for a pointer child and the zero value otherwise *)
Fixpoint conv_children (cs : list (bytes * gkind * bool * over)) (fs : fields) (vs : list val) : option (list val) :=
  match cs, fs, vs with
  | [], _, _ => Some []
  | (_, k, ptr, _) :: cr, FCons _ t _ _ fr, v :: vr =>
      match (if is_null v then Some (if ptr then VNull else zero_kind k) else conv_leaf k t v),
            conv_children cr fr vr with
      | Some x, Some xs => Some (x :: xs)
      | _, _ => None
      end
  | _ :: _, _, _ => None
  end.

Definition lof (v : val) : list val := match v with VL l => l | _ => [] end.

(* a non-null cell of column type t bound into a Go field of type g *)
Definition conv (g : gty) (t : ty) (v : val) : option val :=
  match g with
  | GLeaf k => conv_leaf k t v
  | GSlice k _ =>
      if is_k_uint8 k then conv_leaf KBytes t v
      else match t with
           | TList e _ _ => option_map VL (conv_list k e (lof v))
           | _ => None
           end
  | GMap kk kv => match t with
                  | TMap tk tv _ => option_map VL (conv_pairs kk kv tk tv (lof v))
                  | _ => None
                  end
  | GStruct cs => match t with
                  | TStruct fs => option_map VL (conv_children cs fs (lof v))
                  | _ => None
                  end
  end.

Definition is_gmap (g : gty) : bool := match g with GMap _ _ => true | _ => false end.
(* conv for a declared field.  [ptrmap] = false is the code before commit
   099ce14, whose setMapField dereferenced a field type its caller had already
   dereferenced: for a *map field it asked reflect for a map of the VALUE type
   and panicked.  Kept for the refutation witness only. *)
Definition conv_field (ptrmap : bool) (d : dfield) (t : ty) (v : val) : option val :=
  if is_gmap (d_go d) && d_ptr d && negb ptrmap then None else conv (d_go d) t v.

(* what a null cell leaves behind when no default applies *)
Definition zero_of (d : dfield) : val :=
  if d_ptr d then VNull else
  match d_go d with
  | GLeaf k => zero_kind k
  | GSlice k _ => if is_k_uint8 k then VS [] else VL []
  | GMap _ _ => VL []
  | GStruct cs => VL (map (fun c : bytes * gkind * bool * over =>
                            let '(_, k, ptr, _) := c in if ptr then VNull else zero_kind k) cs)
  end.

(* ---------------------------------------------------------------- defaults *)
Definition is_digit (c : N) : bool := (48 <=? c) && (c <=? 57).
Fixpoint digits_val (acc : Z) (s : bytes) : Z :=
  match s with [] => acc | c :: r => digits_val (acc * 10 + Z.of_N (c - 48))%Z r end.
(* strconv.ParseUint(s, 10, bits): digits only *)
Definition parse_uint (bits : Z) (s : bytes) : option Z :=
  match s with
  | [] => None
  | _ => if forallb is_digit s then
           let v := digits_val 0 s in if (v <? 2 ^ bits)%Z then Some v else None
         else None
  end.
(* strconv.ParseInt(s, 10, bits): optional sign, digits, range of the bit size *)
Definition parse_int (bits : Z) (s : bytes) : option Z :=
  let '(neg, ds) := match s with
                    | 45 :: r => (true, r)
                    | 43 :: r => (false, r)
                    | _ => (false, s)
                    end in
  match ds with
  | [] => None
  | _ => if forallb is_digit ds then
           let v := digits_val 0 ds in
           let v := if neg then (- v)%Z else v in
           if ((- 2 ^ (bits - 1) <=? v) && (v <? 2 ^ (bits - 1)))%Z then Some v else None
         else None
  end.
(* strconv.ParseBool *)
Definition parse_bool (s : bytes) : option bool :=
  if existsb (beqb s) [str "1"; str "t"; str "T"; str "TRUE"; str "true"; str "True"] then Some true
  else if existsb (beqb s) [str "0"; str "f"; str "F"; str "FALSE"; str "false"; str "False"] then Some false
  else None.
(* nearest float32 (ties to even) of an integer *)
Definition round_f32 (z : Z) : Z :=
  let a := Z.abs z in
  if (a <? 2 ^ 24)%Z then z else
  let e := (Z.log2 a - 23)%Z in
  let q := Z.shiftr a e in
  let r := (a - Z.shiftl q e)%Z in
  let half := Z.shiftl 1 (e - 1) in
  let q' := if (r >? half)%Z || ((r =? half)%Z && Z.odd q) then (q + 1)%Z else q in
  (Z.sgn z * Z.shiftl q' e)%Z.
(* strconv.ParseFloat restricted to what the model represents: a signed decimal
   integer literal of absolute value below 10^15 (exact in float64; rounded to
   the nearest float32 for a float32 field).  Everything else is None here,
   which is right for non-numbers and WRONG for fractions, exponents, inf/nan,
   hex floats and longer literals — the generator stays inside. *)
Definition parse_float_int (single : bool) (s : bytes) : option Z :=
  match parse_int 64 s with
  | Some z => if (Z.abs z <? 10 ^ 15)%Z then Some (if single then round_f32 z else z) else None
  | None => None
  end.

(* setFieldFromString's reflect.Kind switch (a pointer field gets a freshly
   allocated element holding the same value, which renders as that value):
   the literal as a value of the field's kind, None = refused with an error *)
Definition default_literal (g : gty) (s : bytes) : option val :=
  match g with
  | GLeaf KString => Some (VS s)
  | GLeaf KBool => option_map VB (parse_bool s)
  | GLeaf KFloat64 => option_map VI (parse_float_int false s)
  | GLeaf KFloat32 => option_map VI (parse_float_int true s)
  | GLeaf k => match kind_int k with
               | Some (true, b) => option_map VI (parse_int b s)
               | Some (false, b) => option_map VI (parse_uint b s)
               | None => None
               end
  | _ => None
  end.

Inductive bres := BOk (v : val) | BErr | BCrash.

Definition apply_default (d : dfield) (s : bytes) : bres :=
  match default_literal (d_go d) s with Some v => BOk v | None => BErr end.

(* ---- the code before commit c81cf36 (kept for the refutation witness only):
   defaults were applied for non-pointer string / int / int64 / float64 / bool
   fields; a pointer field made the scalar setter panic on the pointer Value;
   sized ints, unsigned ints and float32 were refused. *)
Definition default_supported_legacy (g : gty) (ptr : bool) : bool :=
  negb ptr && match g with
              | GLeaf KString | GLeaf KInt | GLeaf KInt64 | GLeaf KDuration | GLeaf KFloat64 | GLeaf KBool => true
              | _ => false
              end.
Definition apply_default_legacy (d : dfield) (s : bytes) : bres :=
  match d_go d with
  | GLeaf KString | GLeaf KInt | GLeaf KInt64 | GLeaf KDuration | GLeaf KFloat64 | GLeaf KBool =>
      match default_literal (d_go d) s with
      | None => BErr
      | Some v => if d_ptr d then BCrash else BOk v
      end
  | _ => BErr
  end.

(* one iteration of deserializeParams' field loop, given the resolved cell *)
(* which revision of the code: how defaults are applied, and whether a
   pointer-to-map field can be bound *)
Record cfg := { cfg_default : dfield -> bytes -> bres; cfg_ptrmap : bool }.

Definition bind_field (c : cfg) (d : dfield) (t : ty) (v : val) : bres :=
  if is_null v then
    match d_default d with
    | Some s => cfg_default c d s
    | None => BOk (zero_of d)
    end
  else match conv_field (cfg_ptrmap c) d t v with Some x => BOk x | None => BCrash end.

(* resolveColumn: ordinal fast path, else first name match *)
Fixpoint first_index (name : bytes) (names : list bytes) (i : nat) : option nat :=
  match names with
  | [] => None
  | n :: r => if beqb n name then Some i else first_index name r (S i)
  end.
Definition resolve (names : list bytes) (ord : nat) (name : bytes) : option nat :=
  match nth_error names ord with
  | Some n => if beqb n name then Some ord else first_index name names 0
  | None => first_index name names 0
  end.

Inductive outcome := Ran | TypeErr | Crash.
Definition outcome_eqb (a b : outcome) : bool :=
  match a, b with Ran, Ran | TypeErr, TypeErr | Crash, Crash => true | _, _ => false end.

(* the field loop: stops at the first failing field *)
Fixpoint bind_loop (c : cfg) (ds : list dfield) (ord : nat) (names : list bytes) (tys : list ty) (vs : list val)
  : outcome * list val :=
  match ds with
  | [] => (Ran, [])
  | d :: r =>
      let cell :=
        match resolve names ord (d_name d) with
        | None => match d_default d with Some s => cfg_default c d s | None => BOk (zero_of d) end
        | Some ci => bind_field c d (nth ci tys (TPrim PNull)) (nth ci vs VNull)
        end in
      match cell with
      | BErr => (TypeErr, [])
      | BCrash => (Crash, [])
      | BOk x => match bind_loop c r (S ord) names tys vs with
                 | (Ran, xs) => (Ran, x :: xs)
                 | other => other
                 end
      end
  end.

(* ---------------------------------------------------------------- the wire *)
Inductive batch :=
| Plain (fs : fields) (vs : list val)
  (* a one-row batch; row 0 of column j is [nth j vs] *)
| Wrapped (nullable : bool) (inner : option batch) (raw : bytes).
  (* the lone binary column named request whose non-empty payload is an IPC
     stream: with a first batch [inner], or (None) a schema-only stream whose
     bytes are [raw] *)

Definition REQUEST : bytes := str "request".
Definition req_schema (nullable : bool) : fields := FCons REQUEST (TPrim PBinary) nullable [] FNil.
Definition is_req_shape (fs : fields) : bool :=
  match fs with
  | FCons n (TPrim PBinary) _ _ FNil => beqb n REQUEST
  | _ => false
  end.

Inductive eff := EErr | EBatch (fs : fields) (vs : list val).

(* the unwrapping prologue of deserializeParams.  A [Plain] batch of the
   reserved shape whose cell is non-null and non-empty carries bytes the model
   cannot read: it stands for a payload that is NOT an IPC stream. *)
Fixpoint unwrap (b : batch) : eff :=
  match b with
  | Plain fs vs =>
      if is_req_shape fs then
        match vs with
        | [VS (_ :: _)] => EErr
        | _ => EBatch fs vs
        end
      else EBatch fs vs
  | Wrapped nl (Some b') _ => unwrap b'
  | Wrapped nl None raw => EBatch (req_schema nl) [VS raw]
  end.

(* ---------------------------------------------------------------- interface *)
Record input := { i_decl : list dfield; i_sent : batch }.

Record obs := {
  o_reg : bool;                  (* registration (schema derivation) succeeded *)
  o_declared : schema;           (* SchemaForStruct of the params type *)
  o_outcome : outcome;           (* handler ran / TypeError answer / anything else *)
  o_trace : list (list val) }.   (* one entry per handler invocation: the bound fields *)

Definition deserialize (c : cfg) (ds : list dfield) (declared : schema) (b : batch)
  : outcome * list val :=
  match unwrap b with
  | EErr => (Crash, [])       (* payload not readable: an error, class left open *)
  | EBatch fs vs =>
      if schema_eqb fs declared then bind_loop c ds 0 (fnames fs) (ftypes fs) vs
      else (TypeErr, [])
  end.

Definition model_with (c : cfg) (i : input) : obs :=
  match derive (i_decl i) with
  | None => {| o_reg := false; o_declared := FNil; o_outcome := TypeErr; o_trace := [] |}
  | Some declared =>
      match deserialize c (i_decl i) declared (i_sent i) with
      | (Ran, xs) => {| o_reg := true; o_declared := declared; o_outcome := Ran; o_trace := [xs] |}
      | (oc, _) => {| o_reg := true; o_declared := declared; o_outcome := oc; o_trace := [] |}
      end
  end.

Definition current : cfg := {| cfg_default := apply_default; cfg_ptrmap := true |}.
Definition model : input -> obs := model_with current.
(* the code before c81cf36 (defaults) / before 099ce14 (pointer-to-map) *)
Definition model_legacy_defaults : input -> obs :=
  model_with {| cfg_default := apply_default_legacy; cfg_ptrmap := true |}.
Definition model_legacy_ptrmap : input -> obs :=
  model_with {| cfg_default := apply_default; cfg_ptrmap := false |}.

(* [Crash] in the model = the code fails before the handler with a Go panic or a
   non-schema error; whether that reaches the client as a TypeError answer or
   escapes is decided by the panic containment around deserializeParams
   (property C03), so the implementation may show either. *)
Definition outcome_matches (m impl : outcome) : bool :=
  match m, impl with
  | Crash, (Crash | TypeErr) => true
  | _, _ => outcome_eqb m impl
  end.

Definition obs_eqb (m impl : obs) : bool :=
  Bool.eqb (o_reg m) (o_reg impl) &&
  (negb (o_reg m) ||
   (schema_eqb (o_declared m) (o_declared impl) && outcome_matches (o_outcome m) (o_outcome impl)
    && list_eqb (list_eqb val_eqb) (o_trace m) (o_trace impl))).

(* ---------------------------------------------------------------- the property *)
Fixpoint zip3 (ds : list dfield) (ts : list ty) (vs : list val) : list (dfield * ty * val) :=
  match ds, ts, vs with
  | d :: dr, t :: tr, v :: vr => (d, t, v) :: zip3 dr tr vr
  | _, _, _ => []
  end.

(* what the property demands of one field: Some x = it must hold x;
   None = the declaration's default literal is not a literal of the field's
   kind, so the call cannot be served *)
Definition expect_field (d : dfield) (t : ty) (v : val) : option val :=
  if is_null v then
    match d_default d with
    | Some s => default_literal (d_go d) s
    | None => Some (zero_of d)
    end
  else conv (d_go d) t v.

Fixpoint expect_all (l : list (dfield * ty * val)) : option (list val) :=
  match l with
  | [] => Some []
  | (d, t, v) :: r => match expect_field d t v, expect_all r with
                      | Some x, Some xs => Some (x :: xs)
                      | _, _ => None
                      end
  end.

(* C07 decided on one observation, using the implementation's own declared
   schema.  Mismatch => TypeError, empty trace.  Unreadable payload => handler
   does not run.  Equal => the handler runs once with exactly the expected
   values (nulls: default literal, else zero/nil); if some default literal is
   ill-formed the call must be refused without running the handler. *)
Definition spec_ok (i : input) (o : obs) : bool :=
  if negb (o_reg o) then true else
  match unwrap (i_sent i) with
  | EErr => negb (outcome_eqb (o_outcome o) Ran) && list_eqb (list_eqb val_eqb) (o_trace o) []
  | EBatch fs vs =>
      if schema_eqb fs (o_declared o) then
        if (length vs =? flen fs)%nat then
          match expect_all (zip3 (i_decl i) (ftypes (o_declared o)) vs) with
          | Some xs => outcome_eqb (o_outcome o) Ran && list_eqb (list_eqb val_eqb) (o_trace o) [xs]
          | None => negb (outcome_eqb (o_outcome o) Ran) && list_eqb (list_eqb val_eqb) (o_trace o) []
          end
        else true
      else outcome_eqb (o_outcome o) TypeErr && list_eqb (list_eqb val_eqb) (o_trace o) []
  end.
