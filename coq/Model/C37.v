(* Model/C37.v — dispatch hooks (vgirpc/hooks.go DispatchHook) as they are driven
   by the dispatch layer: server_serve.go serveOne (pipe), http_unary.go
   handleUnary, http_stream.go handleStreamInit / handleStreamExchange with
   startDispatchHook + the deferred hookCleanup.

   A call is a script (transport, method kind, what is wrong with the request,
   what the handler / stream state does, what the client sends next).  Every
   REQUEST of a call has a fate: is the hook started for it, does it reach the
   user's handler (where the harness can suspend it), which handlerErr reaches
   OnDispatchEnd, which response goes to the client.  The run of a history is
   computed in two layers:
     skel     — the dispatch layer without any hook: which requests happen in
                which schedule step, with which response (the hook is not
                consulted: start / end sit in recover() wrappers);
     decorate — the hook call sites: the n-th OnDispatchStart (behaviour
                scripted: returns token n, or panics) and OnDispatchEnd with the
                token the matching start returned (kept in the suspended
                request's local variable = the token table).
   Server configuration of the modelled harness servers: protocol version set,
   authenticator, sticky sessions enabled, producer batch limit 2,
   max_response_bytes smaller than one big log message. *)
From VR Require Export Lib.Bytes.
Open Scope N_scope.

(* ---- calls ---------------------------------------------------------------- *)
Inductive mkind := KUnary | KProd | KExch | KUnknown.
Inductive pre := PreNone | PreAuth | PreCType.
Inductive pvflag := PvOk | PvAbsent | PvBad.
Inductive outcome := OOk | OBig | OErr | OPanic | ONil.
Inductive tact := TEmit | TBig | TFinish | TErr | TPanic | TNoEmit | TEmit2 | TBadSchema.
Inductive citem := ITick | ICancel | IBadToken | ISticky.
(* where user code cancels the context its dispatch runs under (the serve / request
   context, or the one OnDispatchStart returned): nowhere, in the unary / init
   handler, or inside the Produce / Exchange call at stream position k *)
Inductive cancelpt := CNone | CHandler | CTurn (k : nat).

Record call := {
  c_http : bool; c_kind : mkind;
  c_pre : pre;                 (* HTTP: refused by the authenticator / the content-type check *)
  c_pv : pvflag;               (* vgi_rpc.protocol_version of the request vs. the server's *)
  c_badparams : bool;
  c_sticky : bool;             (* HTTP: undecodable VGI-Session on the first request *)
  c_init : outcome;            (* unary handler / stream init handler *)
  c_nogob : bool;              (* stream state that cannot be packed into a token *)
  c_turns : list tact;         (* Produce / Exchange script *)
  c_inputs : list citem;       (* pipe: input batches; HTTP: continuation requests *)
  c_cancel : cancelpt }.

(* ---- responses ------------------------------------------------------------ *)
Inductive fr := FData (v : Z) | FLog | FExc | FTok | FBad.
Record resp := { r_status : N; r_xerr : bool; r_panic : bool; r_streams : list (list fr) }.

Definition is_exc (f : fr) : bool := match f with FExc => true | _ => false end.
(* the response reports an error to the client: 4xx/5xx, X-VGI-RPC-Error, an
   EXCEPTION batch in the body (or the exchange is aborted by an escaped panic) *)
Definition resp_err (r : resp) : bool :=
  (400 <=? r_status r) || r_xerr r || r_panic r || existsb (existsb is_exc) (r_streams r).

Definition pipe_resp (ss : list (list fr)) : resp :=
  {| r_status := 0; r_xerr := false; r_panic := false; r_streams := ss |}.
Definition http_resp (st : N) (x : bool) (ss : list (list fr)) : resp :=
  {| r_status := st; r_xerr := x; r_panic := false; r_streams := ss |}.
(* writeHttpError(500): rewritten by writeArrow to 200 + X-VGI-RPC-Error *)
Definition http_xerr : resp := http_resp 200 true [[FExc]].

(* ---- the fate of one request ---------------------------------------------- *)
Record fate := {
  f_disp : bool;     (* OnDispatchStart is invoked for it *)
  f_gate : bool;     (* it reaches the user's unary / init handler *)
  f_err : bool;      (* handlerErr <> nil when OnDispatchEnd runs *)
  f_resp : resp;
  f_tok : bool;      (* the response carries a continuation token *)
  f_pos : nat }.     (* stream position stored in that token *)

Definition refused (r : resp) : fate :=
  {| f_disp := false; f_gate := false; f_err := false; f_resp := r; f_tok := false; f_pos := 0 |}.
Definition early (e : bool) (r : resp) : fate :=      (* dispatched, over before the handler *)
  {| f_disp := true; f_gate := false; f_err := e; f_resp := r; f_tok := false; f_pos := 0 |}.
Definition handled (e : bool) (r : resp) (tok : bool) (pos : nat) : fate :=
  {| f_disp := true; f_gate := true; f_err := e; f_resp := r; f_tok := tok; f_pos := pos |}.

Definition is_prod (k : mkind) : bool := match k with KProd => true | _ => false end.
Definition is_stream (k : mkind) : bool := match k with KProd | KExch => true | _ => false end.
Definition pv_ok (p : pvflag) : bool := match p with PvOk => true | _ => false end.
Definition default_act (prod : bool) : tact := if prod then TFinish else TEmit.
Definition val (pos : nat) : Z := Z.of_nat (S pos).
Definition big_log (b : bool) : list fr := if b then [FLog] else [].
Definition init_big (o : outcome) : bool := match o with OBig => true | _ => false end.

Definition cancel_here (c : cancelpt) (pos : nat) : bool :=
  match c with CTurn k => Nat.eqb k pos | _ => false end.
Definition cancel_handler (c : cancelpt) : bool := match c with CHandler => true | _ => false end.

(* pipe lockstep loop (server_stream.go): frames written, streamErr <> nil.  The
   context is looked at only at the top of an iteration: a turn that cancelled it
   still has its output flushed, then the stream ends CLEANLY (EOS, no exception,
   streamErr stays nil). *)
Fixpoint pipe_loop (prod : bool) (ts : list tact) (c : cancelpt) (pos : nat) (ins : list citem) : list fr * bool :=
  match ins with
  | [] => ([], false)
  | ICancel :: _ => ([], false)
  | _ :: rest =>
      match nth pos ts (default_act prod) with
      | TEmit => if cancel_here c pos then ([FData (val pos)], false) else
                 let (f, e) := pipe_loop prod ts c (S pos) rest in (FData (val pos) :: f, e)
      | TBig => if cancel_here c pos then ([FLog; FData (val pos)], false) else
                let (f, e) := pipe_loop prod ts c (S pos) rest in (FLog :: FData (val pos) :: f, e)
      | TFinish => if prod then ([], false) else ([FExc], true)
      | TErr | TPanic | TNoEmit | TEmit2 => ([FExc], true)
      | TBadSchema => ([], false)      (* transportErr: the batch cannot be written, streamErr stays nil *)
      end
  end.

Definition pipe_first (k : nat) (cl : call) : fate :=
  match c_kind cl with
  | KUnknown => refused (pipe_resp [[FExc]])
  | kind =>
      if negb (pv_ok (c_pv cl)) then refused (pipe_resp [[FExc]])      (* the gate runs BEFORE the hook *)
      else if c_badparams cl then early true (pipe_resp [[FExc]])
      else if is_stream kind then
        match c_init cl with
        | OErr | OPanic | ONil => handled true (pipe_resp [[FExc]]) false 0
        | o => let (f, e) := if cancel_handler (c_cancel cl) then ([], false)    (* cancelled before the first iteration *)
                             else pipe_loop (is_prod kind) (c_turns cl) (c_cancel cl) 0 (c_inputs cl) in
               handled e (pipe_resp [big_log (init_big o) ++ f]) false 0
        end
      else
        match c_init cl with
        | OErr | OPanic => handled true (pipe_resp [[FExc]]) false 0
        | o => handled false (pipe_resp [big_log (init_big o) ++ [FData (Z.of_nat k)]]) false 0
        end
  end.

(* HTTP produce loop (runProduceLoopInto) from the turns still to play:
   frames, error, cut (batch limit / response cap reached, not finished), position *)
(* the batch limit / response cap is judged before the next iteration looks at the
   context; a cancelled context ends the turn as FINISHED (no token, no error) *)
Fixpoint http_prod (c : cancelpt) (rest : list tact) (pos count : nat) (big : bool) : list fr * bool * bool * nat :=
  match rest with
  | [] => ([], false, false, pos)
  | a :: r =>
      match a with
      | TEmit => if Nat.leb 2 (S count) || big then ([FData (val pos)], false, true, S pos)
                 else if cancel_here c pos then ([FData (val pos)], false, false, S pos)
                 else let '(f, e, ct, p) := http_prod c r (S pos) (S count) big in (FData (val pos) :: f, e, ct, p)
      | TBig => ([FLog; FData (val pos)], false, true, S pos)
      | TFinish => ([], false, false, S pos)
      | TErr | TPanic | TNoEmit | TEmit2 => ([FExc], true, false, S pos)
      | TBadSchema => ([], true, false, S pos)     (* writer.Write fails: error returned, nothing written *)
      end
  end.

(* one HTTP producer turn (init or continuation) incl. the token pack *)
Definition http_prod_turn (cl : call) (pos : nat) (pre_frames : list fr) (big : bool) (cancelled : bool) : fate :=
  if cancelled then handled false (http_resp 200 false [pre_frames]) false pos else
  let '(f, e, cut, p) := http_prod (c_cancel cl) (skipn pos (c_turns cl)) pos 0 big in
  if cut then
    if c_nogob cl then handled true (http_resp 200 false [pre_frames ++ f]) false p   (* packCursorToken error *)
    else handled false (http_resp 200 false [pre_frames ++ f ++ [FTok]]) true p
  else handled e (http_resp 200 false [pre_frames ++ f]) false p.

(* [legacy] = the order before fix fc4bbff: startDispatchHook preceded the
   protocol-version gate, so a gate-refused request got a start and an end *)
Definition http_first_gen (legacy : bool) (k : nat) (cl : call) : fate :=
  match c_pre cl with
  | PreAuth => refused (http_resp 401 false [])
  | PreCType => refused (http_resp 415 false [[FExc]])
  | PreNone =>
  match c_kind cl with
  | KUnknown => refused (http_resp 404 false [[FExc]])
  | kind =>
      (* the protocol-version gate runs BEFORE startDispatchHook, as on the pipe *)
      if negb (pv_ok (c_pv cl)) then
        (if legacy then early true (http_resp 400 false [[FExc]]) else refused (http_resp 400 false [[FExc]]))
      else if c_badparams cl then early true (http_resp 400 false [[FExc]])
      else if c_sticky cl then early true http_xerr
      else match kind with
      | KProd =>
          match c_init cl with
          | OErr | OPanic | ONil => handled true http_xerr false 0
          | o => http_prod_turn cl 0 (big_log (init_big o)) (init_big o) (cancel_handler (c_cancel cl))
          end
      | KExch =>
          match c_init cl with
          | OErr | OPanic | ONil => handled true http_xerr false 0
          | o => if c_nogob cl then handled false http_xerr false 0   (* packCursorToken error: 500, handlerErr not set *)
                 else handled false (http_resp 200 false [big_log (init_big o) ++ [FTok]]) true 0
          end
      | _ =>
          match c_init cl with
          | OErr | OPanic => handled true http_xerr false 0
          | OBig => handled true http_xerr false 0        (* max_response_bytes: cap error replaces the body *)
          | _ => handled false (http_resp 200 false [[FData (Z.of_nat k)]]) false 0
          end
      end
  end
  end.

Definition http_first := http_first_gen false.

Definition first_fate (k : nat) (cl : call) : fate :=
  if c_http cl then http_first k cl else pipe_first k cl.

(* one HTTP exchange continuation with a valid token *)
Definition http_exch_turn (cl : call) (pos : nat) : fate :=
  match nth pos (c_turns cl) TEmit with
  | TEmit => handled false (http_resp 200 false [[FData (val pos)]]) true (S pos)
  | TBadSchema => handled false {| r_status := 200; r_xerr := false; r_panic := true; r_streams := [] |} false (S pos)
  | _ => handled true http_xerr false (S pos)
  end.

Definition cont_turn (cl : call) (pos : nat) : fate :=
  (* every continuation request brings a fresh, uncancelled request context *)
  if is_prod (c_kind cl) then http_prod_turn cl pos [] false false else http_exch_turn cl pos.

(* the continuation requests of an HTTP stream call: (input index, fate) *)
Fixpoint conts_from (cl : call) (pos j : nat) (ins : list citem) : list (nat * fate) :=
  match ins with
  | [] => []
  | IBadToken :: rest => (j, refused (http_resp 400 false [[FExc]])) :: conts_from cl pos (S j) rest
  | ISticky :: rest => (j, early true http_xerr) :: conts_from cl pos (S j) rest
  | ICancel :: _ => [(j, early false (http_resp 200 false [[]]))]
  | ITick :: rest =>
      let f := cont_turn cl pos in
      (j, f) :: if f_tok f then conts_from cl (f_pos f) (S j) rest else []
  end.

Definition conts_of (k : nat) (cl : call) : list (nat * fate) :=
  let f := first_fate k cl in
  if c_http cl && is_stream (c_kind cl) && f_tok f then conts_from cl (f_pos f) 0 (c_inputs cl) else [].

(* ---- histories: the dispatch layer without the hook ------------------------ *)
Inductive op := Begin (k : nat) | Finish (k : nat).
Inductive part := PtNone | PtWhole (err : bool) | PtBegin | PtEnd (err : bool).
(* s_user: user code (handler / Produce / Exchange) runs inside this request *)
Record srq := { s_k : nat; s_item : option nat; s_part : part; s_user : bool; s_resp : option resp }.

Record sstate := { ss_run : list nat; ss_done : list nat }.
Definition mem_nat (n : nat) (l : list nat) : bool := existsb (Nat.eqb n) l.
Fixpoint rm (n : nat) (l : list nat) : list nat :=
  match l with [] => [] | x :: r => if Nat.eqb n x then r else x :: rm n r end.

Definition whole_part (f : fate) : part := if f_disp f then PtWhole (f_err f) else PtNone.
Definition cont_srqs (k : nat) (cl : call) : list srq :=
  map (fun jf => {| s_k := k; s_item := Some (fst jf); s_part := whole_part (snd jf);
                     s_user := f_disp (snd jf) && f_gate (snd jf); s_resp := Some (f_resp (snd jf)) |})
      (conts_of k cl).

Definition sstep (calls : list call) (st : sstate) (o : op) : sstate * list srq :=
  match o with
  | Begin k =>
      match nth_error calls k with
      | Some cl =>
          if mem_nat k (ss_run st) || mem_nat k (ss_done st) then (st, [])
          else
            let f := first_fate k cl in
            if f_disp f && f_gate f then
              ({| ss_run := k :: ss_run st; ss_done := ss_done st |},
               [{| s_k := k; s_item := None; s_part := PtBegin; s_user := false; s_resp := None |}])
            else
              ({| ss_run := ss_run st; ss_done := k :: ss_done st |},
               {| s_k := k; s_item := None; s_part := whole_part f; s_user := f_disp f && f_gate f; s_resp := Some (f_resp f) |}
               :: cont_srqs k cl)
      | None => (st, [])
      end
  | Finish k =>
      match nth_error calls k with
      | Some cl =>
          if mem_nat k (ss_run st) then
            let f := first_fate k cl in
            ({| ss_run := rm k (ss_run st); ss_done := k :: ss_done st |},
             {| s_k := k; s_item := None; s_part := PtEnd (f_err f); s_user := true; s_resp := Some (f_resp f) |} :: cont_srqs k cl)
          else (st, [])
      | None => (st, [])
      end
  end.

Fixpoint skel (calls : list call) (st : sstate) (sched : list op) : sstate * list (list srq) :=
  match sched with
  | [] => (st, [])
  | o :: r => let (st1, s) := sstep calls st o in let (st2, ss) := skel calls st1 r in (st2, s :: ss)
  end.
Definition sinit : sstate := {| ss_run := []; ss_done := [] |}.

(* ---- the hook call sites ---------------------------------------------------- *)
(* what OnDispatchStart hands back when it returns: (ctx, token) in every shape the
   call sites tolerate.  Token values: 0 = nil token, S n = the token issued by
   start n.  Context values: 0 = the caller's context (also when start returns a
   nil context: the call site keeps its own), S n = a context derived by start n
   carrying a value user code can read. *)
Inductive retshape := RCtxTok | RNilCtx | RNilTok | RNilNil | RDerived.
Definition tokv (sh : retshape) (n : nat) : nat := match sh with RNilTok | RNilNil => 0 | _ => S n end.
Definition ctxv (sh : retshape) (n : nat) : nat := match sh with RDerived => S n | _ => 0 end.

(* HStart: start id, None = panicked | Some (token value, context value) returned;
   HEnd: token value received, err <> nil *)
Inductive hev := HStart (id : nat) (out : option (nat * nat)) | HEnd (tv : nat) (err : bool).
Record hbeh := { hb_sp : bool; hb_ep : bool; hb_ret : retshape }.      (* start panics / end panics / what start returns *)
Definition calm : hbeh := {| hb_sp := false; hb_ep := false; hb_ret := RCtxTok |}.
Definition beh (hs : list hbeh) (n : nat) : hbeh := nth n hs calm.

(* OnDispatchStart inside its recover wrapper: start n returns (hookActive = true,
   its token reaches the call site WHATEVER context came with it; a non-nil
   context replaces the call's) or panics (no token, no end later, context kept) *)
Definition start_out (hs : list hbeh) (n : nat) : option (nat * nat) :=
  if hb_sp (beh hs n) then None else Some (tokv (hb_ret (beh hs n)) n, ctxv (hb_ret (beh hs n)) n).
Definition hook_start (hs : list hbeh) (n : nat) : list hev := [HStart n (start_out hs n)].
(* OnDispatchEnd inside its recover wrapper: a panic is swallowed *)
Definition hook_end (hs : list hbeh) (n : nat) (out : option (nat * nat)) (err : bool) : list hev :=
  match out with
  | Some (tv, _) => if hb_ep (beh hs n) then [HEnd tv err] else [HEnd tv err]
  | None => []
  end.
(* the context user code runs under *)
Definition cv_of (out : option (nat * nat)) : nat := match out with Some (_, cv) => cv | None => 0 end.

Inductive phase := PWhole | PBegin | PEnd.
(* q_begin: on the resumed half of a suspended request, the start event the same
   call produced when it was begun (id, outcome).  q_seen: the context value every
   piece of user code saw during the request (None: no user code ran); reported
   on the half in which the request completes. *)
Record rq := { q_k : nat; q_item : option nat; q_phase : phase; q_begin : option (nat * option (nat * nat));
               q_evs : list hev; q_seen : option nat; q_resp : option resp }.

(* hook counter; (start id, outcome) held by each suspended request: its local
   hookToken / ctx variables *)
Definition tabent := (nat * (nat * option (nat * nat)))%type.
Record hstate := { h_next : nat; h_tab : list tabent }.
Fixpoint take_tok (k : nat) (tab : list tabent) : option ((nat * option (nat * nat)) * list tabent) :=
  match tab with
  | [] => None
  | (j, t) :: r => if Nat.eqb j k then Some (t, r)
                   else match take_tok k r with Some (t', r') => Some (t', (j, t) :: r') | None => None end
  end.

Definition drq (hs : list hbeh) (h : hstate) (s : srq) : hstate * rq :=
  let mk ph b evs seen := {| q_k := s_k s; q_item := s_item s; q_phase := ph; q_begin := b; q_evs := evs;
                             q_seen := seen; q_resp := s_resp s |} in
  let n := h_next h in
  let saw out := if s_user s then Some (cv_of out) else None in
  match s_part s with
  | PtNone => (h, mk PWhole None [] None)
  | PtWhole e =>
      ({| h_next := S n; h_tab := h_tab h |},
       mk PWhole None (hook_start hs n ++ hook_end hs n (start_out hs n) e) (saw (start_out hs n)))
  | PtBegin =>
      ({| h_next := S n; h_tab := (s_k s, (n, start_out hs n)) :: h_tab h |}, mk PBegin None (hook_start hs n) None)
  | PtEnd e =>
      match take_tok (s_k s) (h_tab h) with
      | Some (tok, rest) => ({| h_next := n; h_tab := rest |},
                             mk PEnd (Some tok) (hook_end hs (fst tok) (snd tok) e) (saw (snd tok)))
      | None => (h, mk PEnd None [] None)
      end
  end.

Fixpoint dseg (hs : list hbeh) (h : hstate) (l : list srq) : hstate * list rq :=
  match l with
  | [] => (h, [])
  | s :: r => let (h1, q) := drq hs h s in let (h2, qs) := dseg hs h1 r in (h2, q :: qs)
  end.
Fixpoint decorate (hs : list hbeh) (h : hstate) (ll : list (list srq)) : hstate * list (list rq) :=
  match ll with
  | [] => (h, [])
  | l :: r => let (h1, q) := dseg hs h l in let (h2, qs) := decorate hs h1 r in (h2, q :: qs)
  end.
Definition hinit : hstate := {| h_next := 0; h_tab := [] |}.

Definition run (hs : list hbeh) (calls : list call) (sched : list op) : hstate * list (list rq) :=
  decorate hs hinit (snd (skel calls sinit sched)).

(* ---- correspondence interface ---------------------------------------------- *)
Record input := { i_hooks : list hbeh; i_calls : list call; i_sched : list op }.
(* per schedule step the requests that ran in it; the responses of the same
   history under a hook that never panics *)
Record obs := { o_run : list (list rq); o_ref : list (list (option resp)) }.

Definition resps (segs : list (list rq)) : list (list (option resp)) := map (map q_resp) segs.

Definition model (i : input) : obs :=
  {| o_run := snd (run (i_hooks i) (i_calls i) (i_sched i));
     o_ref := resps (snd (run [] (i_calls i) (i_sched i))) |}.

(* ---- obs equality ------------------------------------------------------------ *)
Definition fr_eqb (a b : fr) : bool :=
  match a, b with
  | FData x, FData y => Z.eqb x y
  | FLog, FLog | FExc, FExc | FTok, FTok | FBad, FBad => true
  | _, _ => false
  end.
Definition resp_eqb (a b : resp) : bool :=
  N.eqb (r_status a) (r_status b) && Bool.eqb (r_xerr a) (r_xerr b) && Bool.eqb (r_panic a) (r_panic b)
  && list_eqb (list_eqb fr_eqb) (r_streams a) (r_streams b).
Definition out_eqb (a b : option (nat * nat)) : bool :=
  opt_eqb (fun x y => Nat.eqb (fst x) (fst y) && Nat.eqb (snd x) (snd y)) a b.
Definition hev_eqb (a b : hev) : bool :=
  match a, b with
  | HStart i r, HStart j s => Nat.eqb i j && out_eqb r s
  | HEnd i e, HEnd j f => Nat.eqb i j && Bool.eqb e f
  | _, _ => false
  end.
Definition phase_eqb (a b : phase) : bool :=
  match a, b with PWhole, PWhole | PBegin, PBegin | PEnd, PEnd => true | _, _ => false end.
Definition rq_eqb (a b : rq) : bool :=
  Nat.eqb (q_k a) (q_k b) && opt_eqb Nat.eqb (q_item a) (q_item b) && phase_eqb (q_phase a) (q_phase b)
  && opt_eqb (fun x y => Nat.eqb (fst x) (fst y) && out_eqb (snd x) (snd y)) (q_begin a) (q_begin b)
  && list_eqb hev_eqb (q_evs a) (q_evs b) && opt_eqb Nat.eqb (q_seen a) (q_seen b) && opt_eqb resp_eqb (q_resp a) (q_resp b).
Definition obs_eqb (a b : obs) : bool :=
  list_eqb (list_eqb rq_eqb) (o_run a) (o_run b)
  && list_eqb (list_eqb (opt_eqb resp_eqb)) (o_ref a) (o_ref b).

(* ---- the property, decided on one observation --------------------------------- *)
(* a dispatched call (properties.jsonl): a parsed request for a registered method
   that passes the protocol-version gate and, over HTTP, is let through by the
   authenticator / content-type check and whose token resolves *)
Definition first_dispatched (cl : call) : bool :=
  match c_kind cl with KUnknown => false | _ => true end
  && pv_ok (c_pv cl)
  && (negb (c_http cl) || match c_pre cl with PreNone => true | _ => false end).
Definition item_dispatched (it : citem) : bool := match it with IBadToken => false | _ => true end.

Definition rq_dispatched (calls : list call) (q : rq) : bool :=
  match nth_error calls (q_k q) with
  | Some cl =>
      match q_item q with
      | None => first_dispatched cl
      | Some j => match nth_error (c_inputs cl) j with Some it => item_dispatched it | None => false end
      end
  | None => false
  end.

(* user code ran under the context start handed back (its own when start panicked
   or returned a nil context) *)
Definition seen_ok (cv : nat) (q : rq) : bool :=
  match q_seen q with None => true | Some v => Nat.eqb v cv end.

(* the events of one request: nothing when not dispatched; when dispatched one
   start and, iff it returned, one end carrying EXACTLY the token value that start
   returned (nil included), whatever context came with it — for a request
   suspended in its handler the end comes in the resumed half *)
Definition shape_ok (calls : list call) (q : rq) : bool :=
  match q_phase q, q_begin q, q_evs q, q_resp q with
  | PWhole, None, [], Some _ => negb (rq_dispatched calls q)
  | PWhole, None, [HStart _ None], Some _ => rq_dispatched calls q && seen_ok 0 q
  | PWhole, None, [HStart _ (Some (tv, cv)); HEnd tv' _], Some _ => rq_dispatched calls q && Nat.eqb tv tv' && seen_ok cv q
  | PBegin, None, [HStart _ _], None => rq_dispatched calls q
  | PEnd, Some (_, None), [], Some _ => seen_ok 0 q
  | PEnd, None, [], Some _ => true      (* no start was seen for it: already refused by the PBegin line *)
  | PEnd, Some (_, Some (tv, cv)), [HEnd tv' _], Some _ => Nat.eqb tv tv' && seen_ok cv q
  | _, _, _, _ => false
  end.

(* start ids are handed out in order and a start returns its own token or nil; an
   end names a token value some returned start still waits to be ended with;
   result: next id and the token values still waiting for their end *)
Definition tok_ok (id : nat) (out : option (nat * nat)) : bool :=
  match out with Some (tv, _) => Nat.eqb tv 0 || Nat.eqb tv (S id) | None => true end.
Fixpoint bal (next : nat) (open : list nat) (evs : list hev) : option (nat * list nat) :=
  match evs with
  | [] => Some (next, open)
  | HStart id out :: r =>
      if Nat.eqb id next && tok_ok id out
      then bal (S next) (match out with Some (tv, _) => tv :: open | None => open end) r else None
  | HEnd tv _ :: r => if mem_nat tv open then bal next (rm tv open) r else None
  end.

(* the end hook saw an error exactly when the response of that request reports one *)
Definition end_matches (q : rq) : bool :=
  match q_resp q with
  | Some r => forallb (fun e => match e with HEnd _ err => Bool.eqb err (resp_err r) | _ => true end) (q_evs q)
  | None => true
  end.

Definition flat_evs (segs : list (list rq)) : list hev := flat_map q_evs (concat segs).

(* counting events per token (used by the readable theorems) *)
Definition cnt (p : hev -> bool) (l : list hev) : nat := length (filter p l).
Definition is_start_of (t : nat) (e : hev) : bool := match e with HStart i _ => Nat.eqb t i | _ => false end.
(* starts that returned token value t *)
Definition is_sret_of (t : nat) (e : hev) : bool := match e with HStart _ (Some (tv, _)) => Nat.eqb t tv | _ => false end.
Definition is_end_tok (t : nat) (e : hev) : bool := match e with HEnd i _ => Nat.eqb t i | _ => false end.
(* suspended requests holding token value t *)
Definition holds (t : nat) (e : tabent) : bool :=
  match snd (snd e) with Some (tv, _) => Nat.eqb t tv | None => false end.
Definition held (t : nat) (tab : list tabent) : nat := length (filter (holds t) tab).
Definition spec_ok (i : input) (o : obs) : bool :=
  let rqs := concat (o_run o) in
  forallb (shape_ok (i_calls i)) rqs
  && match bal 0 [] (flat_evs (o_run o)) with Some _ => true | None => false end
  && forallb end_matches rqs
  && list_eqb (list_eqb (opt_eqb resp_eqb)) (resps (o_run o)) (o_ref o).

(* inputs outside the recorded findings (see Props/C37.v *_refuted) *)
Definition has_badschema (ts : list tact) : bool :=
  existsb (fun a => match a with TBadSchema => true | _ => false end) ts.
Definition clean_call (cl : call) : bool :=
  negb (c_http cl)
  || negb (is_stream (c_kind cl) && (c_nogob cl || has_badschema (c_turns cl))).
Definition clean (i : input) : bool := forallb clean_call (i_calls i).
