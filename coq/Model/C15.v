(* Model/C15.v — token lifetime is enforced and the call-state cache never changes outcomes.
   Go: vgirpc/http_state.go (checkTokenAge, openCursorToken, resolveCall, newCallStateCache,
   callStateCache.get/put, packCallTokenFor's warming put), vgirpc/http.go (NewHttpServerWithKey,
   SetTokenTTL, SetCallStateCacheEntries), vgirpc/http_stream.go (handleStreamExchange: cursor
   first, then resolveCall).

   TIME is an integer in ONE arbitrary clock unit, the same for [now], the [created] instants of
   tokens, ttls and cache expiries (the code compares nanosecond instants; a token's CreatedAt is a
   whole second expressed in that unit). The inequalities are the code's own:
     checkTokenAge   refuses iff  now - created > ttl          ([age_ok])
     cache.get       misses  iff  now > expiresAt              ([get], time.Now().After)
     cache.put       stores       expiresAt = created + c.ttl  ([put]; pre-fix: now + c.ttl)
   The correspondence harness uses 2 units per second, with created/ttl even and now odd
   (the real clock sits strictly inside a second), see harness/cmd/vh/c15.go.

   A call is identified by its index [k]; [created k] is the CreatedAt sealed in call k's call
   token (one call token per call id: minted once by /init). The AEAD is ideal and the caller is
   fixed (identity binding is C13, forgery C12): a presented call token is the genuine token of
   some call ([CTok k']), absent ([CNone]) or something that does not open ([CForged]); a presented
   cursor is a genuine cursor (call id, its own CreatedAt). *)
From Coq Require Import ZArith List Bool.
From VR Require Export Gen.Consts.
Import ListNotations.
Open Scope Z_scope.

Inductive rclass := RExpired | RNoCall | RBadCall | RMismatch.
Inductive outcome := Acc | Ref (c : rclass) | Done.
Inductive calltok := CNone | CTok (k : nat) | CForged.

(* one operation of a history, always aimed at one instance [i] (taken modulo the number of
   instances) *)
Inductive op :=
| SetTTL (i : nat) (d : Z)                       (* HttpServer.SetTokenTTL *)
| SetCap (i : nat) (n : Z)                       (* HttpServer.SetCallStateCacheEntries *)
| Init (i : nat) (k : nat)                       (* call k's /init is served here: warming put *)
| Cont (now : Z) (i : nat) (cur : nat * Z) (call : calltok).   (* /exchange *)

Definition target (o : op) : nat :=
  match o with SetTTL i _ | SetCap i _ | Init i _ | Cont _ i _ _ => i end.

(* one HttpServer: tokenTTL, and its callStateCache (max, ttl, entries front = most recent).
   An entry is (call index, expiresAt). *)
Record inst := { ttl : Z; cap : Z; cttl : Z; ents : list (nat * Z) }.

Definition with_ents (s : inst) (l : list (nat * Z)) : inst :=
  {| ttl := ttl s; cap := cap s; cttl := cttl s; ents := l |}.

Fixpoint find_key (k : nat) (l : list (nat * Z)) : option Z :=
  match l with
  | [] => None
  | (k', e) :: t => if (k' =? k)%nat then Some e else find_key k t
  end.
Definition remove_key (k : nat) (l : list (nat * Z)) : list (nat * Z) :=
  filter (fun e => negb (fst e =? k)%nat) l.

Fixpoint set_nth {A} (n : nat) (x : A) (l : list A) : list A :=
  match l, n with
  | [], _ => []
  | _ :: t, O => x :: t
  | h :: t, S n' => h :: set_nth n' x t
  end.

(* checkTokenAge *)
Definition age_ok (t now c : Z) : bool := negb (t <? now - c).

(* the only state the cache-free reference keeps: every instance's tokenTTL *)
Definition ref_ttl (t : Z) (o : op) : Z := match o with SetTTL _ d => d | _ => t end.
Definition ref_ttls (ts : list Z) (o : op) : list Z :=
  let i := (target o mod length ts)%nat in
  match nth_error ts i with
  | None => ts
  | Some t => set_nth i (ref_ttl t o) ts
  end.
(* the tokenTTL in force at the instance each op reaches *)
Fixpoint ttl_trace (ts : list Z) (ops : list op) : list (option Z) :=
  match ops with
  | [] => []
  | o :: r => nth_error ts (target o mod length ts)%nat :: ttl_trace (ref_ttls ts o) r
  end.

Section M.
  Variable legacy : bool.        (* true: the pre-fix put (expiry = now + ttl at insertion) *)
  Variable fb : Z.               (* newCallStateCache: the ttl used when handed ttl <= 0 *)
  Variable dcap : Z.             (* defaultCallStateCacheEntries *)
  Variable created : nat -> Z.   (* CreatedAt of call k's call token *)

  Definition cache_ttl (d : Z) : Z := if d <=? 0 then fb else d.
  (* a server with tokenTTL t whose cache was just built by newCallStateCache(n, t) *)
  Definition mk (t n : Z) : inst := {| ttl := t; cap := n; cttl := cache_ttl t; ents := [] |}.

  (* callStateCache.get: (hit?, cache afterwards) *)
  Definition get (now : Z) (k : nat) (s : inst) : bool * inst :=
    if cap s <=? 0 then (false, s) else
    match find_key k (ents s) with
    | None => (false, s)
    | Some e =>
        if e <? now then (false, with_ents s (remove_key k (ents s)))
        else (true, with_ents s ((k, e) :: remove_key k (ents s)))
    end.

  (* callStateCache.put(callID, auth, createdAt = c, _) executed at instant now *)
  Definition put (now : Z) (k : nat) (c : Z) (s : inst) : inst :=
    if cap s <=? 0 then s else
    let e := (if legacy then now else c) + cttl s in
    match find_key k (ents s) with
    | Some _ => with_ents s ((k, e) :: remove_key k (ents s))
    | None => with_ents s (firstn (Z.to_nat (cap s)) ((k, e) :: ents s))
    end.

  (* handleStreamExchange's token part: openCursorToken (age), then resolveCall *)
  Definition cont (now : Z) (cur : nat * Z) (call : calltok) (s : inst) : outcome * inst :=
    let (k, cc) := cur in
    if negb (age_ok (ttl s) now cc) then (Ref RExpired, s) else
    let (hit, s1) := get now k s in
    if hit then (Acc, s1) else
    match call with
    | CNone => (Ref RNoCall, s1)
    | CForged => (Ref RBadCall, s1)
    | CTok k' =>
        if negb (age_ok (ttl s) now (created k')) then (Ref RExpired, s1)
        else if negb (k' =? k)%nat then (Ref RMismatch, s1)
        else (Acc, put now k (created k') s1)
    end.

  Definition istep (s : inst) (o : op) : outcome * inst :=
    match o with
    | SetTTL _ d => (Done, mk d dcap)
    | SetCap _ n => (Done, mk (ttl s) n)
    | Init _ k => (Done, put (created k) k (created k) s)
    | Cont now _ cur call => cont now cur call s
    end.

  (* observation of one op: its outcome and the touched instance's cache afterwards *)
  Definition ob : Type := outcome * list (nat * Z).

  Definition step (st : list inst) (o : op) : ob * list inst :=
    let i := (target o mod length st)%nat in
    match nth_error st i with
    | None => ((Done, []), st)
    | Some s => let (r, s') := istep s o in ((r, ents s'), set_nth i s' st)
    end.

  Fixpoint run (st : list inst) (ops : list op) : list ob :=
    match ops with
    | [] => []
    | o :: r => fst (step st o) :: run (snd (step st o)) r
    end.
  Fixpoint exec (st : list inst) (ops : list op) : list inst :=
    match ops with
    | [] => st
    | o :: r => exec (snd (step st o)) r
    end.

  (* instances as configured: (tokenTTL, cache capacity), caches empty *)
  Definition start (cfgs : list (Z * Z)) : list inst := map (fun c => mk (fst c) (snd c)) cfgs.

  (* ---- the cache-free reference --------------------------------------------------- *)
  (* what a server with tokenTTL t decides from the presented tokens alone *)
  Definition decide (t now : Z) (cur : nat * Z) (call : calltok) : outcome :=
    let (k, cc) := cur in
    if negb (age_ok t now cc) then Ref RExpired else
    match call with
    | CNone => Ref RNoCall
    | CForged => Ref RBadCall
    | CTok k' =>
        if negb (age_ok t now (created k')) then Ref RExpired
        else if negb (k' =? k)%nat then Ref RMismatch
        else Acc
    end.

  Definition ref_out (t : Z) (o : op) : outcome :=
    match o with Cont now _ cur call => decide t now cur call | _ => Done end.
  Definition ref_step (ts : list Z) (o : op) : outcome * list Z :=
    match nth_error ts (target o mod length ts)%nat with
    | None => (Done, ts)
    | Some t => (ref_out t o, ref_ttls ts o)
    end.
  Fixpoint ref_run (ts : list Z) (ops : list op) : list outcome :=
    match ops with
    | [] => []
    | o :: r => fst (ref_step ts o) :: ref_run (ref_ttls ts o) r
    end.
End M.

(* ---- premises of the theorems, as decidable predicates on the history ------------------- *)
(* the client echoes the call token of the stream the cursor belongs to (the wire protocol's
   requirement on every continuation) *)
Definition echo (cur : nat * Z) (call : calltok) : bool :=
  match call with CTok k' => (k' =? fst cur)%nat | _ => false end.
Definition echoes_op (o : op) : bool :=
  match o with Cont _ _ cur call => echo cur call | _ => true end.
Definition echoes_call_token (h : list op) : bool := forallb echoes_op h.

(* a server configured with a non-positive ttl is only ever shown cursors minted strictly
   before the request (mint happens-before presentation on a clock that moves); with a positive
   ttl nothing is asked *)
Definition sane (t now : Z) (cur : nat * Z) : bool := (0 <? t) || (snd cur <? now).
Definition sane_op (t : option Z) (o : op) : bool :=
  match t, o with Some t, Cont now _ cur _ => sane t now cur | _, _ => true end.
Fixpoint forallb2 {A B} (f : A -> B -> bool) (l : list A) (m : list B) : bool :=
  match l, m with
  | [], [] => true
  | a :: l', b :: m' => f a b && forallb2 f l' m'
  | _, _ => false
  end.
Definition sane_clock (ts : list Z) (h : list op) : bool :=
  forallb2 sane_op (ttl_trace ts h) h.

(* ---- correspondence interface ----------------------------------------------------------- *)
(* tick: clock units per second (the constants regenerated from the code are in seconds) *)
Record input := { i_tick : Z; i_ninst : nat; i_created : list Z; i_ops : list op }.
Definition obs := list (outcome * list (nat * Z)).

Definition created_fn (l : list Z) (k : nat) : Z := nth k l 0.
(* NewHttpServerWithKey: default ttl, default cache size *)
Definition cfg0 (i : input) : list (Z * Z) :=
  repeat (i_tick i * c15_default_ttl_s, c15_default_entries) (i_ninst i).

Definition model (i : input) : obs :=
  let fb := i_tick i * c15_fallback_ttl_s in
  run false fb c15_default_entries (created_fn (i_created i)) (start fb (cfg0 i)) (i_ops i).

Definition rclass_eqb (a b : rclass) : bool :=
  match a, b with
  | RExpired, RExpired | RNoCall, RNoCall | RBadCall, RBadCall | RMismatch, RMismatch => true
  | _, _ => false
  end.
Definition outcome_eqb (a b : outcome) : bool :=
  match a, b with
  | Acc, Acc | Done, Done => true
  | Ref x, Ref y => rclass_eqb x y
  | _, _ => false
  end.
Fixpoint list_eqb {A} (f : A -> A -> bool) (l m : list A) : bool :=
  match l, m with
  | [], [] => true
  | a :: l', b :: m' => f a b && list_eqb f l' m'
  | _, _ => false
  end.
Definition ent_eqb (a b : nat * Z) : bool := (fst a =? fst b)%nat && (snd a =? snd b).
Definition ob_eqb (a b : outcome * list (nat * Z)) : bool :=
  outcome_eqb (fst a) (fst b) && list_eqb ent_eqb (snd a) (snd b).
Definition obs_eqb (a b : obs) : bool := list_eqb ob_eqb a b.

(* ---- the property, decided on the implementation's observables --------------------------- *)
Definition is_ref (o : outcome) : bool := match o with Ref _ => true | _ => false end.

(* one continuation at a server whose ttl is t:
   (1) the outcome is the cache-free decision; the only licence: a request that does NOT echo
       its call token (or breaks the clock premise) may be accepted where [decide] refuses —
       never the converse, never another refusal class;
   (2) whoever asks: a cursor, or the call token of the cursor's own call, older than the ttl
       is refused (under the clock premise) *)
Definition cont_ok (created : nat -> Z) (t now : Z) (cur : nat * Z) (call : calltok) (out : outcome) : bool :=
  let d := decide created t now cur call in
  (outcome_eqb out d
   || (outcome_eqb out Acc && (negb (echo cur call) || negb (sane t now cur))))
  && (if sane t now cur && (negb (age_ok t now (snd cur)) || negb (age_ok t now (created (fst cur))))
      then is_ref out else true).
Definition op_ok (created : nat -> Z) (t : Z) (o : op) (out : outcome) : bool :=
  match o with
  | Cont now _ cur call => cont_ok created t now cur call out
  | _ => outcome_eqb out Done
  end.
(* (3) no cache entry outlives its call token: expiresAt <= created + ttl (positive ttl) *)
Definition dump_ok (created : nat -> Z) (t : Z) (dump : list (nat * Z)) : bool :=
  forallb (fun e => negb (0 <? t) || (snd e <=? created (fst e) + t)) dump.

Fixpoint spec_run (created : nat -> Z) (ts : list Z) (ops : list op) (o : obs) : bool :=
  match ops, o with
  | [], [] => true
  | p :: r, (out, dump) :: o' =>
      let i := (target p mod length ts)%nat in
      match nth_error ts i with
      | None => outcome_eqb out Done && match dump with [] => true | _ => false end
      | Some t => op_ok created t p out && dump_ok created (ref_ttl t p) dump
      end
      && spec_run created (ref_ttls ts p) r o'
  | _, _ => false
  end.

Definition spec_ok (i : input) (o : obs) : bool :=
  spec_run (created_fn (i_created i)) (map fst (cfg0 i)) (i_ops i) o.
