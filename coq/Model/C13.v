(* Model/C13.v — tokens are bound to the identity and the kind they were minted for.
   Go: vgirpc/http_state.go (tokenAad, stateTokenAad, callTokenAad, callStateIdentity,
   callStateCache.get/put, openToken's version check, openCursorToken, resolveCall),
   vgirpc/sticky.go (openSessionToken, sessionRegistry.get), vgirpc/sticky_context.go
   (OpenSession, principalKeyFromAuth), vgirpc/http_sticky.go (installStickyOnRequestNoCtx),
   vgirpc/http_stream.go (handleStreamExchange: cursor first, then resolveCall).

   Part A is pure byte strings over the constants REGENERATED from the compiled code
   (Gen/Consts.v: the three AAD prefixes, the anonymous tail, the auth tag and separator
   bytes, the version bytes, the cache-key and registry-key framing).
   Part B is parametric in an AEAD (section variables [seal]/[open]); the executable
   [model] instantiates it with the symbolic ideal AEAD [sym_seal]/[sym_open].
   The gob / zstd / base64 codecs and the fixed sticky plaintext layout are folded into
   [seal]/[open]: a plaintext is a [payload] = (the kind whose grammar it has, an id). *)
From VR Require Export Lib.Strs Gen.Consts.
Open Scope N_scope.

(* ---- Part A: identities, associated data, keys -------------------------------- *)
Inductive kind := Cursor | Call | Sticky.
Definition kind_eqb (a b : kind) : bool :=
  match a, b with Cursor, Cursor | Call, Call | Sticky, Sticky => true | _, _ => false end.

(* what the token code distinguishes about a caller *)
Inductive ident := Anon | Auth (d p : bytes).
Definition ident_eqb (a b : ident) : bool :=
  match a, b with
  | Anon, Anon => true
  | Auth d p, Auth d' p' => beqb d d' && beqb p p'
  | _, _ => false
  end.

(* the *AuthContext a request carries: nil, or a struct with the Authenticated flag *)
Inductive raw_ident := RNil | RCtx (authenticated : bool) (d p : bytes).
Definition norm (r : raw_ident) : ident :=
  match r with
  | RNil => Anon
  | RCtx false _ _ => Anon
  | RCtx true d p => Auth d p
  end.

Definition nul_free (s : bytes) : bool := forallb (fun c => negb (c =? 0)) s.
(* the property's quantifier: auth domains are operator-chosen scheme names, no NUL *)
Definition valid_ident (i : ident) : bool :=
  match i with Anon => true | Auth d _ => nul_free d end.

Definition prefix_of (k : kind) : bytes :=
  match k with Cursor => aad_prefix_cursor | Call => aad_prefix_call | Sticky => aad_prefix_sticky end.
(* tokenAad's tail *)
Definition ident_bytes (i : ident) : bytes :=
  match i with
  | Anon => aad_anon_tail
  | Auth d p => aad_auth_tag ++ d ++ aad_sep ++ p
  end.
Definition token_aad (k : kind) (i : ident) : bytes := prefix_of k ++ ident_bytes i.

(* sticky tokens are sealed under stateTokenAad, the cursor's function: the AAD separates
   {Cursor, Sticky} from {Call} only *)
Definition aad_family (k : kind) : kind := match k with Sticky => Cursor | _ => k end.

Definition version_of (k : kind) : N :=
  Z.to_N match k with Cursor => tokver_cursor | Call => tokver_call | Sticky => tokver_sticky end.

(* callStateIdentity and the cache key built in callStateCache.get/put *)
Definition cache_ident (i : ident) : bytes :=
  match i with Anon => ck_anon | Auth d p => d ++ ck_sep ++ p end.
Definition cache_key (callid : bytes) (i : ident) : bytes := callid ++ ck_join ++ cache_ident i.
(* principalKeyFromAuth *)
Definition principal_key (i : ident) : bytes :=
  match i with Anon => pk_anon | Auth d p => d ++ pk_sep ++ p end.

(* a cache described by (call id, identity that stored the entry) pairs *)
Definition keys (es : list (bytes * ident)) : list bytes :=
  map (fun e => cache_key (fst e) (snd e)) es.
Definition is_some {A} (o : option A) : bool := match o with Some _ => true | None => false end.

Definition has_key (k : bytes) (cache : list bytes) : bool := existsb (beqb k) cache.

(* a sealed plaintext: which grammar it has (gob cursorTokenData / gob callTokenData /
   the fixed sticky layout) and the id it carries (call id, resp. session id) *)
Record payload := { pl_kind : kind; pl_id : bytes }.

(* ---- histories ---------------------------------------------------------- *)
Inductive tokref :=
| TNone                                  (* slot left empty *)
| TTok (id : nat) (reenv : bool)         (* id-th token minted by OInit/OOpen; re-enveloped for the slot? *)
| TLast (reenv : bool).                  (* the cursor returned by the latest accepted continuation *)

Inductive op :=
| OInit (who : nat)                          (* /init: mints cursor (id k) and call token (id k+1) *)
| OOpen (who : nat)                          (* OpenSession: mints a sticky token *)
| OReset                                           (* the call-state cache is dropped (restart, other node) *)
| OContinue (who : nat) (cur call : tokref)  (* /exchange *)
| OResolveRaw (who : nat) (callidx : nat) (call : tokref)  (* resolveCall alone (component level) *)
| OResume (who : nat) (tok : tokref)         (* a request carrying VGI-Session *)
| OTeardown (who : nat) (tok : tokref).      (* DELETE {prefix}/__session__ carrying VGI-Session *)


(* ---- Part B: tokens, slots, decisions — parametric in the AEAD ---------------- *)
Section AEAD.
  Variable CT : Type.                                   (* nonce ++ ciphertext ++ tag *)
  Variable seal : N -> bytes -> payload -> CT.           (* nonce, aad, plaintext *)
  Variable open : bytes -> CT -> option payload.         (* aad, ciphertext *)

  (* wire form: version byte (NOT authenticated) and the sealed part *)
  Record token := { t_ver : N; t_ct : CT }.

  Definition mint (k : kind) (i : ident) (n : N) (id : bytes) : token :=
    {| t_ver := version_of k;
       t_ct := seal n (token_aad k i) {| pl_kind := k; pl_id := id |} |}.

  (* what a holder can do without the key: rewrite the envelope for another slot *)
  Definition reenvelope (slot : kind) (t : token) : token :=
    {| t_ver := version_of slot; t_ct := t_ct t |}.

  (* how a token is presented at a slot: as minted, or re-enveloped for that slot *)
  Definition env (re : bool) (slot : kind) (t : token) : token :=
    if re then reenvelope slot t else t.

  (* envelope + AEAD layer only: version byte, then Open under the presenter's AAD *)
  Definition aead_open (slot : kind) (j : ident) (t : token) : option payload :=
    if t_ver t =? version_of slot then open (token_aad slot j) (t_ct t) else None.

  (* full opener of a slot: ... then the plaintext must parse in the slot's grammar *)
  Definition open_slot (slot : kind) (j : ident) (t : token) : option bytes :=
    match aead_open slot j t with
    | Some pl => if kind_eqb (pl_kind pl) slot then Some (pl_id pl) else None
    | None => None
    end.

  (* resolveCall: Some put? = accepted (put? = the miss path stored the entry) *)
  Definition resolve_dec (cache : list bytes) (j : ident) (c : bytes) (tk : option token) : option bool :=
    if has_key (cache_key c j) cache then Some false
    else match tk with
         | None => None
         | Some t => match open_slot Call j t with
                     | Some c' => if beqb c' c then Some true else None
                     | None => None
                     end
         end.

  (* handleStreamExchange's token part: cursor FIRST, then resolveCall *)
  Definition continue_dec (cache : list bytes) (j : ident) (tc : token) (tk : option token)
    : option (bytes * bool) :=
    match open_slot Cursor j tc with
    | None => None
    | Some c => match resolve_dec cache j c tk with
                | Some put => Some (c, put)
                | None => None
                end
    end.

  (* installStickyOnRequestNoCtx: open, then registry.get(sid, principalKey) *)
  Definition resume_dec (reg : list (bytes * bytes)) (j : ident) (t : token) : bool :=
    match open_slot Sticky j t with
    | None => false
    | Some s => existsb (fun e => beqb (fst e) s && beqb (snd e) (principal_key j)) reg
    end.

  (* handleStickyDelete: the token is opened under the presenter's identity and looked
     up exactly as on a resume; Some sid = that session is torn down (204) *)
  Definition teardown_dec (reg : list (bytes * bytes)) (j : ident) (t : token) : option bytes :=
    match open_slot Sticky j t with
    | None => None
    | Some s => if existsb (fun e => beqb (fst e) s && beqb (snd e) (principal_key j)) reg
                then Some s else None
    end.

  (* the routes on which a sticky-session token is presented *)
  Inductive sroute := RResume | RTeardown.
  Definition sticky_accepts (r : sroute) (reg : list (bytes * bytes)) (j : ident) (t : token) : bool :=
    match r with
    | RResume => resume_dec reg j t
    | RTeardown => is_some (teardown_dec reg j t)
    end.

  Record st := {
    s_toks : list token; s_ncalls : nat; s_nsess : nat; s_nonce : N;
    s_cache : list bytes; s_reg : list (bytes * bytes); s_last : option token }.

  Definition st0 : st :=
    {| s_toks := []; s_ncalls := 0; s_nsess := 0; s_nonce := 0; s_cache := []; s_reg := []; s_last := None |}.

  (* fresh ids: the n-th call id / session id; NUL-free and pairwise distinct *)
  Definition callid (n : nat) : bytes := [N.of_nat n + 1].
  Definition sessid (n : nat) : bytes := [N.of_nat n + 1].

  Definition deref (s : st) (slot : kind) (r : tokref) : option token :=
    match r with
    | TNone => None
    | TTok id re => match nth_error (s_toks s) id with
                    | Some t => Some (if re then reenvelope slot t else t)
                    | None => None
                    end
    | TLast re => match s_last s with
                  | Some t => Some (if re then reenvelope slot t else t)
                  | None => None
                  end
    end.

  (* the identities of a history; an op names its caller by index *)
  Variable ids : list raw_ident.
  Definition idof (w : nat) : ident := norm (nth w ids RNil).

  Definition put (k : bytes) (cache : list bytes) : list bytes :=
    if has_key k cache then cache else k :: cache.

  Definition step (s : st) (o : op) : st * bool :=
    match o with
    | OInit who =>
        let i := idof who in let c := callid (s_ncalls s) in
        ({| s_toks := s_toks s ++ [mint Cursor i (s_nonce s) c; mint Call i (s_nonce s + 1) c];
            s_ncalls := S (s_ncalls s); s_nsess := s_nsess s; s_nonce := s_nonce s + 2;
            s_cache := put (cache_key c i) (s_cache s); s_reg := s_reg s; s_last := s_last s |}, true)
    | OOpen who =>
        let i := idof who in let sid := sessid (s_nsess s) in
        ({| s_toks := s_toks s ++ [mint Sticky i (s_nonce s) sid];
            s_ncalls := s_ncalls s; s_nsess := S (s_nsess s); s_nonce := s_nonce s + 1;
            s_cache := s_cache s; s_reg := (sid, principal_key i) :: s_reg s; s_last := s_last s |}, true)
    | OReset =>
        ({| s_toks := s_toks s; s_ncalls := s_ncalls s; s_nsess := s_nsess s; s_nonce := s_nonce s;
            s_cache := []; s_reg := s_reg s; s_last := s_last s |}, true)
    | OContinue who cur call =>
        let j := idof who in
        match deref s Cursor cur with
        | None => (s, false)
        | Some tc =>
            match continue_dec (s_cache s) j tc (deref s Call call) with
            | None => (s, false)
            | Some (c, p) =>
                ({| s_toks := s_toks s; s_ncalls := s_ncalls s; s_nsess := s_nsess s; s_nonce := s_nonce s + 1;
                    s_cache := if p then put (cache_key c j) (s_cache s) else s_cache s;
                    s_reg := s_reg s; s_last := Some (mint Cursor j (s_nonce s) c) |}, true)
            end
        end
    | OResolveRaw who idx call =>
        let j := idof who in let c := callid idx in
        match resolve_dec (s_cache s) j c (deref s Call call) with
        | None => (s, false)
        | Some p =>
            ({| s_toks := s_toks s; s_ncalls := s_ncalls s; s_nsess := s_nsess s; s_nonce := s_nonce s;
                s_cache := if p then put (cache_key c j) (s_cache s) else s_cache s;
                s_reg := s_reg s; s_last := s_last s |}, true)
        end
    | OResume who tok =>
        match deref s Sticky tok with
        | None => (s, false)
        | Some t => (s, resume_dec (s_reg s) (idof who) t)
        end
    | OTeardown who tok =>
        match deref s Sticky tok with
        | None => (s, false)
        | Some t =>
            match teardown_dec (s_reg s) (idof who) t with
            | None => (s, false)
            | Some sid =>
                (* sessionRegistry.close(sid) *)
                ({| s_toks := s_toks s; s_ncalls := s_ncalls s; s_nsess := s_nsess s; s_nonce := s_nonce s;
                    s_cache := s_cache s;
                    s_reg := filter (fun e => negb (beqb (fst e) sid)) (s_reg s);
                    s_last := s_last s |}, true)
            end
        end
    end.

  Fixpoint run (s : st) (ops : list op) : list bool :=
    match ops with
    | [] => []
    | o :: r => let '(s', b) := step s o in b :: run s' r
    end.

  (* the state a history leads to, and who performed its successive /init's
     (the owner of the n-th call id) *)
  Fixpoint exec (s : st) (ops : list op) : st :=
    match ops with
    | [] => s
    | o :: r => exec (fst (step s o)) r
    end.
  Fixpoint owners (ops : list op) : list ident :=
    match ops with
    | [] => []
    | OInit w :: r => idof w :: owners r
    | _ :: r => owners r
    end.
End AEAD.

Arguments t_ver {CT}. Arguments t_ct {CT}.

(* ---- the symbolic ideal AEAD: a ciphertext IS (nonce, aad, plaintext) ----------- *)
Definition sym_ct : Type := N * bytes * payload.
Definition sym_seal (n : N) (a : bytes) (p : payload) : sym_ct := (n, a, p).
Definition sym_open (a : bytes) (c : sym_ct) : option payload :=
  let '(_, a', p) := c in if beqb a a' then Some p else None.

(* ---- correspondence interface ---------------------------------------------- *)
Record input := { i_ids : list raw_ident; i_ops : list op }.
Definition obs := list bool.

Definition model (i : input) : obs := run sym_ct sym_seal sym_open (i_ids i) (st0 sym_ct) (i_ops i).
Definition obs_eqb (a b : obs) : bool := list_eqb Bool.eqb a b.

(* ---- the property, decided on the implementation's outputs ------------------- *)
(* provenance of a token, read off the INPUT history only: kind, minting identity, id *)
Definition prov : Type := kind * ident * bytes.

Definition pderef (ptoks : list prov) (plast : option prov) (r : tokref) : option prov :=
  match r with
  | TNone => None
  | TTok id _ => nth_error ptoks id
  | TLast _ => plast
  end.

Definition both_valid (i j : ident) : bool := valid_ident i && valid_ident j.

(* accepted ==> the presented token has kind [slot] and was minted for the presenter *)
Definition safe (slot : kind) (j : ident) (p : option prov) (b : bool) : bool :=
  if b then
    match p with
    | Some (k, i, _) => if both_valid i j then kind_eqb k slot && ident_eqb i j else true
    | None => false
    end
  else true.

(* a sticky-session token presented by [j] on ANY route (resume or teardown):
   accepted ==> minted as a session token for [j]; a session already torn down is lost;
   the live session of [j] itself is accepted — whatever happened before *)
Definition sticky_spec (j : ident) (p : option prov) (dead : list bytes) (b : bool) : bool :=
  safe Sticky j p b
  && match p with
     | Some (Sticky, i, sid) =>
         if has_key sid dead then negb b
         else if ident_eqb i j then b else true
     | _ => true
     end.

Fixpoint spec_run (ids : list raw_ident) (ops : list op) (o : obs) (ptoks : list prov) (ncalls nsess : nat)
         (plast : option prov) (dead : list bytes) : bool :=
  match ops, o with
  | [], [] => true
  | OInit who :: r, b :: o' =>
      let i := idof ids who in let c := callid ncalls in
      b && spec_run ids r o' (ptoks ++ [(Cursor, i, c); (Call, i, c)]) (S ncalls) nsess plast dead
  | OOpen who :: r, b :: o' =>
      b && spec_run ids r o' (ptoks ++ [(Sticky, idof ids who, sessid nsess)]) ncalls (S nsess) plast dead
  | OReset :: r, b :: o' => b && spec_run ids r o' ptoks ncalls nsess plast dead
  | OContinue who cur call :: r, b :: o' =>
      let j := idof ids who in
      let pc := pderef ptoks plast cur in
      let pk := pderef ptoks plast call in
      (* never for another identity, never another kind — whatever happened before *)
      safe Cursor j pc b
      (* own cursor + its own call token echoed: accepted — whatever happened before *)
      && match pc, pk with
         | Some (Cursor, i, c), Some (Call, i', c') =>
             if ident_eqb i j && ident_eqb i' j && beqb c c' then b else true
         | _, _ => true
         end
      && spec_run ids r o' ptoks ncalls nsess
           (if b then match pc with Some (_, _, c) => Some (Cursor, j, c) | None => plast end else plast) dead
  | OResolveRaw _ _ _ :: r, _ :: o' => spec_run ids r o' ptoks ncalls nsess plast dead
  | OResume who tok :: r, b :: o' =>
      sticky_spec (idof ids who) (pderef ptoks plast tok) dead b
      && spec_run ids r o' ptoks ncalls nsess plast dead
  | OTeardown who tok :: r, b :: o' =>
      let p := pderef ptoks plast tok in
      sticky_spec (idof ids who) p dead b
      && spec_run ids r o' ptoks ncalls nsess plast
           (if b then match p with Some (_, _, sid) => sid :: dead | None => dead end else dead)
  | _, _ => false
  end.

Definition spec_ok (i : input) (o : obs) : bool := spec_run (i_ids i) (i_ops i) o [] 0 0 None [].
