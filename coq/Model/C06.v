(* Model/C06.v — one stream call on a pipe: the lockstep loop of
   vgirpc/server_stream.go serveStream, the per-turn OutputCollector of
   vgirpc/stream.go (one-data-batch rule, Finish only for producers, validate),
   and server_serve.go writeStreamHeader (header = its own IPC stream, carrying
   the init logs). User code is a script (harness rpcutil.go ScriptState): per
   turn the logs it emits through OutputCollector.ClientLog and what it then
   does; the client is a list of input batches. *)
From VR Require Export Lib.Frames Gen.Consts.
From VR Require Model.C04.
Open Scope N_scope.

Notation logmsg := C04.logmsg.
Notation failure := C04.failure.

Inductive mode := Producer | Exchange.

(* what scripted user code does in one Produce/Exchange call, after its logs *)
Inductive act :=
| AEmit                 (* out.Emit once *)
| AEmitTwice            (* out.Emit twice; the error of the second is returned *)
| ANoEmit               (* return nil without emitting *)
| AFinish               (* return out.Finish() *)
| AEmitFinish           (* out.Emit, then return out.Finish() *)
| AFinishIgnored        (* out.Finish() with its error dropped, then return nil *)
| AEmitFinishIgnored    (* out.Emit, out.Finish() with its error dropped, return nil *)
| AFail (f : failure).  (* return an error / panic *)

Record turn := { t_logs : list logmsg; t_act : act; t_value : Z; t_meta : kvlist }.

(* the scripted state once its turns are used up: a producer finishes, an exchange echoes *)
Definition default_turn (m : mode) : turn :=
  {| t_logs := []; t_act := match m with Producer => AFinish | Exchange => AEmit end; t_value := 0%Z; t_meta := [] |}.

(* one batch of the client's input stream *)
Inductive item := Tick | Data (vals : list Z) | Cancel.

(* schema of the client's input stream relative to the declared input {x:int64} *)
Inductive in_schema := SExact | SInt32 | SNullable | SBadName | SExtraCol | SEmpty.

(* the input schema the call's own init handler declared: a registered exchange always
   {x:int64}; a DYNAMIC method (DynamicStreamWithHeader) declares it per call on its StreamResult *)
Inductive decl := DeclX | DeclY | DeclXZ.      (* {x:int64} | {y:int64} | {x:int64,z:int64} *)

Record call_input := Build_input {
  i_mode : mode;
  i_declares_header : bool;          (* method registered WithHeader *)
  i_x : Z;
  i_reqid : bytes; i_loglevel : bytes;
  i_init_logs : list logmsg; i_init_fail : option failure;
  i_header : option Z;               (* StreamResult.Header *)
  i_canceller : bool;                (* state implements StreamCanceller *)
  i_turns : list turn;
  i_schema : in_schema;
  i_items : list item;
  i_dynamic : bool;                  (* method registered with DynamicStreamWithHeader: no registered
                                        input/output schema, mode decided by the state's interface *)
  i_declared : decl }.

(* calls observed by the scripted user code, in order *)
Inductive call :=
| CInit (x : Z) | CProduce (k : nat) | CExchange (k : nat) (insum : Z) | CCancel (k : nat)
| CUnary (x : Z) | COther.

Record call_obs := Build_obs {
  o_broken : bool;                   (* a panic escaped Serve, or a response stream does not parse *)
  o_streams : list stream;
  o_trace : list call }.

(* ---- errors ------------------------------------------------------------- *)
Definition exc := (bytes * bytes)%type.        (* exception_type, message *)

(* a turn's panic is wrapped as RpcError{RuntimeError, Sprint(v)} WITHOUT the
   init handler's panic prefix (server_stream.go, Dispatch to state) *)
Definition turn_exc (f : failure) : exc :=
  (C04.exc_type f,
   match f with
   | C04.EPanic s => C04.rpc_error_text exc_runtime_error s
   | _ => C04.exc_msg f
   end).

Definition exc_frame (rid : bytes) (e : exc) : frame := FExc (fst e) (snd e) rid [].

Definition e_no_data : exc := (c06_no_data_type, c06_no_data_msg).
Definition e_emit_twice : exc := (c06_emit_twice_type, c06_emit_twice_msg).
Definition e_finish_exchange : exc := (c06_finish_exchange_type, c06_finish_exchange_msg).

(* castRecordBatch of a non-cancel input against the schema THIS call declared; only exchange casts *)
Definition e_cast_badname : exc := (c06_cast_badname_type, c06_cast_badname_msg).
Definition e_cast_extracol : exc := (c06_cast_extracol_type, c06_cast_extracol_msg).
Definition e_cast_empty : exc := (c06_cast_empty_type, c06_cast_empty_msg).
Definition cast_error (m : mode) (d : decl) (s : in_schema) : option exc :=
  match m with
  | Producer => None
  | Exchange =>
      match d, s with
      | DeclX, (SExact | SInt32 | SNullable) => None
      | DeclX, SBadName => Some e_cast_badname
      | DeclX, SExtraCol => Some e_cast_extracol
      | DeclX, SEmpty => Some e_cast_empty
      | DeclY, SBadName => None
      | DeclY, (SExact | SInt32 | SNullable) => Some (c06_cast_y_gotx_type, c06_cast_y_gotx_msg)
      | DeclY, SExtraCol => Some e_cast_extracol
      | DeclY, SEmpty => Some e_cast_empty
      | DeclXZ, SExtraCol => None
      | DeclXZ, (SExact | SInt32 | SNullable | SBadName) => Some (c06_cast_xz_got1_type, c06_cast_xz_got1_msg)
      | DeclXZ, SEmpty => Some (c06_cast_xz_got0_type, c06_cast_xz_got0_msg)
      end
  end.

(* ---- one turn ----------------------------------------------------------- *)
Inductive tres :=
| TFail (e : exc)            (* error / panic / contract violation: nothing of the turn is flushed *)
| TCont (fs : list frame)    (* flushed, loop continues *)
| TStop (fs : list frame).   (* flushed, Finished(): loop ends *)

(* OutputCollector.ClientLog: no level filter, no request id *)
Definition turn_logs (t : turn) : list frame := map (C04.log_frame []) (t_logs t).
Definition data_frame (t : turn) (s : Z) : frame := FData 1 [(t_value t + s)%Z] (kv_sort (t_meta t)).

Definition run_turn (m : mode) (t : turn) (s : Z) : tres :=
  match t_act t with
  | AEmit => TCont (turn_logs t ++ [data_frame t s])
  | AEmitTwice => TFail e_emit_twice
  | ANoEmit => TFail e_no_data
  | AFinish => match m with Producer => TStop (turn_logs t) | Exchange => TFail e_finish_exchange end
  | AEmitFinish => match m with Producer => TStop (turn_logs t ++ [data_frame t s]) | Exchange => TFail e_finish_exchange end
  (* a refused Finish leaves the collector untouched: the exchange turn is judged as if Finish had not been called *)
  | AFinishIgnored => match m with Producer => TStop (turn_logs t) | Exchange => TFail e_no_data end
  | AEmitFinishIgnored => match m with Producer => TStop (turn_logs t ++ [data_frame t s]) | Exchange => TCont (turn_logs t ++ [data_frame t s]) end
  | AFail f => TFail (turn_exc f)
  end.

Definition is_cancel (it : item) : bool := match it with Cancel => true | _ => false end.
Definition zsum (l : list Z) : Z := fold_right Z.add 0%Z l.
(* what the scripted state reads from its input: the column sum (exchange only) *)
Definition insum (m : mode) (it : item) : Z :=
  match m, it with Exchange, Data vs => zsum vs | _, _ => 0%Z end.
Definition mkcall (m : mode) (k : nat) (s : Z) : call :=
  match m with Producer => CProduce k | Exchange => CExchange k s end.

(* ---- the lockstep loop -------------------------------------------------- *)
Section Loop.
  Variable m : mode.
  Variable rid : bytes.
  Variable cast : option exc.
  Variable canc : bool.

  (* sc = the script from the state's position on, k = that position *)
  Fixpoint loop (sc : list turn) (k : nat) (ins : list item) : list frame * list call :=
    match ins with
    | [] => ([], [])                                           (* client closed its stream *)
    | it :: rest =>
        if is_cancel it then ([], if canc then [CCancel k] else [])   (* hook once, break *)
        else match cast with
        | Some e => ([exc_frame rid e], [])                    (* cast error batch, break *)
        | None =>
            let s := insum m it in
            match run_turn m (hd (default_turn m) sc) s with
            | TFail e => ([exc_frame rid e], [mkcall m k s])
            | TStop fs => (fs, [mkcall m k s])
            | TCont fs => let r := loop (tl sc) (S k) rest in (fs ++ fst r, mkcall m k s :: snd r)
            end
        end
    end.
End Loop.

(* ---- the whole call ----------------------------------------------------- *)
Definition out_schema : bytes := Eval compute in str "v:int64".
Definition hdr_schema : bytes := Eval compute in str "h:int64".
Definition sentinel_x : Z := 7%Z.
Definition sentinel_stream : stream := {| st_schema := schema_result_int64; st_frames := [FData 1 [sentinel_x] []] |}.

(* CallContext.ClientLog filters by the requested level *)
Definition init_frames (rid lvl : bytes) (logs : list logmsg) : list frame :=
  map (C04.log_frame rid) (filter (C04.admitted lvl) logs).

Definition header_of (i : call_input) : option Z := if i_declares_header i then i_header i else None.

Definition run_loop (i : call_input) : list frame * list call :=
  loop (i_mode i) (i_reqid i) (cast_error (i_mode i) (i_declared i) (i_schema i)) (i_canceller i) (i_turns i) 0 (i_items i).

(* an init failure is written with the REGISTERED output schema: none for a dynamic method *)
Definition err_schema (i : call_input) : bytes := if i_dynamic i then [] else out_schema.

Definition call_streams (i : call_input) : list stream :=
  match i_init_fail i with
  | Some f => [ {| st_schema := err_schema i; st_frames := [FExc (C04.exc_type f) (C04.exc_msg f) (i_reqid i) []] |} ]
  | None =>
      match header_of i with
      | Some h =>
          [ {| st_schema := hdr_schema;
               st_frames := init_frames [] (i_loglevel i) (i_init_logs i) ++ [FData 1 [h] []] |};
            {| st_schema := out_schema; st_frames := fst (run_loop i) |} ]
      | None =>
          [ {| st_schema := out_schema;
               st_frames := init_frames (i_reqid i) (i_loglevel i) (i_init_logs i) ++ fst (run_loop i) |} ]
      end
  end.

Definition call_trace (i : call_input) : list call :=
  CInit (i_x i) :: match i_init_fail i with Some _ => [] | None => snd (run_loop i) end.

Definition model_call (i : call_input) : call_obs :=
  {| o_broken := false;
     o_streams := call_streams i ++ [sentinel_stream];
     o_trace := call_trace i ++ [CUnary sentinel_x] |}.

Definition call_eqb (a b : call) : bool :=
  match a, b with
  | CInit x, CInit y => Z.eqb x y
  | CProduce k, CProduce k' => Nat.eqb k k'
  | CExchange k s, CExchange k' s' => Nat.eqb k k' && Z.eqb s s'
  | CCancel k, CCancel k' => Nat.eqb k k'
  | CUnary x, CUnary y => Z.eqb x y
  | COther, COther => true
  | _, _ => false
  end.

Definition obs_call_eqb (a b : call_obs) : bool :=
  Bool.eqb (o_broken a) (o_broken b)
  && list_eqb stream_eqb (o_streams a) (o_streams b)
  && list_eqb call_eqb (o_trace a) (o_trace b).

(* ==== the contract, in decidable form, on one observation ================= *)
(* Stated per turn, without the loop: [plan] says what each turn WOULD do on
   the inputs before the first cancel; how many of them the implementation
   actually ran is read off its call trace. *)
Fixpoint live (ins : list item) : list item :=
  match ins with
  | [] => []
  | it :: r => if is_cancel it then [] else it :: live r
  end.

Fixpoint plan (m : mode) (sc : list turn) (k : nat) (lv : list item) : list (call * tres) :=
  match lv with
  | [] => []
  | it :: r => (mkcall m k (insum m it), run_turn m (hd (default_turn m) sc) (insum m it)) :: plan m (tl sc) (S k) r
  end.

Definition is_cont (p : call * tres) : bool := match snd p with TCont _ => true | _ => false end.
Definition tres_frames (r : tres) : list frame :=
  match r with TCont fs | TStop fs => fs | TFail _ => [] end.
Definition res_frames (p : call * tres) : list frame := tres_frames (snd p).
Definition res_exc (rid : bytes) (p : option (call * tres)) : list frame :=
  match p with Some (_, TFail e) => [exc_frame rid e] | _ => [] end.
Fixpoint last_opt {A} (l : list A) : option A :=
  match l with [] => None | x :: r => match r with [] => Some x | _ => last_opt r end end.

Definition is_turn_call (c : call) : bool := match c with CProduce _ | CExchange _ _ => true | _ => false end.
Definition is_cancel_call (c : call) : bool := match c with CCancel _ => true | _ => false end.

Definition frames_eqb := list_eqb frame_eqb.
Definition calls_eqb := list_eqb call_eqb.

(* no exception batch anywhere but in last position *)
Definition exc_only_last (fs : list frame) : bool := Nat.eqb (count is_exc (removelast fs)) 0.

Definition body_ok (i : call_input) (body : list frame) (calls : list call) : bool :=
  let m := i_mode i in
  let rid := i_reqid i in
  let lv := live (i_items i) in
  let P := plan m (i_turns i) 0 lv in
  let tc := filter is_turn_call calls in
  let n := length tc in
  let run := firstn n P in
  let cancelled := negb (Nat.eqb (length lv) (length (i_items i))) in
  (* the number of turns run never exceeds the number of inputs; at most one exception, in last position *)
  Nat.leb n (length (i_items i))
  && Nat.leb (count is_exc body) 1 && exc_only_last body
  && Nat.leb (count is_data body) n
  && match cast_error m (i_declared i) (i_schema i), lv with
     | Some e, _ :: _ =>
         (* uncastable input: exactly the cast exception, no turn, no hook *)
         frames_eqb body [exc_frame rid e] && calls_eqb calls []
     | _, _ =>
         (* the turns run are the first n planned ones, in input order, each with its own input *)
         calls_eqb tc (map fst run)
         (* every turn before the last one run completed and did not finish *)
         && forallb is_cont (removelast run)
         (* the loop only stops at the end of the live input or because the last turn failed / finished *)
         && (Nat.eqb n (length P) || negb (forallb is_cont run))
         (* flushed batches: each completed turn's batches in emission order, in turn order;
            a failing turn contributes exactly one exception batch, which ends the stream *)
         && frames_eqb body (concat (map res_frames run) ++ res_exc rid (last_opt run))
         (* cancel hook: exactly once, after all turns, iff the loop reached the cancel batch and the state has the hook *)
         && calls_eqb calls
              (tc ++ if cancelled && i_canceller i && forallb is_cont run && Nat.eqb n (length P)
                     then [CCancel n] else [])
     end
  (* exchange, nothing failed, not cancelled: exactly one data batch per input *)
  && (match m with
      | Exchange => negb (Nat.eqb (count is_exc body) 0) || cancelled || Nat.eqb (count is_data body) (length (i_items i))
      | Producer => true
      end).

Definition strip_prefix (p l : list frame) : option (list frame) :=
  if frames_eqb (firstn (length p) l) p then Some (skipn (length p) l) else None.

Definition spec_call_ok (i : call_input) (o : call_obs) : bool :=
  negb (o_broken o)
  && match o_trace o with
     | CInit x :: rest =>
         Z.eqb x (i_x i)
         && match last_opt rest with Some (CUnary y) => Z.eqb y sentinel_x | _ => false end
         && let calls := removelast rest in
            match i_init_fail i, header_of i, o_streams o with
            | Some f, _, [s; z] =>
                (* init failed: one exception in the output stream, no turn at all *)
                stream_eqb z sentinel_stream && beqb (st_schema s) (err_schema i)
                && match st_frames s with [FExc t _ r _] => beqb t (C04.exc_type f) && beqb r (i_reqid i) | _ => false end
                && calls_eqb calls []
            | None, Some h, [hs; s; z] =>
                (* the header is its own stream, first, with the init logs inside and exactly one data batch: the header *)
                stream_eqb z sentinel_stream
                && beqb (st_schema hs) hdr_schema
                && frames_eqb (st_frames hs) (init_frames [] (i_loglevel i) (i_init_logs i) ++ [FData 1 [h] []])
                && beqb (st_schema s) out_schema
                && body_ok i (st_frames s) calls
            | None, None, [s; z] =>
                stream_eqb z sentinel_stream
                && beqb (st_schema s) out_schema
                && match strip_prefix (init_frames (i_reqid i) (i_loglevel i) (i_init_logs i)) (st_frames s) with
                   | Some body => body_ok i body calls
                   | None => false
                   end
            | _, _, _ => false
            end
     | _ => false
     end.

(* ==== a history: several stream calls on ONE server / one pipe ============== *)
(* Each call is followed by its sentinel; the harness cuts the response bytes and
   the call trace after every sentinel.  Nothing a call did (its mode, the input
   schema its init handler declared, its script) may influence a later call:
   the model of a history is the per-call model mapped over it, and the contract
   is the per-call contract on every call's own observables. *)
Definition input := list call_input.
Definition obs := list call_obs.
Definition model (h : input) : obs := map model_call h.
Definition obs_eqb (a b : obs) : bool := list_eqb obs_call_eqb a b.
Fixpoint spec_ok (h : input) (os : obs) : bool :=
  match h, os with
  | [], [] => true
  | i :: h', o :: os' => spec_call_ok i o && spec_ok h' os'
  | _, _ => false
  end.
