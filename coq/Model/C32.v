(* Model/C32.v — parallel range fetch (vgirpc/external.go FetchWithParallelRangeRequests,
   fetchChunk, maybeHedge, fetchSimple).

   The resource is a byte list; the chunk plan is the list of its consecutive
   pieces of the effective chunk size.  The ENVIRONMENT is an adversary:
   [ans] gives, for every attempt (chunk index, ordinal: false = first request for
   that chunk, true = the speculative duplicate), an arbitrary answer (transport /
   body failure, or any status, any framing, any body), and a schedule is the list of
   attempts in the order in which their results reach the result channel.  The
   time-based part of the hedge decision (len(completionTimes) >= 2 and
   now - taskStart[i] > median * multiplier) is the uninterpreted oracle [slow];
   everything else of maybeHedge (enabled flag, cap, already done, already
   hedged, index order) is modelled.  The semaphore only restricts which in-flight
   attempt can complete next, so every semaphore-feasible schedule is a schedule.

   [run] is the repaired receive loop.  [run_legacy]/[accept_legacy] are the loop and
   the chunk admission test as they were before the repair (kept for the two
   refutation witnesses). *)
From VR Require Export Lib.Bytes.
From VR Require Import Gen.Consts.
Open Scope nat_scope.

(* ---- chunk plan -------------------------------------------------------- *)
Fixpoint chunks_aux (fuel cs : nat) (l : bytes) : list bytes :=
  match fuel with
  | O => []
  | S f => match l with
           | [] => []
           | _ :: _ => firstn cs l :: chunks_aux f cs (skipn cs l)
           end
  end.
Definition chunks (cs : nat) (l : bytes) : list bytes := chunks_aux (length l) cs l.

(* ---- answers ----------------------------------------------------------- *)
Definition attempt := (nat * bool)%type.
Definition att_eqb (a b : attempt) : bool := Nat.eqb (fst a) (fst b) && Bool.eqb (snd a) (snd b).

(* How the end of a response body is signalled on the wire: a declared
   Content-Length, chunked transfer encoding (a handler that flushes before it
   writes, or writes more than net/http's 2 KiB buffer), the connection closing
   (HTTP/1.0 style), or whatever net/http picks for an unflushed handler write.
   The client sees resp.ContentLength = the length in the first case and -1 in
   the others; a body that simply ENDS early is a clean EOF there, not an error. *)
Inductive framing := Declared | Chunked | CloseDelim | Auto.

(* [Fail]: client.Do failed or reading the body failed.  [Resp st fr b]: the
   status, the framing, and the bytes io.ReadAll would deliver with a clean EOF. *)
Inductive answer := Fail | Resp (status : N) (fr : framing) (body : bytes).

(* fetchChunk after the repair: 206 and exactly the requested number of bytes *)
Definition accept (want : nat) (a : answer) : option bytes :=
  match a with
  | Fail => None
  | Resp st _ b => if (st =? 206)%N && (length b =? want) then Some b else None
  end.
(* before the repair: 206 or 200, any body *)
Definition accept_legacy (a : answer) : option bytes :=
  match a with
  | Fail => None
  | Resp st _ b => if (st =? 206)%N || (st =? 200)%N then Some b else None
  end.

(* ---- loop state -------------------------------------------------------- *)
Record st := {
  results : list (option bytes);   (* results[i]; None = nil *)
  remaining : nat;                 (* chunksRemaining *)
  expected : nat;                  (* the code's count of launched, not yet received attempts *)
  inflight : list attempt;         (* the attempts that really will still send a result *)
  hedged : list nat;               (* keys of hedgedChunks *)
  ncomp : nat;                     (* accepted results received so far (lower bound of len(completionTimes)) *)
  first_err : bool }.

Definition is_some {A} (o : option A) : bool := match o with Some _ => true | None => false end.
Definition is_done (s : st) (i : nat) : bool := is_some (nth i (results s) None).
Definition memb (i : nat) (l : list nat) : bool := existsb (Nat.eqb i) l.
Definition in_flight (a : attempt) (l : list attempt) : bool := existsb (att_eqb a) l.

Fixpoint remove1 (a : attempt) (l : list attempt) : list attempt :=
  match l with
  | [] => []
  | x :: t => if att_eqb a x then t else x :: remove1 a t
  end.

Fixpoint set_nth {A} (i : nat) (v : A) (l : list A) : list A :=
  match l, i with
  | [], _ => []
  | _ :: t, O => v :: t
  | x :: t, S j => x :: set_nth j v t
  end.

(* cr := <-resultCh ; expected-- *)
Definition take_out (s : st) (a : attempt) : st :=
  {| results := results s; remaining := remaining s; expected := pred (expected s);
     inflight := remove1 a (inflight s); hedged := hedged s; ncomp := ncomp s; first_err := first_err s |}.
Definition set_err (s : st) : st :=
  {| results := results s; remaining := remaining s; expected := expected s;
     inflight := inflight s; hedged := hedged s; ncomp := ncomp s; first_err := true |}.
Definition bump (s : st) : st :=
  {| results := results s; remaining := remaining s; expected := expected s;
     inflight := inflight s; hedged := hedged s; ncomp := S (ncomp s); first_err := first_err s |}.
Definition store (s : st) (i : nat) (d : bytes) : st :=
  {| results := set_nth i (Some d) (results s); remaining := pred (remaining s); expected := expected s;
     inflight := inflight s; hedged := hedged s; ncomp := ncomp s; first_err := first_err s |}.
(* hedgedChunks[i] = true ; expected++ ; go fetchChunk(i, true) *)
Definition launch (s : st) (i : nat) : st :=
  {| results := results s; remaining := remaining s; expected := S (expected s);
     inflight := inflight s ++ [(i, true)]; hedged := i :: hedged s; ncomp := ncomp s; first_err := first_err s |}.

(* [Done]: the loop exited.  [Waiting]: the loop is blocked on the channel and
   the schedule given so far has no further event (some attempt is still in
   flight).  [Stuck]: blocked on the channel with NOTHING in flight: it blocks
   forever.  [Desync]: the schedule names an attempt that is not in flight (no
   environment can do that). *)
Inductive outcome := Done (s : st) | Waiting (s : st) | Stuck (s : st) | Desync.


Section Loop.
  Variable plan : list bytes.              (* chunk i of the resource = nth i plan [] *)
  Variable ans : attempt -> answer.        (* the adversary's answers *)
  Variable slow : st -> nat -> bool.       (* oracle: the time-based half of the hedge test *)
  Variable hedging : bool.                 (* SpeculativeRetryMultiplier > 0 *)
  Variable maxh : Z.                       (* MaxSpeculativeHedges *)

  Definition nchunks : nat := length plan.
  Definition want (i : nat) : nat := length (nth i plan []).

  Definition cap_reached (s : st) : bool :=
    (0 <? maxh)%Z && (maxh <=? Z.of_nat (length (hedged s)))%Z.

  (* the for-loop of maybeHedge; [sl] is fixed at entry (threshold and nowT are) *)
  Fixpoint hedge_scan (sl : nat -> bool) (idxs : list nat) (s : st) : st :=
    match idxs with
    | [] => s
    | i :: t =>
        if is_done s i || memb i (hedged s) then hedge_scan sl t s
        else if cap_reached s then s
        else if sl i then hedge_scan sl t (launch s i)
        else hedge_scan sl t s
    end.

  Definition maybe_hedge (s : st) : st :=
    if negb hedging then s
    else if cap_reached s then s
    else hedge_scan (slow s) (seq 0 nchunks) s.

  (* loop body after the receive, error branch *)
  Definition recv_err (s : st) (i : nat) : st := if is_done s i then s else set_err s.
  (* loop body after the receive, data branch *)
  Definition recv_ok (s : st) (i : nat) (d : bytes) : st :=
    let s1 := bump s in
    let s2 := if is_done s1 i then s1 else store s1 i d in
    if 0 <? remaining s2 then maybe_hedge s2 else s2.

  Definition recv (s : st) (a : attempt) : st :=
    match accept (want (fst a)) (ans a) with
    | None => recv_err s (fst a)
    | Some d => recv_ok s (fst a) d
    end.

  Fixpoint run (sched : list attempt) (s : st) : outcome :=
    if negb ((0 <? remaining s) && (0 <? expected s)) then Done s
    else match inflight s with
         | [] => Stuck s
         | _ :: _ =>
             match sched with
             | [] => Waiting s
             | a :: t => if in_flight a (inflight s) then run t (recv (take_out s a) a) else Desync
             end
         end.

  (* the loop before the repair: condition chunksRemaining > 0 only; leaves through
     a break that is tested only right after an error for a chunk that has no data *)
  Definition recv_legacy_ok (s : st) (a : attempt) (d : bytes) : st := recv_ok s (fst a) d.

  Fixpoint run_legacy (sched : list attempt) (s : st) : outcome :=
    if negb (0 <? remaining s) then Done s
    else match inflight s with
         | [] => Stuck s
         | _ :: _ =>
             match sched with
             | [] => Waiting s
             | a :: t =>
                 if in_flight a (inflight s) then
                   let s0 := take_out s a in
                   match accept_legacy (ans a) with
                   | Some d => run_legacy t (recv_legacy_ok s0 a d)
                   | None =>
                       if is_done s0 (fst a) then run_legacy t s0
                       else let s1 := set_err s0 in
                            if (expected s1 =? 0) && (0 <? remaining s1) then Done s1
                            else run_legacy t s1
                   end
                 else Desync
             end
         end.

  Definition init : st :=
    {| results := repeat None nchunks; remaining := nchunks; expected := nchunks;
       inflight := map (fun i => (i, false)) (seq 0 nchunks); hedged := []; ncomp := 0; first_err := false |}.
End Loop.

(* after the loop: any nil chunk is an error, otherwise concatenate *)
Inductive result := RBytes (b : bytes) | RError.
Definition get (o : option bytes) : bytes := match o with Some d => d | None => [] end.
Definition assemble (s : st) : result :=
  if forallb is_some (results s) then RBytes (concat (map get (results s))) else RError.

(* termination measure: attempts not yet received + hedges that can still be launched *)
Definition unhedged (n : nat) (s : st) : nat :=
  length (filter (fun i => negb (memb i (hedged s))) (seq 0 n)).
Definition measure (n : nat) (s : st) : nat := expected s + unhedged n s.

(* an answer that the repaired admission test lets through carries the bytes
   of the requested range (the code checks status and length, not content) *)
Definition honest (plan : list bytes) (ans : attempt -> answer) : Prop :=
  forall a d, accept (want plan (fst a)) (ans a) = Some d -> d = nth (fst a) plan [].

(* ======================================================================== *)
(* correspondence interface                                                 *)

(* scripted answer kinds; bodies are derived from the requested range *)
Inductive kind :=
  | KExact (f : framing)               (* 206, the range *)
  | KShort (f : framing) (k : nat)     (* 206, the range minus its last k+1 bytes, ended cleanly *)
  | KLong (f : framing) (k : nat)      (* 206, the range followed by k+1 bytes 0xEE *)
  | KWhole200 (f : framing)            (* 200, the whole resource *)
  | KWhole206 (f : framing)            (* 206, the whole resource *)
  | KStatus (f : framing) (code : N)   (* that status, empty body *)
  | KFail                              (* connection dropped / declared or chunked body cut off *)
  | KWrong (f : framing).              (* 206, right length, every byte complemented: a lying server *)

Definition flip (b : N) : N := (255 - b)%N.

Definition realize (res : bytes) (plan : list bytes) (i : nat) (k : kind) : answer :=
  let c := nth i plan [] in
  match k with
  | KExact f => Resp 206 f c
  | KShort f j => Resp 206 f (firstn (length c - 1 - j) c)
  | KLong f j => Resp 206 f (c ++ repeat 238%N (S j))
  | KWhole200 f => Resp 200 f res
  | KWhole206 f => Resp 206 f res
  | KStatus f code => Resp code f []
  | KFail => Fail
  | KWrong f => Resp 206 f (map flip c)
  end.

Inductive head := HeadFail | HeadOk (len_known ranges : bool).
(* SpeculativeRetryMultiplier classes used by the harness and the value of the
   time oracle they force: off (<= 0), tiny (threshold 0: every pending chunk is
   slow once two completions are in), huge (never slow) *)
Inductive mult := MOff | MTiny | MHuge.

Record input := {
  i_res : bytes;
  i_head : head;
  i_simple : kind;                       (* answer to the plain GET of fetchSimple *)
  i_chunk : Z; i_par : Z; i_threshold : Z; i_maxfetch : Z;
  i_mult : mult; i_maxh : Z;
  i_script : list (attempt * kind);      (* answers per attempt; absent = KFail *)
  i_sched : list attempt }.              (* order in which results were delivered *)

Inductive obs := OBytes (b : bytes) | OError | OHang | OWaiting | ODesync.

Definition default_chunk : Z := 8388608%Z.
Definition default_parallel : Z := 8%Z.
Definition eff_chunk (c : Z) : Z := if (c <=? 0)%Z then default_chunk else c.
Definition eff_parallel (p : Z) : Z := if (p <=? 0)%Z then default_parallel else p.
(* chunk size as a nat, clipped to the resource size (a chunk size above the size
   gives the same single-chunk plan and keeps [nat]s small) *)
Definition chunk_nat (c : Z) (size : nat) : nat := Z.to_nat (Z.min (eff_chunk c) (Z.of_nat size)).

Fixpoint lookup (a : attempt) (l : list (attempt * kind)) : kind :=
  match l with
  | [] => KFail
  | (b, k) :: t => if att_eqb a b then k else lookup a t
  end.

Definition plan_of (i : input) : list bytes := chunks (chunk_nat (i_chunk i) (length (i_res i))) (i_res i).
Definition ans_of (i : input) : attempt -> answer :=
  fun a => realize (i_res i) (plan_of i) (fst a) (lookup a (i_script i)).
Definition slow_of (m : mult) : st -> nat -> bool :=
  match m with MTiny => fun s _ => 2 <=? ncomp s | _ => fun _ _ => false end.
Definition hedging_of (m : mult) : bool := match m with MOff => false | _ => true end.

Definition fetch_simple (maxfetch : Z) (a : answer) : obs :=
  match a with
  | Fail => OError
  | Resp stc _ b =>
      if (stc =? 200)%N then
        if (maxfetch <? Z.of_nat (length b))%Z then OError else OBytes b
      else OError
  end.

Definition obs_of (o : outcome) : obs :=
  match o with
  | Done s => match assemble s with RBytes b => OBytes b | RError => OError end
  | Waiting _ => OWaiting
  | Stuck _ => OHang
  | Desync => ODesync
  end.

Definition parallel (i : input) : obs :=
  let plan := plan_of i in
  obs_of (run plan (ans_of i) (slow_of (i_mult i)) (hedging_of (i_mult i)) (i_maxh i)
              (i_sched i) (init plan)).

Definition simple (i : input) : obs :=
  fetch_simple (i_maxfetch i) (realize (i_res i) (plan_of i) 0 (i_simple i)).

Definition model (i : input) : obs :=
  match i_head i with
  | HeadFail => simple i
  | HeadOk known ranges =>
      let clen := if known then Z.of_nat (length (i_res i)) else (-1)%Z in
      if (clen <? i_threshold i)%Z || negb ranges || (clen <=? 0)%Z then simple i
      else if (i_maxfetch i <? clen)%Z then OError
      else parallel i
  end.

Definition obs_eqb (a b : obs) : bool :=
  match a, b with
  | OBytes x, OBytes y => beqb x y
  | OError, OError | OHang, OHang | OWaiting, OWaiting | ODesync, ODesync => true
  | _, _ => false
  end.

(* decidable honesty of a scripted input: every scripted chunk answer that the
   admission test lets through is the requested range, and a 200 answer to the
   plain GET is the resource *)
Definition honest_chunk_b (plan : list bytes) (i : nat) (a : answer) : bool :=
  match accept (want plan i) a with
  | Some d => beqb d (nth i plan [])
  | None => true
  end.
Definition honest_simple_b (res : bytes) (a : answer) : bool :=
  match a with
  | Resp stc _ b => if (stc =? 200)%N then beqb b res else true
  | Fail => true
  end.
Definition honest_b (i : input) : bool :=
  honest_simple_b (i_res i) (realize (i_res i) (plan_of i) 0 (i_simple i))
  && forallb (fun e => honest_chunk_b (plan_of i) (fst (fst e)) (realize (i_res i) (plan_of i) (fst (fst e)) (snd e)))
             (i_script i).

(* the call takes the parallel path (HEAD ok with length and ranges, size at or
   above the threshold, positive, within the cap) *)
Definition parallel_path (i : input) : bool :=
  match i_head i with
  | HeadOk true true =>
      let clen := Z.of_nat (length (i_res i)) in
      negb ((clen <? i_threshold i)%Z || (clen <=? 0)%Z) && negb (i_maxfetch i <? clen)%Z
  | _ => false
  end.
(* every first request is answered acceptably *)
Definition originals_ok_b (i : input) : bool :=
  forallb (fun k => is_some (accept (want (plan_of i) k) (ans_of i (k, false)))) (seq 0 (length (plan_of i))).

(* The property on one observation: against an honest server the call returns
   (no hang), what it returns is an error or exactly the resource, and when
   every first request is answered acceptably it is the resource whatever the
   speculative duplicates did. *)
Definition spec_ok (i : input) (o : obs) : bool :=
  if honest_b i then
    match o with
    | OBytes b => beqb b (i_res i)
    | OHang => false
    | OError => negb (parallel_path i && originals_ok_b i)
    | _ => true
    end
  else true.

(* the pre-repair loop and admission test on the same inputs (refutation witnesses only) *)
Definition parallel_legacy (i : input) : obs :=
  let plan := plan_of i in
  obs_of (run_legacy plan (ans_of i) (slow_of (i_mult i)) (hedging_of (i_mult i)) (i_maxh i)
                     (i_sched i) (init plan)).
