(* Model/C39.v — access-log sampling (vgirpc/accesslog_sample.go) and async
   emission (vgirpc/accesslog_async.go).

   Part 1, sampler.  FNV-1a/32 is DEFINED here with explicit arithmetic modulo
   2^32.  A rate is the IEEE-754 binary64 bit pattern of the Go float64; the
   validation of newAccessLogSampler and the threshold
   uint32(rate * float64(MaxUint32)) are computed exactly from the bits (one
   round-to-nearest-even to 53 bits, then truncation).  keep follows the Go
   code branch by branch, including the order (rate >= 1, then error, then the
   key, which bumps the fallback counter only when neither id is usable).

   Part 2, async emitter.  One atomic step per critical section / channel
   operation of the Go code:
     Enq r      enqueue's critical section (mutex held; select send/default)
     Take       the writer goroutine's receive in [for record := range a.ch]
                (blocked while the buffer is empty and the channel is open;
                 on a closed, empty channel the loop ends: WExited)
     WriteDone  a.write(record) returns its effect (the record is written)
     Close      close's critical section (closed := true; close(a.ch))
   [step] is partial: None means that the thread cannot take that step now
   (it is blocked).  A schedule is an arbitrary list of steps; a step that is
   not enabled is skipped ([exec]). *)
From VR Require Export Lib.Strs Gen.Consts.
Open Scope N_scope.

(* ====================================================================== *)
(* Part 1: sampler                                                         *)
(* ====================================================================== *)

Definition M32 : N := 4294967296.
Definition M64 : N := 18446744073709551616.
Definition MAXU32 : N := 4294967295.

(* hash/fnv New32a: offset basis and prime of FNV-1a 32 *)
Definition fnv_offset : N := 2166136261.
Definition fnv_prime : N := 16777619.
Definition fnv_step (h b : N) : N := (N.lxor h b * fnv_prime) mod M32.
Definition fnv1a32 (s : bytes) : N := fold_left fnv_step s fnv_offset.

(* strconv.FormatUint(n, 36) *)
Definition digit36 (d : N) : N := if d <? 10 then 48 + d else 87 + d.
Fixpoint b36_aux (fuel : nat) (n : N) (acc : bytes) : bytes :=
  match fuel with
  | O => acc
  | S f => let acc' := digit36 (n mod 36) :: acc in
           if n / 36 =? 0 then acc' else b36_aux f (n / 36) acc'
  end.
Definition base36 (n : N) : bytes := b36_aux 14 n [].

(* ---- float64 bit patterns --------------------------------------------- *)
Definition P52 : N := 4503599627370496.
Definition P63 : N := 9223372036854775808.
Definition ONE_BITS : N := 4607182418800017408.       (* 0x3FF0000000000000 = 1.0 *)

Definition f_abs (b : N) : N := b mod P63.
Definition f_neg (b : N) : bool := P63 <=? b.
Definition f_exp (b : N) : N := f_abs b / P52.
Definition f_frac (b : N) : N := b mod P52.
Definition f_nan (b : N) : bool := (f_exp b =? 2047) && negb (f_frac b =? 0).
Definition rate_lt0 (b : N) : bool := f_neg b && negb (f_abs b =? 0).   (* -0.0 < 0.0 is false *)
Definition rate_gt1 (b : N) : bool := negb (f_neg b) && (ONE_BITS <? b).
Definition rate_ge1 (b : N) : bool := negb (f_neg b) && (ONE_BITS <=? b).

(* |value| = m * 2^e *)
Definition f_me (b : N) : N * Z :=
  if f_exp b =? 0 then (f_frac b, (-1074)%Z)
  else (P52 + f_frac b, (Z.of_N (f_exp b) - 1075)%Z).

(* round an exact product x * 2^e to 53 significant bits, ties to even *)
Definition round53 (x : N) (e : Z) : N * Z :=
  let l := N.size x in
  if l <=? 53 then (x, e)
  else
    let k := l - 53 in
    let q := N.shiftr x k in
    let r := N.land x (N.ones k) in
    let half := N.shiftl 1 (k - 1) in
    let q' := if (half <? r) || ((r =? half) && N.odd q) then q + 1 else q in
    (q', (e + Z.of_N k)%Z).

Definition floor_me (m : N) (e : Z) : N :=
  if (0 <=? e)%Z then N.shiftl m (Z.to_N e) else N.shiftr m (Z.to_N (- e)).

(* uint32(rate * float64(math.MaxUint32)) for a validated rate *)
Definition threshold (b : N) : N :=
  let '(m, e) := f_me b in
  let '(q, e') := round53 (m * MAXU32) e in
  floor_me q e' mod M32.

(* ---- records ----------------------------------------------------------- *)
(* None = field absent or not a string.  s_extra: every OTHER field the record
   carries (cancelled, method, http_status, claims ...), as (key, JSON text of the
   value) pairs; keys other than status / stream_id / request_id / sample_rate.
   The sampler does not look at them: no function below reads s_extra. *)
Record srec := { s_status : option bytes; s_stream : option bytes; s_request : option bytes;
                 s_extra : list (bytes * bytes) }.

Definition k_error : bytes := Eval compute in str "error".
Definition is_error (r : srec) : bool :=
  match s_status r with Some s => beqb s k_error | None => false end.

Definition nonempty (o : option bytes) : option bytes :=
  match o with Some (c :: t) => Some (c :: t) | _ => None end.

(* stream_id first, then request_id; None = neither usable (fallback counter) *)
Definition explicit_key (r : srec) : option bytes :=
  match nonempty (s_stream r) with
  | Some k => Some k
  | None => nonempty (s_request r)
  end.

Record sampler := { sp_rate : N; sp_thr : N }.

Definition new_sampler (b : N) : option sampler :=
  if f_nan b || rate_lt0 b || rate_gt1 b then None
  else Some {| sp_rate := b; sp_thr := threshold b |}.

(* outcome for one record: kept?  and the sample_rate stamped on it *)
Record sout := { so_kept : bool; so_rate : option N }.
Definition kept_plain : sout := {| so_kept := true; so_rate := None |}.
Definition dropped_out : sout := {| so_kept := false; so_rate := None |}.

Definition decide (s : sampler) (k : bytes) : sout :=
  if sp_thr s <? fnv1a32 k then dropped_out
  else {| so_kept := true; so_rate := Some (sp_rate s) |}.

(* c = the fallback counter *)
Definition keep (s : sampler) (c : N) (r : srec) : N * sout :=
  if rate_ge1 (sp_rate s) then (c, kept_plain)
  else if is_error r then (c, kept_plain)
  else match explicit_key r with
       | Some k => (c, decide s k)
       | None => let c' := (c + 1) mod M64 in (c', decide s (base36 c'))
       end.

Fixpoint run_sampler (s : sampler) (c : N) (recs : list srec) : list sout :=
  match recs with
  | [] => []
  | r :: t => let '(c', o) := keep s c r in o :: run_sampler s c' t
  end.

(* ====================================================================== *)
(* Part 2: async emitter                                                   *)
(* ====================================================================== *)

(* a record handed to enqueue: an identity and whatever dropped_records field
   the caller's map already had (None for every record OnDispatchEnd builds) *)
Record arec := { a_id : N; a_pre : option N }.
(* a record as it sits in the channel / is written: id, dropped_records field *)
Definition qrec : Type := N * option N.

Inductive wstate := WIdle | WBusy (x : qrec) | WExited.

Record astate := {
  st_q : list qrec;          (* channel buffer, FIFO *)
  st_w : wstate;             (* writer goroutine *)
  st_written : list qrec;    (* what write has emitted, in order *)
  st_pending : N;            (* a.dropped *)
  st_closed : bool }.        (* a.closed, channel closed *)

Definition init : astate :=
  {| st_q := []; st_w := WIdle; st_written := []; st_pending := 0; st_closed := false |}.

Inductive op := Enq (r : arec) | Take | WriteDone | Close.

Definition step (cap : N) (s : astate) (o : op) : option astate :=
  match o with
  | Enq r =>
      if st_closed s then Some s
      else
        let stamp := if 0 <? st_pending s then Some (st_pending s) else a_pre r in
        if N.of_nat (length (st_q s)) <? cap
        then Some {| st_q := st_q s ++ [(a_id r, stamp)]; st_w := st_w s; st_written := st_written s;
                     st_pending := 0; st_closed := false |}
        else Some {| st_q := st_q s; st_w := st_w s; st_written := st_written s;
                     st_pending := st_pending s + 1; st_closed := false |}
  | Take =>
      match st_w s, st_q s with
      | WIdle, x :: t => Some {| st_q := t; st_w := WBusy x; st_written := st_written s;
                                 st_pending := st_pending s; st_closed := st_closed s |}
      | WIdle, [] => if st_closed s
                     then Some {| st_q := []; st_w := WExited; st_written := st_written s;
                                  st_pending := st_pending s; st_closed := true |}
                     else None
      | _, _ => None
      end
  | WriteDone =>
      match st_w s with
      | WBusy x => Some {| st_q := st_q s; st_w := WIdle; st_written := st_written s ++ [x];
                           st_pending := st_pending s; st_closed := st_closed s |}
      | _ => None
      end
  | Close => Some {| st_q := st_q s; st_w := st_w s; st_written := st_written s;
                     st_pending := st_pending s; st_closed := true |}
  end.

Definition exec (cap : N) (s : astate) (o : op) : astate :=
  match step cap s o with Some s' => s' | None => s end.

Definition run (cap : N) (s : astate) (ops : list op) : astate := fold_left (exec cap) ops s.

Definition is_some {A} (o : option A) : bool := match o with Some _ => true | None => false end.
Definition is_exited (s : astate) : bool := match st_w s with WExited => true | _ => false end.
Definition busy_list (w : wstate) : list qrec := match w with WBusy x => [x] | _ => [] end.

(* ---- accounting -------------------------------------------------------- *)
Definition stamp_n (x : qrec) : nat := match snd x with Some k => N.to_nat k | None => 0%nat end.

(* the history a list of written/queued records stands for: each record is
   preceded by as many lost records as its dropped_records field says *)
Fixpoint expand (l : list qrec) : list (option N) :=
  match l with
  | [] => []
  | x :: t => repeat None (stamp_n x) ++ Some (fst x) :: expand t
  end.

Definition inflight (s : astate) : list qrec := st_written s ++ busy_list (st_w s) ++ st_q s.
Definition ledger (s : astate) : list (option N) :=
  expand (inflight s) ++ repeat None (N.to_nat (st_pending s)).

Fixpoint sum_stamps (l : list qrec) : nat :=
  match l with [] => 0%nat | x :: t => (stamp_n x + sum_stamps t)%nat end.
Definition accounted (s : astate) : nat :=
  (length (inflight s) + sum_stamps (inflight s) + N.to_nat (st_pending s))%nat.

(* ids of the records enqueued before (the first) close, in enqueue order *)
Fixpoint enq_log (ops : list op) : list N :=
  match ops with
  | [] => []
  | Enq r :: t => a_id r :: enq_log t
  | Close :: _ => []
  | _ :: t => enq_log t
  end.

Definition fresh_op (o : op) : bool :=
  match o with Enq r => match a_pre r with None => true | Some _ => false end | _ => true end.
Definition fresh (ops : list op) : bool := forallb fresh_op ops.

Definition fate_okb (f : option N) (id : N) : bool :=
  match f with None => true | Some i => i =? id end.
Fixpoint forall2b {A B} (p : A -> B -> bool) (a : list A) (b : list B) : bool :=
  match a, b with
  | [], [] => true
  | x :: a', y :: b' => p x y && forall2b p a' b'
  | _, _ => false
  end.

(* ====================================================================== *)
(* correspondence interface                                                *)
(* ====================================================================== *)

(* one observation of the emitter after a step: did the step happen (was the
   thread able to take it), buffer length, drop counter, number of written
   records, id held by the writer, closed flag, writer exited *)
Record aobs := {
  ao_en : bool; ao_qlen : N; ao_pending : N; ao_nwritten : N;
  ao_busy : option N; ao_closed : bool; ao_exited : bool }.

Definition observe (en : bool) (s : astate) : aobs :=
  {| ao_en := en; ao_qlen := N.of_nat (length (st_q s)); ao_pending := st_pending s;
     ao_nwritten := N.of_nat (length (st_written s));
     ao_busy := match st_w s with WBusy x => Some (fst x) | _ => None end;
     ao_closed := st_closed s; ao_exited := is_exited s |}.

(* steps carry a flag: observe the state after this step? *)
Fixpoint run_obs (cap : N) (s : astate) (steps : list (op * bool)) : astate * list aobs :=
  match steps with
  | [] => (s, [])
  | (o, b) :: t =>
      let en := is_some (step cap s o) in
      let s' := exec cap s o in
      let '(sf, tr) := run_obs cap s' t in
      (sf, if b then observe en s' :: tr else tr)
  end.

(* did each enqueue call return (its step is enabled) *)
Fixpoint enq_rets (cap : N) (s : astate) (ops : list op) : list bool :=
  match ops with
  | [] => []
  | o :: t =>
      let rest := enq_rets cap (exec cap s o) t in
      match o with Enq _ => is_some (step cap s o) :: rest | _ => rest end
  end.

Definition count_enq (ops : list op) : nat :=
  length (filter (fun o => match o with Enq _ => true | _ => false end) ops).

Inductive input :=
| Sample (rate : N) (recs : list srec)
| Fnv (s : bytes)
| Async (cap : Z) (steps : list (op * bool)).

Inductive obs :=
| OSampleErr
| OSample (thr : N) (outs : list sout)
| OFnv (h : N)
| OAsyncErr
| OAsync (rets : list bool) (trace : list aobs) (written : list qrec) (pending : N) (exited : bool).

Definition model (i : input) : obs :=
  match i with
  | Sample rate recs =>
      match new_sampler rate with
      | None => OSampleErr
      | Some s => OSample (sp_thr s) (run_sampler s 0 recs)
      end
  | Fnv s => OFnv (fnv1a32 s)
  | Async cap steps =>
      if (cap <=? 0)%Z then OAsyncErr
      else
        let c := Z.to_N cap in
        let '(s, tr) := run_obs c init steps in
        OAsync (enq_rets c init (map fst steps)) tr (st_written s) (st_pending s) (is_exited s)
  end.

Definition sout_eqb (a b : sout) : bool :=
  Bool.eqb (so_kept a) (so_kept b) && opt_eqb N.eqb (so_rate a) (so_rate b).
Definition qrec_eqb (a b : qrec) : bool :=
  (fst a =? fst b) && opt_eqb N.eqb (snd a) (snd b).
Definition aobs_eqb (a b : aobs) : bool :=
  Bool.eqb (ao_en a) (ao_en b) && (ao_qlen a =? ao_qlen b) && (ao_pending a =? ao_pending b)
  && (ao_nwritten a =? ao_nwritten b) && opt_eqb N.eqb (ao_busy a) (ao_busy b)
  && Bool.eqb (ao_closed a) (ao_closed b) && Bool.eqb (ao_exited a) (ao_exited b).

Definition obs_eqb (a b : obs) : bool :=
  match a, b with
  | OSampleErr, OSampleErr => true
  | OSample t1 o1, OSample t2 o2 => (t1 =? t2) && list_eqb sout_eqb o1 o2
  | OFnv h1, OFnv h2 => h1 =? h2
  | OAsyncErr, OAsyncErr => true
  | OAsync r1 t1 w1 p1 e1, OAsync r2 t2 w2 p2 e2 =>
      list_eqb Bool.eqb r1 r2 && list_eqb aobs_eqb t1 t2 && list_eqb qrec_eqb w1 w2
      && (p1 =? p2) && Bool.eqb e1 e2
  | _, _ => false
  end.

(* ---- the property, decided on one observation -------------------------- *)
Definition same_fate_ok (p1 p2 : srec * sout) : bool :=
  let '(r1, o1) := p1 in
  let '(r2, o2) := p2 in
  if negb (is_error r1) && negb (is_error r2) then
    match explicit_key r1, explicit_key r2 with
    | Some k1, Some k2 => if beqb k1 k2 then Bool.eqb (so_kept o1) (so_kept o2) else true
    | _, _ => true
    end
  else true.

Definition sample_spec (rate : N) (recs : list srec) (outs : list sout) : bool :=
  let z := combine recs outs in
  (length outs =? length recs)%nat
  (* errors are always kept *)
  && forallb (fun p => implb (is_error (fst p)) (so_kept (snd p))) z
  (* same stream id (else request id) => same fate, among non-error records *)
  && forallb (fun p1 => forallb (same_fate_ok p1) z) z
  (* with sampling active, a kept non-error record carries the rate *)
  && (if rate_ge1 rate then true
      else forallb (fun p => implb (so_kept (snd p) && negb (is_error (fst p)))
                                   (opt_eqb N.eqb (so_rate (snd p)) (Some rate))) z).

Definition async_spec (ops : list op) (rets : list bool) (written : list qrec)
           (pending : N) (exited : bool) : bool :=
  (* every enqueue call returned *)
  forallb (fun b => b) rets && (length rets =? count_enq ops)%nat
  (* after close and drain: reading the written records in order, each preceded
     by dropped_records lost records, and then the trailing unreported drops,
     gives back exactly the enqueue history: position by position either the
     enqueued record itself or a counted loss *)
  && (if exited && fresh ops
      then forall2b fate_okb (expand written ++ repeat None (N.to_nat pending)) (enq_log ops)
      else true).

Definition spec_ok (i : input) (o : obs) : bool :=
  match i, o with
  | Sample _ _, OSampleErr => true
  | Sample rate recs, OSample _ outs => sample_spec rate recs outs
  | Fnv _, OFnv _ => true
  | Async _ _, OAsyncErr => true
  | Async _ steps, OAsync rets _ written pending exited =>
      async_spec (map fst steps) rets written pending exited
  | _, _ => false
  end.
