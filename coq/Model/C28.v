(* Model/C28.v — WWW-Authenticate build / parse (vgirpc/oauth.go buildWWWAuthenticate,
   vgirpc/oauth_client.go parseQuotedParam and the six Parse* wrappers).
   Pure byte strings.  [parse_param] models the repaired scanner (skips quoted
   values, matches a key only at a parameter boundary); [parse_legacy] is the
   pre-fix "first strings.Index hit" and is kept for the refutation witness. *)
From VR Require Export Lib.Strs Gen.Consts.
Open Scope N_scope.

Definition QUOTE : N := 34.
Definition EQ : N := 61.
Definition SP : N := 32.
Definition COMMA : N := 44.

Definition key (p : bytes) : bytes := p ++ [EQ; QUOTE].
Definition is_sep (c : N) : bool := (c =? SP) || (c =? COMMA).

(* rest up to the next double quote; empty when there is no closing quote *)
Fixpoint until_quote_aux (acc s : bytes) : bytes :=
  match s with
  | [] => []
  | c :: t => if c =? QUOTE then rev acc else until_quote_aux (c :: acc) t
  end.
Definition until_quote (s : bytes) : bytes := until_quote_aux [] s.

(* the repaired scanner: inq = inside a quoted value, prev = previous byte was a
   boundary (start of header, space or comma) *)
Fixpoint scan (k : bytes) (inq prev : bool) (h : bytes) : bytes :=
  match h with
  | [] => []
  | c :: t =>
      if inq then scan k (negb (c =? QUOTE)) false t
      else if prev && has_prefix k h then until_quote (drop (length k) h)
      else if c =? QUOTE then scan k true false t
      else scan k false (is_sep c) t
  end.

Definition parse_param (h p : bytes) : bytes := scan (key p) false true h.

Definition parse_legacy (h p : bytes) : bytes :=
  match index (key p) h with
  | None => []
  | Some i => until_quote (drop (i + length (key p)) h)
  end.

(* ---- builder ----------------------------------------------------------- *)
Record meta := {
  m_client_id : bytes; m_id_token : bool; m_client_secret : bytes;
  m_dc_id : bytes; m_dc_secret : bytes }.

Definition seg (name val : bytes) : bytes := [COMMA; SP] ++ name ++ [EQ; QUOTE] ++ val ++ [QUOTE].
Definition opt_seg (name val : bytes) : bytes := match val with [] => [] | _ => seg name val end.

Definition build (url : bytes) (m : meta) : bytes :=
  www_scheme_prefix ++ p_resource_metadata ++ [EQ; QUOTE] ++ url ++ [QUOTE]
  ++ opt_seg p_client_id (m_client_id m)
  ++ (if m_id_token m then seg p_use_id_token www_true else [])
  ++ opt_seg p_client_secret (m_client_secret m)
  ++ opt_seg p_dc_client_id (m_dc_id m)
  ++ opt_seg p_dc_client_secret (m_dc_secret m).

(* Validate's charset: ^[A-Za-z0-9\-._~]+$ *)
Definition id_char (c : N) : bool :=
  ((65 <=? c) && (c <=? 90)) || ((97 <=? c) && (c <=? 122)) || ((48 <=? c) && (c <=? 57))
  || (c =? 45) || (c =? 46) || (c =? 95) || (c =? 126).
Definition id_ok (s : bytes) : bool := forallb id_char s.       (* "" = absent *)
Definition url_ok (s : bytes) : bool := forallb (fun c => negb (c =? QUOTE)) s.
Definition meta_ok (m : meta) : bool :=
  id_ok (m_client_id m) && id_ok (m_client_secret m) && id_ok (m_dc_id m) && id_ok (m_dc_secret m).

(* ---- correspondence interface ----------------------------------------- *)
Inductive input := Build (url : bytes) (m : meta) | Raw (h : bytes).

Record obs := {
  o_header : bytes; o_url : bytes; o_cid : bytes; o_flag : bool;
  o_csec : bytes; o_dcid : bytes; o_dcsec : bytes }.

Definition parse_all (h : bytes) : obs :=
  {| o_header := h;
     o_url := parse_param h p_resource_metadata;
     o_cid := parse_param h p_client_id;
     o_flag := beqb (parse_param h p_use_id_token) www_true;
     o_csec := parse_param h p_client_secret;
     o_dcid := parse_param h p_dc_client_id;
     o_dcsec := parse_param h p_dc_client_secret |}.

Definition model (i : input) : obs :=
  match i with Build u m => parse_all (build u m) | Raw h => parse_all h end.

Definition obs_eqb (a b : obs) : bool :=
  beqb (o_header a) (o_header b) && beqb (o_url a) (o_url b) && beqb (o_cid a) (o_cid b)
  && Bool.eqb (o_flag a) (o_flag b) && beqb (o_csec a) (o_csec b)
  && beqb (o_dcid a) (o_dcid b) && beqb (o_dcsec a) (o_dcsec b).

(* the property, decided on one observation: for valid metadata the parsers
   recover exactly what was advertised (absent = empty). Raw headers carry no
   obligation beyond model agreement. *)
Definition spec_ok (i : input) (o : obs) : bool :=
  match i with
  | Raw _ => true
  | Build u m =>
      if url_ok u && meta_ok m then
        beqb (o_url o) u && beqb (o_cid o) (m_client_id m) && Bool.eqb (o_flag o) (m_id_token m)
        && beqb (o_csec o) (m_client_secret m) && beqb (o_dcid o) (m_dc_id m)
        && beqb (o_dcsec o) (m_dc_secret m)
      else true
  end.
