(* Model/C17.v — response compression negotiation (vgirpc/http_compression.go:
   parseAcceptEncoding, chooseResponseEncoding, producibleResponseEncodings,
   applyCompressionLevel, SetCompressionLevel, compressResponseWriter.finish, and the
   negotiation block of HttpServer.ServeHTTP in vgirpc/http.go).
   Header values are byte strings; the model is exact for ASCII (Go's TrimSpace /
   ToLower are Unicode aware; bytes >= 0x80 are opaque here).
   Two layers are kept apart on purpose:
     - the MODEL follows the Go code line by line (split, trim, cut at the
       semicolon, trim, lower, de-duplicate with a seen set, merge custom ++
       (standard minus custom), walk);
     - the SPEC (s_ names) is written independently: the client preference
       order is the plain concatenation of the normalised items of the custom
       header and of the standard header, no de-duplication, no merge; the
       outcome is decided by the first decisive item (identity or producible).
   No proofs in this file. *)
From VR Require Export Lib.Strs Gen.Consts.
Open Scope N_scope.

Definition COMMA : N := 44.
Definition SEMI : N := 59.
Definition SP : N := 32.

Definition identity : bytes := c17_identity.
Definition memb (x : bytes) (l : list bytes) : bool := existsb (beqb x) l.
Definition nonempty (b : bytes) : bool := match b with [] => false | _ => true end.

(* ---- MODEL: parseAcceptEncoding ------------------------------------------ *)
(* tok := TrimSpace(raw); if i := IndexByte(tok, ';'); i >= 0 { tok = TrimSpace(tok[:i]) };
   tok = ToLower(tok) *)
Definition norm_tok (raw : bytes) : bytes :=
  let t := trim_space raw in
  let t := match index_byte SEMI t with
           | Some i => trim_space (take i t)
           | None => t
           end in
  to_lower t.

(* the loop with its seen set: empty tokens and repeats are skipped *)
Fixpoint parse_loop (seen : list bytes) (raws : list bytes) : list bytes :=
  match raws with
  | [] => []
  | r :: t =>
      let k := norm_tok r in
      if negb (nonempty k) then parse_loop seen t
      else if memb k seen then parse_loop seen t
      else k :: parse_loop (k :: seen) t
  end.

Definition parse_accept (h : bytes) : list bytes :=
  match h with
  | [] => []
  | _ => parse_loop [] (split_on COMMA h)
  end.

(* ---- MODEL: chooseResponseEncoding --------------------------------------- *)
Definition merged (ct st : list bytes) : list bytes :=
  ct ++ filter (fun t => negb (memb t ct)) st.

(* "" (= []) is identity; the bool is usedCustom *)
Fixpoint walk (prod ct st m : list bytes) : bytes * bool :=
  match m with
  | [] => ([], false)
  | e :: t =>
      if beqb e identity then ([], false)
      else if negb (memb e prod) then walk prod ct st t
      else (e, memb e ct && negb (memb e st))
  end.

Definition choose (custom standard : bytes) (prod : list bytes) : bytes * bool :=
  let ct := parse_accept custom in
  let st := parse_accept standard in
  match ct, st with
  | [], [] => ([], false)
  | _, _ => walk prod ct st (merged ct st)
  end.

(* ---- MODEL: configuration ------------------------------------------------ *)
(* SetCompressionLevel(l): l <= 0 disables; otherwise the zstd probe decides
   (ok = the codec library accepted the level: an oracle bit supplied per call);
   a rejected level returns an error and leaves the configuration unchanged. *)
Definition set_level (cur : Z) (op : Z * bool) : Z :=
  let '(l, ok) := op in
  if (l <=? 0)%Z then 0%Z else if ok then l else cur.
Definition set_err (op : Z * bool) : bool :=
  let '(l, ok) := op in negb (l <=? 0)%Z && negb ok.
Definition eff_level (ops : list (Z * bool)) : Z := fold_left set_level ops c17_default_level.

Definition producible (lvl : Z) : list bytes :=
  if (lvl <=? 0)%Z then [] else c17_supported_encodings.
Definition advertise (lvl : Z) : bytes := join [COMMA; SP] (producible lvl).

(* ---- MODEL: compressResponseWriter.finish -------------------------------- *)
(* returns (Content-Encoding, X-VGI-Content-Encoding, compressed) *)
Definition finish (enc : bytes) (uc : bool) (ctype : bytes) (body_nonempty : bool)
  : bytes * bytes * bool :=
  if nonempty enc && beqb ctype c17_arrow_content_type && body_nonempty
  then (if uc then ([], enc, true) else (enc, [], true))
  else ([], [], false).

(* ServeHTTP: negotiation only when the producible set is non-empty; the
   wrapper is installed only for a non-identity outcome *)
Definition serve (lvl : Z) (custom standard ctype : bytes) (body_nonempty : bool)
  : bytes * bytes * bool :=
  match producible lvl with
  | [] => ([], [], false)
  | prod =>
      let '(enc, uc) := choose custom standard prod in
      if nonempty enc then finish enc uc ctype body_nonempty else ([], [], false)
  end.

(* ---- SPEC: written independently of the model ----------------------------- *)
(* bytes before the first occurrence of c (all of s when there is none) *)
Fixpoint before (c : N) (s : bytes) : bytes :=
  match s with
  | [] => []
  | x :: t => if x =? c then [] else x :: before c t
  end.

(* comma-separated pieces, right to left *)
Fixpoint s_pieces (h : bytes) : list bytes :=
  match h with
  | [] => [[]]
  | x :: t =>
      if x =? COMMA then [] :: s_pieces t
      else match s_pieces t with
           | p :: ps => (x :: p) :: ps
           | [] => [[x]]
           end
  end.

(* an item is what stands before the parameters, without surrounding blanks,
   case-insensitively *)
Definition s_norm (piece : bytes) : bytes := to_lower (trim_space (before SEMI piece)).
Definition s_items (h : bytes) : list bytes := filter nonempty (map s_norm (s_pieces h)).

(* each item once, in order of first occurrence *)
Definition s_uniq (l : list bytes) : list bytes :=
  fold_left (fun acc x => if memb x acc then acc else acc ++ [x]) l [].

(* the client's preference order: every custom item, then every standard item *)
Definition s_pref (custom standard : bytes) : list bytes := s_items custom ++ s_items standard.

(* outcome of walking a preference list: None = identity (no compression) *)
Fixpoint s_first (prod l : list bytes) : option bytes :=
  match l with
  | [] => None
  | c :: t => if beqb c identity then None
              else if memb c prod then Some c
              else s_first prod t
  end.

Definition s_only_custom (custom standard c : bytes) : bool :=
  memb c (s_items custom) && negb (memb c (s_items standard)).

(* which response headers must carry codec c *)
Definition s_stamp (custom standard c : bytes) : bytes * bytes :=
  if s_only_custom custom standard c then ([], c) else (c, []).

(* ---- correspondence interface -------------------------------------------- *)
Inductive input :=
| Parse (h : bytes)
| Choose (custom standard : bytes) (prod : list bytes)
| Finish (enc : bytes) (uc : bool) (ctype : bytes) (body_nonempty : bool)
| Http (ops : list (Z * bool)) (custom standard : bytes) (ctype : bytes) (body_nonempty : bool).

Inductive obs :=
| OParse (toks : list bytes)
| OChoose (enc : bytes) (uc : bool)
(* ce / xce: values of Content-Encoding / X-VGI-Content-Encoding ([] = absent);
   body_ok: decoding the body with the stamped codec gives the reference body;
   raw_eq: the body bytes on the wire ARE the reference body (not compressed) *)
| OFinish (ce xce : bytes) (body_ok raw_eq : bool)
(* errs: SetCompressionLevel error per op; advert: VGI-Supported-Encodings
   (None = header absent); ctype_seen: observed Content-Type *)
| OHttp (errs : list bool) (advert : option bytes) (ctype_seen : bytes)
        (ce xce : bytes) (body_ok raw_eq : bool).

Definition model (i : input) : obs :=
  match i with
  | Parse h => OParse (parse_accept h)
  | Choose cu st prod => let '(e, u) := choose cu st prod in OChoose e u
  | Finish enc uc ctype ne =>
      let '(ce, xce, z) := finish enc uc ctype ne in OFinish ce xce true (negb z)
  | Http ops cu st ctype ne =>
      let lvl := eff_level ops in
      let '(ce, xce, z) := serve lvl cu st ctype ne in
      OHttp (map set_err ops) (Some (advertise lvl)) ctype ce xce true (negb z)
  end.

Definition obs_eqb (a b : obs) : bool :=
  match a, b with
  | OParse x, OParse y => list_eqb beqb x y
  | OChoose e u, OChoose e' u' => beqb e e' && Bool.eqb u u'
  | OFinish c x k r, OFinish c' x' k' r' =>
      beqb c c' && beqb x x' && Bool.eqb k k' && Bool.eqb r r'
  | OHttp e a t c x k r, OHttp e' a' t' c' x' k' r' =>
      list_eqb Bool.eqb e e' && opt_eqb beqb a a' && beqb t t' && beqb c c' && beqb x x'
      && Bool.eqb k k' && Bool.eqb r r'
  | _, _ => false
  end.

(* ---- the property, decided on one observation (independent of [model]) ---- *)
(* stamped headers and wire bytes of a response that must NOT be compressed *)
Definition plain (ce xce : bytes) (raw_eq : bool) : bool :=
  negb (nonempty ce) && negb (nonempty xce) && raw_eq.

(* a response that went out compressed with codec c, stamped per the rule *)
Definition stamped (custom standard c ce xce : bytes) (raw_eq : bool) : bool :=
  let '(wce, wxce) := s_stamp custom standard c in
  beqb ce wce && beqb xce wxce && negb raw_eq.

Definition spec_ok (i : input) (o : obs) : bool :=
  match i, o with
  | Parse h, OParse toks =>
      (* same items in the same order of first occurrence, nothing empty, nothing twice *)
      list_eqb beqb toks (s_uniq (s_items h))
  | Choose cu st prod, OChoose e u =>
      match s_first prod (s_pref cu st) with
      | None => negb (nonempty e) && negb u
      | Some c => beqb e c && Bool.eqb u (s_only_custom cu st c)
      end
  | Finish enc uc ctype ne, OFinish ce xce ok raw_eq =>
      (* lossless; a negotiated codec is applied to non-empty Arrow bodies and to
         nothing else, and stamped on exactly the header the negotiation named *)
      ok &&
      (if nonempty enc && beqb ctype c17_arrow_content_type && ne
       then negb raw_eq
            && (if uc then beqb xce enc && negb (nonempty ce) else beqb ce enc && negb (nonempty xce))
       else plain ce xce raw_eq)
  | Http ops cu st ctype ne, OHttp errs advert ctype_seen ce xce ok raw_eq =>
      let lvl := eff_level ops in
      (* advertised set = what this configuration produces *)
      opt_eqb beqb advert (Some (join [COMMA; SP] (if (lvl <=? 0)%Z then [] else c17_supported_encodings)))
      (* lossless *)
      && ok
      (* a non-empty body of Arrow type is compressed with the codec that the
         ADVERTISED set and the client's order determine, stamped per the rule;
         everything else (no codec, identity first, non-Arrow, empty) goes out as is *)
      && match (if beqb ctype_seen c17_arrow_content_type && ne
                then s_first (match advert with Some a => s_items a | None => [] end) (s_pref cu st)
                else None) with
         | Some c => stamped cu st c ce xce raw_eq
         | None => plain ce xce raw_eq
         end
  | _, _ => false
  end.
