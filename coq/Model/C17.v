(* Model/C17.v — response compression negotiation (vgirpc/http_compression.go:
   parseAcceptEncoding, chooseResponseEncoding, producibleResponseEncodings,
   applyCompressionLevel, SetCompressionLevel, compressResponseWriter.finish, and the
   negotiation block of HttpServer.ServeHTTP in vgirpc/http.go).
   Header values are byte strings; the model is exact for ASCII (Go's TrimSpace /
   ToLower are Unicode aware; bytes >= 0x80 are opaque here).
   Two layers are kept apart on purpose:
     - the MODEL follows the Go code line by line (split, trim, cut at the
       semicolon, trim, lower, de-duplicate with a seen set, merge custom ++
       (standard minus custom), walk);
     - the SPEC (s_ names) is written independently: the client preference
       order is the plain concatenation of the normalised items of the custom
       header and of the standard header, no de-duplication, no merge; the
       outcome is decided by the first decisive item (identity or producible).
   No proofs in this file. *)
From VR Require Export Lib.Strs Gen.Consts.
Open Scope N_scope.

Definition COMMA : N := 44.
Definition SEMI : N := 59.
Definition SP : N := 32.

Definition identity : bytes := c17_identity.
Definition memb (x : bytes) (l : list bytes) : bool := existsb (beqb x) l.
Definition nonempty (b : bytes) : bool := match b with [] => false | _ => true end.

(* ---- MODEL: parseAcceptEncoding ------------------------------------------ *)
(* tok := TrimSpace(raw); if i := IndexByte(tok, ';'); i >= 0 { tok = TrimSpace(tok[:i]) };
   tok = ToLower(tok) *)
Definition norm_tok (raw : bytes) : bytes :=
  let t := trim_space raw in
  let t := match index_byte SEMI t with
           | Some i => trim_space (take i t)
           | None => t
           end in
  to_lower t.

(* the loop with its seen set: empty tokens and repeats are skipped *)
Fixpoint parse_loop (seen : list bytes) (raws : list bytes) : list bytes :=
  match raws with
  | [] => []
  | r :: t =>
      let k := norm_tok r in
      if negb (nonempty k) then parse_loop seen t
      else if memb k seen then parse_loop seen t
      else k :: parse_loop (k :: seen) t
  end.

Definition parse_accept (h : bytes) : list bytes :=
  match h with
  | [] => []
  | _ => parse_loop [] (split_on COMMA h)
  end.

(* ---- MODEL: chooseResponseEncoding --------------------------------------- *)
Definition merged (ct st : list bytes) : list bytes :=
  ct ++ filter (fun t => negb (memb t ct)) st.

(* "" (= []) is identity; the bool is usedCustom *)
Fixpoint walk (prod ct st m : list bytes) : bytes * bool :=
  match m with
  | [] => ([], false)
  | e :: t =>
      if beqb e identity then ([], false)
      else if negb (memb e prod) then walk prod ct st t
      else (e, memb e ct && negb (memb e st))
  end.

Definition choose (custom standard : bytes) (prod : list bytes) : bytes * bool :=
  let ct := parse_accept custom in
  let st := parse_accept standard in
  match ct, st with
  | [], [] => ([], false)
  | _, _ => walk prod ct st (merged ct st)
  end.

(* ---- MODEL: configuration ------------------------------------------------ *)
(* SetCompressionLevel(l): l <= 0 disables; otherwise the zstd probe decides
   (ok = the codec library accepted the level: an oracle bit supplied per call);
   a rejected level returns an error and leaves the configuration unchanged. *)
Definition set_level (cur : Z) (op : Z * bool) : Z :=
  let '(l, ok) := op in
  if (l <=? 0)%Z then 0%Z else if ok then l else cur.
Definition set_err (op : Z * bool) : bool :=
  let '(l, ok) := op in negb (l <=? 0)%Z && negb ok.
Definition eff_level (ops : list (Z * bool)) : Z := fold_left set_level ops c17_default_level.

Definition producible (lvl : Z) : list bytes :=
  if (lvl <=? 0)%Z then [] else c17_supported_encodings.
Definition advertise (lvl : Z) : bytes := join [COMMA; SP] (producible lvl).

(* ---- MODEL: compressResponseWriter.finish -------------------------------- *)
(* returns (Content-Encoding, X-VGI-Content-Encoding, compressed) *)
Definition finish (enc : bytes) (uc : bool) (ctype : bytes) (body_nonempty : bool)
  : bytes * bytes * bool :=
  if nonempty enc && beqb ctype c17_arrow_content_type && body_nonempty
  then (if uc then ([], enc, true) else (enc, [], true))
  else ([], [], false).

(* ServeHTTP: negotiation only when the producible set is non-empty; the
   wrapper is installed only for a non-identity outcome *)
Definition serve (lvl : Z) (custom standard ctype : bytes) (body_nonempty : bool)
  : bytes * bytes * bool :=
  match producible lvl with
  | [] => ([], [], false)
  | prod =>
      let '(enc, uc) := choose custom standard prod in
      if nonempty enc then finish enc uc ctype body_nonempty else ([], [], false)
  end.

(* ---- SPEC: written independently of the model ----------------------------- *)
(* bytes before the first occurrence of c (all of s when there is none) *)
Fixpoint before (c : N) (s : bytes) : bytes :=
  match s with
  | [] => []
  | x :: t => if x =? c then [] else x :: before c t
  end.

(* comma-separated pieces, right to left *)
Fixpoint s_pieces (h : bytes) : list bytes :=
  match h with
  | [] => [[]]
  | x :: t =>
      if x =? COMMA then [] :: s_pieces t
      else match s_pieces t with
           | p :: ps => (x :: p) :: ps
           | [] => [[x]]
           end
  end.

(* an item is what stands before the parameters, without surrounding blanks,
   case-insensitively *)
Definition s_norm (piece : bytes) : bytes := to_lower (trim_space (before SEMI piece)).
Definition s_items (h : bytes) : list bytes := filter nonempty (map s_norm (s_pieces h)).

(* each item once, in order of first occurrence *)
Definition s_uniq (l : list bytes) : list bytes :=
  fold_left (fun acc x => if memb x acc then acc else acc ++ [x]) l [].

(* the client's preference order: every custom item, then every standard item *)
Definition s_pref (custom standard : bytes) : list bytes := s_items custom ++ s_items standard.

(* outcome of walking a preference list: None = identity (no compression) *)
Fixpoint s_first (prod l : list bytes) : option bytes :=
  match l with
  | [] => None
  | c :: t => if beqb c identity then None
              else if memb c prod then Some c
              else s_first prod t
  end.

Definition s_only_custom (custom standard c : bytes) : bool :=
  memb c (s_items custom) && negb (memb c (s_items standard)).

(* which response headers must carry codec c *)
Definition s_stamp (custom standard c : bytes) : bytes * bytes :=
  if s_only_custom custom standard c then ([], c) else (c, []).

(* ---- MODEL: the per-(codec, level) pool of codec writers ------------------------
   vgirpc/http_compression.go: newCompressWriter (pool.Get, enc.Reset(w)),
   pooledCodecWriter.Write, pooledCodecWriter.Close = codec Close; resetNil; pool.Put.
   Several responses are in flight; each runs its own program
       Get; Reset; Write chunk_0 .. chunk_(n-1); CodecClose; Unpin; Put
   and a schedule interleaves the atomic steps.  A writer (gzip.Writer / zstd.Encoder)
   is a heap object: it has ONE current destination and the chunks written to it
   since its last Reset; whoever holds a reference can Reset / Write / Close it.
   [ord = true] is the code's order (Unpin, then Put); [ord = false] is the order
   Put, then Unpin (kept for the refutation witness). *)
Record wst := { w_dst : option nat; w_stream : list N }.
Definition idle : wst := {| w_dst := None; w_stream := [] |}.

(* what a response's ResponseWriter has received: one item per stream *)
Inductive seg := Complete (cs : list N) | Torn.

Definition upd {A} (f : nat -> A) (k : nat) (v : A) : nat -> A :=
  fun x => if Nat.eqb x k then v else f x.

Record pst := {
  p_pool : list nat;            (* idle writers; Get may hand out any of them, or a new one *)
  p_wr : nat -> wst;            (* the heap of writers *)
  p_hold : nat -> option nat;   (* the writer response r's pooledCodecWriter references *)
  p_sink : nat -> list seg;     (* bytes that reached response r's ResponseWriter *)
  p_pc : nat -> nat;            (* program counter of response r *)
  p_fresh : nat;                (* next writer id for pool.New *)
  p_picks : list (option nat)   (* honoured Get oracles, latest first *)
}.

Definition p_init : pst :=
  {| p_pool := []; p_wr := fun _ => idle; p_hold := fun _ => None; p_sink := fun _ => [];
     p_pc := fun _ => O; p_fresh := O; p_picks := [] |}.

Inductive pop := OGet | OReset | OWrite (k : nat) | OClose | OUnpin | OPut.

Definition op_at (ord : bool) (n pc : nat) : option pop :=
  if Nat.eqb pc 0 then Some OGet
  else if Nat.eqb pc 1 then Some OReset
  else if Nat.leb pc (n + 1) then Some (OWrite (pc - 2))
  else if Nat.eqb pc (n + 2) then Some OClose
  else if Nat.eqb pc (n + 3) then Some (if ord then OUnpin else OPut)
  else if Nat.eqb pc (n + 4) then Some (if ord then OPut else OUnpin)
  else None.

Definition memn (w : nat) (l : list nat) : bool := existsb (Nat.eqb w) l.
Definition remn (w : nat) (l : list nat) : list nat := filter (fun x => negb (Nat.eqb x w)) l.

(* enc.Reset(d): an unfinished stream is abandoned where it was going *)
Definition reset_sink (s : pst) (w : nat) : nat -> list seg :=
  match w_dst (p_wr s w), w_stream (p_wr s w) with
  | Some t, _ :: _ => upd (p_sink s) t (p_sink s t ++ [Torn])
  | _, _ => p_sink s
  end.

Definition set_pc (s : pst) (r : nat) : nat -> nat := upd (p_pc s) r (S (p_pc s r)).

(* the oracle of a Get: Some r' = the pool hands out the writer r' references,
   honoured only if that writer is in the pool; anything else = pool.New *)
Definition pick_writer (s : pst) (pick : option nat) : option nat :=
  match pick with
  | Some r' => match p_hold s r' with
               | Some w => if memn w (p_pool s) then Some w else None
               | None => None
               end
  | None => None
  end.

Definition apply_op (s : pst) (r : nat) (pick : option nat) (chunk : N) (o : pop) : pst :=
  match o with
  | OGet =>
      match pick_writer s pick with
      | Some w => {| p_pool := remn w (p_pool s); p_wr := p_wr s; p_hold := upd (p_hold s) r (Some w);
                     p_sink := p_sink s; p_pc := set_pc s r; p_fresh := p_fresh s;
                     p_picks := pick :: p_picks s |}
      | None => {| p_pool := p_pool s; p_wr := p_wr s; p_hold := upd (p_hold s) r (Some (p_fresh s));
                   p_sink := p_sink s; p_pc := set_pc s r; p_fresh := S (p_fresh s);
                   p_picks := None :: p_picks s |}
      end
  | _ =>
      match p_hold s r with
      | None => s
      | Some w =>
          match o with
          | OGet => s
          | OReset =>
              {| p_pool := p_pool s; p_wr := upd (p_wr s) w {| w_dst := Some r; w_stream := [] |};
                 p_hold := p_hold s; p_sink := reset_sink s w; p_pc := set_pc s r;
                 p_fresh := p_fresh s; p_picks := p_picks s |}
          | OWrite _ =>
              {| p_pool := p_pool s;
                 p_wr := upd (p_wr s) w {| w_dst := w_dst (p_wr s w); w_stream := chunk :: w_stream (p_wr s w) |};
                 p_hold := p_hold s; p_sink := p_sink s; p_pc := set_pc s r;
                 p_fresh := p_fresh s; p_picks := p_picks s |}
          | OClose =>
              {| p_pool := p_pool s;
                 p_wr := upd (p_wr s) w {| w_dst := w_dst (p_wr s w); w_stream := [] |};
                 p_hold := p_hold s;
                 p_sink := match w_dst (p_wr s w) with
                           | Some t => upd (p_sink s) t (p_sink s t ++ [Complete (rev (w_stream (p_wr s w)))])
                           | None => p_sink s
                           end;
                 p_pc := set_pc s r; p_fresh := p_fresh s; p_picks := p_picks s |}
          | OUnpin =>
              {| p_pool := p_pool s; p_wr := upd (p_wr s) w idle;
                 p_hold := p_hold s; p_sink := reset_sink s w; p_pc := set_pc s r;
                 p_fresh := p_fresh s; p_picks := p_picks s |}
          | OPut =>
              {| p_pool := w :: p_pool s; p_wr := p_wr s; p_hold := p_hold s; p_sink := p_sink s;
                 p_pc := set_pc s r; p_fresh := p_fresh s; p_picks := p_picks s |}
          end
      end
  end.

Definition body_of (bodies : list (list N)) (r : nat) : list N := nth r bodies [].

(* one schedule item: response r runs its next step (nothing once its program is over) *)
Definition pstep (ord : bool) (bodies : list (list N)) (s : pst) (rp : nat * option nat) : pst :=
  let '(r, pick) := rp in
  let bd := body_of bodies r in
  match op_at ord (length bd) (p_pc s r) with
  | Some o => apply_op s r pick (nth (p_pc s r - 2) bd 0) o
  | None => s
  end.

Definition prun (ord : bool) (bodies : list (list N)) (sched : list (nat * option nat)) : pst :=
  fold_left (pstep ord bodies) sched p_init.

(* pair each response's first schedule item (its Get) with the next oracle *)
Fixpoint attach (seen rids oracle : list nat) : list (nat * option nat) :=
  match rids with
  | [] => []
  | r :: t =>
      if memn r seen then (r, None) :: attach seen t oracle
      else match oracle with
           | o :: os => (r, match o with O => None | S r' => Some r' end) :: attach (r :: seen) t os
           | [] => (r, None) :: attach (r :: seen) t []
           end
  end.

Definition seg_eqb (a b : seg) : bool :=
  match a, b with
  | Complete x, Complete y => list_eqb N.eqb x y
  | Torn, Torn => true
  | _, _ => false
  end.

(* response r's wire is as it must be at its stage: nothing before its codec
   Close, exactly one complete stream of its own chunks after *)
Definition resp_ok (bodies : list (list N)) (s : pst) (r : nat) : bool :=
  let bd := body_of bodies r in
  if Nat.leb (length bd + 3) (p_pc s r)
  then list_eqb seg_eqb (p_sink s r) [Complete bd]
  else list_eqb seg_eqb (p_sink s r) [].

(* ---- SPEC for the pool: a Get may hand response r the writer that response r'
   references only when r' has run its whole program (it is no longer live).
   Written over the bare schedule: cnt r = how often r was scheduled. *)
Fixpoint s_picks_legal (bodies : list (list N)) (cnt : nat -> nat) (rids : list nat)
         (picks : list (option nat)) : bool :=
  match rids with
  | [] => true
  | r :: t =>
      if Nat.eqb (cnt r) O then
        match picks with
        | p :: ps =>
            match p with
            | None => true
            | Some r' => Nat.leb (length (body_of bodies r') + 5) (cnt r')
            end && s_picks_legal bodies (upd cnt r 1%nat) t ps
        | [] => s_picks_legal bodies (upd cnt r 1%nat) t []
        end
      else s_picks_legal bodies (upd cnt r (S (cnt r))) t picks
  end.

(* ---- correspondence interface -------------------------------------------- *)
Inductive input :=
| Parse (h : bytes)
| Choose (custom standard : bytes) (prod : list bytes)
| Finish (enc : bytes) (uc : bool) (ctype : bytes) (body_nonempty : bool)
| Http (ops : list (Z * bool)) (custom standard : bytes) (ctype : bytes) (body_nonempty : bool)
(* overlapping compressed responses sharing one writer pool: chunk labels per
   response, the forced schedule (response ids), and the observed oracle of each
   Get in schedule order (0 = a writer nobody references, S r' = the one r' references) *)
| Pool (codec : bytes) (lvl : Z) (bodies : list (list N)) (rids : list nat) (oracle : list nat).

Inductive obs :=
| OParse (toks : list bytes)
| OChoose (enc : bytes) (uc : bool)
(* ce / xce: values of Content-Encoding / X-VGI-Content-Encoding ([] = absent);
   body_ok: the response is the handler's: its status code, and decoding the body
   with the stamped codec gives exactly the bytes the handler wrote (reference);
   raw_eq: the body bytes on the wire ARE the reference body (not compressed) *)
| OFinish (ce xce : bytes) (body_ok raw_eq : bool)
(* errs: SetCompressionLevel error per op; advert: VGI-Supported-Encodings
   (None = header absent); ctype_seen: observed Content-Type *)
| OHttp (errs : list bool) (advert : option bytes) (ctype_seen : bytes)
        (ce xce : bytes) (body_ok raw_eq : bool)
(* oks: per response, its body decodes (with the stamped codec) to exactly what was
   written to it; picks: per Get, in schedule order, Some r' = the pool handed out
   the writer that response r' references *)
| OPool (oks : list bool) (picks : list (option nat)).

Definition model (i : input) : obs :=
  match i with
  | Parse h => OParse (parse_accept h)
  | Choose cu st prod => let '(e, u) := choose cu st prod in OChoose e u
  | Finish enc uc ctype ne =>
      let '(ce, xce, z) := finish enc uc ctype ne in OFinish ce xce true (negb z)
  | Http ops cu st ctype ne =>
      let lvl := eff_level ops in
      let '(ce, xce, z) := serve lvl cu st ctype ne in
      OHttp (map set_err ops) (Some (advertise lvl)) ctype ce xce true (negb z)
  | Pool _ _ bodies rids oracle =>
      let s := prun true bodies (attach [] rids oracle) in
      OPool (map (resp_ok bodies s) (seq 0 (length bodies))) (rev (p_picks s))
  end.

Definition obs_eqb (a b : obs) : bool :=
  match a, b with
  | OParse x, OParse y => list_eqb beqb x y
  | OChoose e u, OChoose e' u' => beqb e e' && Bool.eqb u u'
  | OFinish c x k r, OFinish c' x' k' r' =>
      beqb c c' && beqb x x' && Bool.eqb k k' && Bool.eqb r r'
  | OHttp e a t c x k r, OHttp e' a' t' c' x' k' r' =>
      list_eqb Bool.eqb e e' && opt_eqb beqb a a' && beqb t t' && beqb c c' && beqb x x'
      && Bool.eqb k k' && Bool.eqb r r'
  | OPool k p, OPool k' p' => list_eqb Bool.eqb k k' && list_eqb (opt_eqb Nat.eqb) p p'
  | _, _ => false
  end.

(* ---- the property, decided on one observation (independent of [model]) ---- *)
(* stamped headers and wire bytes of a response that must NOT be compressed *)
Definition plain (ce xce : bytes) (raw_eq : bool) : bool :=
  negb (nonempty ce) && negb (nonempty xce) && raw_eq.

(* a response that went out compressed with codec c, stamped per the rule *)
Definition stamped (custom standard c ce xce : bytes) (raw_eq : bool) : bool :=
  let '(wce, wxce) := s_stamp custom standard c in
  beqb ce wce && beqb xce wxce && negb raw_eq.

Definition spec_ok (i : input) (o : obs) : bool :=
  match i, o with
  | Parse h, OParse toks =>
      (* same items in the same order of first occurrence, nothing empty, nothing twice *)
      list_eqb beqb toks (s_uniq (s_items h))
  | Choose cu st prod, OChoose e u =>
      match s_first prod (s_pref cu st) with
      | None => negb (nonempty e) && negb u
      | Some c => beqb e c && Bool.eqb u (s_only_custom cu st c)
      end
  | Finish enc uc ctype ne, OFinish ce xce ok raw_eq =>
      (* lossless; a negotiated codec is applied to non-empty Arrow bodies and to
         nothing else, and stamped on exactly the header the negotiation named *)
      ok &&
      (if nonempty enc && beqb ctype c17_arrow_content_type && ne
       then negb raw_eq
            && (if uc then beqb xce enc && negb (nonempty ce) else beqb ce enc && negb (nonempty xce))
       else plain ce xce raw_eq)
  | Http ops cu st ctype ne, OHttp errs advert ctype_seen ce xce ok raw_eq =>
      let lvl := eff_level ops in
      (* advertised set = what this configuration produces *)
      opt_eqb beqb advert (Some (join [COMMA; SP] (if (lvl <=? 0)%Z then [] else c17_supported_encodings)))
      (* lossless *)
      && ok
      (* a non-empty body of Arrow type is compressed with the codec that the
         ADVERTISED set and the client's order determine, stamped per the rule;
         everything else (no codec, identity first, non-Arrow, empty) goes out as is *)
      && match (if beqb ctype_seen c17_arrow_content_type && ne
                then s_first (match advert with Some a => s_items a | None => [] end) (s_pref cu st)
                else None) with
         | Some c => stamped cu st c ce xce raw_eq
         | None => plain ce xce raw_eq
         end
  | Pool _ _ bodies rids _, OPool oks picks =>
      (* every response decodes to its own body, and the pool never handed out a
         writer that a live response still references *)
      forallb (fun b => b) oks && Nat.eqb (length oks) (length bodies)
      && s_picks_legal bodies (fun _ => O) rids picks
  | _, _ => false
  end.
