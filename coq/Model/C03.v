(* Model/C03.v — no client-supplied bytes can crash the server or abort an HTTP
   exchange.  The dispatch decision trees of
     vgirpc/wire.go            ReadRequest
     vgirpc/server_serve.go    serveOne (pipe)
     vgirpc/server_unary.go / server_stream.go   serveUnary / serveStream
     vgirpc/types_deserialize.go deserializeParams (+ types_serialize.go deserializeArrowSerializable)
     vgirpc/http_unary.go      handleUnary, http_helpers.go handleDescribe / readHTTPBody
     vgirpc/http_stream.go     handleStreamInit / handleStreamExchange
     vgirpc/http_state.go      openToken / unpackTokenPayload / resolveCall
     vgirpc/http_upload_url.go handleUploadURLInit, introspect_token.go handleIntrospectToken
   over a request whose custom metadata is CONCRETE (a list of byte-string pairs,
   any length, any content) and whose batch is abstracted to its row count and a
   schema class with (recursively nested) binary IPC payloads.
   PARTIAL primitives of the Go code — reading row 0, a reflect setter on the
   wrong Kind, a type assertion on a token's state, slicing a token — return
   [Panic] unless the guard the code establishes holds; [recov] sits exactly
   where the code has a recover.  A [Panic] that reaches the top of a route is
   the outcome [OEscaped].  The [legacy] flags switch the three repairs off. *)
From Coq Require Import List NArith Bool ZArith.
From VR Require Export Lib.Strs Gen.Consts.
From VR Require Model.C10.
Import ListNotations.
Open Scope N_scope.

(* ---- results with panics --------------------------------------------------- *)
Inductive res (A : Type) := Ret (a : A) | Err (e : bytes) | Panic.
Arguments Ret {A} a. Arguments Err {A} e. Arguments Panic {A}.

Definition bind {A B} (r : res A) (f : A -> res B) : res B :=
  match r with Ret a => f a | Err e => Err e | Panic => Panic end.
Notation "x ;; y" := (bind x (fun _ => y)) (at level 61, right associativity).

(* error classes (exception_type on the wire) *)
Definition e_protocol := str "ProtocolError".
Definition e_version := str "VersionError".
Definition e_type := str "TypeError".
Definition e_io := str "IOError".
Definition e_runtime := exc_runtime_error.

(* defer func(){ if recover() != nil { err = ... } }() *)
Definition recov {A} (on : bool) (r : res A) : res A :=
  if on then match r with Panic => Err e_type | x => x end else r.

(* ---- batches ---------------------------------------------------------------- *)
(* schema classes of the harness surface: PInt = {x:int64}, PSer = {p:binary}
   holding the IPC stream of SerP = {a:float64}; a wrapped request is a single
   binary column named request. *)
Inductive payload := PNull | PEmpty | PGarbage | PNoBatch | PBatch (rows : N) (c : cols)
with cols :=
  | CNone                (* zero fields *)
  | CX                   (* {x:int64}    = PInt *)
  | CX32                 (* {x:int32}    castable to PInt / the exchange input schema *)
  | CXs                  (* {x:utf8}     same name, not castable (value abc) *)
  | CP (p : payload)     (* {p:binary}   = PSer; p = row 0 *)
  | CReq (p : payload)   (* {request:binary}; p = row 0 *)
  | CA                   (* {a:float64}  = SerP *)
  | CAs                  (* {a:utf8}     SerP with another inner type *)
  | COther.              (* anything else with at least one field *)

Inductive target := TInt | TSer.

Definition nfields_pos (c : cols) : bool := match c with CNone => false | _ => true end.

Definition schema_eq (t : target) (c : cols) : bool :=
  match t, c with TInt, CX => true | TSer, CP _ => true | _, _ => false end.

(* PARTIAL: col.IsNull(0) / col.Value(0) index the column buffers *)
Definition row0 (rows : N) : res unit := if rows =? 0 then Panic else Ret tt.

(* PARTIAL: reflect.Value.SetFloat / SetString on a float64 field *)
Inductive akind := KFloat | KString.
Definition set_float_field (k : akind) : res unit :=
  match k with KFloat => Ret tt | KString => Panic end.

(* deserializeArrowSerializable(SerP, data): no schema comparison at all *)
Definition deser_ser (p : payload) : res unit :=
  match p with
  | PNull => Ret tt
  | PEmpty | PGarbage | PNoBatch => Err e_type
  | PBatch rows c =>
      match c with
      | CA => row0 rows ;; set_float_field KFloat
      | CAs => row0 rows ;; set_float_field KString
      | _ => Ret tt                       (* no column named a: the field stays zero *)
      end
  end.

(* deserializeParams.  [rcv]: the recover at its boundary (fix 17a92dc);
   [guard]: the rows<1 check (fix a41386f). *)
Fixpoint deser (rcv guard : bool) (t : target) (rows : N) (c : cols) {struct c} : res unit :=
  recov rcv (
    let flat :=
      if schema_eq t c then
        if guard && (rows <? 1) then Err e_type
        else match c with
             | CX => row0 rows
             | CP p => row0 rows ;; match p with PNull => Ret tt | _ => deser_ser p end
             | _ => Ret tt
             end
      else Err e_type in
    match c with
    | CReq p =>
        if 0 <? rows then                    (* binCol.Len() > 0 *)
          match p with
          | PNull | PEmpty | PNoBatch => flat (* null / no bytes / no batch: fall through *)
          | PGarbage => Err e_type
          | PBatch r' c' => deser rcv guard t r' c'
          end
        else flat
    | _ => flat
    end).

(* ---- metadata (concrete) ---------------------------------------------------- *)
Definition kv := (bytes * bytes)%type.

Fixpoint get_first (k : bytes) (m : list kv) : option bytes :=      (* arrow.Metadata.GetValue *)
  match m with
  | [] => None
  | (k', v) :: t => if beqb k k' then Some v else get_first k t
  end.
Definition get_last (k : bytes) (m : list kv) : option bytes := get_first k (rev m).  (* the map built by ReadRequest *)
Definition has (k : bytes) (m : list kv) : bool := match get_first k m with Some _ => true | None => false end.

(* utf8.ValidString *)
Definition cont (c : N) : bool := (128 <=? c) && (c <=? 191).
Fixpoint valid_utf8_fuel (n : nat) (s : bytes) : bool :=
  match n with
  | O => true
  | S n' =>
    match s with
    | [] => true
    | c :: t =>
      if c <? 128 then valid_utf8_fuel n' t
      else if (194 <=? c) && (c <=? 223) then
        match t with c1 :: t' => cont c1 && valid_utf8_fuel n' t' | _ => false end
      else if (224 <=? c) && (c <=? 239) then
        match t with
        | c1 :: c2 :: t' =>
            cont c1 && cont c2
            && (if c =? 224 then 160 <=? c1 else true)
            && (if c =? 237 then c1 <=? 159 else true)
            && valid_utf8_fuel n' t'
        | _ => false
        end
      else if (240 <=? c) && (c <=? 244) then
        match t with
        | c1 :: c2 :: c3 :: t' =>
            cont c1 && cont c2 && cont c3
            && (if c =? 240 then 144 <=? c1 else true)
            && (if c =? 244 then c1 <=? 143 else true)
            && valid_utf8_fuel n' t'
        | _ => false
        end
      else false
    end
  end.
Definition valid_utf8 (s : bytes) : bool := valid_utf8_fuel (S (length s)) s.

(* ---- request bodies --------------------------------------------------------- *)
Inductive body :=
  | BGarbage          (* ipc.NewReader fails *)
  | BNoBatchErr       (* schema read, the first Next fails with an error *)
  | BNoBatch          (* schema then end of stream *)
  | BFatal            (* the IPC reader asks the runtime for memory it cannot map: the Go runtime
                         throws a fatal error that no recover catches (arrow-go sizes a slice from a
                         client-supplied flatbuffer vector length) — the process dies *)
  | BBatch (meta : list kv) (rows : N) (c : cols).

(* IsShmPointerBatch *)
Definition is_shm_ptr (meta : list kv) (rows : N) : bool :=
  (rows =? 0) && has c03_meta_shm_offset meta && negb (has c03_meta_log_level meta).

Inductive rr := RClose | RDead | RFail (e : bytes) | ROk (method : bytes) (meta : list kv) (rows : N) (c : cols).

(* ReadRequest; no partial operation in it *)
Definition read_request (b : body) : rr :=
  match b with
  | BGarbage | BNoBatchErr | BNoBatch => RClose
  | BFatal => RDead
  | BBatch meta rows c =>
      match get_first c03_meta_method meta with
      | None => RFail e_protocol
      | Some m =>
          if negb (valid_utf8 m) then RFail e_protocol else
          match get_first c03_meta_request_version meta with
          | None => RFail e_version
          | Some v =>
              if negb (beqb v c03_request_version) then RFail e_version else
              if nfields_pos c && negb (rows =? 1) && negb (has c03_meta_location meta)
                 && negb (is_shm_ptr meta rows)
              then RFail e_protocol
              else ROk m meta rows c
          end
      end
  end.

(* ---- the method table of the harness surface -------------------------------- *)
Inductive mclass :=
  | MUnary (t : target) | MProducer (t : target) | MExchange | MDynamic
  | MDescribe | MTransport | MUnknown.

Definition mclass_of (m : bytes) : mclass :=
  if beqb m (str "u_int") then MUnary TInt
  else if beqb m (str "u_ser") then MUnary TSer
  else if beqb m (str "p_only") then MProducer TInt
  else if beqb m (str "p_ser") then MProducer TSer
  else if beqb m (str "e_only") then MExchange
  else if beqb m (str "dyn") then MDynamic
  else if beqb m c03_method_describe then MDescribe
  else if beqb m c03_method_transport_options then MTransport
  else MUnknown.

Definition is_stream (k : mclass) : bool :=
  match k with MProducer _ | MExchange | MDynamic => true | _ => false end.
Definition target_of (k : mclass) : target :=
  match k with MUnary t | MProducer t => t | _ => TInt end.

(* ---- observable outcome ------------------------------------------------------ *)
Inductive outcome := OClose | OOk | OErr (etype : bytes) | OEscaped.

Definition of_res (r : res unit) (ok : outcome) : outcome :=
  match r with Ret _ => ok | Err e => OErr e | Panic => OEscaped end.

(* the protocol-version gate (C10): the server declares 2.10.3 *)
Definition srv_pv := (str "2", str "10", str "3").
Definition pv_refused (pv : bool) (meta : list kv) : bool :=
  pv && match C10.gate srv_pv (get_last meta_protocol_version meta) with C10.Admit => false | _ => true end.

(* the three repairs *)
Record fixes := { f_recover : bool; f_rowguard : bool; f_tokbind : bool }.
Definition current := {| f_recover := true; f_rowguard := true; f_tokbind := true |}.

(* what the client writes behind a stream request on a pipe *)
Inductive instream := IValid | ICancel | IWrong.       (* IWrong: {x:utf8} batches *)

(* ---- pipe: serveOne ---------------------------------------------------------- *)
(* no shm segment is ever attached: the names a client advertises do not exist
   (ensure returns nil), so only the defensive pointer check can fire *)
Definition pipe_one (fx : fixes) (pv : bool) (b : body) (ins : instream) : outcome :=
  match read_request b with
  | RClose => OClose
  | RDead => OEscaped
  | RFail e => OErr e
  | ROk m meta rows c =>
      if is_shm_ptr meta rows then OErr e_io else
      match mclass_of m with
      | MDescribe | MTransport => OOk
      | MUnknown => OErr c03_exc_not_implemented
      | k =>
          if pv_refused pv meta then OErr pv_error_type else
          match deser (f_recover fx) (f_rowguard fx) (target_of k) rows c with
          | Panic => OEscaped
          | Err e => OErr e
          | Ret _ =>
              match k, ins with
              | MExchange, IWrong => OErr e_type       (* castRecordBatch refuses *)
              | _, _ => OOk
              end
          end
      end
  end.

(* ---- HTTP -------------------------------------------------------------------- *)
Inductive enc := EncNone | EncUnknown | EncBad.       (* Content-Encoding: none / br / zstd or gzip of garbage *)

(* token presented under vgi_rpc.stream_state: the value @TOK stands for a real
   sealed token of class [tokc]; any other value is the literal text sent *)
Inductive tokc :=
  | TOwn                 (* minted by this route's method, this key, fresh *)
  | TOther (k : mclass)  (* minted by another method's /init *)
  | TExpired | TOtherKey | TTampered | TBadVersion | TShort.
Inductive calltok := KAbsent | KValid | KGarbage | KOtherCall.

Inductive route := Pipe | HUnary | HInit | HExchange | HUpload | HIntrospect.

Record input := {
  i_route : route;
  i_pv : bool;              (* server declares protocol version 2.10.3 *)
  i_upload : bool;          (* an upload-URL provider is configured *)
  i_introspect : bool;      (* token introspection enabled *)
  i_path : bytes;           (* {method} of the URL *)
  i_ct : bytes;             (* Content-Type *)
  i_enc : enc;
  i_body : body;
  i_tok : tokc;
  i_calltok : calltok;
  i_cache_hit : bool;       (* continuation on the instance that served /init *)
  i_ins : instream;
  i_follow : bool }.        (* pipe: a valid unary request follows on the connection *)

Record obs := { o_out : outcome; o_status : N; o_errhdr : bool; o_next : bool }.

Definition hresp (st : N) (e : bytes) : obs :=
  if st =? 500 then {| o_out := OErr e; o_status := 200; o_errhdr := true; o_next := false |}
  else {| o_out := OErr e; o_status := st; o_errhdr := false; o_next := false |}.
Definition hok : obs := {| o_out := OOk; o_status := 200; o_errhdr := false; o_next := false |}.
Definition hescaped : obs := {| o_out := OEscaped; o_status := 0; o_errhdr := false; o_next := false |}.

Definition ct_ok (i : input) : bool := beqb (i_ct i) c03_arrow_content_type.

(* readHTTPBody then ReadRequest, as the unary / init / describe / upload routes do *)
Definition http_read (i : input) (k : bytes -> list kv -> N -> cols -> obs) : obs :=
  match i_enc i with
  | EncUnknown => hresp 415 e_runtime
  | EncBad => hresp 400 e_runtime
  | EncNone =>
      match read_request (i_body i) with
      | RClose => hresp 400 e_runtime
      | RDead => hescaped
      | RFail e => hresp 400 e
      | ROk m meta rows c => k m meta rows c
      end
  end.

Definition http_describe (i : input) : obs := http_read i (fun _ _ _ _ => hok).

Definition http_unary (fx : fixes) (i : input) : obs :=
  if negb (ct_ok i) then hresp 415 e_runtime else
  match mclass_of (i_path i) with
  | MDescribe => http_describe i
  | MUnknown | MTransport => hresp 404 c03_exc_not_implemented
  | MUnary t =>
      http_read i (fun m meta rows c =>
        if negb (beqb m (i_path i)) then hresp 400 e_protocol else
        if pv_refused (i_pv i) meta then hresp 400 pv_error_type else
        match deser (f_recover fx) (f_rowguard fx) t rows c with
        | Panic => hescaped
        | Err e => hresp 400 e
        | Ret _ => hok
        end)
  | _ => hresp 400 e_type
  end.

Definition http_init (fx : fixes) (i : input) : obs :=
  if negb (ct_ok i) then hresp 415 e_runtime else
  match mclass_of (i_path i) with
  | MDescribe | MUnknown | MTransport => hresp 404 c03_exc_not_implemented
  | MUnary _ => hresp 400 e_type
  | k =>
      http_read i (fun m meta rows c =>
        if negb (beqb m (i_path i)) then hresp 400 e_protocol else
        if pv_refused (i_pv i) meta then hresp 400 pv_error_type else
        match deser (f_recover fx) (f_rowguard fx) (target_of k) rows c with
        | Panic => hescaped
        | Err e => hresp 400 e
        | Ret _ => hok
        end)
  end.

(* which interface a method's state implements *)
Inductive stkind := SProd | SExch.
Definition state_of (k : mclass) : stkind := match k with MExchange => SExch | _ => SProd end.

(* PARTIAL: tokenData.State.(ProducerState) / .(ExchangeState), unchecked before the repair *)
Definition assert_state (checked : bool) (have want : stkind) : res unit :=
  match have, want with
  | SProd, SProd | SExch, SExch => Ret tt
  | _, _ => if checked then Err e_runtime else Panic
  end.

(* castRecordBatch against the exchange input schema {x:int64} *)
Definition cast_ok (c : cols) : bool := match c with CX | CX32 => true | _ => false end.

Definition tok_marker := str "@TOK".
Definition call_marker := str "@CALL".

Definition http_exchange (fx : fixes) (i : input) : obs :=
  if negb (ct_ok i) then hresp 415 e_runtime else
  match mclass_of (i_path i) with
  | MDescribe | MUnknown | MTransport => hresp 404 c03_exc_not_implemented
  | k =>
    match i_enc i with
    | EncUnknown => hresp 415 e_runtime
    | EncBad => hresp 400 e_runtime
    | EncNone =>
      match i_body i with
      | BGarbage | BNoBatchErr | BNoBatch => hresp 400 e_runtime
      | BFatal => hescaped
      | BBatch meta rows c =>
          let cancelled := has c03_meta_cancel meta in
          if negb cancelled && (match k with MExchange => true | _ => false end) && negb (cast_ok c)
          then hresp 400 e_type else
          match get_first c03_meta_stream_state meta with
          | None => hresp 400 e_runtime
          | Some v =>
              if negb (beqb v tok_marker) then hresp 400 e_runtime else   (* literal text: never a sealed token *)
              let opened : option mclass :=                            (* openCursorToken *)
                match i_tok i with
                | TOwn => Some k
                | TOther k' => Some k'
                | _ => None
                end in
              match opened with
              | None => hresp 400 e_runtime
              | Some minted =>
                  (* resolveCall *)
                  let call_ok :=
                    i_cache_hit i ||
                    match get_first c03_meta_call_state meta with
                    | Some cv => beqb cv call_marker && match i_calltok i with KValid => true | _ => false end
                    | None => false
                    end in
                  if negb call_ok then hresp 400 e_runtime else
                  if f_tokbind fx && negb (match i_tok i with TOwn => true | _ => false end)
                  then hresp 400 e_runtime else                         (* call.Method != method *)
                  let want := match k with
                              | MProducer _ => SProd
                              | MDynamic => state_of minted            (* from the state's own type *)
                              | _ => SExch
                              end in
                  match assert_state (f_tokbind fx) (state_of minted) want with
                  | Panic => hescaped
                  | Err e => hresp 400 e
                  | Ret _ => hok
                  end
              end
          end
      end
    end
  end.

Definition http_upload (i : input) : obs :=
  if negb (i_upload i) then {| o_out := OClose; o_status := 404; o_errhdr := false; o_next := false |} else
  if negb (ct_ok i) then hresp 415 e_runtime else
  http_read i (fun m _ _ _ =>
    if negb (beqb m c03_method_upload_url) then hresp 400 e_type else hok).   (* extractCount guards row 0 with Len() > 0 *)

(* anonymous callers only: introspection refuses before reading the body *)
Definition http_introspect (i : input) : obs :=
  {| o_out := OClose; o_status := if i_introspect i then 403 else 404; o_errhdr := false; o_next := false |}.

Definition run (fx : fixes) (i : input) : obs :=
  match i_route i with
  | Pipe =>
      let o := pipe_one fx (i_pv i) (i_body i) (i_ins i) in
      {| o_out := o; o_status := 0; o_errhdr := false;
         o_next := i_follow i && match o with OClose | OEscaped => false | _ => true end |}
  | HUnary => http_unary fx i
  | HInit => http_init fx i
  | HExchange => http_exchange fx i
  | HUpload => http_upload i
  | HIntrospect => http_introspect i
  end.

Definition model (i : input) : obs := run current i.

(* ---- comparing observations -------------------------------------------------- *)
Definition outcome_eqb (a b : outcome) : bool :=
  match a, b with
  | OClose, OClose | OOk, OOk | OEscaped, OEscaped => true
  | OErr x, OErr y => beqb x y
  | _, _ => false
  end.

Definition obs_eqb (a b : obs) : bool :=
  outcome_eqb (o_out a) (o_out b) && (o_status a =? o_status b)
  && Bool.eqb (o_errhdr a) (o_errhdr b) && Bool.eqb (o_next a) (o_next b).

(* ---- the property on one observation ------------------------------------------
   no panic escapes; over HTTP there is a status line; on a pipe the request is
   answered (ok / error stream) or the connection is closed cleanly, and a
   connection that answered keeps serving the next request. *)
Definition is_http (r : route) : bool := match r with Pipe => false | _ => true end.

Definition spec_ok (i : input) (o : obs) : bool :=
  match o_out o with
  | OEscaped => false
  | out =>
      if is_http (i_route i) then (100 <=? o_status o) && (o_status o <? 600)
      else match out with
           | OClose => negb (o_next o)
           | _ => Bool.eqb (o_next o) (i_follow i)
           end
  end.

(* ---- openToken / unpackTokenPayload over raw bytes ----------------------------
   base64, the AEAD and gob are oracles returning option (Section variables in
   Proofs); the slices are the partial operations. *)
Definition slice (s : bytes) (a b : nat) : res bytes :=                 (* s[a:b] *)
  if (Nat.leb a b) && (Nat.leb b (length s)) then Ret (firstn (b - a) (skipn a s)) else Panic.
Definition slice_from (s : bytes) (a : nat) : res bytes := slice s a (length s).   (* s[a:] *)
Definition index0 (s : bytes) : res N := match s with c :: _ => Ret c | [] => Panic end.  (* s[0] *)

Section OpenToken.
  Variable b64 : bytes -> option bytes.
  Variable aead_open : bytes -> bytes -> option bytes.      (* nonce, ciphertext *)
  Variable zstd_dec : bytes -> option bytes.
  Variable gob_dec : bytes -> option unit.
  Variable guarded : bool.          (* the length checks the code performs *)

  Definition unpack_payload (data : bytes) : res bytes :=
    if guarded && Nat.eqb (length data) 0 then Err e_runtime else
    bind (slice_from data 1) (fun body =>
    bind (index0 data) (fun tag =>
      if tag =? 0 then Ret body
      else if tag =? 1 then match zstd_dec body with Some p => Ret p | None => Err e_runtime end
      else Err e_runtime)).

  Definition open_token (version : N) (token : bytes) : res unit :=
    match b64 token with
    | None => Err e_runtime
    | Some raw =>
        if guarded && Nat.ltb (length raw) (Z.to_nat c03_token_min_len) then Err e_runtime else
        bind (index0 raw) (fun v0 =>
        if negb (v0 =? version) then Err e_runtime else
        bind (slice raw 1 (1 + Z.to_nat c03_token_nonce_len)) (fun nonce =>
        bind (slice_from raw (1 + Z.to_nat c03_token_nonce_len)) (fun ct =>
        match aead_open nonce ct with
        | None => Err e_runtime
        | Some sealed =>
            bind (unpack_payload sealed) (fun plain =>
            match gob_dec plain with Some _ => Ret tt | None => Err e_runtime end)
        end)))
    end.
End OpenToken.
