(* Model/C38.v — access-log records (vgirpc/accesslog.go OnDispatchEnd,
   accesslog_egress.go, accesslog_redact.go, accesslog_trace.go) and the way a
   stream id travels over HTTP (http_stream.go init/continuation,
   http_state.go packCallToken/resolveCall, server_serve.go for pipes).

   A record is a JSON object: the list of (key, value) in bytewise key order
   (encoding/json sorts map keys; the harness sorts what it parsed).
   [assemble] is record assembly as a pure function of one dispatch-info record.
   [run] is a history: requests against two nodes that share the token key
   (node 0 caches call state, node 1 never does), pipe calls, and direct hook
   invocations.  No proofs here. *)
From VR Require Export Lib.Strs Gen.Consts.
Open Scope N_scope.

(* ---- JSON values -------------------------------------------------------- *)
Inductive jv :=
| JStr (s : bytes) | JInt (z : Z) | JNum (* non-integral number *) | JBool (b : bool) | JNull
| JObj (kvs : list (bytes * jv)) | JArr (l : list jv)
| JBig (len : Z) (content_ok : bool).
  (* a string of [len] characters too long to hand over verbatim (the base64 of
     a large request): the harness passes its length and whether its content
     equals what the request's re-encoding predicts, checked outside Coq *)
Definition jrec := list (bytes * jv).

Fixpoint jv_eqb (a b : jv) : bool :=
  match a, b with
  | JStr x, JStr y => beqb x y
  | JInt x, JInt y => Z.eqb x y
  | JNum, JNum => true
  | JBool x, JBool y => Bool.eqb x y
  | JNull, JNull => true
  | JBig n a, JBig m b => Z.eqb n m && Bool.eqb a b
  | JObj x, JObj y =>
      (fix go (x y : list (bytes * jv)) : bool :=
         match x, y with
         | [], [] => true
         | (k, v) :: x', (k', v') :: y' => beqb k k' && jv_eqb v v' && go x' y'
         | _, _ => false
         end) x y
  | JArr x, JArr y =>
      (fix go (x y : list jv) : bool :=
         match x, y with
         | [], [] => true
         | v :: x', v' :: y' => jv_eqb v v' && go x' y'
         | _, _ => false
         end) x y
  | _, _ => false
  end.

Definition keys (r : jrec) : list bytes := map fst r.
Fixpoint lookup (k : bytes) (r : jrec) : option jv :=
  match r with
  | [] => None
  | (k', v) :: t => if beqb k k' then Some v else lookup k t
  end.

(* ---- keys --------------------------------------------------------------- *)
Definition K_auth_domain := Eval compute in str "auth_domain".
Definition K_authenticated := Eval compute in str "authenticated".
Definition K_cancelled := Eval compute in str "cancelled".
Definition K_claims := Eval compute in str "claims".
Definition K_duration_ms := Eval compute in str "duration_ms".
Definition K_error_message := Eval compute in str "error_message".
Definition K_error_type := Eval compute in str "error_type".
Definition K_externalized_bytes := Eval compute in str "externalized_bytes".
Definition K_http_status := Eval compute in str "http_status".
Definition K_input_batches := Eval compute in str "input_batches".
Definition K_input_bytes := Eval compute in str "input_bytes".
Definition K_input_rows := Eval compute in str "input_rows".
Definition K_level := Eval compute in str "level".
Definition K_logger := Eval compute in str "logger".
Definition K_message := Eval compute in str "message".
Definition K_method := Eval compute in str "method".
Definition K_method_type := Eval compute in str "method_type".
Definition K_original_request_bytes := Eval compute in str "original_request_bytes".
Definition K_output_batches := Eval compute in str "output_batches".
Definition K_output_bytes := Eval compute in str "output_bytes".
Definition K_output_rows := Eval compute in str "output_rows".
Definition K_principal := Eval compute in str "principal".
Definition K_protocol := Eval compute in str "protocol".
Definition K_protocol_hash := Eval compute in str "protocol_hash".
Definition K_remote_addr := Eval compute in str "remote_addr".
Definition K_request_bytes := Eval compute in str "request_bytes".
Definition K_request_data := Eval compute in str "request_data".
Definition K_request_id := Eval compute in str "request_id".
Definition K_response_bytes := Eval compute in str "response_bytes".
Definition K_server_id := Eval compute in str "server_id".
Definition K_server_version := Eval compute in str "server_version".
Definition K_span_id := Eval compute in str "span_id".
Definition K_status := Eval compute in str "status".
Definition K_stream_id := Eval compute in str "stream_id".
Definition K_timestamp := Eval compute in str "timestamp".
Definition K_trace_id := Eval compute in str "trace_id".
Definition K_truncated := Eval compute in str "truncated".

Definition epoch_ts := Eval compute in str "1970-01-01T00:00:00.000Z".
Definition S_error := Eval compute in str "error".
Definition S_Error := Eval compute in str "Error".

(* ---- trace correlation (accesslog_trace.go) ------------------------------ *)
Definition is_lhex (c : N) : bool := ((48 <=? c) && (c <=? 57)) || ((97 <=? c) && (c <=? 102)).
Definition lower_hex (n : nat) (s : bytes) : bool := Nat.eqb (length s) n && forallb is_lhex s.

(* what the installed TraceContextFunc does on this dispatch *)
Inductive provider := PNone | PRet (t s : bytes) | PPanic.

Definition trace_ctx (p : provider) : option (bytes * bytes) :=
  match p with
  | PRet t s => if lower_hex 32 t && lower_hex 16 s then Some (t, s) else None
  | PNone | PPanic => None
  end.

(* ---- claim redaction (accesslog_redact.go) ------------------------------- *)
Definition contains (sub s : bytes) : bool :=
  match index sub s with Some _ => true | None => false end.

(* defaultClaimRedactPattern on ASCII keys: (?i) substring alternatives plus
   exact names; both lists are regenerated from the compiled pattern *)
Definition sensitive (k : bytes) : bool :=
  let l := to_lower k in
  existsb (fun w => contains w l) al_redact_words || existsb (beqb l) al_redact_exact.

Definition redact_with (f : bytes -> bool) (c : jrec) : jrec :=
  map (fun kv => if f (fst kv) then (fst kv, JStr al_redacted) else kv) c.

Inductive redactor :=
| RDefault                 (* nothing installed: RedactClaims *)
| RNoRedaction             (* NoClaimRedaction *)
| RKeys (ks : list bytes)  (* custom: replaces the values of exactly these keys *)
| RDrop                    (* custom: returns an empty / nil map *)
| RPanic.                  (* custom: panics *)

Definition in_keys (ks : list bytes) (k : bytes) : bool := existsb (beqb k) ks.

(* None = the claims were dropped by the fail-closed recover *)
Definition apply_redaction (r : redactor) (c : jrec) : option jrec :=
  match r with
  | RDefault => Some (redact_with sensitive c)
  | RNoRedaction => Some c
  | RKeys ks => Some (redact_with (in_keys ks) c)
  | RDrop => Some []
  | RPanic => None
  end.

Definition claims_field (r : redactor) (c : jrec) : option jv :=
  match c with
  | [] => None
  | _ => match apply_redaction r c with
         | Some (kv :: t) => Some (JObj (kv :: t))
         | _ => None
         end
  end.

(* ---- base64.StdEncoding -------------------------------------------------- *)
Definition b64c (n : N) : N :=
  if n <? 26 then 65 + n else if n <? 52 then 97 + (n - 26)
  else if n <? 62 then 48 + (n - 52) else if n =? 62 then 43 else 47.

Fixpoint b64 (s : bytes) : bytes :=
  match s with
  | [] => []
  | [a] => [b64c (a / 4); b64c ((a mod 4) * 16); 61; 61]
  | [a; b] => [b64c (a / 4); b64c ((a mod 4) * 16 + b / 16); b64c ((b mod 16) * 4); 61]
  | a :: b :: c :: t =>
      b64c (a / 4) :: b64c ((a mod 4) * 16 + b / 16) :: b64c ((b mod 16) * 4 + c / 64)
      :: b64c (c mod 64) :: b64 t
  end.

(* DispatchInfo.RequestData: the bytes themselves, or — for a large request —
   only their number (content elided; base64 length is 4 * ceil(n / 3)) *)
Inductive payload := PBytes (b : bytes) | PBig (n : N).

Definition b64len (n : N) : Z := (4 * ((Z.of_N n + 2) / 3))%Z.
Definition has_payload_p (p : payload) : bool :=
  match p with PBytes [] => false | PBytes _ => true | PBig n => 0 <? n end.
Definition payload_data (p : payload) : jv :=
  match p with PBytes b => JStr (b64 b) | PBig n => JBig (b64len n) true end.
Definition payload_len (p : payload) : Z :=
  match p with PBytes b => Z.of_nat (length (b64 b)) | PBig n => b64len n end.

(* ---- the dispatch-info record -------------------------------------------- *)
Record auth := {
  a_principal : bytes; a_domain : bytes; a_authenticated : bool; a_claims : jrec }.

Inductive err := ENone | ERpc (type msg : bytes) | EOther (msg : bytes).

(* the request's egressRecorder (HTTP only) *)
Record egress := {
  g_request_id : bytes;      (* transport correlation id *)
  g_content_length : Z;      (* r.ContentLength; -1 = not declared *)
  g_externalized : Z;
  g_writes : list Z }.       (* byte counts accepted by the writer under countingResponseWriter *)

Record stats := {
  s_in_batches : Z; s_out_batches : Z; s_in_rows : Z; s_out_rows : Z; s_in_bytes : Z; s_out_bytes : Z }.

Record dinfo := {
  d_method : bytes; d_stream : bool; d_protocol : bytes; d_server_id : bytes; d_hash : bytes;
  d_request_id : bytes;          (* DispatchInfo.RequestID *)
  d_remote : bytes; d_http_status : Z;
  d_payload : payload;           (* DispatchInfo.RequestData *)
  d_stream_id : bytes;           (* DispatchInfo.StreamID *)
  d_fresh_sid : bytes;           (* oracle: what RandomStreamID returns if asked now *)
  d_cancelled : bool;
  d_auth : option auth;
  d_err : err;
  d_stats : option stats;
  d_egress : option egress;
  (* configuration in force for this dispatch *)
  d_debug : bool; d_server_version : bytes; d_trace : provider; d_redactor : redactor }.

Definition err_type (e : err) : bytes :=
  match e with ENone => [] | ERpc t _ => t | EOther _ => S_Error end.
Definition err_msg (e : err) : bytes :=
  match e with ENone => [] | ERpc _ m => m | EOther m => m end.
Definition status_of (e : err) : bytes := match e with ENone => al_status_ok | _ => S_error end.

Definition request_bytes (g : egress) : Z := if (0 <? g_content_length g)%Z then g_content_length g else 0%Z.
(* countingResponseWriter: a fold over the chain of writes *)
Definition response_bytes (g : egress) : Z := fold_left Z.add (g_writes g) 0%Z.

Definition stats_sum (s : stats) : Z :=
  (s_in_batches s + s_out_batches s + s_in_rows s + s_out_rows s + s_in_bytes s + s_out_bytes s)%Z.
Definition stats_on (d : dinfo) : bool :=
  match d_stats d with Some s => negb (stats_sum s =? 0)%Z | None => false end.
Definition stat (d : dinfo) (f : stats -> Z) : jv :=
  match d_stats d with Some s => JInt (f s) | None => JInt 0 end.

Definition stream_id_of (d : dinfo) : bytes :=
  match d_stream_id d with [] => d_fresh_sid d | s => s end.

Definition request_id_of (d : dinfo) : bytes :=
  match d_request_id d with
  | [] => match d_egress d with Some g => g_request_id g | None => [] end
  | s => s
  end.

Definition nonempty (s : bytes) : bool := match s with [] => false | _ => true end.
Definition has_payload (d : dinfo) : bool := has_payload_p (d_payload d).
Definition a_str (d : dinfo) (f : auth -> bytes) : jv :=
  match d_auth d with Some a => JStr (f a) | None => JStr [] end.
Definition opt_jv (o : option jv) : bool * jv :=
  match o with Some v => (true, v) | None => (false, JNull) end.
Definition on_egress (d : dinfo) (f : egress -> Z) : bool * jv :=
  match d_egress d with Some g => (true, JInt (f g)) | None => (false, JNull) end.

(* every field the emitter can write, in bytewise key order: (present, (key, value)) *)
Definition tr_of (d : dinfo) := trace_ctx (d_trace d).
Definition cl_of (d : dinfo) : bool * jv :=
  opt_jv (match d_auth d with Some a => claims_field (d_redactor d) (a_claims a) | None => None end).
Definition has_tr (d : dinfo) : bool := match tr_of d with Some _ => true | None => false end.

Definition fields (d : dinfo) : list (bool * (bytes * jv)) :=
  [ (true, (K_auth_domain, a_str d a_domain));
    (true, (K_authenticated, JBool (match d_auth d with Some a => a_authenticated a | None => false end)));
    (d_cancelled d, (K_cancelled, JBool true));
    (fst (cl_of d), (K_claims, snd (cl_of d)));
    (true, (K_duration_ms, JNum));
    (nonempty (err_msg (d_err d)), (K_error_message, JStr (err_msg (d_err d))));
    (true, (K_error_type, JStr (err_type (d_err d))));
    (match d_egress d with Some g => (0 <? g_externalized g)%Z | None => false end,
      (K_externalized_bytes, snd (on_egress d g_externalized)));
    ((0 <? d_http_status d)%Z, (K_http_status, JInt (d_http_status d)));
    (stats_on d, (K_input_batches, stat d s_in_batches));
    (stats_on d, (K_input_bytes, stat d s_in_bytes));
    (stats_on d, (K_input_rows, stat d s_in_rows));
    (true, (K_level, JStr al_level));
    (true, (K_logger, JStr al_logger));
    (true, (K_message, JStr (d_protocol d ++ [46] ++ d_method d ++ [32] ++ status_of (d_err d))));
    (true, (K_method, JStr (d_method d)));
    (true, (K_method_type, JStr (if d_stream d then al_stream else al_unary)));
    (has_payload d && negb (d_debug d),
      (K_original_request_bytes, JInt (payload_len (d_payload d))));
    (stats_on d, (K_output_batches, stat d s_out_batches));
    (stats_on d, (K_output_bytes, stat d s_out_bytes));
    (stats_on d, (K_output_rows, stat d s_out_rows));
    (true, (K_principal, a_str d a_principal));
    (true, (K_protocol, JStr (d_protocol d)));
    (true, (K_protocol_hash, JStr (d_hash d)));
    (true, (K_remote_addr, JStr (d_remote d)));
    (fst (on_egress d request_bytes), (K_request_bytes, snd (on_egress d request_bytes)));
    (has_payload d && d_debug d, (K_request_data, payload_data (d_payload d)));
    (nonempty (request_id_of d), (K_request_id, JStr (request_id_of d)));
    (fst (on_egress d response_bytes), (K_response_bytes, snd (on_egress d response_bytes)));
    (true, (K_server_id, JStr (d_server_id d)));
    (nonempty (d_server_version d), (K_server_version, JStr (d_server_version d)));
    (has_tr d, (K_span_id, JStr (match tr_of d with Some (_, s) => s | None => [] end)));
    (true, (K_status, JStr (status_of (d_err d))));
    (d_stream d, (K_stream_id, JStr (stream_id_of d)));
    (true, (K_timestamp, JStr epoch_ts));
    (has_tr d, (K_trace_id, JStr (match tr_of d with Some (t, _) => t | None => [] end)));
    (has_payload d && negb (d_debug d), (K_truncated, JStr al_payload_omitted)) ].

Fixpoint select (fs : list (bool * (bytes * jv))) : jrec :=
  match fs with
  | [] => []
  | (true, kv) :: t => kv :: select t
  | (false, _) :: t => select t
  end.

Definition assemble (d : dinfo) : jrec := select (fields d).

(* ---- record_ok: the spec's shape, decided on one record ------------------- *)
Fixpoint nodupb (l : list bytes) : bool :=
  match l with [] => true | x :: t => negb (existsb (beqb x) t) && nodupb t end.

Definition is_digit (c : N) : bool := (48 <=? c) && (c <=? 57).
(* 2006-01-02T15:04:05.000Z *)
Fixpoint match_tpl (tpl s : bytes) : bool :=
  match tpl, s with
  | [], [] => true
  | p :: tpl', c :: s' => (if p =? 100 then is_digit c else c =? p) && match_tpl tpl' s'
  | _, _ => false
  end.
Definition ts_template := Eval compute in str "dddd-dd-ddTdd:dd:dd.dddZ".   (* d = one digit *)
Definition timestamp_ok (s : bytes) : bool := match_tpl ts_template s.

Definition is_str (v : jv) : bool := match v with JStr _ => true | _ => false end.
Definition is_bool (v : jv) : bool := match v with JBool _ => true | _ => false end.
Definition is_count (v : jv) : bool := match v with JInt z => (0 <=? z)%Z | _ => false end.
Definition is_number (v : jv) : bool :=
  match v with JInt z => (0 <=? z)%Z | JNum => true | _ => false end.
Definition str_sat (p : bytes -> bool) (v : jv) : bool := match v with JStr s => p s | _ => false end.
Definition str_is (x : bytes) : jv -> bool := str_sat (beqb x).

(* required: present and well-typed; optional: well-typed when present *)
Definition req (k : bytes) (p : jv -> bool) (r : jrec) : bool :=
  match lookup k r with Some v => p v | None => false end.
Definition opt (k : bytes) (p : jv -> bool) (r : jrec) : bool :=
  match lookup k r with Some v => p v | None => true end.
Definition has (k : bytes) (r : jrec) : bool :=
  match lookup k r with Some _ => true | None => false end.

Definition is_stream_rec (r : jrec) : bool := req K_method_type (str_is al_stream) r.

Definition stat_keys : list bytes :=
  [K_input_batches; K_input_bytes; K_input_rows; K_output_batches; K_output_bytes; K_output_rows].

Definition required_ok (r : jrec) : bool :=
  req K_timestamp (str_sat timestamp_ok) r && req K_level (str_is al_level) r
  && req K_logger (str_is al_logger) r && req K_message is_str r && req K_server_id is_str r
  && req K_protocol is_str r && req K_protocol_hash is_str r && req K_method is_str r
  && req K_method_type (fun v => str_is al_unary v || str_is al_stream v) r
  && req K_principal is_str r && req K_auth_domain is_str r && req K_authenticated is_bool r
  && req K_remote_addr is_str r && req K_duration_ms is_number r
  && req K_status (fun v => str_is al_status_ok v || str_is S_error v) r && req K_error_type is_str r.

Definition optional_ok (r : jrec) : bool :=
  opt K_error_message (str_sat nonempty) r && opt K_server_version (str_sat nonempty) r
  && opt K_request_id (str_sat nonempty) r && opt K_http_status is_count r
  && opt K_cancelled (fun v => match v with JBool true => true | _ => false end) r
  && opt K_request_bytes is_count r && opt K_response_bytes is_count r
  && opt K_externalized_bytes is_count r
  && Bool.eqb (has K_request_bytes r) (has K_response_bytes r)
  && forallb (fun k => opt k is_count r) stat_keys
  && (forallb (fun k => has k r) stat_keys || forallb (fun k => negb (has k r)) stat_keys).

(* a 32-hex stream id on every stream record, none on a unary one *)
Definition stream_id_ok (r : jrec) : bool :=
  if is_stream_rec r then req K_stream_id (str_sat (lower_hex 32)) r else negb (has K_stream_id r).

(* trace and span ids both present and well-formed, or both absent *)
Definition trace_ok (r : jrec) : bool :=
  match lookup K_trace_id r, lookup K_span_id r with
  | None, None => true
  | Some t, Some s => str_sat (lower_hex 32) t && str_sat (lower_hex 16) s
  | _, _ => false
  end.

Definition strlike_nonempty (v : jv) : bool :=
  match v with JStr s => nonempty s | JBig n ok => (0 <? n)%Z && ok | _ => false end.

(* never both the payload and the omitted-marker; the marker comes with its size *)
Definition payload_ok (r : jrec) : bool :=
  match lookup K_request_data r, lookup K_truncated r with
  | Some v, None => strlike_nonempty v && negb (has K_original_request_bytes r)
  | None, Some m => str_is al_payload_omitted m && req K_original_request_bytes is_count r
  | None, None => negb (has K_original_request_bytes r)
  | Some _, Some _ => false
  end.
Definition has_payload_or_marker (r : jrec) : bool := has K_request_data r || has K_truncated r.

Definition claims_shape_ok (r : jrec) : bool :=
  opt K_claims (fun v => match v with JObj (_ :: _) => true | _ => false end) r.

Definition record_ok (r : jrec) : bool :=
  nodupb (keys r) && required_ok r && optional_ok r && stream_id_ok r && trace_ok r
  && payload_ok r && claims_shape_ok r.

(* claims as logged against the raw claims, for a key predicate [f]: same keys
   in the same order, a matched key carries the placeholder, others unchanged *)
Fixpoint redacted_by (f : bytes -> bool) (raw out : jrec) : bool :=
  match raw, out with
  | [], [] => true
  | (k, v) :: raw', (k', v') :: out' =>
      beqb k k' && (if f k then jv_eqb v' (JStr al_redacted) else jv_eqb v' v) && redacted_by f raw' out'
  | _, _ => false
  end.

(* what the record may say about the claims, per installed policy *)
Definition redact_pred (rd : redactor) : option (bytes -> bool) :=
  match rd with
  | RDefault => Some sensitive
  | RKeys ks => Some (in_keys ks)
  | RNoRedaction => Some (fun _ => false)
  | RDrop | RPanic => None
  end.

(* names the default policy must cover (credential-shaped and OIDC personal
   data), and names it must leave alone; spelled as the spec / docs list them *)
Definition canonical_sensitive : list bytes :=
  [str "password"; str "Password"; str "PassWord"; str "db_password_hash"; str "token"; str "access_token";
   str "ID_TOKEN"; str "secret"; str "client_secret"; str "client_secret_hash"; str "key"; str "KEY"; str "api_key";
   str "apiKey"; str "x_api_KEY"; str "authorization"; str "Authorization"; str "email"; str "Email";
   str "email_verified"; str "EMAIL_ADDRESS"; str "phone"; str "phone_number"; str "address"; str "birthdate";
   str "gender"; str "name"; str "Name"; str "given_name"; str "family_name"; str "middle_name"; str "nickname";
   str "preferred_username"; str "picture"; str "profile"; str "website"].
Definition canonical_plain : list bytes :=
  [str "sub"; str "iss"; str "aud"; str "exp"; str "iat"; str "scope"; str "role"; str "groups"; str "tenant";
   str "names"; str "username"; str "hostname"; str "context"; []].

Definition canon_redacted (out : jrec) : bool :=
  forallb (fun kv => negb (in_keys canonical_sensitive (fst kv)) || jv_eqb (snd kv) (JStr al_redacted)) out.

Definition claims_ok (rd : redactor) (raw : jrec) (r : jrec) : bool :=
  match redact_pred rd, lookup K_claims r with
  | None, None => true
  | None, Some _ => false                       (* dropped / fail-closed: nothing is logged *)
  | Some _, None => match raw with [] => true | _ => false end
  | Some f, Some (JObj out) =>
      redacted_by f raw out && match rd with RDefault => canon_redacted out | _ => true end
  | Some _, Some _ => false
  end.

(* ---- histories ----------------------------------------------------------- *)
(* per-request facts the record is assembled from; everything the harness
   controls or measures from outside the implementation *)
Record req_env := {
  q_method : bytes; q_protocol : bytes; q_server_id : bytes; q_hash : bytes;
  q_batch_request_id : bytes;    (* vgi_rpc.request_id on the request batch *)
  q_remote : bytes; q_payload : payload;
  q_auth : option auth; q_err : err; q_stats : option stats;
  q_egress : option egress;
  q_debug : bool; q_server_version : bytes; q_trace : provider; q_redactor : redactor;
  q_wire_request : Z }.          (* body bytes the client put on the wire *)

Inductive tamper := TNone | TCursor | TCallToken | TDropCallToken.

Inductive op :=
| ODirect (d : dinfo)                               (* OnDispatchEnd called with this info *)
| OUnary (q : req_env)                              (* HTTP POST /m, or a pipe unary call when no egress *)
| OPipeStream (q : req_env) (sid : bytes)           (* a whole stream over a pipe; sid = id minted *)
| OInit (node : nat) (q : req_env) (sid : bytes) (opened : bool) (hooked : bool)
      (* HTTP POST /m/init; sid = id minted (crypto/rand oracle); opened = a
         stream state was created and tokens were returned; hooked = the serving
         process had the access-log hook installed at that moment *)
| OCont (node : nat) (stream : nat) (t : tamper) (cancel : bool) (q : req_env) (fresh : bytes) (hooked : bool)
      (* HTTP POST /m/exchange echoing the tokens of the stream opened by op
         number [stream]; fresh = what RandomStreamID would return *)
| ORejected (q : req_env)                           (* refused before dispatch: no record *)
| ONoop.                                            (* configuration change (a hook installed on a node) *)

(* call token = sealed (call id, stream id); the call id is the number of the
   init op (crypto/rand: pairwise distinct) *)
Record stream_st := { t_call : nat; t_sid : bytes }.

Record state := {
  st_next : nat;                       (* number of the next op *)
  st_streams : list stream_st;         (* tokens the client holds *)
  st_cache : list ((nat * nat) * bytes) }.   (* per-node call-state caches: (node, call id) -> stream id *)

(* node 1 runs with SetCallStateCacheEntries(0); every other node caches *)
Definition caching (node : nat) : bool := negb (Nat.eqb node 1).

Definition init_state : state := {| st_next := 0; st_streams := []; st_cache := [] |}.

Fixpoint find_stream (c : nat) (l : list stream_st) : option stream_st :=
  match l with [] => None | s :: t => if Nat.eqb (t_call s) c then Some s else find_stream c t end.
Fixpoint cache_get (node c : nat) (l : list ((nat * nat) * bytes)) : option bytes :=
  match l with
  | [] => None
  | ((n, k), v) :: t => if Nat.eqb n node && Nat.eqb k c then Some v else cache_get node c t
  end.

Definition dinfo_of (q : req_env) (stream : bool) (with_payload : bool) (sid fresh : bytes) (cancel : bool)
  (with_batch_id : bool) : dinfo :=
  {| d_method := q_method q; d_stream := stream; d_protocol := q_protocol q; d_server_id := q_server_id q;
     d_hash := q_hash q; d_request_id := if with_batch_id then q_batch_request_id q else [];
     d_remote := q_remote q; d_http_status := 0%Z;
     d_payload := if with_payload then q_payload q else PBytes [];
     d_stream_id := sid; d_fresh_sid := fresh; d_cancelled := cancel;
     d_auth := q_auth q; d_err := q_err q; d_stats := q_stats q; d_egress := q_egress q;
     d_debug := q_debug q; d_server_version := q_server_version q; d_trace := q_trace q;
     d_redactor := q_redactor q |}.

(* resolveCall: cache hit wins; otherwise the echoed call token is opened.
   Returns None when the request is refused before dispatch. *)
Definition resolve (node : nat) (st : state) (s : stream_st) (t : tamper) : option (bytes * state) :=
  match t with
  | TCursor => None
  | _ =>
    match (if caching node then cache_get node (t_call s) (st_cache st) else None) with
    | Some sid => Some (sid, st)
    | None =>
        match t with
        | TCallToken | TDropCallToken => None
        | _ => Some (t_sid s,
                     if caching node
                     then {| st_next := st_next st; st_streams := st_streams st;
                             st_cache := ((node, t_call s), t_sid s) :: st_cache st |}
                     else st)
        end
    end
  end.

(* one request: the records it logs, and the state afterwards *)
Definition step (st : state) (o : op) : list jrec * state :=
  let n := st_next st in
  let bump (s : state) := {| st_next := S n; st_streams := st_streams s; st_cache := st_cache s |} in
  match o with
  | ODirect d => ([assemble d], bump st)
  | OUnary q => ([assemble (dinfo_of q false true [] [] false true)], bump st)
  | OPipeStream q sid => ([assemble (dinfo_of q true true sid sid false true)], bump st)
  | OInit node q sid opened hooked =>
      (* the id is minted and sealed in the call token whether or not anything logs *)
      let st' := if opened
                 then {| st_next := n; st_streams := {| t_call := n; t_sid := sid |} :: st_streams st;
                         st_cache := if caching node then ((node, n), sid) :: st_cache st else st_cache st |}
                 else st in
      (if hooked then [assemble (dinfo_of q true true sid sid false true)] else [], bump st')
  | OCont node c t cancel q fresh hooked =>
      match find_stream c (st_streams st) with
      | None => ([], bump st)
      | Some s =>
          match resolve node st s t with
          | None => ([], bump st)
          | Some (sid, st') =>
              (if hooked then [assemble (dinfo_of q true false sid fresh cancel false)] else [], bump st')
          end
      end
  | ORejected _ | ONoop => ([], bump st)
  end.

Fixpoint run_from (st : state) (ops : list op) : list (list jrec) :=
  match ops with
  | [] => []
  | o :: t => let '(rs, st') := step st o in rs :: run_from st' t
  end.

(* ---- well-formed inputs (premises of the theorems) ------------------------ *)
Definition nonneg (z : Z) : bool := (0 <=? z)%Z.
Definition stats_wf (o : option stats) : bool :=
  match o with
  | None => true
  | Some s => nonneg (s_in_batches s) && nonneg (s_out_batches s) && nonneg (s_in_rows s)
              && nonneg (s_out_rows s) && nonneg (s_in_bytes s) && nonneg (s_out_bytes s)
  end.
Definition egress_wf (o : option egress) : bool :=
  match o with None => true | Some g => forallb nonneg (g_writes g) end.

(* DispatchInfo contract: a stream dispatch carries a 32-hex id or none (then
   RandomStreamID mints 32 hex); counters and write sizes are non-negative *)
Definition dinfo_wf (d : dinfo) : bool :=
  (if d_stream d then lower_hex 32 (stream_id_of d) else true)
  && stats_wf (d_stats d) && egress_wf (d_egress d).

(* a real request: the Arrow re-encoding of the request batch is non-empty,
   and over HTTP the request declared its length (Content-Length = body sent) *)
Definition q_wf (needs_payload : bool) (q : req_env) : bool :=
  (if needs_payload then has_payload_p (q_payload q) else true)
  && stats_wf (q_stats q) && egress_wf (q_egress q)
  && match q_egress q with
     | Some g => (g_content_length g =? q_wire_request q)%Z && (0 <=? q_wire_request q)%Z
     | None => true
     end.

Definition op_wf (o : op) : bool :=
  match o with
  | ODirect d => dinfo_wf d
  | OUnary q => q_wf true q
  | OPipeStream q sid | OInit _ q sid _ _ => q_wf true q && lower_hex 32 sid
  | OCont _ _ _ _ q _ _ => q_wf false q
  | ORejected _ | ONoop => true
  end.
Definition input_wf (i : list op) : bool := forallb op_wf i.

(* ---- correspondence interface -------------------------------------------- *)
Definition input := list op.

(* per request: the records logged, and the body bytes the client saw come back *)
Record obs1 := { ob_records : list jrec; ob_wire_response : Z }.
Definition obs := list obs1.

Definition op_egress (o : op) : option egress :=
  match o with
  | ODirect d => d_egress d
  | OUnary q | OPipeStream q _ | OInit _ q _ _ _ | OCont _ _ _ _ q _ _ | ORejected q => q_egress q
  | ONoop => None
  end.

(* net/http delivers exactly the bytes accepted by the ResponseWriter *)
Definition wire_of (o : op) : Z :=
  match o with
  | ODirect _ => 0%Z
  | _ => match op_egress o with Some g => response_bytes g | None => 0%Z end
  end.

Definition model (i : input) : obs :=
  map (fun p => {| ob_records := fst p; ob_wire_response := wire_of (snd p) |})
      (combine (run_from init_state i) i).

(* volatile values (clock, socket address) are compared by type only *)
Definition canon1 (kv : bytes * jv) : bytes * jv :=
  let (k, v) := kv in
  if beqb k K_timestamp then (k, match v with JStr _ => JStr [] | _ => v end)
  else if beqb k K_duration_ms then (k, match v with JInt _ | JNum => JNum | _ => v end)
  else if beqb k K_remote_addr then (k, match v with JStr (_ :: _) => JStr [120] | _ => v end)
  else kv.
Definition canon (r : jrec) : jrec := map canon1 r.

Definition rec_eqb (a b : jrec) : bool := jv_eqb (JObj (canon a)) (JObj (canon b)).
Definition obs1_eqb (a b : obs1) : bool :=
  list_eqb rec_eqb (ob_records a) (ob_records b) && Z.eqb (ob_wire_response a) (ob_wire_response b).
Definition obs_eqb (a b : obs) : bool := list_eqb obs1_eqb a b.

(* ---- the property on one history ----------------------------------------- *)
Definition sid_of (r : jrec) : option bytes :=
  match lookup K_stream_id r with Some (JStr s) => Some s | _ => None end.

(* request number j belongs to the stream opened by request number c: the
   harness knows this from the tokens it echoed, not from any logged id *)
Definition in_stream (c j : nat) (o : op) : bool :=
  match o with
  | OInit _ _ _ _ _ => Nat.eqb j c
  | OCont _ c' _ _ _ _ _ => Nat.eqb c' c
  | _ => false
  end.

(* the first stream id logged for stream c, scanning the whole history in order *)
Fixpoint first_sid (c j : nat) (ops : list op) (os : obs) : option bytes :=
  match ops, os with
  | o :: ops', x :: os' =>
      match (if in_stream c j o then ob_records x else []) with
      | r :: _ => sid_of r
      | [] => first_sid c (S j) ops' os'
      end
  | _, _ => None
  end.

(* every record of one stream carries the id of the stream's first record:
   all records of the stream carry one and the same id *)
Definition same_sid (c : nat) (ops : list op) (all : obs) (r : jrec) : bool :=
  match first_sid c 0 ops all, sid_of r with
  | Some a, Some b => beqb a b
  | _, _ => false
  end.

Definition claims_part (rd : redactor) (a : option auth) (r : jrec) : bool :=
  match a with Some a => claims_ok rd (a_claims a) r | None => negb (has K_claims r) end.

(* the payload field is the base64 of the request's re-encoding (for a large
   request: has its length and passed the content check), the omitted size is
   that base64's length — whatever the size of the request *)
Definition payload_described (p : payload) (r : jrec) : bool :=
  opt K_request_data (jv_eqb (payload_data p)) r
  && opt K_original_request_bytes (jv_eqb (JInt (payload_len p))) r.

(* what a record must say given what the harness did to and measured on one request *)
Definition describes_q (q : req_env) (needs_payload : bool) (x : obs1) (r : jrec) : bool :=
  claims_part (q_redactor q) (q_auth q) r
  && (if needs_payload then has_payload_or_marker r && payload_described (q_payload q) r
      else negb (has_payload_or_marker r))
  && match q_egress q with
     | Some _ =>                                    (* HTTP: the counts are what crossed the wire *)
         req K_request_bytes (jv_eqb (JInt (q_wire_request q))) r
         && req K_response_bytes (jv_eqb (JInt (ob_wire_response x))) r
     | None => negb (has K_request_bytes r) && negb (has K_response_bytes r)
     end.

Definition describes (ops : list op) (all : obs) (j : nat) (o : op) (x : obs1) (r : jrec) : bool :=
  match o with
  | ODirect d =>
      claims_part (d_redactor d) (d_auth d) r
      && (if has_payload d then has_payload_or_marker r && payload_described (d_payload d) r else true)
  | OUnary q | OPipeStream q _ => describes_q q true x r
  | OInit _ q _ _ _ => describes_q q true x r && same_sid j ops all r
  | OCont _ c _ _ q _ _ => describes_q q false x r && same_sid c ops all r
  | ORejected _ | ONoop => false                    (* nothing may be logged *)
  end.

Fixpoint spec_from (ops0 : list op) (all : obs) (j : nat) (ops : list op) (os : obs) : bool :=
  match ops, os with
  | [], [] => true
  | o :: ops', x :: os' =>
      forallb (fun r => record_ok r && describes ops0 all j o x r) (ob_records x)
      && spec_from ops0 all (S j) ops' os'
  | _, _ => false
  end.

Definition spec_ok (i : input) (o : obs) : bool := spec_from i o 0 i o.
