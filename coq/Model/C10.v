(* Model/C10.v — the application protocol-version gate (vgirpc/metadata.go
   semverRegex / parseSemver / compareSemverPart, vgirpc/server.go
   checkProtocolVersion, and the dispatch points in server_serve.go,
   http_unary.go, http_stream.go). Components are byte strings of unbounded
   length; [num] gives them their numeric meaning with unbounded N. *)
From VR Require Export Lib.Strs Gen.Consts.
Open Scope N_scope.

Definition DOT : N := 46.
Definition is_digit (c : N) : bool := (48 <=? c) && (c <=? 57).
Definition is_19 (c : N) : bool := (49 <=? c) && (c <=? 57).

(* one component: 0|[1-9]\d* *)
Definition canon_part (s : bytes) : bool :=
  match s with
  | [] => false
  | [c] => is_digit c
  | c :: t => is_19 c && forallb is_digit t
  end.

Definition parse (s : bytes) : option (bytes * bytes * bytes) :=
  match split_on DOT s with
  | [a; b; c] => if canon_part a && canon_part b && canon_part c then Some (a, b, c) else None
  | _ => None
  end.

(* numeric meaning *)
Definition num_acc (acc : N) (s : bytes) : N := fold_left (fun a c => a * 10 + (c - 48)) s acc.
Definition num (s : bytes) : N := num_acc 0 s.

(* strings.Compare *)
Fixpoint lex_cmp (a b : bytes) : comparison :=
  match a, b with
  | [], [] => Eq
  | [], _ => Lt
  | _, [] => Gt
  | x :: a', y :: b' => match N.compare x y with Eq => lex_cmp a' b' | c => c end
  end.

(* compareSemverPart: by length, then lexicographically *)
Definition cmp_part (a b : bytes) : comparison :=
  match Nat.compare (length a) (length b) with
  | Eq => lex_cmp a b
  | c => c
  end.

Inductive verdict := Admit | NotDeclared | Malformed | ClientTooOld | ServerTooOld.

Definition verdict_eqb (a b : verdict) : bool :=
  match a, b with
  | Admit, Admit | NotDeclared, NotDeclared | Malformed, Malformed
  | ClientTooOld, ClientTooOld | ServerTooOld, ServerTooOld => true
  | _, _ => false
  end.

(* checkProtocolVersion, server version already parsed (SetProtocolVersion panics otherwise) *)
Definition gate (srv : bytes * bytes * bytes) (client : option bytes) : verdict :=
  match client with
  | None => NotDeclared
  | Some cv =>
      match parse cv with
      | None => Malformed
      | Some (ma, mi, _) =>
          let '(sma, smi, _) := srv in
          match cmp_part ma sma, cmp_part mi smi with
          | Eq, Eq => Admit
          | Lt, _ => ClientTooOld
          | Eq, Lt => ClientTooOld
          | _, _ => ServerTooOld
          end
      end
  end.

(* the pre-fix gate: components through strconv.Atoi, which clamps to MaxInt64 *)
Definition atoi_sat (s : bytes) : N := N.min (num s) 9223372036854775807.
Definition gate_legacy (srv : bytes * bytes * bytes) (client : option bytes) : verdict :=
  match client with
  | None => NotDeclared
  | Some cv =>
      match parse cv with
      | None => Malformed
      | Some (ma, mi, _) =>
          let '(sma, smi, _) := srv in
          match N.compare (atoi_sat ma) (atoi_sat sma), N.compare (atoi_sat mi) (atoi_sat smi) with
          | Eq, Eq => Admit
          | Lt, _ => ClientTooOld
          | Eq, Lt => ClientTooOld
          | _, _ => ServerTooOld
          end
      end
  end.

(* ---- dispatch ------------------------------------------------------------ *)
Inductive route := PipeUnary | HttpUnary | PipeStream | HttpStreamInit | PipeDescribe | HttpDescribe.

Record input := {
  i_server : option bytes;        (* SetProtocolVersion value, None = not declared *)
  i_route : route;
  i_client : option bytes }.      (* vgi_rpc.protocol_version metadata, None = absent *)

(* what the client sees: was the call dispatched (handler trace non-empty /
   describe served), and if refused: the verdict named by the message, the
   error_kind and exception type *)
Record obs := { o_dispatched : bool; o_verdict : verdict; o_kind : bytes; o_etype : bytes }.

Definition is_describe (r : route) : bool :=
  match r with PipeDescribe | HttpDescribe => true | _ => false end.

Definition model (i : input) : obs :=
  let ok := {| o_dispatched := true; o_verdict := Admit; o_kind := []; o_etype := [] |} in
  match i_server i with
  | None => ok
  | Some sv =>
      if is_describe (i_route i) then ok else
      match parse sv with
      | None => ok      (* unreachable: SetProtocolVersion panics on a non-canonical value; the harness never does it *)
      | Some p =>
          match gate p (i_client i) with
          | Admit => ok
          | v => {| o_dispatched := false; o_verdict := v; o_kind := pv_error_kind; o_etype := pv_error_type |}
          end
      end
  end.

Definition obs_eqb (a b : obs) : bool :=
  Bool.eqb (o_dispatched a) (o_dispatched b) && verdict_eqb (o_verdict a) (o_verdict b)
  && beqb (o_kind a) (o_kind b) && beqb (o_etype a) (o_etype b).

(* ---- the property, decided on one observation, written against the numeric
   meaning of the version strings (independent of cmp_part) ----------------- *)
Definition same_major_minor (sv cv : bytes) : bool :=
  match parse sv, parse cv with
  | Some (sma, smi, _), Some (ma, mi, _) => (num ma =? num sma) && (num mi =? num smi)
  | _, _ => false
  end.

Definition client_older (sv cv : bytes) : bool :=
  match parse sv, parse cv with
  | Some (sma, smi, _), Some (ma, mi, _) =>
      (num ma <? num sma) || ((num ma =? num sma) && (num mi <? num smi))
  | _, _ => false
  end.

Definition spec_ok (i : input) (o : obs) : bool :=
  match i_server i with
  | None => o_dispatched o                              (* no declared version: every call admitted *)
  | Some sv =>
      if is_describe (i_route i) then o_dispatched o     (* __describe__ never refused *)
      else
        let should_run := match i_client i with Some cv => same_major_minor sv cv | None => false end in
        Bool.eqb (o_dispatched o) should_run
        && (o_dispatched o ||
            (beqb (o_kind o) pv_error_kind
             && match i_client i with
                | None => verdict_eqb (o_verdict o) NotDeclared
                | Some cv =>
                    match parse cv with
                    | None => verdict_eqb (o_verdict o) Malformed
                    | Some _ => verdict_eqb (o_verdict o) (if client_older sv cv then ClientTooOld else ServerTooOld)
                    end
                end))
  end.
