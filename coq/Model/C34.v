(* Model/C34.v — the shared-memory allocator of vgirpc/shm.go (allocateLocked,
   canFitLocked, freeAtLocked, Reset, AllocateAndWrite's two-step admission,
   initializeHeader / readAllocs / writeAllocs / validateHeader) and
   vgirpc/shm_posix.go (ShmCreate's size guard).

   The allocation table is the list of (offset, length) pairs that the header
   holds: [count] entries, in table order.  Offsets are ABSOLUTE (the data area
   starts at the header size).  uint64 arithmetic of the Go code (e[0]-prevEnd,
   e[0]+e[1], dataEnd-prevEnd) is written with explicit wrap-around.

   Two descriptions of allocation live here:
     - [alloc]      the loop of allocateLocked, line by line (the MODEL);
     - [spec_alloc] first fit stated against the gap list (the SPECIFICATION),
   likewise [free] / [spec_free].  [spec_ok] replays the specification on the
   implementation's observables; Proofs/C34.v shows the two coincide on every
   reachable state.  No proofs in this file. *)
From VR Require Export Lib.Bytes Gen.Consts.
Open Scope N_scope.

(* ---- constants, regenerated from the compiled Go code (Gen/Consts.v) ----- *)
Definition HDR : N := Z.to_N shm_header_size.         (* first byte of the data area *)
Definition MAXA : N := Z.to_N shm_max_allocs.         (* capacity of the table *)
Definition VERSION : N := Z.to_N shm_version.
Definition OFF_MAGIC : nat := Z.to_nat shm_off_magic.
Definition OFF_VER : nat := Z.to_nat shm_off_version.
Definition OFF_DS : nat := Z.to_nat shm_off_data_size.
Definition OFF_COUNT : nat := Z.to_nat shm_off_count.
Definition OFF_ENTRIES : nat := Z.to_nat shm_off_entries.
Definition ENTRY : nat := Z.to_nat shm_entry_stride.
Definition LEN_OFF : nat := Z.to_nat shm_entry_len_off.

Definition W : N := 18446744073709551616.              (* 2^64 *)
Definition MAXINT : Z := 9223372036854775807%Z.        (* Go int on the supported 64-bit targets *)

Definition tbl := list (N * N).

(* uint64 subtraction / addition of values below 2^64 *)
Definition sub64 (a b : N) : N := if b <=? a then a - b else a + W - b.
Definition add64 (a b : N) : N := let s := a + b in if s <? W then s else s - W.

(* ---- allocateLocked ------------------------------------------------------ *)
(* the loop over the entries with the running prevEnd, then the tail gap *)
Fixpoint alloc_from (size sz prev : N) (t : tbl) : option (N * tbl) :=
  match t with
  | [] => if sz <=? sub64 size prev then Some (prev, [(prev, sz)]) else None
  | (o, l) :: r =>
      if sz <=? sub64 o prev then Some (prev, (prev, sz) :: t)
      else match alloc_from size sz (add64 o l) r with
           | Some (off, r') => Some (off, (o, l) :: r')
           | None => None
           end
  end.

Definition alloc (size : N) (n : Z) (t : tbl) : option (N * tbl) :=
  if (n <=? 0)%Z then None
  else if MAXA <=? N.of_nat (length t) then None
  else alloc_from size (Z.to_N n) HDR t.

(* ---- canFitLocked (same walk, no write) ------------------------------- *)
Fixpoint canfit_from (size sz prev : N) (t : tbl) : bool :=
  match t with
  | [] => sz <=? sub64 size prev
  | (o, l) :: r => if sz <=? sub64 o prev then true else canfit_from size sz (add64 o l) r
  end.

Definition canfit (size : N) (n : Z) (t : tbl) : bool :=
  if (n <=? 0)%Z then false
  else if MAXA <=? N.of_nat (length t) then false
  else canfit_from size (Z.to_N n) HDR t.

(* ---- freeAtLocked ------------------------------------------------------ *)
Fixpoint free (off : N) (t : tbl) : option tbl :=
  match t with
  | [] => None
  | (o, l) :: r =>
      if o =? off then Some r
      else match free off r with Some r' => Some ((o, l) :: r') | None => None end
  end.

(* ---- operations ---------------------------------------------------------- *)
Inductive op :=
| Alloc (n : Z)                 (* allocateLocked(n) *)
| Write (est total : Z)         (* AllocateAndWrite: canFitLocked(est), then allocateLocked(total) *)
| Free (off : N)                (* FreeOffset(off) *)
| Reset.

Inductive res :=
| RAlloc (r : option N)
| RWrite (r : option (N * Z))   (* offset, length *)
| RFree (ok : bool)
| RReset
| RBad (off : N)                (* refused allocation that returned a non-zero offset: never in the model *)
| RErr.                         (* ErrShmClosed / serializer error: never in the model *)

Definition step (size : N) (t : tbl) (o : op) : res * tbl :=
  match o with
  | Alloc n => match alloc size n t with
               | Some (off, t') => (RAlloc (Some off), t')
               | None => (RAlloc None, t)
               end
  | Write est total =>
      if canfit size est t then
        match alloc size total t with
        | Some (off, t') => (RWrite (Some (off, total)), t')
        | None => (RWrite None, t)
        end
      else (RWrite None, t)
  | Free off => match free off t with
                | Some t' => (RFree true, t')
                | None => (RFree false, t)
                end
  | Reset => (RReset, [])
  end.

(* every reachable table: fold_left over an arbitrary operation list *)
Definition run (size : N) (ops : list op) : tbl :=
  fold_left (fun t o => snd (step size t o)) ops [].

(* ---- header codec ---------------------------------------------------- *)
Fixpoint le (k : nat) (v : N) : bytes :=
  match k with O => [] | S k' => (v mod 256) :: le k' (v / 256) end.
Fixpoint unle (b : bytes) : N :=
  match b with [] => 0 | x :: r => x + 256 * unle r end.
Definition slice (off n : nat) (b : bytes) : bytes := firstn n (skipn off b).

Definition enc_entry (e : N * N) : bytes := le 8 (fst e) ++ le 8 (snd e).
(* initializeHeader + writeAllocs: magic, version u32, data_size u64, count u32,
   4 reserved zero bytes, then the entries *)
Definition encode_header (size : N) (t : tbl) : bytes :=
  shm_magic ++ le 4 VERSION ++ le 8 (size - HDR) ++ le 4 (N.of_nat (length t)) ++ le 4 0
  ++ flat_map enc_entry t.

(* what a peer does: validateHeader, then readAllocs — by the layout constants *)
Fixpoint read_entries (k : nat) (b : bytes) : tbl :=
  match k with
  | O => []
  | S k' => (unle (slice 0 8 b), unle (slice LEN_OFF 8 b)) :: read_entries k' (skipn ENTRY b)
  end.

Definition decode_header (h : bytes) : option (N * tbl) :=
  if negb (beqb (slice OFF_MAGIC (length shm_magic) h) shm_magic) then None
  else if negb (unle (slice OFF_VER 4 h) =? VERSION) then None
  else
    let n := unle (slice OFF_COUNT 4 h) in
    if MAXA <? n then None    (* a count the header cannot hold *)
    else Some (unle (slice OFF_DS 8 h) + HDR, read_entries (N.to_nat n) (skipn OFF_ENTRIES h)).

(* packed encodings used by the harness for very long observations (a list
   literal of several thousand elements overflows coqc's stack): 8-byte
   little-endian numbers, back to back.  Harness-side format, not the Go header. *)
Fixpoint chunks8 (fuel : nat) (b : bytes) : list N :=
  match fuel with
  | O => []
  | S f => match b with [] => [] | _ => unle (firstn 8 b) :: chunks8 f (skipn 8 b) end
  end.
Fixpoint pair_up (l : list N) : tbl :=
  match l with a :: b :: r => (a, b) :: pair_up r | _ => [] end.
Definition tbl_of_bytes (b : bytes) : tbl := pair_up (chunks8 (length b) b).

(* ---- the specification side --------------------------------------------- *)
(* free gaps (start, length) of the data area, in address order: before the
   first region, between consecutive regions, after the last one *)
Fixpoint gaps_from (prev size : N) (t : tbl) : list (N * N) :=
  match t with
  | [] => [(prev, size - prev)]
  | (o, l) :: r => (prev, o - prev) :: gaps_from (o + l) size r
  end.
Definition gaps (size : N) (t : tbl) := gaps_from HDR size t.

Definition first_gap_ge (n : N) (g : list (N * N)) : option (N * N) :=
  find (fun x => n <=? snd x) g.

Fixpoint insert_sorted (e : N * N) (t : tbl) : tbl :=
  match t with
  | [] => [e]
  | x :: r => if fst e <? fst x then e :: t else x :: insert_sorted e r
  end.

Definition spec_alloc (size : N) (n : Z) (t : tbl) : option (N * tbl) :=
  if (n <=? 0)%Z then None
  else if MAXA <=? N.of_nat (length t) then None
  else match first_gap_ge (Z.to_N n) (gaps size t) with
       | Some g => Some (fst g, insert_sorted (fst g, Z.to_N n) t)
       | None => None
       end.

Definition starts_at (off : N) (e : N * N) : bool := fst e =? off.
Definition spec_free (off : N) (t : tbl) : option tbl :=
  if existsb (starts_at off) t then Some (filter (fun e => negb (starts_at off e)) t) else None.

Definition spec_step (size : N) (t : tbl) (o : op) : res * tbl :=
  match o with
  | Alloc n => match spec_alloc size n t with
               | Some (off, t') => (RAlloc (Some off), t')
               | None => (RAlloc None, t)
               end
  | Write est total =>
      match spec_alloc size est t with
      | None => (RWrite None, t)
      | Some _ => match spec_alloc size total t with
                  | Some (off, t') => (RWrite (Some (off, total)), t')
                  | None => (RWrite None, t)
                  end
      end
  | Free off => match spec_free off t with
                | Some t' => (RFree true, t')
                | None => (RFree false, t)
                end
  | Reset => (RReset, [])
  end.

(* the invariant, decidable: every region starts at or after the end of the one
   before it (the first: at or after the header), is non-empty, the last one ends
   inside the segment; at most MAXA regions; segment size below 2^64 *)
Fixpoint chain_b (lo hi : N) (t : tbl) : bool :=
  match t with
  | [] => lo <=? hi
  | (o, l) :: r => (lo <=? o) && (0 <? l) && chain_b (o + l) hi r
  end.
Definition inv_b (size : N) (t : tbl) : bool :=
  chain_b HDR size t && (N.of_nat (length t) <=? MAXA) && (size <? W).

(* ---- correspondence interface ----------------------------------------- *)
Definition snap := (bytes * tbl)%type.     (* raw header bytes, table seen through readAllocs *)
Record input := { i_size : Z; i_ops : list (bool * op); i_child : bool }.
Inductive obs :=
| CreateErr
| AttachErr
| Ran (steps : list (res * option snap)) (final : option snap).

(* ---- harness-side decompression of observations -------------------------
   coqc needs about 0.1 ms per source character, so the harness does not spell
   out header bytes and table after every operation.  It describes each snapshot
   relative to the previous one and VERIFIES IN GO, before choosing a compact
   form, that expanding the description reproduces exactly the bytes and the
   table it observed; anything else travels verbatim ([SR]).  The header image is
   three 8-byte little-endian words (magic+version, data_size, count+reserved)
   followed by the entries. *)
Inductive sd :=
| SX                                  (* no snapshot taken *)
| SS                                  (* identical to the previous snapshot *)
| SF (w0 w1 w2 : N) (t : tbl)         (* header image = words w0 w1 w2 ++ entries of t; table t *)
| SR (raw : bytes) (t : tbl)          (* verbatim *)
| SI (i o l w2 : N)                   (* previous with (o,l) inserted at index i, count word w2 *)
| SD (i w2 : N)                       (* previous with entry i removed *)
| SC (w2 : N).                        (* empty table *)

Definition raw_of (w0 w1 w2 : N) (t : tbl) : bytes :=
  le 8 w0 ++ le 8 w1 ++ le 8 w2 ++ flat_map enc_entry t.
Fixpoint ins_at (i : nat) (e : N * N) (t : tbl) : tbl :=
  match i, t with
  | O, _ => e :: t
  | S i', x :: r => x :: ins_at i' e r
  | S _, [] => [e]
  end.
Fixpoint del_at (i : nat) (t : tbl) : tbl :=
  match i, t with
  | O, _ :: r => r
  | S i', x :: r => x :: del_at i' r
  | _, [] => []
  end.
Definition sd_state := (N * N * N * tbl)%type.
Definition sd_apply (st : sd_state) (d : sd) : sd_state * option snap :=
  let '(w0, w1, w2, t) := st in
  let mk w2' t' := ((w0, w1, w2', t'), Some (raw_of w0 w1 w2' t', t')) in
  match d with
  | SX => (st, None)
  | SS => mk w2 t
  | SF a b c t' => ((a, b, c, t'), Some (raw_of a b c t', t'))
  | SR raw t' => (st, Some (raw, t'))
  | SI i o l c => mk c (ins_at (N.to_nat i) (o, l) t)
  | SD i c => mk c (del_at (N.to_nat i) t)
  | SC c => mk c []
  end.
Fixpoint expand_from (st : sd_state) (l : list (res * sd)) : list (res * option snap) :=
  match l with
  | [] => []
  | (r, d) :: l' => let '(st', s) := sd_apply st d in (r, s) :: expand_from st' l'
  end.
Definition expand := expand_from (0, 0, 0, []).
Definition fin (d : sd) : option snap := snd (sd_apply (0, 0, 0, []) d).
Definition e (o l : N) : N * N := (o, l).
Definition rA (off : N) : res := RAlloc (Some off).
Definition rA0 : res := RAlloc None.
Definition rW (off : N) (len : Z) : res := RWrite (Some (off, len)).
Definition rW0 : res := RWrite None.
(* arithmetic progressions: a freshly bulk-filled table and its results *)
Definition tbl_prog (first stride len count : N) : tbl :=
  map (fun k => (first + stride * N.of_nat k, len)) (seq 0 (N.to_nat count)).
Definition alloc_run (first stride count : N) : list (res * option snap) :=
  map (fun k => (RAlloc (Some (first + stride * N.of_nat k)), @None snap)) (seq 0 (N.to_nat count)).

Definition snapshot (size : N) (t : tbl) : snap := (encode_header size t, t).

Fixpoint run_obs (size : N) (t : tbl) (ops : list (bool * op)) : list (res * option snap) * tbl :=
  match ops with
  | [] => ([], t)
  | (sn, o) :: ops' =>
      let '(r, t') := step size t o in
      let '(os, tf) := run_obs size t' ops' in
      ((r, if sn then Some (snapshot size t') else None) :: os, tf)
  end.

Definition HDRz : Z := shm_header_size.

Definition model (i : input) : obs :=
  if (i_size i <=? HDRz)%Z then CreateErr
  else
    let size := Z.to_N (i_size i) in
    let '(os, tf) := run_obs size [] (i_ops i) in
    Ran os (if i_child i then Some (snapshot size tf) else None).

Definition entry_eqb (a b : N * N) : bool := (fst a =? fst b) && (snd a =? snd b).
Definition tbl_eqb : tbl -> tbl -> bool := list_eqb entry_eqb.
Definition snap_eqb (a b : snap) : bool := beqb (fst a) (fst b) && tbl_eqb (snd a) (snd b).
Definition res_eqb (a b : res) : bool :=
  match a, b with
  | RAlloc x, RAlloc y => opt_eqb N.eqb x y
  | RWrite x, RWrite y => opt_eqb (fun p q => (fst p =? fst q) && (snd p =? snd q)%Z) x y
  | RFree x, RFree y => Bool.eqb x y
  | RReset, RReset => true
  | RBad x, RBad y => x =? y
  | RErr, RErr => true
  | _, _ => false
  end.
Definition step_eqb (a b : res * option snap) : bool :=
  res_eqb (fst a) (fst b) && opt_eqb snap_eqb (snd a) (snd b).

Definition obs_eqb (a b : obs) : bool :=
  match a, b with
  | CreateErr, CreateErr => true
  | AttachErr, AttachErr => true
  | Ran s f, Ran s' f' => list_eqb step_eqb s s' && opt_eqb snap_eqb f f'
  | _, _ => false
  end.

(* the property on one observed history.  A snapshot is accepted iff its table is
   the table the SPECIFICATION prescribes, satisfies the invariant, and the raw
   header bytes decode (by the layout constants) to exactly (segment size, table). *)
Definition snap_ok (size : N) (t : tbl) (s : snap) : bool :=
  tbl_eqb (snd s) t && inv_b size (snd s)
  && match decode_header (fst s) with
     | Some (sz, t') => (sz =? size) && tbl_eqb t' (snd s)
     | None => false
     end.

Definition osnap_ok (size : N) (want : bool) (t : tbl) (s : option snap) : bool :=
  match want, s with
  | false, None => true
  | true, Some x => snap_ok size t x
  | _, _ => false
  end.

Fixpoint spec_steps (size : N) (t : tbl) (ops : list (bool * op)) (os : list (res * option snap))
  : option tbl :=
  match ops, os with
  | [], [] => Some t
  | (sn, o) :: ops', (r, s) :: os' =>
      let '(r', t') := spec_step size t o in
      if res_eqb r r' && osnap_ok size sn t' s then spec_steps size t' ops' os' else None
  | _, _ => None
  end.

Definition spec_ok (i : input) (o : obs) : bool :=
  if (MAXINT <? i_size i)%Z then true                 (* not a Go int: no obligation *)
  else if (i_size i <=? HDRz)%Z then match o with CreateErr => true | _ => false end
  else
    let size := Z.to_N (i_size i) in
    match o with
    | Ran os f =>
        match spec_steps size [] (i_ops i) os with
        | Some tf => osnap_ok size (i_child i) tf f
        | None => false
        end
    | _ => false
    end.
