(* Model/C22.v — every RPC and control route is behind the authenticator
   (vgirpc/http.go: initRoutes, initPages, ServeHTTP, authenticate;
   http_unary.go, http_stream.go, http_upload_url.go, introspect_token.go,
   http_sticky.go: EnableSticky / Handle / handleStickyDelete,
   oauth_pkce_handlers.go: wrapPageWithPkce and the login routes, http_pages.go).

   Parts:
   (1) the ROUTE TABLE: one entry per HandleFunc call of the code, with its
       pattern (as a function of the prefix), its registration guard, and the
       FIRST ACTION of its handler ([gate_of]);
   (2) a model of net/http's ServeMux decision for these patterns
       ([parse_path], [dispatch]): path canonicalisation check, method bucket
       first (HEAD falls back to GET, then method-less), literal segment before
       wildcard before subtree, 405 when only other methods match;
   (3) ServeHTTP + handlers as a decision tree giving status, the WORK trace
       (which user / provider / resolver code ran), whether the authenticator
       was consulted, and the pattern the mux matched.
   The pattern strings of (1) are tied to the compiled mux through
   Gen/Consts.v (c22_universe / c22_table, produced by vgirpc/verif_c22.go by
   reading the real routing tree and probing every registered pattern under an
   always-rejecting authenticator). *)
From VR Require Export Lib.Strs Gen.Consts.
Open Scope N_scope.

(* ---------------------------------------------------------------- basics *)
Inductive meth := M_GET | M_HEAD | M_POST | M_PUT | M_DELETE | M_OPTIONS | M_PATCH.
Scheme Equality for meth.

Definition meth_name (m : meth) : bytes :=
  match m with
  | M_GET => str "GET" | M_HEAD => str "HEAD" | M_POST => str "POST" | M_PUT => str "PUT"
  | M_DELETE => str "DELETE" | M_OPTIONS => str "OPTIONS" | M_PATCH => str "PATCH"
  end.

(* one point of the feature lattice; field i is bit i of a lattice mask *)
Record config := {
  c_prefix : bool;      (* SetPrefix("/vgi") *)
  c_landing : bool; c_describe : bool; c_notfound : bool;   (* the three HTML pages *)
  c_sticky : bool;      (* EnableSticky: DELETE {prefix}/__session__ *)
  c_pkce : bool;        (* SetOAuthPkce requested (effective: see pkce_on) *)
  c_custom : bool;      (* operator routes registered through Handle *)
  c_upload : bool;      (* SetUploadURLProvider *)
  c_introspect : bool;  (* EnableTokenIntrospection *)
  c_oauth : bool;       (* SetOAuthResourceMetadata *)
  c_cors : bool;        (* SetCorsOrigins *)
  c_maxreq : bool }.    (* SetMaxRequestBytes(4096): the pre-dispatch 413 refusal in ServeHTTP *)

(* what the configured AuthenticateFunc returns for every request *)
Inductive auth_mode :=
  | A_none            (* no authenticator installed *)
  | A_ok              (* accepts: principal alice *)
  | A_introspector    (* accepts: the principal allowed to introspect *)
  | A_fail            (* *AuthFailure *)
  | A_fail_wrapped    (* fmt.Errorf("%w") around an *AuthFailure *)
  | A_valerr          (* *RpcError{ValueError} *)
  | A_valerr_wrapped  (* fmt.Errorf("%w") around it: not recognised, plain error *)
  | A_permerr         (* *RpcError{PermissionError} *)
  | A_unavail         (* *AuthUnavailableError *)
  | A_unavail_wrapped
  | A_error           (* errors.New *)
  | A_nilnil.         (* (nil, nil): no context and no error *)

Inductive auth_res := AR_pass | AR_rej (status : N).

(* HttpServer.authenticate. (nil,nil): authenticate returns nil without having
   written anything, the handler returns: an empty 200. *)
Definition auth_outcome (a : auth_mode) : auth_res :=
  match a with
  | A_none | A_ok | A_introspector => AR_pass
  | A_fail | A_fail_wrapped | A_valerr | A_permerr => AR_rej 401
  | A_unavail | A_unavail_wrapped => AR_rej 503
  | A_valerr_wrapped | A_error => AR_rej 500
  | A_nilnil => AR_rej 200
  end.

Definition has_auth (a : auth_mode) : bool := match a with A_none => false | _ => true end.
Definition rejecting (a : auth_mode) : bool := match auth_outcome a with AR_rej _ => true | AR_pass => false end.
(* the authenticator returned a non-nil error (what wrapPageWithPkce looks at) *)
Definition auth_err (a : auth_mode) : bool :=
  match a with A_none | A_ok | A_introspector | A_nilnil => false | _ => true end.

(* the *AuthContext component the AuthenticateFunc returns TOGETHER WITH an
   error (identified-but-refused callers: expired, suspended, revocation list
   unreachable ...). Meaningless for the modes that return no error. The
   verdict of HttpServer.authenticate is a function of the error component
   alone: nothing below looks at it except the best-effort principal lookup of
   the session-delete route. *)
Inductive ctxc := CX_nil | CX_alice | CX_introspector.

(* SetOAuthPkce succeeds only with an authenticator and resource metadata *)
Definition pkce_on (c : config) (a : auth_mode) : bool := c_pkce c && c_oauth c && has_auth a.

(* ---------------------------------------------------------------- (1) route table *)
Inductive rid :=
  | R_upload | R_introspect | R_token_post | R_custom_post | R_init | R_exchange | R_unary
  | R_wellknown | R_health_root | R_health_pfx | R_cb | R_logout | R_custom_get
  | R_describe_page | R_landing | R_token_opt | R_session_delete | R_notfound.
Scheme Equality for rid.

(* within one method bucket: literal-first before wildcard-first, as the
   routing tree tries them *)
Definition all_routes : list rid :=
  [R_upload; R_introspect; R_token_post; R_custom_post; R_init; R_exchange; R_unary;
   R_wellknown; R_health_root; R_health_pfx; R_cb; R_logout; R_custom_get;
   R_describe_page; R_landing; R_token_opt; R_session_delete; R_notfound].

Inductive pseg := L (s : bytes) | W.              (* literal / {method} *)
Inductive tail := T_exact | T_dollar | T_tree.    (* nothing / {$} / trailing slash *)
Record pat := { p_meth : option meth; p_segs : list pseg; p_tail : tail }.

Definition pfx (c : config) : list pseg := if c_prefix c then [L c22_prefix_seg] else [].
Definition mk (m : meth) (segs : list pseg) : pat := {| p_meth := Some m; p_segs := segs; p_tail := T_exact |}.

Definition route_pat (c : config) (r : rid) : pat :=
  match r with
  | R_init => mk M_POST (pfx c ++ [W; L (str "init")])
  | R_exchange => mk M_POST (pfx c ++ [W; L (str "exchange")])
  | R_upload => mk M_POST (pfx c ++ [L c22_upload_seg; L (str "init")])
  | R_introspect => mk M_POST (pfx c ++ [L c22_introspect_seg])
  | R_unary => mk M_POST (pfx c ++ [W])
  | R_wellknown => mk M_GET (map L c22_wellknown_segs ++ pfx c)
  | R_health_root => mk M_GET [L (str "health")]
  | R_health_pfx => mk M_GET (pfx c ++ [L (str "health")])
  | R_cb => mk M_GET (pfx c ++ [L (str "_oauth"); L (str "callback")])
  | R_logout => mk M_GET (pfx c ++ [L (str "_oauth"); L (str "logout")])
  | R_token_post => mk M_POST (pfx c ++ [L (str "_oauth"); L (str "token")])
  | R_token_opt => mk M_OPTIONS (pfx c ++ [L (str "_oauth"); L (str "token")])
  | R_describe_page => mk M_GET (pfx c ++ [L (str "describe")])
  | R_landing => if c_prefix c then mk M_GET (pfx c)
                 else {| p_meth := Some M_GET; p_segs := []; p_tail := T_dollar |}
  | R_notfound => {| p_meth := None; p_segs := []; p_tail := T_tree |}
  | R_session_delete => mk M_DELETE (pfx c ++ [L (str "__session__")])
  | R_custom_get => mk M_GET [L (str "c22_custom")]
  | R_custom_post => mk M_POST [L (str "c22_custom"); L (str "run")]
  end.

(* registration guards: initRoutes (always), initPages, EnableSticky, Handle *)
Definition guard (c : config) (pk : bool) (r : rid) : bool :=
  match r with
  | R_init | R_exchange | R_upload | R_introspect | R_unary | R_wellknown | R_health_root => true
  | R_health_pfx => c_prefix c
  | R_cb | R_logout | R_token_post | R_token_opt => pk
  | R_describe_page => c_describe c
  | R_landing => c_landing c
  | R_notfound => c_notfound c
  | R_session_delete => c_sticky c
  | R_custom_get | R_custom_post => c_custom c
  end.

Definition registered (c : config) (pk : bool) : list rid := filter (guard c pk) all_routes.

(* the pattern as net/http prints it *)
Definition seg_str (s : pseg) : bytes := match s with L b => b | W => str "{method}" end.
Definition pat_str (p : pat) : bytes :=
  (match p_meth p with Some m => meth_name m ++ [32] | None => [] end)
  ++ flat_map (fun s => 47 :: seg_str s) (p_segs p)
  ++ match p_tail p, p_segs p with
     | T_exact, _ => []
     | T_dollar, _ => str "/{$}"
     | T_tree, _ => [47]
     end.

(* the FIRST ACTION of each handler *)
Inductive gate :=
  | G_auth        (* h.authenticate first; return when it yields nil *)
  | G_login_wall  (* wrapPageWithPkce: 401 / redirect to the login page on an authenticator error *)
  | G_stub        (* introspection not enabled: a fixed 404, nothing looked up *)
  | G_open.       (* no authentication *)
Scheme Equality for gate.

(* [legacy] = the tree before fix 92a19ba: handleUploadURLInit never authenticated *)
Definition gate_of_gen (legacy : bool) (c : config) (pk : bool) (r : rid) : gate :=
  match r with
  | R_unary | R_init | R_exchange => G_auth
  | R_upload => if legacy then G_open else G_auth
  | R_introspect => if c_introspect c then G_auth else G_stub
  | R_landing | R_describe_page => if pk then G_login_wall else G_open
  | _ => G_open
  end.
Definition gate_of := gate_of_gen false.
Definition auth_required (c : config) (pk : bool) (r : rid) : bool := gate_beq (gate_of c pk r) G_auth.

(* classes of routes the property text names *)
Inductive rclass :=
  | RC_rpc | RC_control
  | RC_health | RC_oauth_metadata | RC_login | RC_page | RC_custom | RC_session_delete.
Scheme Equality for rclass.
Definition route_class (r : rid) : rclass :=
  match r with
  | R_unary | R_init | R_exchange => RC_rpc
  | R_upload | R_introspect => RC_control
  | R_health_root | R_health_pfx => RC_health
  | R_wellknown => RC_oauth_metadata
  | R_cb | R_logout | R_token_post | R_token_opt => RC_login
  | R_describe_page | R_landing | R_notfound => RC_page
  | R_custom_get | R_custom_post => RC_custom
  | R_session_delete => RC_session_delete
  end.
Definition open_classes : list rclass :=
  [RC_health; RC_oauth_metadata; RC_login; RC_page; RC_custom; RC_session_delete].
Definition class_open (k : rclass) : bool := existsb (rclass_beq k) open_classes.

(* ---------------------------------------------------------------- (2) the mux *)
Definition hexv (c : N) : option N :=
  if (48 <=? c) && (c <=? 57) then Some (c - 48)
  else if (97 <=? c) && (c <=? 102) then Some (c - 87)
  else if (65 <=? c) && (c <=? 70) then Some (c - 55)
  else None.

(* url.PathUnescape; None = malformed escape *)
Fixpoint unesc (s : bytes) : option bytes :=
  match s with
  | [] => Some []
  | c :: r =>
      if c =? 37 then
        match r with
        | a :: b :: r' =>
            match hexv a, hexv b, unesc r' with
            | Some x, Some y, Some u => Some ((16 * x + y) :: u)
            | _, _, _ => None
            end
        | _ => None
        end
      else match unesc r with Some u => Some (c :: u) | None => None end
  end.
(* pathUnescape keeps the segment as it is when it cannot be unescaped *)
Definition seg_unesc (s : bytes) : bytes := match unesc s with Some u => u | None => s end.

Definition dot_seg (s : bytes) : bool := beqb s [46] || beqb s [46; 46].
Definition is_nil {A} (l : list A) : bool := match l with [] => true | _ => false end.

(* the escaped path as (unescaped segments, trailing slash); None when cleanPath
   would change it (empty interior segment, "." or ".."): the mux redirects *)
Definition parse_path (raw : bytes) : option (list bytes * bool) :=
  match raw with
  | 47 :: rest =>
      let parts := split_on 47 rest in
      let tr := is_nil (last parts [1]) in
      let body := if tr then removelast parts else parts in
      if existsb (fun s => is_nil s || dot_seg s) body then None
      else Some (map seg_unesc body, tr)
  | _ => None
  end.

Fixpoint segs_match (ps : list pseg) (ss : list bytes) : option (list bytes) :=
  match ps, ss with
  | [], _ => Some ss
  | L b :: pr, s :: sr => if beqb b s then segs_match pr sr else None
  | W :: pr, s :: sr => segs_match pr sr
  | _ :: _, [] => None
  end.

Definition path_match (p : pat) (ss : list bytes) (tr : bool) : bool :=
  match segs_match (p_segs p) ss with
  | None => false
  | Some rest =>
      match p_tail p with
      | T_exact => is_nil rest && negb tr
      | T_dollar => is_nil rest && tr
      | T_tree => negb (is_nil rest) || tr
      end
  end.

Definition omeq (a b : option meth) : bool :=
  match a, b with Some x, Some y => meth_beq x y | None, None => true | _, _ => false end.

Inductive disp := D_route (r : rid) | D_405 | D_404.

Definition find_in (c : config) (pk : bool) (mo : option meth) (ss : list bytes) (tr : bool) : option rid :=
  find (fun r => let p := route_pat c r in omeq (p_meth p) mo && path_match p ss tr) (registered c pk).

Definition dispatch (c : config) (pk : bool) (m : meth) (ss : list bytes) (tr : bool) : disp :=
  match find_in c pk (Some m) ss tr with
  | Some r => D_route r
  | None =>
    match (match m with M_HEAD => find_in c pk (Some M_GET) ss tr | _ => None end) with
    | Some r => D_route r
    | None =>
      match find_in c pk None ss tr with
      | Some r => D_route r
      | None => if existsb (fun r => path_match (route_pat c r) ss tr) (registered c pk)
                then D_405 else D_404
      end
    end
  end.

(* ---------------------------------------------------------------- (3) handlers *)
Inductive ctype := CT_arrow | CT_json | CT_form | CT_none.
Inductive body :=
  | B_none | B_garbage
  | B_req (name : bytes)    (* a well-formed request batch {x:int64} naming method [name] *)
  | B_exch (name : bytes)   (* a well-formed exchange input carrying live tokens of a stream of [name] *)
  | B_exch_bad              (* an exchange input carrying a bogus state token *)
  | B_json | B_jws.         (* {"token": opaque} / {"token": JWS-shaped} *)
Inductive sess := S_none | S_garbage | S_anon | S_alice.   (* VGI-Session: absent / bogus / live session of anonymous / of alice *)

Record request := {
  q_meth : meth; q_path : bytes; q_ctype : ctype; q_body : body; q_sess : sess;
  q_html : bool;        (* Accept: text/html *)
  q_big : bool }.       (* the declared Content-Length exceeds max_request_bytes (4096) *)

Inductive work :=
  | W_body            (* the request body was read *)
  | W_hook            (* dispatch hook OnDispatchStart *)
  | W_handler         (* a unary method handler ran *)
  | W_init            (* a stream init handler ran *)
  | W_state           (* Produce / Exchange ran *)
  | W_rehydrate       (* the RehydrateFunc ran *)
  | W_resolver        (* the token-introspection resolver ran *)
  | W_provider        (* the upload-URL provider ran *)
  | W_describe        (* the __describe__ batch was built and returned *)
  | W_session_close   (* a sticky session's state was closed *)
  | W_custom          (* an operator-registered handler ran *)
  | W_vend.           (* a pre-signed URL appears on the response (any header, or the body) *)
Scheme Equality for work.

(* response body classes: nothing / exactly the standard 401 JSON document /
   exactly the 503 text / exactly the 500 text / anything else (in particular a
   rejection body FOLLOWED by handler output) *)
Inductive bkind := BK_empty | BK_rej401 | BK_rej503 | BK_rej500 | BK_other.
Scheme Equality for bkind.
(* the body the auth layer writes with each of its statuses ((nil,nil): none) *)
Definition bk_of (st : N) : bkind :=
  if st =? 401 then BK_rej401 else if st =? 503 then BK_rej503 else if st =? 500 then BK_rej500 else BK_empty.

Record obs := {
  o_status : N;
  o_work : list work;     (* in the order of the constructors above *)
  o_consulted : bool;     (* the AuthenticateFunc was called at least once *)
  o_pat : bytes;          (* pattern the mux matched; [] = answered by the mux itself *)
  o_body : option bkind }. (* what the response body is; None (model only) = not predicted *)

Inductive mkind := MK_unary | MK_prod | MK_exch | MK_unknown.
(* the scripted surface of the harness *)
Definition method_kind (s : bytes) : mkind :=
  if beqb s (str "u_int") || beqb s (str "u_void") then MK_unary
  else if beqb s (str "prod") || beqb s (str "prod_h") then MK_prod
  else if beqb s (str "exch") || beqb s (str "exch_h") then MK_exch
  else MK_unknown.

Definition arrow_ct (q : request) : bool := match q_ctype q with CT_arrow => true | _ => false end.

(* handleUnary after authentication *)
Definition h_unary (ms : bytes) (q : request) : N * list work :=
  if negb (arrow_ct q) then (415, [])
  else if beqb ms c22_describe_method then
    match q_body q with B_req _ => (200, [W_body; W_describe]) | _ => (400, [W_body]) end
  else match method_kind ms with
       | MK_unknown => (404, [])
       | MK_prod | MK_exch => (400, [])
       | MK_unary =>
           match q_body q with
           | B_req n => if beqb n ms then (200, [W_body; W_hook; W_handler]) else (400, [W_body])
           | _ => (400, [W_body])
           end
       end.

(* handleStreamInit after authentication *)
Definition h_init (ms : bytes) (q : request) : N * list work :=
  if negb (arrow_ct q) then (415, [])
  else match method_kind ms with
       | MK_unknown => (404, [])
       | MK_unary => (400, [])
       | k =>
           match q_body q with
           | B_req n =>
               if beqb n ms then
                 (200, match k with MK_prod => [W_body; W_hook; W_init; W_state] | _ => [W_body; W_hook; W_init] end)
               else (400, [W_body])
           | _ => (400, [W_body])
           end
       end.

(* handleStreamExchange after authentication *)
Definition h_exchange (ms : bytes) (q : request) : N * list work :=
  if negb (arrow_ct q) then (415, [])
  else match method_kind ms with
       | MK_unknown => (404, [])
       | _ =>
           match q_body q with
           | B_exch n => if beqb n ms then (200, [W_body; W_hook; W_state; W_rehydrate]) else (400, [W_body])
           | _ => (400, [W_body])
           end
       end.

(* handleUploadURLInit after authentication (legacy: from its first line) *)
Definition h_upload (c : config) (q : request) : N * list work :=
  if negb (c_upload c) then (404, [])
  else if negb (arrow_ct q) then (415, [])
  else match q_body q with
       | B_req n => if beqb n c22_upload_seg then (200, [W_body; W_provider; W_vend]) else (400, [W_body])
       | _ => (400, [W_body])
       end.

(* handleIntrospectToken after authentication *)
Definition h_introspect (a : auth_mode) (q : request) : N * list work :=
  match a with
  | A_introspector =>
      match q_body q with B_json => (200, [W_body; W_resolver]) | _ => (404, [W_body]) end
  | _ => (403, [])
  end.

Definition nth_seg (c : config) (ss : list bytes) : bytes := nth (if c_prefix c then 1 else 0)%nat ss [].

Definition gated_handler (c : config) (a : auth_mode) (r : rid) (ss : list bytes) (q : request) : N * list work :=
  match r with
  | R_unary => h_unary (nth_seg c ss) q
  | R_init => h_init (nth_seg c ss) q
  | R_exchange => h_exchange (nth_seg c ss) q
  | R_upload => h_upload c q
  | R_introspect => h_introspect a q
  | _ => (500, [])
  end.

(* principal the best-effort authenticateRequest of the session-delete route sees *)
Inductive principal := P_anon | P_alice | P_other.
(* authenticateRequest: `auth, _ := h.authenticateFunc(r)` - the error is
   dropped and a non-nil context is used even when it came with an error. With
   PKCE on the callback is ChainAuthenticate(...), which returns (nil, err). *)
Definition delete_principal (c : config) (a : auth_mode) (x : ctxc) : principal :=
  match a with
  | A_ok => P_alice
  | A_introspector => P_other
  | A_none | A_nilnil => P_anon
  | _ => if pkce_on c a then P_anon
         else match x with CX_nil => P_anon | CX_alice => P_alice | CX_introspector => P_other end
  end.

(* handlers that do not authenticate: status, work, authenticator consulted *)
Definition open_handler (c : config) (a : auth_mode) (x : ctxc) (r : rid) (q : request) : N * list work * bool :=
  match r with
  | R_health_root | R_health_pfx => (200, [], false)
  | R_wellknown => (if c_oauth c then 200 else 404, [], false)
  | R_cb => (400, [], false)                  (* no code / state in the query *)
  | R_logout => (302, [], false)
  | R_token_post => match q_ctype q with CT_form => (400, [W_body], false) | _ => (415, [], false) end
  | R_token_opt => (204, [], false)
  | R_custom_get | R_custom_post => (200, [W_custom], false)
  | R_landing | R_describe_page => (200, [], false)
  | R_notfound => (404, [], false)
  | R_session_delete =>
      match q_sess q with
      | S_none => (200, [], false)
      | S_garbage => (200, [], has_auth a)
      | S_anon => match delete_principal c a x with
                  | P_anon => (204, [W_session_close], has_auth a) | _ => (200, [], has_auth a) end
      | S_alice => match delete_principal c a x with
                   | P_alice => (204, [W_session_close], has_auth a) | _ => (200, [], has_auth a) end
      end
  | R_upload => let '(st, w) := h_upload c q in (st, w, false)   (* legacy tree only *)
  | _ => (500, [], false)
  end.

Definition run_route_gen (legacy : bool) (c : config) (a : auth_mode) (x : ctxc) (r : rid) (ss : list bytes) (q : request)
  : N * list work * bool :=
  match gate_of_gen legacy c (pkce_on c a) r with
  | G_auth =>
      match auth_outcome a with
      | AR_rej st => (st, [], true)
      | AR_pass => let '(st, w) := gated_handler c a r ss q in (st, w, has_auth a)
      end
  | G_stub => (404, [], false)
  | G_login_wall =>
      if auth_err a then ((if q_html q then 302 else 401), [], true) else (200, [], true)
  | G_open => open_handler c a x r q
  end.

Definition is_options (m : meth) : bool := match m with M_OPTIONS => true | _ => false end.
Definition redirect_status : N := Z.to_N c22_redirect_status.

(* isMaxBytesExempt on r.URL.Path (the DECODED path, before any cleaning):
   /health and {prefix}/health and everything below them *)
Definition whole_unesc (raw : bytes) : bytes := match unesc raw with Some u => u | None => raw end.
Definition under (base p : bytes) : bool := beqb p base || has_prefix (base ++ [47]) p.
Definition exempt (c : config) (raw : bytes) : bool :=
  let p := whole_unesc raw in
  under (str "/health") p
  || (c_prefix c && under (47 :: c22_prefix_seg ++ str "/health") p).

(* the max_request_bytes fast path: taken before the mux, before any handler
   and therefore before the authenticator *)
Definition pre413 (c : config) (q : request) : bool :=
  c_maxreq c && q_big q && negb (exempt c (q_path q)).

(* ServeHTTP *)
Definition serve_gen (legacy : bool) (c : config) (a : auth_mode) (x : ctxc) (q : request) : obs :=
  let pk := pkce_on c a in
  match parse_path (q_path q) with
  | None =>
      {| o_status := if is_options (q_meth q) then 204 else if pre413 c q then 413 else redirect_status;
         o_work := []; o_consulted := false; o_pat := []; o_body := None |}
  | Some (ss, tr) =>
      let d := dispatch c pk (q_meth q) ss tr in
      let ps := match d with D_route r => pat_str (route_pat c r) | _ => [] end in
      if is_options (q_meth q) then   (* CORS preflight: answered before everything else *)
        {| o_status := 204; o_work := []; o_consulted := false; o_pat := ps; o_body := Some BK_empty |}
      else if pre413 c q then         (* refused on the declared length alone, before the mux: nothing runs *)
        {| o_status := 413; o_work := []; o_consulted := false; o_pat := ps; o_body := None |}
      else match d with
           | D_route r =>
               let '(st, w, cs) := run_route_gen legacy c a x r ss q in
               {| o_status := st; o_work := w; o_consulted := cs; o_pat := ps;
                  o_body := match gate_of_gen legacy c pk r, auth_outcome a with
                            | G_auth, AR_rej s0 => Some (bk_of s0)   (* only what the auth layer wrote *)
                            | _, _ => None
                            end |}
           | D_405 => {| o_status := 405; o_work := []; o_consulted := false; o_pat := []; o_body := None |}
           | D_404 => {| o_status := 404; o_work := []; o_consulted := false; o_pat := []; o_body := None |}
           end
  end.
Definition run_route := run_route_gen false.
Definition serve := serve_gen false.

(* the route a request is handed to (None: preflight, redirect, the mux's own 404/405) *)
Definition routed (c : config) (a : auth_mode) (q : request) : option rid :=
  if is_options (q_meth q) then None
  else if pre413 c q then None
  else match parse_path (q_path q) with
       | None => None
       | Some (ss, tr) =>
           match dispatch c (pkce_on c a) (q_meth q) ss tr with D_route r => Some r | _ => None end
       end.

(* ---- correspondence interface ----------------------------------------- *)
Inductive input := Probe (c : config) (a : auth_mode) (x : ctxc) (q : request).

Definition model (i : input) : obs := match i with Probe c a x q => serve c a x q end.
Definition model_legacy (i : input) : obs := match i with Probe c a x q => serve_gen true c a x q end.

Definition obs_eqb (x y : obs) : bool :=
  N.eqb (o_status x) (o_status y) && list_eqb work_beq (o_work x) (o_work y)
  && Bool.eqb (o_consulted x) (o_consulted y) && beqb (o_pat x) (o_pat y)
  && match o_body x with    (* x = the model: None = body not predicted *)
     | None => true
     | Some k => match o_body y with Some k' => bkind_beq k k' | None => false end
     end.

(* ---- the property, decided on the implementation's observables ----------
   Independent of [serve]: uses the pattern the REAL mux reported, the table's
   first-action column, and the error component of the authenticator script
   only (the context component is ignored: [Probe c a _ q]). A rejected request
   on a gated route must show the auth layer's status, an EMPTY work trace, and
   a body that is exactly the auth layer's rejection body. *)
Definition route_of_pat (c : config) (pk : bool) (s : bytes) : option rid :=
  find (fun r => beqb (pat_str (route_pat c r)) s) (registered c pk).

(* work an unauthenticated request may cause, per open route: never a method
   handler, stream state, rehydration, resolver, provider, describe or hook *)
Definition open_work (r : rid) : list work :=
  match r with
  | R_custom_get | R_custom_post => [W_custom]
  | R_session_delete => [W_session_close]
  | R_token_post => [W_body]
  | _ => []
  end.
Definition wsubset (a b : list work) : bool := forallb (fun w => existsb (work_beq w) b) a.

Definition spec_ok (i : input) (o : obs) : bool :=
  match i with
  | Probe c a _ q =>
      match auth_outcome a with
      | AR_pass => true
      | AR_rej st =>
          if is_options (q_meth q) then (o_status o =? 204) && is_nil (o_work o) && negb (o_consulted o)
          else if pre413 c q then   (* over the cap: 413 and nothing else, whatever the route *)
            (o_status o =? 413) && is_nil (o_work o) && negb (o_consulted o)
          else match o_pat o with
               | [] => is_nil (o_work o) && negb (o_consulted o)
               | s => match route_of_pat c (pkce_on c a) s with
                      | None => false
                      | Some r =>
                          if auth_required c (pkce_on c a) r
                          then (o_status o =? st) && is_nil (o_work o) && o_consulted o
                               && match o_body o with   (* nothing beyond the rejection body *)
                                  | Some k => bkind_beq k (bk_of st) | None => false end
                          else wsubset (o_work o) (open_work r)
                      end
               end
      end
  end.

(* ---- the finite lattice and the tie to the compiled mux ------------------ *)
Definition bools : list bool := [false; true].
Definition all_configs : list config :=
  flat_map (fun a => flat_map (fun b => flat_map (fun c => flat_map (fun d =>
  flat_map (fun e => flat_map (fun f => flat_map (fun g => flat_map (fun h =>
  flat_map (fun i => flat_map (fun j => flat_map (fun k => map (fun l =>
    {| c_prefix := a; c_landing := b; c_describe := c; c_notfound := d; c_sticky := e; c_pkce := f;
       c_custom := g; c_upload := h; c_introspect := i; c_oauth := j; c_cors := k; c_maxreq := l |})
  bools) bools) bools) bools) bools) bools) bools) bools) bools) bools) bools) bools.

Definition all_auth : list auth_mode :=
  [A_none; A_ok; A_introspector; A_fail; A_fail_wrapped; A_valerr; A_valerr_wrapped; A_permerr;
   A_unavail; A_unavail_wrapped; A_error; A_nilnil].

Definition config_of_mask (m : N) : config :=
  {| c_prefix := N.testbit m 0; c_landing := N.testbit m 1; c_describe := N.testbit m 2;
     c_notfound := N.testbit m 3; c_sticky := N.testbit m 4; c_pkce := N.testbit m 5;
     c_custom := N.testbit m 6; c_upload := N.testbit m 7; c_introspect := N.testbit m 8;
     c_oauth := N.testbit m 9; c_cors := N.testbit m 10; c_maxreq := N.testbit m 11 |}.

Definition bmem (x : bytes) (l : list bytes) : bool := existsb (beqb x) l.
Definition nth_bit (u : list bytes) (name : bytes) : N :=
  (fix go (u : list bytes) (i : N) : N :=
     match u with [] => 0 | x :: r => if beqb x name then N.shiftl 1 i else go r (i + 1) end) u 0.
Definition mask_of (l : list bytes) : N := fold_right (fun s a => N.lor (nth_bit c22_universe s) a) 0 l.

Definition be (l : bytes) : N := fold_left (fun a b => 256 * a + b) l 0.
Definition row_cfg (r : bytes) : N := be (take 2 r).
Definition row_reg (r : bytes) : N := be (take 8 (drop 2 r)).
Definition row_rej (r : bytes) : N := be (take 8 (drop 10 r)).
Definition row_cons (r : bytes) : N := be (take 8 (drop 18 r)).
(* patterns whose probe, repeated with a Content-Length above the request cap,
   made the upload-URL provider run or carried a pre-signed URL *)
Definition row_vend (r : bytes) : N := be (take 8 (drop 26 r)).

(* a probe under an always-rejecting authenticator is answered 401 with the
   authenticator consulted exactly on the routes whose first action is the
   authenticator or the login wall (OPTIONS patterns are not probed: preflight) *)
Definition stops_rejected (g : gate) : bool := match g with G_auth | G_login_wall => true | _ => false end.

(* one tabulated lattice point (the tabulated servers all have an authenticator) *)
Definition row_ok (row : bytes) : bool :=
  let c := config_of_mask (row_cfg row) in
  let pk := c_pkce c && c_oauth c in
  let regs := registered c pk in
  let pats := map (fun r => pat_str (route_pat c r)) regs in
  let stopped := filter (fun r => stops_rejected (gate_of c pk r)
                                  && negb (omeq (p_meth (route_pat c r)) (Some M_OPTIONS))) regs in
  let spats := map (fun r => pat_str (route_pat c r)) stopped in
  forallb (fun s => bmem s c22_universe) pats
  && (mask_of pats =? row_reg row)
  && (mask_of spats =? row_rej row)
  && (mask_of spats =? row_cons row)
  && (row_vend row =? 0).

(* short names used by the generated case files *)
Definition cfgm : N -> config := config_of_mask.
Definition up (n : nat) : bytes := nth n c22_universe [].
