(* Model/C24.v — credential extractors.
   (a) vgirpc/bearer.go: BearerAuthenticate + BearerAuthenticateStatic (prefix
       test, crypto/subtle.ConstantTimeCompare scan = byte equality, first hit).
   (b) vgirpc/mtls.go: splitRespectingQuotes, unescapeQuoted (regexp \\(.) ),
       ParseXfcc, extractCN (regexp (?:\\.|[^,])+ ), MtlsAuthenticateXfcc with the
       default identity, and net/url.QueryUnescape modelled directly (%XX, '+').
   (c) an independent concrete-syntax tree of the XFCC header grammar (elements
       separated by commas, key=value pairs separated by semicolons, values bare
       or double-quoted with backslash escapes, optional blanks) with its
       renderer and its denotation, and a DN syntax tree with its renderer.
   Byte strings are [list N]; strings.TrimSpace / ToLower / EqualFold are the
   ASCII functions of Lib/Strs.v (generators stay inside the byte set on which Go's
   Unicode-aware versions coincide with them, see props/C24.json). *)
From VR Require Export Lib.Strs Gen.Consts.
Open Scope N_scope.

Definition QUOTE : N := 34.
Definition BSL : N := 92.
Definition COMMA : N := 44.
Definition SEMI : N := 59.
Definition EQ : N := 61.
Definition PCT : N := 37.
Definition PLUS : N := 43.
Definition SP : N := 32.
Definition NL : N := 10.

Definition value_error : bytes := str "ValueError".

(* ======================================================================== *)
(* (a) static bearer authenticator                                           *)
(* ======================================================================== *)
Definition bearer_prefix : bytes := str "Bearer ".

Inductive bres := BAccept (principal : bytes) | BReject (errtype : bytes).

(* toks: configured (token, identity) pairs (a Go map: keys are distinct);
   hdrs: the values of the Authorization header, Header.Get takes the first. *)
Definition bearer_auth (toks : list (bytes * bytes)) (hdrs : list bytes) : bres :=
  let h := hd [] hdrs in
  match h with
  | [] => BReject value_error
  | _ =>
    if has_prefix bearer_prefix h then
      match find (fun tp => beqb (drop (length bearer_prefix) h) (fst tp)) toks with
      | Some tp => BAccept (snd tp)
      | None => BReject value_error
      end
    else BReject value_error
  end.

(* ======================================================================== *)
(* (b) XFCC parser                                                           *)
(* ======================================================================== *)
Definition cons_hd (c : N) (l : list bytes) : list bytes :=
  match l with h :: r => (c :: h) :: r | [] => [[c]] end.

(* splitRespectingQuotes(text, d), started in quote state inq (Go: false) *)
Fixpoint split_rq (d : N) (inq : bool) (s : bytes) : list bytes :=
  match s with
  | [] => [[]]
  | c :: t =>
    if c =? QUOTE then cons_hd c (split_rq d (negb inq) t)
    else if (c =? BSL) && inq then
      match t with
      | c2 :: t2 => cons_hd c (cons_hd c2 (split_rq d inq t2))
      | [] => [[c]]
      end
    else if (c =? d) && negb inq then [] :: split_rq d inq t
    else cons_hd c (split_rq d inq t)
  end.

(* unescapeQuoted: regexp \\(.) -> $1 ; '.' does not match a newline *)
Fixpoint unescape_q (s : bytes) : bytes :=
  match s with
  | [] => []
  | c :: t =>
    if c =? BSL then
      match t with
      | c2 :: t2 => if c2 =? NL then c :: unescape_q t else c2 :: unescape_q t2
      | [] => [c]
      end
    else c :: unescape_q t
  end.

(* len(v) >= 2 && v[0] == '"' && v[len-1] == '"'  ->  unescapeQuoted(v[1:len-1]) *)
Definition strip_quotes (v : bytes) : bytes :=
  match v with
  | q :: r =>
    if q =? QUOTE then
      match rev r with
      | q2 :: m => if q2 =? QUOTE then unescape_q (rev m) else v
      | [] => v
      end
    else v
  | [] => v
  end.

(* net/url.QueryUnescape; None = EscapeError *)
Definition ishex (c : N) : bool :=
  ((48 <=? c) && (c <=? 57)) || ((97 <=? c) && (c <=? 102)) || ((65 <=? c) && (c <=? 70)).
Definition unhex (c : N) : N :=
  if (48 <=? c) && (c <=? 57) then c - 48
  else if (97 <=? c) && (c <=? 102) then c - 87
  else if (65 <=? c) && (c <=? 70) then c - 55 else 0.

Fixpoint qunesc (s : bytes) : option bytes :=
  match s with
  | [] => Some []
  | c :: t =>
    if c =? PCT then
      match t with
      | h1 :: h2 :: t2 =>
        if ishex h1 && ishex h2 then option_map (cons (16 * unhex h1 + unhex h2)) (qunesc t2)
        else None
      | _ => None
      end
    else if c =? PLUS then option_map (cons SP) (qunesc t)
    else option_map (cons c) (qunesc t)
  end.

(* net/url.QueryEscape (used by the renderer only) *)
Definition unreserved (c : N) : bool :=
  ((48 <=? c) && (c <=? 57)) || ((97 <=? c) && (c <=? 122)) || ((65 <=? c) && (c <=? 90))
  || (c =? 45) || (c =? 95) || (c =? 46) || (c =? 126).
Definition hexdig (n : N) : N := if n <? 10 then 48 + n else 55 + n.
Definition qesc1 (c : N) : bytes :=
  if c =? SP then [PLUS] else if unreserved c then [c]
  else [PCT; hexdig (c / 16); hexdig (c mod 16)].
Definition qescape (v : bytes) : bytes := flat_map qesc1 v.

Record elem := {
  e_hash : bytes; e_cert : bytes; e_subject : bytes; e_uri : bytes;
  e_dns : list bytes; e_by : bytes }.
Definition empty_elem : elem :=
  {| e_hash := []; e_cert := []; e_subject := []; e_uri := []; e_dns := []; e_by := [] |}.

Definition k_hash := str "hash".
Definition k_cert := str "cert".
Definition k_subject := str "subject".
Definition k_uri := str "uri".
Definition k_dns := str "dns".
Definition k_by := str "by".

Definition is_urlkey (k : bytes) : bool := beqb k k_cert || beqb k k_uri || beqb k k_by.
Definition url_decode (v : bytes) : bytes := match qunesc v with Some d => d | None => v end.

(* the two switch statements of ParseXfcc, on the lower-cased key *)
Definition set_field (k v0 : bytes) (e : elem) : elem :=
  let v := if is_urlkey k then url_decode v0 else v0 in
  if beqb k k_hash then {| e_hash := v; e_cert := e_cert e; e_subject := e_subject e; e_uri := e_uri e; e_dns := e_dns e; e_by := e_by e |}
  else if beqb k k_cert then {| e_hash := e_hash e; e_cert := v; e_subject := e_subject e; e_uri := e_uri e; e_dns := e_dns e; e_by := e_by e |}
  else if beqb k k_subject then {| e_hash := e_hash e; e_cert := e_cert e; e_subject := v; e_uri := e_uri e; e_dns := e_dns e; e_by := e_by e |}
  else if beqb k k_uri then {| e_hash := e_hash e; e_cert := e_cert e; e_subject := e_subject e; e_uri := v; e_dns := e_dns e; e_by := e_by e |}
  else if beqb k k_dns then {| e_hash := e_hash e; e_cert := e_cert e; e_subject := e_subject e; e_uri := e_uri e; e_dns := e_dns e ++ [v]; e_by := e_by e |}
  else if beqb k k_by then {| e_hash := e_hash e; e_cert := e_cert e; e_subject := e_subject e; e_uri := e_uri e; e_dns := e_dns e; e_by := v |}
  else e.

(* one iteration of the inner loop of ParseXfcc *)
Definition apply_pair (e : elem) (pair : bytes) : elem :=
  let p := trim_space pair in
  match index_byte EQ p with
  | None => e
  | Some i =>
    set_field (to_lower (trim_space (take i p))) (strip_quotes (trim_space (drop (S i) p))) e
  end.

Definition parse_elem (raw : bytes) : list elem :=
  match trim_space raw with
  | [] => []
  | r => [fold_left apply_pair (split_rq SEMI false r) empty_elem]
  end.

Definition parse_xfcc (h : bytes) : list elem := flat_map parse_elem (split_rq COMMA false h).

(* extractCN: FindAllString of (?:\\.|[^,])+ = the non-empty runs of [dn_split] *)
Fixpoint dn_split (s : bytes) : list bytes :=
  match s with
  | [] => [[]]
  | c :: t =>
    if c =? BSL then
      match t with
      | c2 :: t2 => if c2 =? NL then cons_hd c (dn_split t) else cons_hd c (cons_hd c2 (dn_split t2))
      | [] => [[c]]
      end
    else if c =? COMMA then [] :: dn_split t
    else cons_hd c (dn_split t)
  end.

Definition nonempty (s : bytes) : bool := match s with [] => false | _ => true end.
Definition cn_eq : bytes := str "CN=".

Definition cn_of_part (part : bytes) : option bytes :=
  let p := trim_space part in
  if (3 <? length p)%nat && equal_fold (take 3 p) cn_eq then Some (drop 3 p) else None.

Fixpoint first_cn (parts : list bytes) : bytes :=
  match parts with
  | [] => []
  | p :: r => match cn_of_part p with Some v => v | None => first_cn r end
  end.

Definition extract_cn (subject : bytes) : bytes := first_cn (filter nonempty (dn_split subject)).

(* MtlsAuthenticateXfcc with Validate = nil, Domain = "" *)
Inductive xres :=
| XCfgErr                                   (* constructor refused SelectElement *)
| XErr (errtype : bytes)
| XOk (domain principal hash subject uri : bytes) (dns : list bytes) (by_ : bytes).

Definition sel_first := str "first".
Definition sel_last := str "last".
Definition dom_mtls := str "mtls".

Definition select (sel : bytes) (es : list elem) : option elem :=
  if beqb sel sel_last then hd_error (rev es) else hd_error es.

Definition xfcc_auth (sel : bytes) (hdrs : list bytes) : xres :=
  if negb (beqb sel [] || beqb sel sel_first || beqb sel sel_last) then XCfgErr else
  match hd [] hdrs with
  | [] => XErr value_error
  | h =>
    match select sel (parse_xfcc h) with
    | None => XErr value_error
    | Some e => XOk dom_mtls (extract_cn (e_subject e)) (e_hash e) (e_subject e) (e_uri e) (e_dns e) (e_by e)
    end
  end.

(* ======================================================================== *)
(* (c) independent grammar                                                   *)
(* ======================================================================== *)
Inductive fval := Bare (v : bytes) | Quoted (v : bytes).
Definition fval_val (f : fval) : bytes := match f with Bare v => v | Quoted v => v end.

(* ws1 key ws2 "=" ws3 value ws4 ; the value is the LOGICAL (decoded) value *)
Record field := {
  f_ws1 : bytes; f_key : bytes; f_ws2 : bytes; f_ws3 : bytes; f_val : fval; f_ws4 : bytes }.
Definition element := list field.
Definition header := list element.

Definition escape_q (v : bytes) : bytes :=
  flat_map (fun c => if (c =? QUOTE) || (c =? BSL) then [BSL; c] else [c]) v.

Definition wire_val (key v : bytes) : bytes := if is_urlkey (to_lower key) then qescape v else v.
Definition render_val (key : bytes) (fv : fval) : bytes :=
  match fv with
  | Bare v => wire_val key v
  | Quoted v => QUOTE :: escape_q (wire_val key v) ++ [QUOTE]
  end.
Definition render_field (f : field) : bytes :=
  f_ws1 f ++ f_key f ++ f_ws2 f ++ [EQ] ++ f_ws3 f ++ render_val (f_key f) (f_val f) ++ f_ws4 f.
Definition render_element (fs : element) : bytes := join [SEMI] (map render_field fs).
Definition render_header (es : header) : bytes := join [COMMA] (map render_element es).

(* what the grammar says a header means: keys are case-insensitive, single-valued
   fields keep the last occurrence, DNS accumulates, unknown keys are ignored,
   an element without pairs is no element *)
Definition denote_field (e : elem) (f : field) : elem :=
  let k := to_lower (f_key f) in
  let v := fval_val (f_val f) in
  if beqb k k_hash then {| e_hash := v; e_cert := e_cert e; e_subject := e_subject e; e_uri := e_uri e; e_dns := e_dns e; e_by := e_by e |}
  else if beqb k k_cert then {| e_hash := e_hash e; e_cert := v; e_subject := e_subject e; e_uri := e_uri e; e_dns := e_dns e; e_by := e_by e |}
  else if beqb k k_subject then {| e_hash := e_hash e; e_cert := e_cert e; e_subject := v; e_uri := e_uri e; e_dns := e_dns e; e_by := e_by e |}
  else if beqb k k_uri then {| e_hash := e_hash e; e_cert := e_cert e; e_subject := e_subject e; e_uri := v; e_dns := e_dns e; e_by := e_by e |}
  else if beqb k k_dns then {| e_hash := e_hash e; e_cert := e_cert e; e_subject := e_subject e; e_uri := e_uri e; e_dns := e_dns e ++ [v]; e_by := e_by e |}
  else if beqb k k_by then {| e_hash := e_hash e; e_cert := e_cert e; e_subject := e_subject e; e_uri := e_uri e; e_dns := e_dns e; e_by := v |}
  else e.
Definition denote_element (fs : element) : list elem :=
  match fs with [] => [] | _ => [fold_left denote_field fs empty_elem] end.
Definition denote (es : header) : list elem := flat_map denote_element es.

(* well-formedness of a syntax tree *)
Definition allsp (w : bytes) : bool := forallb is_space w.
Definition keychar (c : N) : bool :=
  negb (is_space c) && negb (c =? EQ) && negb (c =? COMMA) && negb (c =? SEMI) && negb (c =? QUOTE).
Definition key_ok (k : bytes) : bool := nonempty k && forallb keychar k.
Definition starts_space (v : bytes) : bool := match v with c :: _ => is_space c | [] => false end.
Definition ends_space (v : bytes) : bool := starts_space (rev v).
Definition barechar (c : N) : bool := negb (c =? COMMA) && negb (c =? SEMI) && negb (c =? QUOTE).
Definition bare_ok (v : bytes) : bool := forallb barechar v && negb (starts_space v) && negb (ends_space v).
Definition wf_field (f : field) : bool :=
  allsp (f_ws1 f) && allsp (f_ws2 f) && allsp (f_ws3 f) && allsp (f_ws4 f) && key_ok (f_key f)
  && all_bytes (fval_val (f_val f))
  && match f_val f with
     | Bare v => is_urlkey (to_lower (f_key f)) || bare_ok v
     | Quoted _ => true
     end.
Definition wf_element (fs : element) : bool := forallb wf_field fs.
Definition wf_header (es : header) : bool := forallb wf_element es.

(* DN syntax: RDNs type=value separated by commas; value = plain bytes and
   backslash escapes; optional blanks before the type *)
Inductive ditem := DPlain (c : N) | DEsc (c : N).
Record rdn := { r_pad : bytes; r_attr : bytes; r_val : list ditem }.
Definition render_item (i : ditem) : bytes := match i with DPlain c => [c] | DEsc c => [BSL; c] end.
Definition render_dval (v : list ditem) : bytes := flat_map render_item v.
Definition render_rdn (r : rdn) : bytes := r_pad r ++ r_attr r ++ [EQ] ++ render_dval (r_val r).
Definition render_dn (d : list rdn) : bytes := join [COMMA] (map render_rdn d).

Definition cn_name := str "CN".
Definition is_cn (r : rdn) : bool := equal_fold (r_attr r) cn_name.
(* the CN of a DN: the value text of the first RDN of type CN, empty if none *)
Definition cn_of (d : list rdn) : bytes :=
  match find is_cn d with Some r => render_dval (r_val r) | None => [] end.

Definition attrchar (c : N) : bool :=
  negb (is_space c) && negb (c =? EQ) && negb (c =? COMMA) && negb (c =? BSL).
Definition item_ok (i : ditem) : bool :=
  match i with
  | DPlain c => negb (c =? COMMA) && negb (c =? BSL)
  | DEsc c => negb (c =? NL)
  end.
Definition item_last (i : ditem) : N := match i with DPlain c => c | DEsc c => c end.
Definition wf_rdn (r : rdn) : bool :=
  allsp (r_pad r) && nonempty (r_attr r) && forallb attrchar (r_attr r)
  && forallb item_ok (r_val r)
  && match r_val r with
     | [] => false                               (* X.520: a value has at least one character *)
     | i :: _ => negb (starts_space (render_item i))
     end
  && negb (is_space (item_last (last (r_val r) (DPlain 0)))).
Definition wf_dn (d : list rdn) : bool := forallb wf_rdn d.

(* ======================================================================== *)
(* correspondence interface                                                  *)
(* ======================================================================== *)
Inductive input :=
| Bearer (toks : list (bytes * bytes)) (hdrs : list bytes)
| XfccRaw (sel : bytes) (hdrs : list bytes)
| XfccAst (sel : bytes) (h : header)
| CnRaw (s : bytes)
| CnAst (d : list rdn)
| Qun (v : bytes).

Inductive obs :=
| OBearer (r : bres)
  (* header used; split on ',' ; split on ';' ; ParseXfcc ; extractCN of each
     parsed element's Subject ; authenticator result *)
| OXfcc (hdr : bytes) (split_c split_s : list bytes) (parsed : list elem) (cns : list bytes) (auth : xres)
| OCn (subject cn : bytes)
  (* QueryEscape v ; QueryUnescape of that ; QueryUnescape v *)
| OQun (esc : bytes) (rt raw : option bytes).

Definition xfcc_obs (sel h : bytes) (hdrs : list bytes) : obs :=
  let es := parse_xfcc h in
  OXfcc h (split_rq COMMA false h) (split_rq SEMI false h) es
        (map (fun e => extract_cn (e_subject e)) es) (xfcc_auth sel hdrs).

Definition model (i : input) : obs :=
  match i with
  | Bearer toks hdrs => OBearer (bearer_auth toks hdrs)
  | XfccRaw sel hdrs => xfcc_obs sel (hd [] hdrs) hdrs
  | XfccAst sel a => let h := render_header a in xfcc_obs sel h [h]
  | CnRaw s => OCn s (extract_cn s)
  | CnAst d => let s := render_dn d in OCn s (extract_cn s)
  | Qun v => OQun (qescape v) (qunesc (qescape v)) (qunesc v)
  end.

Definition elem_eqb (a b : elem) : bool :=
  beqb (e_hash a) (e_hash b) && beqb (e_cert a) (e_cert b) && beqb (e_subject a) (e_subject b)
  && beqb (e_uri a) (e_uri b) && list_eqb beqb (e_dns a) (e_dns b) && beqb (e_by a) (e_by b).

Definition bres_eqb (a b : bres) : bool :=
  match a, b with
  | BAccept p, BAccept q => beqb p q
  | BReject s, BReject t => beqb s t
  | _, _ => false
  end.

Definition xres_eqb (a b : xres) : bool :=
  match a, b with
  | XCfgErr, XCfgErr => true
  | XErr s, XErr t => beqb s t
  | XOk d p h s u n b, XOk d' p' h' s' u' n' b' =>
      beqb d d' && beqb p p' && beqb h h' && beqb s s' && beqb u u' && list_eqb beqb n n' && beqb b b'
  | _, _ => false
  end.

Definition obs_eqb (a b : obs) : bool :=
  match a, b with
  | OBearer r, OBearer r' => bres_eqb r r'
  | OXfcc h c s p n a, OXfcc h' c' s' p' n' a' =>
      beqb h h' && list_eqb beqb c c' && list_eqb beqb s s' && list_eqb elem_eqb p p'
      && list_eqb beqb n n' && xres_eqb a a'
  | OCn s c, OCn s' c' => beqb s s' && beqb c c'
  | OQun e r w, OQun e' r' w' => beqb e e' && opt_eqb beqb r r' && opt_eqb beqb w w'
  | _, _ => false
  end.

(* ---- the property, decided on one observation (never mentions [model]) --- *)
Definition nodup_keys (toks : list (bytes * bytes)) : bool :=
  (fix go (l : list (bytes * bytes)) : bool :=
     match l with
     | [] => true
     | tp :: r => negb (existsb (fun tq => beqb (fst tp) (fst tq)) r) && go r
     end) toks.

(* accepted exactly when the header is "Bearer " ++ a configured token, and then
   with that token's identity; refusals are ValueError *)
Definition bearer_spec (toks : list (bytes * bytes)) (hdrs : list bytes) (r : bres) : bool :=
  let h := hd [] hdrs in
  match r with
  | BAccept p => existsb (fun tp => beqb h (bearer_prefix ++ fst tp) && beqb p (snd tp)) toks
  | BReject t => negb (existsb (fun tp => beqb h (bearer_prefix ++ fst tp)) toks) && beqb t value_error
  end.

(* authenticator result against the implementation's own parse: absent/empty
   header or no element -> ValueError; otherwise identity = CN of the selected
   element's Subject, claims = that element's fields *)
Definition pick {A} (sel : bytes) (l : list A) : option A :=
  if beqb sel sel_last then hd_error (rev l) else hd_error l.

Definition auth_spec (sel : bytes) (present : bool) (parsed : list elem) (cns : list bytes) (a : xres) : bool :=
  if negb (beqb sel [] || beqb sel sel_first || beqb sel sel_last) then
    match a with XCfgErr => true | _ => false end
  else
    match present, pick sel parsed, pick sel cns, a with
    | true, Some e, Some cn, XOk d p h s u n b =>
        beqb d dom_mtls && beqb p cn && beqb h (e_hash e) && beqb s (e_subject e) && beqb u (e_uri e)
        && list_eqb beqb n (e_dns e) && beqb b (e_by e)
    | true, None, _, XErr t => beqb t value_error
    | false, _, _, XErr t => beqb t value_error
    | _, _, _, _ => false
    end.

Definition split_spec (d : N) (h : bytes) (parts : list bytes) : bool := beqb (join [d] parts) h.

Definition spec_ok (i : input) (o : obs) : bool :=
  match i, o with
  | Bearer toks hdrs, OBearer r => if nodup_keys toks then bearer_spec toks hdrs r else true
  | XfccRaw sel hdrs, OXfcc h c s p n a =>
      beqb h (hd [] hdrs) && split_spec COMMA h c && split_spec SEMI h s
      && Nat.eqb (length n) (length p) && auth_spec sel (nonempty h) p n a
  | XfccAst sel ast, OXfcc h c s p n a =>
      split_spec COMMA h c && split_spec SEMI h s
      && Nat.eqb (length n) (length p) && auth_spec sel (nonempty h) p n a
      && (if wf_header ast then list_eqb elem_eqb p (denote ast) else true)
  | CnRaw _, OCn _ _ => true
  | CnAst d, OCn _ cn => if wf_dn d then beqb cn (cn_of d) else true
  | Qun v, OQun _ rt _ => if all_bytes v then opt_eqb beqb rt (Some v) else true
  | _, _ => false
  end.

(* ---- compact spelling of long tokens in generated cases ------------------- *)
(* [pat n s] is the n-byte printable string whose i-th byte is
   33 + (s + 7*i + i/64) mod 90 (no period of 64, [pat m s] is a prefix of
   [pat n s] for m <= n); [setb p b t] replaces byte p of t. The harness spells
   long bearer tokens with these two (it computes the same bytes in Go and hands
   them to the real authenticator), so a 1000-byte token costs no literal. *)
Fixpoint pat_from (n : nat) (i s : N) : bytes :=
  match n with
  | O => []
  | S k => (33 + (s + 7 * i + i / 64) mod 90) :: pat_from k (i + 1) s
  end.
Definition pat (n : nat) (s : N) : bytes := pat_from n 0 s.
Fixpoint setb (p : nat) (b : N) (t : bytes) : bytes :=
  match t, p with
  | [], _ => []
  | _ :: r, O => b :: r
  | x :: r, S k => x :: setb k b r
  end.
