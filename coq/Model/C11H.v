(* Model/C11H.v — HISTORIES of stream calls for property C11: several stream
   calls opened on the SAME HttpServer instances (shared token key, one call-state
   cache per instance) and driven by one client in an arbitrary interleaving
   (open A, open B, continue A, ...), each compared with its own pipe run.

   A call's client view does not depend on the other calls or on the
   interleaving: Proofs/C11.v proves the refinement for EVERY perturbation [env]
   of the instances' caches between two requests of a call that keeps the call's
   own entry consistent, and that another call's requests (different call id) are
   such a perturbation. So the model of a history is the model of each of its
   calls; the schedule is an input the model ignores. *)
From VR Require Export Model.C11.

Record input := {
  h_calls : list C11.input;      (* all calls share the servers: same L / cap / cache size *)
  h_sched : list nat }.          (* client step j advances call (nth j h_sched); leftovers run to completion in order *)
Definition obs := list C11.obs.  (* per call: its pipe run and its HTTP responses *)

Definition model (h : input) : obs := map C11.model (h_calls h).

Fixpoint all2 {A B} (p : A -> B -> bool) (a : list A) (b : list B) : bool :=
  match a, b with
  | [], [] => true
  | x :: a', y :: b' => p x y && all2 p a' b'
  | _, _ => false
  end.

Definition obs_eqb (a b : obs) : bool := list_eqb C11.obs_eqb a b.
(* the property on a history: EVERY call's HTTP view equals its pipe view *)
Definition spec_ok (h : input) (o : obs) : bool := all2 C11.spec_ok (h_calls h) o.
