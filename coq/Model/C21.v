(* Model/C21.v — the native HTTP client (vgirpc/http_client.go): openStream,
   HttpClientStream.{Exchange,Next,Cancel,Close}, post, parseMain, parseIPCStream,
   driven against a scripted stateless HTTP server (http_stream.go handleStreamInit /
   handleStreamExchange / runProduceLoop / handleExchangeCall / handleStreamCancel)
   through a fault-injecting transport.

   Abstractions (each is what the harness projects):
   - an Arrow IPC response body is its list of frames (log / exception / batch with
     row count, first-column sum, user metadata, cursor label, call-token presence),
     whether its schema equals the declared output schema, and how it ends
     (clean / cut inside the last message / trailing bytes);
   - sealed cursor tokens are labels 0,1,2.. in minting order; the server recovers
     the state it sealed (oracle: [w_states]); freshness of a label is the smodel's
     counterpart of the random AEAD nonce;
   - a fault is a record of independent response mutations applied by the proxy.
   [fx] selects the client's parseIPCStream: true = current code (a mismatching
   stream is scanned for the exception envelope first, commit ab71de6), false = the
   earlier code (schema checked before anything is read), kept for the refutation. *)
From VR Require Export Lib.Strs Gen.Consts.
From Coq Require Export ZArith List Bool.
Import ListNotations.
Open Scope nat_scope.

Definition kv := (bytes * bytes)%type.

(* ---- scripted user code -------------------------------------------------- *)
Inductive act := AEmit | AEmitFinish | AFinish | ANoEmit | ARaise (ty : bytes) | APanic.
Record turn := { t_logs : list N; t_act : act; t_val : Z; t_meta : list kv }.
Inductive init_out := InitOk | InitRaise (ty : bytes) | InitPanic | InitNil.

(* ---- faults injected by the proxy, one per POST -------------------------- *)
Inductive net := NetOk | NetBefore | NetAfter.
(* What the response says about its content coding, on the two headers the client
   reads: the standard Content-Encoding and the custom X-VGI-Content-Encoding.
   CAbsent: header not present; COk: names a supported coding the body really is in
   (or identity); CUnknown: names (or lists) an unsupported coding; CBad: names gzip
   but the body is not gzip.
     EncKeep               nothing wrong (absent / consistent, on either header)
     EncUnknown            standard: unsupported, custom: absent
     EncBad                standard: gzip but body is not, custom: absent
     EncCustomUnknown      standard: absent, custom: unsupported
     EncBothUnknown        both unsupported
     EncStdUnknownCustomOk standard: unsupported, custom: fine
     EncStdOkCustomUnknown standard: fine, custom: unsupported (the standard header
                           is authoritative; the custom one is not consulted)
     EncCustomBad          standard: absent, custom: gzip but body is not *)
Inductive encf := EncKeep | EncUnknown | EncBad | EncCustomUnknown | EncBothUnknown
                | EncStdUnknownCustomOk | EncStdOkCustomUnknown | EncCustomBad.
Inductive coding := CAbsent | COk | CUnknown | CBad.
Definition enc_std (e : encf) : coding :=
  match e with
  | EncKeep | EncCustomUnknown | EncCustomBad => CAbsent
  | EncUnknown | EncBothUnknown | EncStdUnknownCustomOk => CUnknown
  | EncBad => CBad
  | EncStdOkCustomUnknown => COk
  end.
Definition enc_custom (e : encf) : coding :=
  match e with
  | EncKeep | EncUnknown | EncBad => CAbsent
  | EncCustomUnknown | EncBothUnknown | EncStdOkCustomUnknown => CUnknown
  | EncStdUnknownCustomOk => COk
  | EncCustomBad => CBad
  end.
(* HttpClient.post: the standard header if present, else the custom one, is validated
   (unsupported => refused) and then decoded (undecodable => refused) *)
Definition enc_chosen (e : encf) : coding :=
  match enc_std e with CAbsent => enc_custom e | c => c end.
Definition enc_accepts (e : encf) : bool :=
  match enc_chosen e with CAbsent | COk => true | CUnknown | CBad => false end.
(* BTrunc: cut inside a message (a declared length now exceeds what is left);
   BTruncHead: cut so that only 1..3 bytes of the last message remain (nothing
   oversized is declared); BTrailing: a tail the framing guard accepts (shorter
   than a length word, or a further end-of-stream marker); BTrailBig: a tail whose
   first word declares more bytes than remain. *)
Inductive bodyf := BKeep | BGarbage | BEmpty | BTrunc | BTrailing | BDropCur | BStrip | BDrift
                 | BTruncHead | BTrailBig.
Record fault := { f_net : net; f_status : Z; f_over : bool; f_enc : encf;
                  f_body : bodyf; f_errhdr : bool }.
Definition no_fault : fault :=
  {| f_net := NetOk; f_status := 0%Z; f_over := false; f_enc := EncKeep;
     f_body := BKeep; f_errhdr := false |}.

(* ---- client operations ---------------------------------------------------- *)
Inductive cop := OpExchange (x : Z) (bad : bool) | OpNext | OpCancel | OpClose.

Record sinput := {
  i_exchange : bool; i_init_logs : list N; i_init : init_out; i_turns : list turn;
  i_limit : nat; i_ops : list cop; i_faults : list fault }.

(* ---- observables ----------------------------------------------------------- *)
Inductive frame :=
| FLog (m : N)
| FExc (ty : bytes)
| FBat (rows : N) (v : Z) (um : list kv) (cur : option nat) (call : bool).

Inductive err := ERpc (ty : bytes) | EStatus (code : Z) | EOther.
Definition item := (N * Z * list kv)%type.
Inductive result := ROk (it : item) | REnd | RNil | RErr (e : err).

Record post_rec := {
  p_init : bool; p_cur : option nat; p_call : bool; p_cancel : bool; p_x : Z;
  p_fault : fault; p_reached : bool;
  p_sok : bool; p_serrhdr : bool; p_frames : list frame }.
Record op_rec := { o_posts : list post_rec; o_logs : list N; o_res : result }.
Definition sobs := list op_rec.

(* ---- error type names ------------------------------------------------------ *)
Definition runtime_error : bytes := Eval compute in str "RuntimeError".
Definition protocol_error : bytes := Eval compute in str "ProtocolError".
Definition transport_error : bytes := Eval compute in str "TransportError".
Definition type_error : bytes := Eval compute in str "TypeError".

(* ============================== server ==================================== *)
Record sresp := { sr_ok : bool; sr_errhdr : bool; sr_frames : list frame }.

Definition logs_of (l : list N) : list frame := map FLog l.
Definition exc_type (a : act) : bytes := match a with ARaise ty => ty | _ => runtime_error end.
Definition default_turn : turn := {| t_logs := []; t_act := AEmit; t_val := 0%Z; t_meta := [] |}.
Definition data_frame (v : Z) (um : list kv) (cur : option nat) : frame := FBat 1%N v um cur false.
Definition token_frame (c : nat) (call : bool) : frame := FBat 0%N 0%Z [] (Some c) call.

(* runProduceLoop: frames written, and Some pos' when the batch limit stopped the
   loop (a continuation token is due); None = finished or failed *)
Fixpoint produce (limit : nat) (ts : list turn) (pos count : nat) : list frame * option nat :=
  match ts with
  | [] => ([], None)
  | t :: rest =>
      match t_act t with
      | AEmit =>
          let fr := logs_of (t_logs t) ++ [data_frame (t_val t) (t_meta t) None] in
          if (0 <? limit) && (limit <=? S count) then (fr, Some (S pos))
          else let '(fr', r) := produce limit rest (S pos) (S count) in (fr ++ fr', r)
      | AEmitFinish => (logs_of (t_logs t) ++ [data_frame (t_val t) (t_meta t) None], None)
      | AFinish => (logs_of (t_logs t), None)
      | a => ([FExc (exc_type a)], None)
      end
  end.

Definition tok_tail (r : option nat) (next : nat) (call : bool) : list frame :=
  match r with Some _ => [token_frame next call] | None => [] end.

Definition srv_init (i : sinput) (next : nat) : sresp * option nat :=
  match i_init i with
  | InitOk =>
      if i_exchange i then
        ({| sr_ok := true; sr_errhdr := false;
            sr_frames := logs_of (i_init_logs i) ++ [token_frame next true] |}, Some 0)
      else
        let '(fr, r) := produce (i_limit i) (i_turns i) 0 0 in
        ({| sr_ok := true; sr_errhdr := false;
            sr_frames := logs_of (i_init_logs i) ++ fr ++ tok_tail r next true |}, r)
  | InitRaise ty => ({| sr_ok := false; sr_errhdr := true; sr_frames := [FExc ty] |}, None)
  | _ => ({| sr_ok := false; sr_errhdr := true; sr_frames := [FExc runtime_error] |}, None)
  end.

Definition srv_exchange (i : sinput) (pos : nat) (x : Z) (next : nat) : sresp * option nat :=
  let t := nth pos (i_turns i) default_turn in
  match t_act t with
  | AEmit =>
      ({| sr_ok := true; sr_errhdr := false;
          sr_frames := logs_of (t_logs t) ++ [data_frame (t_val t + x) (t_meta t) (Some next)] |},
       Some (S pos))
  | a => ({| sr_ok := true; sr_errhdr := true; sr_frames := [FExc (exc_type a)] |}, None)
  end.

Definition srv_cont (i : sinput) (pos : nat) (next : nat) : sresp * option nat :=
  let '(fr, r) := produce (i_limit i) (skipn pos (i_turns i)) pos 0 in
  ({| sr_ok := true; sr_errhdr := false; sr_frames := fr ++ tok_tail r next false |}, r).

Definition srv_cancel : sresp * option nat :=
  ({| sr_ok := true; sr_errhdr := false; sr_frames := [] |}, None).

(* ============================ transport ==================================== *)
Inductive tailk := TClean | TTrunc | TTrailing.
Inductive cbody := CGarbage | CStream (ok : bool) (fs : list frame) (tail : tailk).

Definition has_cur (f : frame) : bool :=
  match f with FBat _ _ _ (Some _) _ => true | _ => false end.
Definition strip_tok (f : frame) : frame :=
  match f with FBat r v um _ _ => FBat r v um None false | _ => f end.

Definition edit (b : bodyf) (sr : sresp) : cbody :=
  match b with
  | BKeep => CStream (sr_ok sr) (sr_frames sr) TClean
  | BGarbage | BEmpty => CGarbage
  | BTrunc | BTrailBig => CGarbage   (* refused by checkResponseFraming before any batch is read *)
  | BTruncHead => match sr_frames sr with
                  | [] => CGarbage
                  | _ => CStream (sr_ok sr) (removelast (sr_frames sr)) TTrunc
                  end
  | BTrailing => CStream (sr_ok sr) (sr_frames sr) TTrailing
  | BDropCur => CStream (sr_ok sr) (filter (fun f => negb (has_cur f)) (sr_frames sr)) TClean
  | BStrip => CStream (sr_ok sr) (map strip_tok (sr_frames sr)) TClean
  | BDrift => CStream false (sr_frames sr) TClean
  end.

Definition eff_status (f : fault) : Z := if (f_status f =? 0)%Z then 200%Z else f_status f.
Definition status_2xx (s : Z) : bool := ((200 <=? s) && (s <? 300))%Z.

(* HttpClient.post: what the client makes of the (mutated) HTTP response *)
Definition post_view (f : fault) (sr : sresp) : err + (bool * cbody) :=
  match f_net f with
  | NetOk =>
      if f_over f then inl (ERpc transport_error) else
      if enc_accepts (f_enc f) then
          if status_2xx (eff_status f)
          then inr (sr_errhdr sr || f_errhdr f, edit (f_body f) sr)
          else inl (EStatus (eff_status f))
      else inl (ERpc transport_error)
  | _ => inl (ERpc transport_error)
  end.

(* ============================== client ===================================== *)
Record parsed := { pa_items : list item; pa_tok : option nat; pa_call : bool }.

Fixpoint first_exc (fs : list frame) : option bytes :=
  match fs with
  | [] => None
  | FExc ty :: _ => Some ty
  | _ :: r => first_exc r
  end.

(* the batch loop of parseIPCStream; tid = tokenIsData; logs delivered so far *)
Fixpoint walk (tid : bool) (fs : list frame) : list N * (err + parsed) :=
  match fs with
  | [] => ([], inr {| pa_items := []; pa_tok := None; pa_call := false |})
  | FLog m :: r => let '(l, x) := walk tid r in (m :: l, x)
  | FExc ty :: _ => ([], inl (ERpc ty))
  | FBat rows v um cur call :: r =>
      let '(l, x) := walk tid r in
      (l, match x with
          | inl e => inl e
          | inr p =>
              let tok := match pa_tok p with Some c => Some c | None => cur end in
              let skip := has_cur (FBat rows v um cur call) && (rows =? 0)%N && negb tid in
              inr {| pa_items := if skip then pa_items p else (rows, v, um) :: pa_items p;
                     pa_tok := tok; pa_call := call || pa_call p |}
          end)
  end.

Definition tail_of (b : cbody) : tailk := match b with CStream _ _ t => t | CGarbage => TClean end.

Definition parse_stream (fx tid : bool) (b : cbody) : list N * (err + parsed) :=
  match b with
  | CGarbage => ([], inl (ERpc protocol_error))
  | CStream false fs _ =>
      ([], inl (ERpc (if fx then match first_exc fs with Some ty => ty | None => type_error end
                      else type_error)))
  | CStream true fs tail =>
      let '(l, x) := walk tid fs in
      match x, tail with
      | inr _, TTrunc => (l, inl (ERpc protocol_error))
      | _, _ => (l, x)
      end
  end.

Definition parse_main (fx tid errhdr : bool) (b : cbody) : list N * (err + parsed) :=
  let '(l, x) := parse_stream fx tid b in
  match x with
  | inl e => (l, inl e)
  | inr p =>
      match tail_of b with
      | TTrailing => (l, inl (ERpc protocol_error))
      | _ => if errhdr then (l, inl (ERpc protocol_error)) else (l, inr p)
      end
  end.

Record cst := { c_tok : option nat; c_call : bool; c_fin : bool; c_closed : bool; c_pend : list item }.
Record world := { w_n : nat; w_states : list nat }.

Definition is_some {A} (o : option A) : bool := match o with Some _ => true | None => false end.
Definition is_nil {A} (l : list A) : bool := match l with [] => true | _ => false end.

Definition fault_at (i : sinput) (n : nat) : fault := nth n (i_faults i) no_fault.

Definition server (i : sinput) (w : world) (init : bool) (cur : option nat) (cancel : bool) (x : Z)
  : sresp * option nat :=
  let next := length (w_states w) in
  if init then srv_init i next
  else if cancel then srv_cancel
  else let pos := match cur with Some c => nth c (w_states w) 0 | None => 0 end in
       if i_exchange i then srv_exchange i pos x next else srv_cont i pos next.

Definition mk_post (init : bool) (cur : option nat) (call cancel : bool) (x : Z) (f : fault)
  (reached : bool) (sr : sresp) : post_rec :=
  {| p_init := init; p_cur := cur; p_call := call; p_cancel := cancel; p_x := x; p_fault := f;
     p_reached := reached; p_sok := sr_ok sr; p_serrhdr := sr_errhdr sr; p_frames := sr_frames sr |}.

Definition empty_sresp : sresp := {| sr_ok := false; sr_errhdr := false; sr_frames := [] |}.

(* one POST through the proxy *)
Definition do_post (i : sinput) (w : world) (init : bool) (cur : option nat) (call cancel : bool) (x : Z)
  : world * post_rec * (err + (bool * cbody)) :=
  let f := fault_at i (w_n w) in
  match f_net f with
  | NetBefore =>
      ({| w_n := S (w_n w); w_states := w_states w |},
       mk_post init cur call cancel x f false empty_sresp, inl (ERpc transport_error))
  | _ =>
      let '(sr, mint) := server i w init cur cancel x in
      ({| w_n := S (w_n w);
          w_states := match mint with Some p => w_states w ++ [p] | None => w_states w end |},
       mk_post init cur call cancel x f true sr, post_view f sr)
  end.

Definition mk_op (ps : list post_rec) (l : list N) (r : result) : op_rec :=
  {| o_posts := ps; o_logs := l; o_res := r |}.

Definition set_pend (c : cst) (p : list item) : cst :=
  {| c_tok := c_tok c; c_call := c_call c; c_fin := c_fin c; c_closed := c_closed c; c_pend := p |}.
Definition poison (c : cst) : cst :=
  {| c_tok := None; c_call := c_call c; c_fin := true; c_closed := c_closed c; c_pend := c_pend c |}.

(* HttpClient.openStream *)
Definition open_op (fx : bool) (i : sinput) (w : world) : world * option cst * op_rec :=
  let '(w', pr, v) := do_post i w true None false false 0%Z in
  match v with
  | inl e => (w', None, mk_op [pr] [] (RErr e))
  | inr (eh, b) =>
      let '(l, r) := parse_stream fx false b in
      match r with
      | inl e => (w', None, mk_op [pr] l (RErr e))
      | inr p =>
          let fail := (w', None, mk_op [pr] l (RErr (ERpc protocol_error))) in
          match tail_of b with
          | TTrailing => fail
          | _ =>
              if i_exchange i && negb (is_nil (pa_items p)) then fail
              else if i_exchange i && (negb (is_some (pa_tok p)) || negb (pa_call p)) then fail
              else if eh then fail
              else (w', Some {| c_tok := pa_tok p; c_call := pa_call p;
                                c_fin := negb (is_some (pa_tok p)); c_closed := false;
                                c_pend := pa_items p |}, mk_op [pr] l RNil)
          end
      end
  end.

(* HttpClientStream.Exchange *)
Definition exchange_op (fx : bool) (i : sinput) (w : world) (c : cst) (x : Z) (bad : bool)
  : world * cst * op_rec :=
  if c_closed c then (w, c, mk_op [] [] (RErr EOther))
  else if negb (i_exchange i) then (w, c, mk_op [] [] (RErr EOther))
  else if c_fin c || negb (is_some (c_tok c)) then (w, c, mk_op [] [] (RErr (ERpc protocol_error)))
  else if bad then (w, c, mk_op [] [] (RErr (ERpc type_error)))
  else
    let c1 := poison c in
    let '(w', pr, v) := do_post i w false (c_tok c) (c_call c) false x in
    match v with
    | inl e => (w', c1, mk_op [pr] [] (RErr e))
    | inr (eh, b) =>
        let '(l, r) := parse_main fx true eh b in
        match r with
        | inl e => (w', c1, mk_op [pr] l (RErr e))
        | inr p =>
            match pa_items p, pa_tok p with
            | [it], Some t =>
                (w', {| c_tok := Some t; c_call := pa_call p || c_call c; c_fin := false;
                        c_closed := c_closed c; c_pend := c_pend c |}, mk_op [pr] l (ROk it))
            | _, _ => (w', c1, mk_op [pr] l (RErr (ERpc protocol_error)))
            end
        end
    end.

(* HttpClientStream.Next: the for-loop, bounded by fuel (one POST per round) *)
Fixpoint next_loop (fx : bool) (i : sinput) (fuel : nat) (w : world) (c : cst)
  (ps : list post_rec) (ls : list N) : world * cst * op_rec :=
  match c_pend c with
  | it :: rest => (w, set_pend c rest, mk_op ps ls (ROk it))
  | [] =>
      if c_fin c || negb (is_some (c_tok c)) then
        (w, {| c_tok := c_tok c; c_call := c_call c; c_fin := true; c_closed := c_closed c; c_pend := [] |},
         mk_op ps ls REnd)
      else
        match fuel with
        | O => (w, c, mk_op ps ls (RErr EOther))
        | S k =>
            let '(w', pr, v) := do_post i w false (c_tok c) (c_call c) false 0%Z in
            match v with
            | inl e => (w', c, mk_op (ps ++ [pr]) ls (RErr e))
            | inr (eh, b) =>
                let '(l, r) := parse_main fx false eh b in
                match r with
                | inl e => (w', c, mk_op (ps ++ [pr]) (ls ++ l) (RErr e))
                | inr p =>
                    next_loop fx i k w'
                      {| c_tok := pa_tok p; c_call := pa_call p || c_call c;
                         c_fin := negb (is_some (pa_tok p)); c_closed := c_closed c;
                         c_pend := pa_items p |} (ps ++ [pr]) (ls ++ l)
                end
            end
        end
  end.

Definition next_op (fx : bool) (i : sinput) (w : world) (c : cst) : world * cst * op_rec :=
  if c_closed c then (w, c, mk_op [] [] (RErr EOther))
  else if i_exchange i then (w, c, mk_op [] [] (RErr EOther))
  else next_loop fx i (S (S (length (i_turns i)))) w c [] [].

(* HttpClientStream.Cancel *)
Definition cancel_op (fx : bool) (i : sinput) (w : world) (c : cst) : world * cst * op_rec :=
  if c_closed c || c_fin c || negb (is_some (c_tok c)) then
    (w, {| c_tok := c_tok c; c_call := c_call c; c_fin := true; c_closed := c_closed c; c_pend := c_pend c |},
     mk_op [] [] RNil)
  else
    let c1 := poison c in
    let '(w', pr, v) := do_post i w false (c_tok c) (c_call c) true 0%Z in
    match v with
    | inl e => (w', c1, mk_op [pr] [] (RErr e))
    | inr (eh, b) =>
        let '(l, r) := parse_main fx false eh b in
        match r with
        | inl e => (w', c1, mk_op [pr] l (RErr e))
        | inr p =>
            if negb (is_nil (pa_items p)) || is_some (pa_tok p)
            then (w', c1, mk_op [pr] l (RErr (ERpc protocol_error)))
            else (w', c1, mk_op [pr] l RNil)
        end
    end.

Definition close_op (w : world) (c : cst) : world * cst * op_rec :=
  (w, {| c_tok := c_tok c; c_call := c_call c; c_fin := c_fin c; c_closed := true; c_pend := [] |},
   mk_op [] [] RNil).

Definition step (fx : bool) (i : sinput) (w : world) (c : cst) (op : cop) : world * cst * op_rec :=
  match op with
  | OpExchange x bad => exchange_op fx i w c x bad
  | OpNext => next_op fx i w c
  | OpCancel => cancel_op fx i w c
  | OpClose => close_op w c
  end.

Fixpoint run_ops (fx : bool) (i : sinput) (w : world) (c : cst) (ops : list cop) : list op_rec :=
  match ops with
  | [] => []
  | op :: rest => let '(w', c', r) := step fx i w c op in r :: run_ops fx i w' c' rest
  end.

Definition world0 : world := {| w_n := 0; w_states := [] |}.

Definition model_gen (fx : bool) (i : sinput) : sobs :=
  let '(w, oc, r) := open_op fx i world0 in
  r :: match oc with Some c => run_ops fx i w c (i_ops i) | None => [] end.

Definition smodel : sinput -> sobs := model_gen true.
Definition smodel_legacy : sinput -> sobs := model_gen false.

(* ============================ equality on sobs ================================ *)
Definition kv_eqb : kv -> kv -> bool := pair_eqb beqb beqb.
Definition item_eqb (a b : item) : bool :=
  (fst (fst a) =? fst (fst b))%N && (snd (fst a) =? snd (fst b))%Z && list_eqb kv_eqb (snd a) (snd b).
Definition frame_eqb (a b : frame) : bool :=
  match a, b with
  | FLog m, FLog m' => (m =? m')%N
  | FExc t, FExc t' => beqb t t'
  | FBat r v um c k, FBat r' v' um' c' k' =>
      (r =? r')%N && (v =? v')%Z && list_eqb kv_eqb um um' && opt_eqb Nat.eqb c c' && Bool.eqb k k'
  | _, _ => false
  end.
Definition err_eqb (a b : err) : bool :=
  match a, b with
  | ERpc t, ERpc t' => beqb t t'
  | EStatus s, EStatus s' => (s =? s')%Z
  | EOther, EOther => true
  | _, _ => false
  end.
Definition result_eqb (a b : result) : bool :=
  match a, b with
  | ROk x, ROk y => item_eqb x y
  | REnd, REnd => true
  | RNil, RNil => true
  | RErr e, RErr e' => err_eqb e e'
  | _, _ => false
  end.
Definition net_eqb (a b : net) : bool :=
  match a, b with NetOk, NetOk | NetBefore, NetBefore | NetAfter, NetAfter => true | _, _ => false end.
Definition encf_eqb (a b : encf) : bool :=
  match a, b with
  | EncKeep, EncKeep | EncUnknown, EncUnknown | EncBad, EncBad | EncCustomUnknown, EncCustomUnknown
  | EncBothUnknown, EncBothUnknown | EncStdUnknownCustomOk, EncStdUnknownCustomOk
  | EncStdOkCustomUnknown, EncStdOkCustomUnknown | EncCustomBad, EncCustomBad => true
  | _, _ => false
  end.
Definition bodyf_eqb (a b : bodyf) : bool :=
  match a, b with
  | BKeep, BKeep | BGarbage, BGarbage | BEmpty, BEmpty | BTrunc, BTrunc | BTrailing, BTrailing
  | BTruncHead, BTruncHead | BTrailBig, BTrailBig
  | BDropCur, BDropCur | BStrip, BStrip | BDrift, BDrift => true
  | _, _ => false
  end.
Definition fault_eqb (a b : fault) : bool :=
  net_eqb (f_net a) (f_net b) && (f_status a =? f_status b)%Z && Bool.eqb (f_over a) (f_over b)
  && encf_eqb (f_enc a) (f_enc b) && bodyf_eqb (f_body a) (f_body b) && Bool.eqb (f_errhdr a) (f_errhdr b).
Definition post_eqb (a b : post_rec) : bool :=
  Bool.eqb (p_init a) (p_init b) && opt_eqb Nat.eqb (p_cur a) (p_cur b) && Bool.eqb (p_call a) (p_call b)
  && Bool.eqb (p_cancel a) (p_cancel b) && (p_x a =? p_x b)%Z && fault_eqb (p_fault a) (p_fault b)
  && Bool.eqb (p_reached a) (p_reached b) && Bool.eqb (p_sok a) (p_sok b)
  && Bool.eqb (p_serrhdr a) (p_serrhdr b) && list_eqb frame_eqb (p_frames a) (p_frames b).
Definition op_eqb (a b : op_rec) : bool :=
  list_eqb post_eqb (o_posts a) (o_posts b) && list_eqb N.eqb (o_logs a) (o_logs b)
  && result_eqb (o_res a) (o_res b).
Definition sobs_eqb (a b : sobs) : bool := list_eqb op_eqb a b.

(* ================= the property, decided on one observation ================== *)
(* A response reaches the client's parser unchanged *)
Definition transparent (f : fault) : bool :=
  net_eqb (f_net f) NetOk && negb (f_over f) && enc_accepts (f_enc f)
  && bodyf_eqb (f_body f) BKeep && negb (f_errhdr f) && status_2xx (eff_status f).
(* faults that remove the continuation marker from an otherwise valid body: the
   protocol has no end-of-stream marker, so the client cannot tell *)
Definition lossy (f : fault) : bool := bodyf_eqb (f_body f) BDropCur || bodyf_eqb (f_body f) BStrip.

Definition seen (p : post_rec) : bool := transparent (p_fault p) && p_reached p.

Definition cursors_of (ps : list post_rec) : list nat :=
  flat_map (fun p => if p_init p then [] else match p_cur p with Some c => [c] | None => [] end) ps.
Definition posted_cursors (o : sobs) : list nat := flat_map (fun r => cursors_of (o_posts r)) o.

Fixpoint nodupb (l : list nat) : bool :=
  match l with [] => true | x :: t => negb (existsb (Nat.eqb x) t) && nodupb t end.

(* every continuation POST carries a cursor; only the first POST is an init *)
Definition wf_post (p : post_rec) : bool := negb (p_init p) && is_some (p_cur p).
Definition posts_wf (o : sobs) : bool :=
  match o with
  | [] => false
  | r0 :: rest =>
      match o_posts r0 with
      | [p] => p_init p && negb (is_some (p_cur p))
      | _ => false
      end
      && forallb (fun r => forallb wf_post (o_posts r)) rest
  end.

Definition is_err (r : result) : bool := match r with RErr _ => true | _ => false end.
Definition is_ok (r : result) : bool := match r with ROk _ => true | _ => false end.

(* after an op that POSTed and failed, an exchange stream never touches the network
   again and never yields a batch; Exchange itself keeps failing *)
Fixpoint quiet (ops : list cop) (rs : list op_rec) : bool :=
  match ops, rs with
  | op :: ops', r :: rs' =>
      is_nil (o_posts r) && negb (is_ok (o_res r))
      && match op with OpExchange _ _ => is_err (o_res r) | _ => true end
      && quiet ops' rs'
  | _, _ => is_nil rs
  end.
Fixpoint poison_ok (ops : list cop) (rs : list op_rec) : bool :=
  match ops, rs with
  | op :: ops', r :: rs' =>
      (if negb (is_nil (o_posts r)) && is_err (o_res r) then quiet ops' rs' else true)
      && poison_ok ops' rs'
  | _, _ => is_nil rs
  end.

(* data items of a response as a consumer that skips bare cursor frames sees them *)
Fixpoint items_of (tid : bool) (fs : list frame) : list item :=
  match fs with
  | [] => []
  | FBat rows v um cur _ :: r =>
      if is_some cur && (rows =? 0)%N && negb tid then items_of tid r
      else (rows, v, um) :: items_of tid r
  | _ :: r => items_of tid r
  end.
Fixpoint logs_in (fs : list frame) : list N :=
  match fs with [] => [] | FLog m :: r => m :: logs_in r | _ :: r => logs_in r end.
Definition has_token (fs : list frame) : bool := existsb has_cur fs.
Definition has_call (fs : list frame) : bool :=
  existsb (fun f => match f with FBat _ _ _ _ true => true | _ => false end) fs.
Definition good (p : post_rec) : bool :=
  seen p && p_sok p && negb (p_serrhdr p) && negb (is_some (first_exc (p_frames p))).

(* a server exception that reached the client intact surfaces as RpcError of that type *)
Definition typed_post (res : result) (p : post_rec) : bool :=
  if seen p then match first_exc (p_frames p) with
                 | Some ty => result_eqb res (RErr (ERpc ty))
                 | None => true end
  else true.
Definition typed_one (r : op_rec) : bool := forallb (typed_post (o_res r)) (o_posts r).
Definition typed_ok (o : sobs) : bool := forallb typed_one o.

(* an Exchange turn whose response reached the client intact returns exactly the
   server's one data batch, stripped, after delivering the server's logs *)
Definition exch_one (x : Z) (r : op_rec) : bool :=
  match o_posts r with
  | [] => true
  | [p] =>
      negb (p_cancel p) && (p_x p =? x)%Z &&
      (if good p then
         match items_of true (p_frames p) with
         | [it] => if has_token (p_frames p)
                   then result_eqb (o_res r) (ROk it)
                        && list_eqb N.eqb (o_logs r) (logs_in (p_frames p))
                   else true
         | _ => true
         end
       else true)
  | _ => false
  end.
Fixpoint exch_ok (ops : list cop) (rs : list op_rec) : bool :=
  match ops, rs with
  | op :: ops', r :: rs' =>
      match op with OpExchange x _ => exch_one x r | _ => true end && exch_ok ops' rs'
  | _, _ => true
  end.

(* producer: the batches handed out by Next are, in order, the data items of the
   responses that reached the client intact; end-of-stream only when none is left *)
Definition delivered (p : post_rec) : list item := if good p then items_of false (p_frames p) else [].
Fixpoint prod_ok (q : list item) (ops : list cop) (rs : list op_rec) : bool :=
  match ops, rs with
  | op :: ops', r :: rs' =>
      let q' := q ++ flat_map delivered (o_posts r) in
      match op with
      | OpNext =>
          match o_res r with
          | ROk it => match q' with x :: t => item_eqb x it && prod_ok t ops' rs' | [] => false end
          | REnd => is_nil q' && prod_ok [] ops' rs'
          | RErr _ => prod_ok q' ops' rs'
          | RNil => false
          end
      | OpExchange _ _ => is_err (o_res r) && prod_ok q' ops' rs'
      | OpCancel => negb (is_ok (o_res r)) && prod_ok q' ops' rs'
      | OpClose => negb (is_ok (o_res r)) && forallb (fun r => negb (is_ok (o_res r))) rs'
      end
  | _, _ => is_nil rs
  end.

(* the open call *)
Definition open_ok (i : sinput) (r : op_rec) : bool :=
  match o_posts r with
  | [p] =>
      if good p then
        if i_exchange i then
          if is_nil (items_of false (p_frames p)) && has_token (p_frames p) && has_call (p_frames p)
          then result_eqb (o_res r) RNil else true
        else result_eqb (o_res r) RNil
      else true
  | _ => false
  end.

(* a response that does not match its declaration (transport failure, non-2xx, size,
   encoding, malformed / truncated / trailing bytes, schema drift, error header) is
   never accepted; on an exchange stream neither is one that lost its cursor *)
(* the response gets as far as the IPC parser: delivered, within the size caps, with an
   acceptable content coding on the header the client reads, and a 2xx status *)
Definition reaches_parser (f : fault) : bool :=
  net_eqb (f_net f) NetOk && negb (f_over f) && enc_accepts (f_enc f) && status_2xx (eff_status f).
Definition rej_post (ex : bool) (res : result) (p : post_rec) : bool :=
  is_err res || transparent (p_fault p)
  || (lossy (p_fault p) && reaches_parser (p_fault p) && (negb ex || p_cancel p)).
Definition rej_one (ex : bool) (r : op_rec) : bool := forallb (rej_post ex (o_res r)) (o_posts r).
Definition reject_ok (i : sinput) (o : sobs) : bool := forallb (rej_one (i_exchange i)) o.

Definition no_lossy (o : sobs) : bool :=
  forallb (fun r => forallb (fun p => negb (lossy (p_fault p))) (o_posts r)) o.

Definition sspec_ok (i : sinput) (o : sobs) : bool :=
  match o with
  | [] => false
  | r0 :: rs =>
      posts_wf o && typed_ok o && reject_ok i o && open_ok i r0
      && (if is_err (o_res r0) then is_nil rs else true)
      && (if i_exchange i
          then nodupb (posted_cursors o) && poison_ok (i_ops i) rs && exch_ok (i_ops i) rs
          else if no_lossy o then prod_ok (flat_map delivered (o_posts r0)) (i_ops i) rs else true)
  end.

(* ===================== client histories (one HttpClient, many calls) ===================== *)
(* Earlier calls completed successfully on the SAME HttpClient before the stream is
   opened; each made the client accept some wire schema under its own declaration:
   HUnary  - CallUnary u_int, declared and received {result:int64};
   HHeader - OpenProducer prod_h with a declared header {h:int64}, drained;
   HProducer - OpenProducer prod ({v:int64}), drained.
   HttpClient carries no per-call state (configuration and a closed flag only), so the
   model of the stream does not read the history at all: whether a response is
   accepted is a function of (declared schema, wire schema, body) alone.  The schema
   drift fault BDrift may rewrite the wire schema to ANY schema other than the
   declared one - in particular to one the client accepted earlier for another
   declaration (the harness does exactly that). *)
Inductive hcall := HUnary | HHeader | HProducer.
Record input := { i_hist : list hcall; i_in : sinput }.
Definition obs := (list bool * sobs)%type.     (* did each earlier call succeed; the stream *)
Definition model (i : input) : obs := (map (fun _ => true) (i_hist i), smodel (i_in i)).
Definition model_legacy (i : input) : obs := (map (fun _ => true) (i_hist i), smodel_legacy (i_in i)).
Definition obs_eqb (a b : obs) : bool := list_eqb Bool.eqb (fst a) (fst b) && sobs_eqb (snd a) (snd b).
(* the earlier calls succeeded, and the stream meets the whole property whatever they were *)
Definition spec_ok (i : input) (o : obs) : bool :=
  forallb (fun b => b) (fst o) && (length (fst o) =? length (i_hist i)) && sspec_ok (i_in i) (snd o).
