(* Model/C19.v — response size caps (vgirpc/http_response_cap.go
   enforceResponseBudgets / predictExternalizeBytes, http_unary.go handleUnary,
   http_stream.go handleExchangeCall / runProduceLoopInto / checkExternalBudget /
   externalizeStreamDataBatch, external.go externalizeBatchCtx threshold logic).

   Sizes are data: every batch of an emission pattern carries the IPC wire size
   of the message as written, its Arrow buffer size (what the externalisation
   threshold and the external pre-flight look at) and the raw IPC size of its
   upload.  They are the wire_size oracle; theorems assume only the positivity
   facts collected in [wf_*].  Caps are Z, 0 (or negative) = unset. *)
From Coq Require Import ZArith List Bool.
From VR Require Export Lib.Strs Gen.Consts.
Import ListNotations.
Open Scope Z_scope.

Record caps := { wcap : Z; ecap : Z; limit : Z; ext_on : bool; thr : Z }.

(* ExternalLocationConfig.threshold: a non-positive setting means the 1 MiB default *)
Definition thr_eff (c : caps) : Z := if thr c <=? 0 then c19_default_threshold else thr c.

Inductive errk := ENone | EUser | EWire | EExt.
Definition errk_eqb (a b : errk) : bool :=
  match a, b with
  | ENone, ENone | EUser, EUser | EWire, EWire | EExt, EExt => true
  | _, _ => false
  end.

(* enforceResponseBudgets: wire cap first, then external cap; strict > *)
Definition enforce (wire ext wc ec : Z) : errk :=
  if (0 <? wc) && (wc <? wire) then EWire
  else if (0 <? ec) && (ec <? ext) then EExt
  else ENone.

Record batch := { b_id : Z; b_rows : Z; b_wire : Z; b_arrow : Z; b_raw : Z }.

(* externalizeBatchCtx / predictExternalizeBytes: storage configured, rows > 0,
   Arrow buffer size >= threshold *)
Definition externalized (c : caps) (b : batch) : bool :=
  ext_on c && (0 <? b_rows b) && (thr_eff c <=? b_arrow b).
Definition predicted (c : caps) (b : batch) : Z := if externalized c b then b_arrow b else 0.
Definition upload (c : caps) (b : batch) : Z := if externalized c b then b_raw b else 0.

(* ------------------------------------------------------------------ unary / exchange: hard caps *)

Record hresp := { r_err : errk; r_body : Z; r_nlogs : Z; r_ndata : Z; r_nptr : Z; r_upl : Z; r_hdr : bool }.

Definition resp_err (k : errk) (nlogs upl : Z) : hresp :=
  {| r_err := k; r_body := 0; r_nlogs := nlogs; r_ndata := 0; r_nptr := 0; r_upl := upl; r_hdr := true |}.
Definition resp_ok (c : caps) (body nlogs : Z) (b : batch) : hresp :=
  let x := externalized c b in
  {| r_err := ENone; r_body := body; r_nlogs := nlogs;
     r_ndata := if x then 0 else if 0 <? b_rows b then 1 else 0;
     r_nptr := if x then 1 else 0; r_upl := upload c b; r_hdr := false |}.

(* u_body = length of the response body the call produces when nothing is capped *)
Record ucall := { u_logs : Z; u_fail : bool; u_void : bool; u_b : batch; u_body : Z }.

(* handleUnary.  [voidcheck] = the void branch runs enforceResponseBudgets on its
   body (false = the code before ff02128, which sent a void response unchecked) *)
Definition unary_gen (voidcheck : bool) (c : caps) (u : ucall) : hresp :=
  if u_fail u then resp_err EUser (u_logs u) 0
  else if u_void u then
    let ok := {| r_err := ENone; r_body := u_body u; r_nlogs := u_logs u; r_ndata := 0; r_nptr := 0; r_upl := 0; r_hdr := false |} in
    if voidcheck then
      match enforce (u_body u) 0 (wcap c) (ecap c) with
      | ENone => ok
      | k => resp_err k 0 0
      end
    else ok
  else
    let b := u_b u in
    if ext_on c && (0 <? ecap c) && (ecap c <? predicted c b) then resp_err EExt (u_logs u) 0   (* pre-flight, logs kept *)
    else match enforce (u_body u) (upload c b) (wcap c) (ecap c) with
         | ENone => resp_ok c (u_body u) (u_logs u) b
         | k => resp_err k 0 (upload c b)                                                      (* post-flush, fresh stream *)
         end.
Definition unary := unary_gen true.
Definition unary_legacy := unary_gen false.

Inductive act := AEmit | AEmitFin | AFin | ANone | AFail.

Record xturn := { x_logs : Z; x_act : act; x_b : batch; x_body : Z }.

(* handleExchangeCall *)
Definition exchange (c : caps) (x : xturn) : hresp :=
  match x_act x with
  | AEmit =>
      let b := x_b x in
      if ext_on c && (0 <? ecap c) && negb (predicted c b =? 0) && (ecap c <? predicted c b) then resp_err EExt 0 0
      else match enforce (x_body x) (upload c b) (wcap c) (ecap c) with
           | ENone => resp_ok c (x_body x) (x_logs x) b
           | k => resp_err k 0 (upload c b)
           end
  | _ => resp_err EUser 0 0        (* handler error / no data batch / Finish refused *)
  end.

(* ------------------------------------------------------------------ producer: soft wire cap, hard external cap *)

Record cycle := { c_logs : list Z; c_act : act; c_b : batch }.

Definition frame := (Z * Z * Z)%type.          (* kind (0 log, 1 data, 2 pointer), id, wire size *)
Definition fr_size (f : frame) : Z := snd f.
Definition fr_kind (f : frame) : Z := fst (fst f).
Definition fr_id (f : frame) : Z := snd (fst f).
Definition sumz (l : list Z) : Z := fold_right Z.add 0 l.
Definition size_of (fs : list frame) : Z := sumz (map fr_size fs).

Definition log_frames (cy : cycle) : list frame := map (fun s => (0, 0, s)) (c_logs cy).
Definition data_frame (c : caps) (b : batch) : frame :=
  ((if externalized c b then 2 else 1), b_id b, b_wire b).
(* what one flushed cycle puts on the wire *)
Definition group (c : caps) (cy : cycle) : list frame :=
  match c_act cy with
  | AEmit | AEmitFin => log_frames cy ++ [data_frame c (c_b cy)]
  | AFin => log_frames cy
  | _ => []
  end.

Inductive tend := TFin | TToken | TErr (k : errk).
Definition tend_eqb (a b : tend) : bool :=
  match a, b with
  | TFin, TFin | TToken, TToken => true
  | TErr x, TErr y => errk_eqb x y
  | _, _ => false
  end.

(* the budgets one Produce call is shown: RemainingResponseBytes is the cap
   itself on every cycle; RemainingExternalizedResponseBytes is what is left of
   the external cap in this HTTP turn (0 when unset, and also 0 once used up) *)
Definition budget (c : caps) (e : Z) : Z * Z :=
  (wcap c, if 0 <? ecap c then Z.max 0 (ecap c - e) else ecap c).

(* checkExternalBudget *)
Definition ext_refused (c : caps) (e : Z) (b : batch) : bool :=
  ext_on c && (0 <? ecap c) && negb (predicted c b =? 0) && (ecap c <? e + predicted c b).

(* result of one HTTP turn of runProduceLoopInto *)
Record tres := { tr_frames : list frame; tr_end : tend; tr_w : Z; tr_e : Z; tr_a : Z;
                 tr_budgets : list (Z * Z); tr_rest : list cycle }.

(* [wirecheck] = the loop looks at max_response_bytes (false = the loop before
   9dbce9f).  w = bytes in the response buffer, e = raw bytes uploaded in this
   turn (what the running total is charged), a = Arrow size of those uploads,
   nd = data batches written in this turn.  An exhausted script finishes (the
   scripted state calls Finish). *)
Fixpoint turn (wirecheck : bool) (c : caps) (w e a nd : Z) (cs : list cycle) : tres :=
  match cs with
  | [] => {| tr_frames := []; tr_end := TFin; tr_w := w; tr_e := e; tr_a := a; tr_budgets := [budget c e]; tr_rest := [] |}
  | cy :: rest =>
      let stop en := {| tr_frames := []; tr_end := en; tr_w := w; tr_e := e; tr_a := a; tr_budgets := [budget c e]; tr_rest := [] |} in
      match c_act cy with
      | AFail | ANone => stop (TErr EUser)
      | AFin => {| tr_frames := group c cy; tr_end := TFin; tr_w := w + size_of (group c cy); tr_e := e; tr_a := a;
                   tr_budgets := [budget c e]; tr_rest := [] |}
      | AEmit | AEmitFin =>
          let b := c_b cy in
          if ext_refused c e b then stop (TErr EExt)
          else
            let g := group c cy in
            let w' := w + size_of g in
            let e' := e + upload c b in
            let a' := a + predicted c b in
            let nd' := nd + 1 in
            let here en rest' := {| tr_frames := g; tr_end := en; tr_w := w'; tr_e := e'; tr_a := a';
                                    tr_budgets := [budget c e]; tr_rest := rest' |} in
            match c_act cy with
            | AEmitFin => here TFin []
            | _ =>
                if (0 <? limit c) && (limit c <=? nd') then here TToken rest
                else if wirecheck && (0 <? wcap c) && (wcap c <=? w') then here TToken rest
                else let r := turn wirecheck c w' e' a' nd' rest in
                     {| tr_frames := g ++ tr_frames r; tr_end := tr_end r; tr_w := tr_w r; tr_e := tr_e r; tr_a := tr_a r;
                        tr_budgets := budget c e :: tr_budgets r; tr_rest := tr_rest r |}
            end
      end
  end.

(* one HTTP response of a producer stream.  t_payload = bytes in the body when the
   loop returned: everything except the trailing token / exception batch and EOS *)
Record pturn := { t_frames : list frame; t_payload : Z; t_end : tend; t_hdr : bool; t_upl : Z; t_uarrow : Z;
                  t_budgets : list (Z * Z) }.

Definition mk_turn (r : tres) : pturn :=
  {| t_frames := tr_frames r; t_payload := tr_w r; t_end := tr_end r;
     t_hdr := match tr_end r with TErr EExt => true | _ => false end;   (* streamResponseStatus *)
     t_upl := tr_e r; t_uarrow := tr_a r; t_budgets := tr_budgets r |}.

(* the client loop: /init, then one continuation per token.  pre0 = bytes in the
   buffer before the first cycle of the /init turn (stream header, schema
   message, init logs), pre1 = the same for a continuation (schema message). *)
Fixpoint run_from (fuel : nat) (wirecheck : bool) (c : caps) (pre pre1 : Z) (cs : list cycle) : list pturn :=
  match fuel with
  | O => []
  | S f =>
      let r := turn wirecheck c pre 0 0 0 cs in
      mk_turn r :: match tr_end r with
                   | TToken => run_from f wirecheck c pre1 pre1 (tr_rest r)
                   | _ => []
                   end
  end.

Definition run (c : caps) (pre0 pre1 : Z) (cs : list cycle) : list pturn :=
  run_from (S (length cs)) true c pre0 pre1 cs.
(* the producer loop before 9dbce9f: only the batch limit ends a turn *)
Definition run_legacy (c : caps) (pre0 pre1 : Z) (cs : list cycle) : list pturn :=
  run_from (S (length cs)) false c pre0 pre1 cs.

(* ------------------------------------------------------------------ correspondence interface *)

Inductive input :=
| IUnary (c : caps) (u : ucall)
| IExch (c : caps) (xs : list xturn)
| IProd (c : caps) (pre0 pre1 : Z) (cs : list cycle)
| IEnforce (wire ext wc ec : Z).

Inductive obs :=
| OResp (rs : list hresp)
| OProd (ts : list pturn)
| OErr (k : errk)
| OBroken.

Definition model (i : input) : obs :=
  match i with
  | IUnary c u => OResp [unary c u]
  | IExch c xs => OResp (map (exchange c) xs)
  | IProd c p0 p1 cs => OProd (run c p0 p1 cs)
  | IEnforce w e wc ec => OErr (enforce w e wc ec)
  end.

Definition hresp_eqb (a b : hresp) : bool :=
  errk_eqb (r_err a) (r_err b) && (r_body a =? r_body b) && (r_nlogs a =? r_nlogs b) && (r_ndata a =? r_ndata b)
  && (r_nptr a =? r_nptr b) && (r_upl a =? r_upl b) && Bool.eqb (r_hdr a) (r_hdr b).
Definition frame_eqb (a b : frame) : bool :=
  (fr_kind a =? fr_kind b) && (fr_id a =? fr_id b) && (fr_size a =? fr_size b).
Definition zz_eqb (a b : Z * Z) : bool := (fst a =? fst b) && (snd a =? snd b).
Definition pturn_eqb (a b : pturn) : bool :=
  list_eqb frame_eqb (t_frames a) (t_frames b) && (t_payload a =? t_payload b) && tend_eqb (t_end a) (t_end b)
  && Bool.eqb (t_hdr a) (t_hdr b) && (t_upl a =? t_upl b) && (t_uarrow a =? t_uarrow b) && list_eqb zz_eqb (t_budgets a) (t_budgets b).

Definition obs_eqb (a b : obs) : bool :=
  match a, b with
  | OResp x, OResp y => list_eqb hresp_eqb x y
  | OProd x, OProd y => list_eqb pturn_eqb x y
  | OErr x, OErr y => errk_eqb x y
  | _, _ => false
  end.

(* ------------------------------------------------------------------ the property, decidable, on observables *)

(* hard caps: a delivered (non-error) response fits both caps; an error response
   carries no data and is flagged *)
Definition hard_ok (c : caps) (r : hresp) : bool :=
  match r_err r with
  | ENone => ((wcap c <=? 0) || (r_body r <=? wcap c)) && ((ecap c <=? 0) || (r_upl r <=? ecap c)) && negb (r_hdr r)
  | _ => (r_ndata r =? 0) && (r_nptr r =? 0) && r_hdr r
  end.

(* what must not change: a cap refusal is only issued when the uncapped response
   really is over that cap (body over max_response_bytes; predicted or actual
   upload over max_externalized_response_bytes).  b = None for a void call. *)
Definition justified (c : caps) (body : Z) (b : option batch) (r : hresp) : bool :=
  match r_err r with
  | EWire => (0 <? wcap c) && (wcap c <? body)
  | EExt => match b with
            | Some b => (0 <? ecap c) && ((ecap c <? predicted c b) || (ecap c <? upload c b))
            | None => false
            end
  | _ => true
  end.

Definition unary_ok (c : caps) (u : ucall) (r : hresp) : bool :=
  hard_ok c r && justified c (u_body u) (if u_void u then None else Some (u_b u)) r.

Fixpoint exch_ok (c : caps) (xs : list xturn) (rs : list hresp) : bool :=
  match xs, rs with
  | [], [] => true
  | x :: xs', r :: rs' => hard_ok c r && justified c (x_body x) (Some (x_b x)) r && exch_ok c xs' rs'
  | _, _ => false
  end.

Definition is_data (f : frame) : bool := negb (fr_kind f =? 0).
Definition ids (fs : list frame) : list Z := map fr_id (filter is_data fs).

(* size of what the last flushed cycle of a turn wrote: the trailing run of logs
   when the frames end in logs (a finishing cycle), else the last data batch and
   the logs in front of it.  acc = size of the current run of logs, best = size
   of the last closed group, trail = the current run is non-empty *)
Fixpoint lg (fs : list frame) (acc best : Z) (trail : bool) : Z :=
  match fs with
  | [] => if trail then acc else best
  | f :: t => if is_data f then lg t 0 (acc + fr_size f) false else lg t (acc + fr_size f) best true
  end.
Definition last_group (fs : list frame) : Z := lg fs 0 0 false.

(* the data ids the script yields when nothing cuts it, and how it ends *)
Fixpoint ideal_ids (cs : list cycle) : list Z :=
  match cs with
  | [] => []
  | cy :: t => match c_act cy with
               | AEmit => b_id (c_b cy) :: ideal_ids t
               | AEmitFin => [b_id (c_b cy)]
               | _ => []
               end
  end.
Fixpoint ideal_end (cs : list cycle) : tend :=
  match cs with
  | [] => TFin
  | cy :: t => match c_act cy with
               | AEmit => ideal_end t
               | AEmitFin | AFin => TFin
               | _ => TErr EUser
               end
  end.

Fixpoint is_prefix (a b : list Z) : bool :=
  match a, b with
  | [], _ => true
  | x :: a', y :: b' => (x =? y) && is_prefix a' b'
  | _ :: _, [] => false
  end.

Definition ext_err (t : pturn) : bool := tend_eqb (t_end t) (TErr EExt).

(* one producer turn: soft wire cap (at most the last data-batch group beyond
   the larger of cap and what was in the buffer before the first cycle), token
   turns carry data (progress), uploads stay within the external cap *)
Definition turn_ok (c : caps) (pre : Z) (t : pturn) : bool :=
  ((wcap c <=? 0) || (t_payload t - last_group (t_frames t) <? Z.max (wcap c) (pre + 1)))
  && (negb (tend_eqb (t_end t) TToken) || (1 <=? Z.of_nat (length (ids (t_frames t)))))
  && ((ecap c <=? 0) || (t_uarrow t <=? ecap c))
  && Bool.eqb (t_hdr t) (ext_err t).

Definition is_token (t : pturn) : bool := tend_eqb (t_end t) TToken.

(* every turn but the last ends with a continuation token; the last does not *)
Fixpoint chain_ok (ts : list pturn) : bool :=
  match ts with
  | [] => false
  | [t] => negb (is_token t)
  | t :: rest => is_token t && chain_ok rest
  end.

Definition turns_ok (c : caps) (pre0 pre1 : Z) (ts : list pturn) : bool :=
  match ts with
  | [] => false
  | t :: rest => turn_ok c pre0 t && forallb (turn_ok c pre1) rest
  end.

Definition all_ids (ts : list pturn) : list Z := concat (map (fun t => ids (t_frames t)) ts).
Fixpoint final_end (ts : list pturn) : tend :=
  match ts with
  | [] => TToken
  | [t] => t_end t
  | _ :: rest => final_end rest
  end.

(* the whole stream arrives across turns, unless the external cap stopped it, in
   which case what arrived is a prefix *)
Definition stream_ok (cs : list cycle) (ts : list pturn) : bool :=
  if tend_eqb (final_end ts) (TErr EExt) then is_prefix (all_ids ts) (ideal_ids cs)
     else list_eqb Z.eqb (all_ids ts) (ideal_ids cs) && tend_eqb (final_end ts) (ideal_end cs).

Definition spec_ok (i : input) (o : obs) : bool :=
  match i, o with
  | IUnary c u, OResp [r] => unary_ok c u r
  | IExch c xs, OResp rs => exch_ok c xs rs
  | IProd c p0 p1 cs, OProd ts => turns_ok c p0 p1 ts && chain_ok ts && stream_ok cs ts
  | IEnforce w e wc ec, OErr k =>
      match k with
      | ENone => ((wc <=? 0) || (w <=? wc)) && ((ec <=? 0) || (e <=? ec))
      | _ => true
      end
  | _, _ => false
  end.
