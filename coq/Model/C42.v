(* Model/C42.v — socket listeners (vgirpc/server_unix.go RunUnix, server_tcp.go
   RunTcp; the two bodies are the same text up to the listener type).

   Part 1, the listener as a state machine over ATOMIC STEPS.  One event per
   critical section / blocking call of the Go code:

     AcceptRet c   ul.Accept() returns connection c (the loop thread has NOT yet
                   taken mu: c is open but unknown to the counter)
     Count c       the accept loop's critical section for c:
                       mu.Lock(); active++; disarm(); mu.Unlock(); wg.Add(1); go serve(c)
     Start c       c's goroutine: s.notifyTransport(kind, nil) returned nil (the
                   serve-start hook accepted, or the transport was already bound);
                   the serve loop begins.  A connection whose hook call FAILS has
                   no Start: serveUnixConn / serveTcpConn return at once and the
                   goroutine goes straight to Done.  The verdict sequence of the
                   hook is therefore part of the schedule (which connections get
                   a Start), and every theorem quantifies over it.
     Serve c       one serveOne iteration of c's goroutine on c's own reader /
                   writer / shm cache (Part 2); only after Start c
     Done c        c's goroutine after its serve loop ended and c.Close():
                       mu.Lock(); active--; if active == 0 && idleTimeout > 0 && !shutdown { arm(idleTimeout) }; mu.Unlock(); wg.Done()
     TimerFire g   the runtime expires timer g (time.AfterFunc): its callback
                   goroutine is started; Stop on g returns false from now on
     Callback g    the callback's critical section:
                       mu.Lock(); if timer == self && active == 0 { shutdown = true; ul.Close() }; mu.Unlock()
     AcceptFail    ul.Accept() returns an error because the listener is closed; break
     FinalDisarm   mu.Lock(); disarm(); mu.Unlock() after the loop
     Return        wg.Wait() passes, the deferred ul.Close(); os.Remove(path) run, Run returns

   [step] is partial (None: that thread cannot take the step now); a schedule is
   an ARBITRARY list of events, a step that is not enabled is skipped ([exec]).
   disarm() = if timer != nil { timer.Stop(); timer = nil }; arm(d) = disarm();
   timer = time.AfterFunc(d, callback).  A timer generation g is the identity of
   one AfterFunc call (the code's [self]).  [cf_gencheck] = true is the code: the
   callback acts only if its timer is still the one in the variable
   (timer == self); false is the code before the fix "ignore a stale
   idle-timer callback in the socket listeners", whose callback had no such check.

   Ghost fields (never read by the code's decisions): accepted / serving /
   finished, the step clock, the step at which each generation was armed, the
   step of the last Count and of the last Done, and [late]: the connection that
   sat between AcceptRet and Count when the listener was first closed.

   Part 2, sessions: every connection has its own reader position and its own
   output; Serve c advances ONLY c's pair by one serveOne step of the C02
   reader-level model.

   Part 3, the timed (coarse) run the harness can force from outside: client
   operations and waits in milliseconds, every timer callback running right
   when its timer expires.  It is an instance of Part 1: [trun] only ever
   applies [run] to lists of Part-1 events. *)
From VR Require Export Lib.Frames Gen.Consts.
From VR Require Model.C02.
From Coq Require Import ZArith.
Open Scope N_scope.

Definition conn := nat.

Inductive ev :=
| AcceptRet (c : conn) | Count (c : conn) | Start (c : conn) | Serve (c : conn) | Done (c : conn)
| TimerFire (g : nat) | Callback (g : nat)
| AcceptFail | FinalDisarm | Return.

Inductive phase := PAccept | PBroke | PWait | PReturned.

Record cfg := {
  cf_idle : bool;                         (* idleTimeout > 0 *)
  cf_gencheck : bool;                     (* true = the code; false = before the stale-callback fix *)
  cf_gate : bool;                         (* server declares a protocol version (C02) *)
  cf_calls : conn -> list C02.call }.     (* what the client of connection c writes *)

Definition sess := (list C02.cstream * list stream)%type.   (* unread client streams, streams written so far *)

Record st := {
  (* the variables of RunUnix / RunTcp *)
  active : Z; tvar : option nat; shutdown : bool; wg : Z;
  closed : bool;                          (* the listener socket *)
  looppend : option conn;                 (* Accept returned, critical section not yet entered *)
  ph : phase;                             (* where the loop thread is *)
  (* the runtime's timers *)
  pendt : list nat;                       (* armed, neither expired nor stopped *)
  firedt : list nat;                      (* expired, callback has not yet run its critical section *)
  nextg : nat;
  (* ghost *)
  accepted : list conn; serving : list conn; finished : list conn;
  started : list conn;                    (* the serve-start hook accepted: the serve loop runs *)
  clock : nat; armlog : list (nat * nat); last_count : nat; last_done : nat;
  late : option conn;
  sessions : list (conn * sess) }.

Definition mem (x : nat) (l : list nat) : bool := existsb (Nat.eqb x) l.
Definition remove_all (x : nat) (l : list nat) : list nat := filter (fun y => negb (Nat.eqb y x)) l.
Fixpoint remove1 (x : nat) (l : list nat) : list nat :=
  match l with [] => [] | y :: t => if Nat.eqb y x then t else y :: remove1 x t end.

Fixpoint lookup {A} (c : nat) (l : list (nat * A)) : option A :=
  match l with [] => None | (k, v) :: t => if Nat.eqb k c then Some v else lookup c t end.
Fixpoint update {A} (c : nat) (v : A) (l : list (nat * A)) : list (nat * A) :=
  match l with [] => [] | (k, w) :: t => if Nat.eqb k c then (k, v) :: t else (k, w) :: update c v t end.

(* ---------- Part 2: one serveOne iteration on a connection's own reader -------- *)
Definition serve_one (gate : bool) (ws : list C02.cstream) : option (list stream * list C02.cstream) :=
  match ws with
  | [] => None                                                     (* EOF: the serve loop returns *)
  | s :: rest =>
      match C02.step C02.current gate s with
      | C02.Stop => None
      | C02.Reply out => Some (out, rest)
      | C02.ReplyDrain out => Some (out, match rest with [] => [] | _ :: rest' => rest' end)
      | C02.ReplyRun pre k => Some (match rest with [] => pre | inp :: _ => pre ++ [k inp] end,
                                    match rest with [] => [] | _ :: rest' => rest' end)
      end
  end.

Definition serve_sess (gate : bool) (x : sess) : sess :=
  match serve_one gate (fst x) with
  | Some (o, r) => (r, snd x ++ o)
  | None => x
  end.

(* ---------- Part 1: the steps ---------------------------------------------------- *)
Definition init (k : cfg) : st :=
  {| active := 0%Z; tvar := if cf_idle k then Some 0%nat else None; shutdown := false; wg := 0%Z;
     closed := false; looppend := None; ph := PAccept;
     pendt := if cf_idle k then [0%nat] else []; firedt := []; nextg := if cf_idle k then 1%nat else 0%nat;
     accepted := []; serving := []; finished := []; started := [];
     clock := 0; armlog := if cf_idle k then [(0%nat, 0%nat)] else []; last_count := 0; last_done := 0;
     late := None; sessions := [] |}.

(* disarm(): Stop only has an effect on a timer that has not expired *)
Definition disarm_pend (s : st) : list nat :=
  match tvar s with Some g => remove_all g (pendt s) | None => pendt s end.

Definition is_accepting (s : st) : bool := match ph s with PAccept => true | _ => false end.

Definition step (k : cfg) (s : st) (e : ev) : option st :=
  let n := S (clock s) in
  match e with
  | AcceptRet c =>
      if is_accepting s && negb (closed s) && negb (mem c (accepted s))
         && match looppend s with None => true | Some _ => false end
      then Some {| active := active s; tvar := tvar s; shutdown := shutdown s; wg := wg s;
                   closed := closed s; looppend := Some c; ph := ph s;
                   pendt := pendt s; firedt := firedt s; nextg := nextg s;
                   accepted := c :: accepted s; serving := serving s; finished := finished s; started := started s;
                   clock := n; armlog := armlog s; last_count := last_count s; last_done := last_done s;
                   late := late s; sessions := sessions s |}
      else None
  | Count c =>
      match looppend s with
      | Some c' =>
          if Nat.eqb c c' then
            Some {| active := (active s + 1)%Z; tvar := None; shutdown := shutdown s; wg := (wg s + 1)%Z;
                    closed := closed s; looppend := None; ph := ph s;
                    pendt := disarm_pend s; firedt := firedt s; nextg := nextg s;
                    accepted := accepted s; serving := c :: serving s; finished := finished s; started := started s;
                    clock := n; armlog := armlog s; last_count := n; last_done := last_done s;
                    late := late s;
                    sessions := (c, (C02.client_writes (cf_calls k c), [])) :: sessions s |}
          else None
      | None => None
      end
  | Start c =>
      if mem c (serving s) && negb (mem c (started s)) then
        Some {| active := active s; tvar := tvar s; shutdown := shutdown s; wg := wg s;
                closed := closed s; looppend := looppend s; ph := ph s;
                pendt := pendt s; firedt := firedt s; nextg := nextg s;
                accepted := accepted s; serving := serving s; finished := finished s; started := c :: started s;
                clock := n; armlog := armlog s; last_count := last_count s; last_done := last_done s;
                late := late s; sessions := sessions s |}
      else None
  | Serve c =>
      if mem c (serving s) && mem c (started s) then
        match lookup c (sessions s) with
        | Some x =>
            Some {| active := active s; tvar := tvar s; shutdown := shutdown s; wg := wg s;
                    closed := closed s; looppend := looppend s; ph := ph s;
                    pendt := pendt s; firedt := firedt s; nextg := nextg s;
                    accepted := accepted s; serving := serving s; finished := finished s; started := started s;
                    clock := n; armlog := armlog s; last_count := last_count s; last_done := last_done s;
                    late := late s; sessions := update c (serve_sess (cf_gate k) x) (sessions s) |}
        | None => None
        end
      else None
  | Done c =>
      if mem c (serving s) then
        let a := (active s - 1)%Z in
        let rearm := Z.eqb a 0 && cf_idle k && negb (shutdown s) in
        Some {| active := a; tvar := if rearm then Some (nextg s) else tvar s;
                shutdown := shutdown s; wg := (wg s - 1)%Z;
                closed := closed s; looppend := looppend s; ph := ph s;
                pendt := if rearm then nextg s :: disarm_pend s else pendt s;
                firedt := firedt s; nextg := if rearm then S (nextg s) else nextg s;
                accepted := accepted s; serving := remove1 c (serving s); finished := c :: finished s; started := started s;
                clock := n; armlog := if rearm then (nextg s, n) :: armlog s else armlog s;
                last_count := last_count s; last_done := n;
                late := late s; sessions := sessions s |}
      else None
  | TimerFire g =>
      if mem g (pendt s) then
        Some {| active := active s; tvar := tvar s; shutdown := shutdown s; wg := wg s;
                closed := closed s; looppend := looppend s; ph := ph s;
                pendt := remove_all g (pendt s); firedt := g :: firedt s; nextg := nextg s;
                accepted := accepted s; serving := serving s; finished := finished s; started := started s;
                clock := n; armlog := armlog s; last_count := last_count s; last_done := last_done s;
                late := late s; sessions := sessions s |}
      else None
  | Callback g =>
      if mem g (firedt s) then
        let live := negb (cf_gencheck k) || match tvar s with Some g' => Nat.eqb g g' | None => false end in
        let close := live && Z.eqb (active s) 0 in
        Some {| active := active s; tvar := tvar s; shutdown := shutdown s || close; wg := wg s;
                closed := closed s || close; looppend := looppend s; ph := ph s;
                pendt := pendt s; firedt := remove1 g (firedt s); nextg := nextg s;
                accepted := accepted s; serving := serving s; finished := finished s; started := started s;
                clock := n; armlog := armlog s; last_count := last_count s; last_done := last_done s;
                late := if close && negb (closed s) then looppend s else late s;
                sessions := sessions s |}
      else None
  | AcceptFail =>
      if is_accepting s && closed s && match looppend s with None => true | Some _ => false end
      then Some {| active := active s; tvar := tvar s; shutdown := shutdown s; wg := wg s;
                   closed := closed s; looppend := looppend s; ph := PBroke;
                   pendt := pendt s; firedt := firedt s; nextg := nextg s;
                   accepted := accepted s; serving := serving s; finished := finished s; started := started s;
                   clock := n; armlog := armlog s; last_count := last_count s; last_done := last_done s;
                   late := late s; sessions := sessions s |}
      else None
  | FinalDisarm =>
      match ph s with
      | PBroke =>
          Some {| active := active s; tvar := None; shutdown := shutdown s; wg := wg s;
                  closed := closed s; looppend := looppend s; ph := PWait;
                  pendt := disarm_pend s; firedt := firedt s; nextg := nextg s;
                  accepted := accepted s; serving := serving s; finished := finished s; started := started s;
                  clock := n; armlog := armlog s; last_count := last_count s; last_done := last_done s;
                  late := late s; sessions := sessions s |}
      | _ => None
      end
  | Return =>
      match ph s with
      | PWait =>
          if Z.eqb (wg s) 0 then
            Some {| active := active s; tvar := tvar s; shutdown := shutdown s; wg := wg s;
                    closed := true; looppend := looppend s; ph := PReturned;
                    pendt := pendt s; firedt := firedt s; nextg := nextg s;
                    accepted := accepted s; serving := serving s; finished := finished s; started := started s;
                    clock := n; armlog := armlog s; last_count := last_count s; last_done := last_done s;
                    late := late s; sessions := sessions s |}
          else None
      | _ => None
      end
  end.

Definition exec (k : cfg) (s : st) (e : ev) : st := match step k s e with Some s' => s' | None => s end.
Definition run (k : cfg) (s : st) (es : list ev) : st := fold_left (exec k) es s.

(* ---------- a variant that counts late (NOT the code) -------------------------------
   The same machine except that the accept loop does not count: active++ and
   disarm() are done by the connection's goroutine when the serve-start hook
   has accepted it (Start c), while Done c still decrements for EVERY
   connection.  A connection the hook refuses is then decremented without ever
   having been incremented. *)
Definition step_late (k : cfg) (s : st) (e : ev) : option st :=
  let n := S (clock s) in
  match e with
  | Count c =>
      match looppend s with
      | Some c' =>
          if Nat.eqb c c' then
            Some {| active := active s; tvar := tvar s; shutdown := shutdown s; wg := (wg s + 1)%Z;
                    closed := closed s; looppend := None; ph := ph s;
                    pendt := pendt s; firedt := firedt s; nextg := nextg s;
                    accepted := accepted s; serving := c :: serving s; finished := finished s; started := started s;
                    clock := n; armlog := armlog s; last_count := n; last_done := last_done s;
                    late := late s;
                    sessions := (c, (C02.client_writes (cf_calls k c), [])) :: sessions s |}
          else None
      | None => None
      end
  | Start c =>
      if mem c (serving s) && negb (mem c (started s)) then
        Some {| active := (active s + 1)%Z; tvar := None; shutdown := shutdown s; wg := wg s;
                closed := closed s; looppend := looppend s; ph := ph s;
                pendt := disarm_pend s; firedt := firedt s; nextg := nextg s;
                accepted := accepted s; serving := serving s; finished := finished s; started := c :: started s;
                clock := n; armlog := armlog s; last_count := last_count s; last_done := last_done s;
                late := late s; sessions := sessions s |}
      else None
  | _ => step k s e
  end.
Definition exec_late (k : cfg) (s : st) (e : ev) : st := match step_late k s e with Some s' => s' | None => s end.
Definition run_late (k : cfg) (s : st) (es : list ev) : st := fold_left (exec_late k) es s.

Definition is_returned (s : st) : bool := match ph s with PReturned => true | _ => false end.
Definition open_conns (s : st) : list conn :=
  match looppend s with Some c => c :: serving s | None => serving s end.
Definition out_of (s : st) (c : conn) : list stream :=
  match lookup c (sessions s) with Some x => snd x | None => [] end.

(* ---------- Part 3: the timed run -------------------------------------------------- *)
Inductive op :=
| Open (c : conn)           (* a client dials *)
| Talk (cs : list conn)     (* the listed open connections each send ALL their calls, concurrently, reading every response *)
| Close (c : conn)          (* the client closes c *)
| Wait (d : N).             (* nothing happens for d milliseconds *)

(* What the harness input adds to an op: TRANSPORT DETAILS that the responses and
   the listener must not depend on.  [TalkRR cs] is a Talk in which the listed
   connections take turns call by call (call k of each, in list order, before
   call k+1) instead of running concurrently; [i_shm] says which connections
   ship their parameter batches through a shared-memory segment OF THEIR OWN
   (advertised on the connection's first call, later requests are pointer
   batches into it) instead of inline.  Each connection has its own reader,
   writer and segment cache (serveUnixConn / serveTcpConn: shmConn is created
   per connection), so the model maps both to the same run. *)
Inductive iop := Plain (o : op) | TalkRR (cs : list conn).
Definition norm_op (o : iop) : op := match o with Plain o => o | TalkRR cs => Talk cs end.

Record input := {
  i_unix : bool;                          (* RunUnix (true) / RunTcp *)
  i_idle : N;                             (* idleTimeout in ms, 0 = none *)
  i_gate : bool;
  i_hook : list bool;                     (* serve-start hook script: verdict of its j-th invocation, true = it FAILS;
                                             past the end it succeeds; it is not invoked any more once it succeeded *)
  i_shm : list bool;                      (* connection c uses a shm segment of its own (transport detail) *)
  i_conns : list (list C02.call);         (* connection c sends nth c *)
  i_ops : list iop }.

Definition ops_of (i : input) : list op := map norm_op (i_ops i).

Record probe := {
  p_ok : bool;                            (* Open: the dial succeeded; Talk / Close: the connection was open *)
  p_refused : bool;                       (* Open: the hook refused the connection and the server closed it unserved *)
  p_ret : bool;                           (* Run has returned *)
  p_file : option N }.                    (* Unix: permission bits of the socket file, None = no such file *)

Record obs := {
  o_probes : list probe;                  (* one per op, taken right after it *)
  o_views : list (list stream);           (* per connection: every stream the client read on it *)
  o_alone : list (list stream) }.         (* per connection that talked: what the same calls get alone on a fresh pipe server *)

Definition grace_floor_ms : N := 60000.   (* server_unix.go / server_tcp.go: 60*time.Second *)
Definition sock_mode : N := 384.          (* 0o600 *)

Definition cfg_of (i : input) : cfg :=
  {| cf_idle := negb (i_idle i =? 0); cf_gencheck := true; cf_gate := i_gate i;
     cf_calls := fun c => nth c (i_conns i) [] |}.

Record tstate := {
  t_s : st; t_now : N; t_dl : N; t_talked : list conn;
  t_hookn : nat;                          (* invocations of the serve-start hook so far *)
  t_bound : bool }.                       (* it has succeeded: notifyTransport no longer calls it *)

Definition tinit (i : input) : tstate :=
  {| t_s := init (cfg_of i); t_now := 0; t_dl := N.max (i_idle i) grace_floor_ms; t_talked := [];
     t_hookn := 0; t_bound := false |}.

Definition is_open (s : st) (c : conn) : bool := mem c (serving s).
Definition is_live (s : st) (c : conn) : bool := mem c (serving s) && mem c (started s).

(* enough serveOne iterations to read everything the client of c ever writes *)
Definition talk_events (k : cfg) (c : conn) : list ev :=
  repeat (Serve c) (length (C02.client_writes (cf_calls k c))).

(* the loop thread and the callback run on their own as soon as they can *)
Definition settle (k : cfg) (s : st) : st := run k s [AcceptFail; FinalDisarm; Return].

Definition set_s (t : tstate) (s : st) : tstate :=
  {| t_s := s; t_now := t_now t; t_dl := t_dl t; t_talked := t_talked t; t_hookn := t_hookn t; t_bound := t_bound t |}.

(* the client (or, for a refused connection, the server) closes c: the goroutine's last section *)
Definition close_core (i : input) (t : tstate) (c : conn) : tstate :=
  let s := t_s t in
  let s' := run (cfg_of i) s [Done c] in
  {| t_s := s'; t_now := t_now t;
     t_dl := if Nat.eqb (nextg s) (nextg s') then t_dl t else t_now t + i_idle i;
     t_talked := t_talked t; t_hookn := t_hookn t; t_bound := t_bound t |}.

Definition top (i : input) (t : tstate) (o : op) : tstate * (bool * bool) :=
  let k := cfg_of i in
  let s := t_s t in
  match o with
  | Open c =>
      let ok := negb (closed s) && negb (mem c (accepted s)) in
      let refuse := ok && negb (t_bound t) && nth (t_hookn t) (i_hook i) false in
      let t1 := if ok
                then (if refuse then close_core i (set_s t (run k s [AcceptRet c; Count c])) c
                      else set_s t (run k s [AcceptRet c; Count c; Start c]))
                else t in
      ({| t_s := t_s t1; t_now := t_now t1; t_dl := t_dl t1; t_talked := t_talked t1;
          t_hookn := if ok && negb (t_bound t) then S (t_hookn t) else t_hookn t;
          t_bound := t_bound t || (ok && negb refuse) |}, (ok, refuse))
  | Talk cs =>
      let live := filter (is_live s) cs in
      ({| t_s := run k s (concat (map (talk_events k) live)); t_now := t_now t; t_dl := t_dl t;
          t_talked := live ++ t_talked t; t_hookn := t_hookn t; t_bound := t_bound t |},
       (forallb (is_open s) cs, false))
  | Close c => (close_core i t c, (is_open s c, false))
  | Wait d =>
      let now' := t_now t + d in
      let s' := match pendt s with
                | g :: _ => if t_dl t <=? now' then settle k (run k s [TimerFire g; Callback g]) else s
                | [] => s
                end in
      ({| t_s := s'; t_now := now'; t_dl := t_dl t; t_talked := t_talked t; t_hookn := t_hookn t; t_bound := t_bound t |},
       (true, false))
  end.

Definition probe_of (i : input) (t : tstate) (ok : bool * bool) : probe :=
  {| p_ok := fst ok; p_refused := snd ok; p_ret := is_returned (t_s t);
     p_file := if i_unix i then (if closed (t_s t) then None else Some sock_mode) else None |}.

Fixpoint trun (i : input) (t : tstate) (ops : list op) : tstate * list probe :=
  match ops with
  | [] => (t, [])
  | o :: rest =>
      let '(t1, ok) := top i t o in
      let '(t2, ps) := trun i t1 rest in
      (t2, probe_of i t1 ok :: ps)
  end.

Definition conn_ids (i : input) : list conn := seq 0 (length (i_conns i)).

Definition model (i : input) : obs :=
  let '(t, ps) := trun i (tinit i) (ops_of i) in
  {| o_probes := ps;
     o_views := map (out_of (t_s t)) (conn_ids i);
     o_alone := map (fun c => if mem c (t_talked t) then C02.run_conn (i_gate i) (nth c (i_conns i) []) else [])
                    (conn_ids i) |}.

Definition probe_eqb (a b : probe) : bool :=
  Bool.eqb (p_ok a) (p_ok b) && Bool.eqb (p_refused a) (p_refused b) && Bool.eqb (p_ret a) (p_ret b) && opt_eqb N.eqb (p_file a) (p_file b).

Definition streams_eqb := list_eqb stream_eqb.

Definition obs_eqb (a b : obs) : bool :=
  list_eqb probe_eqb (o_probes a) (o_probes b)
  && list_eqb streams_eqb (o_views a) (o_views b)
  && list_eqb streams_eqb (o_alone a) (o_alone b).

(* ---------- the property in decidable form, on one observation ---------------------
   A reference monitor that knows nothing of counters, timers or goroutines:
   which connections are open, since when none is, and how long that has to
   last (the startup grace max(idle, 60 s) before the first connection, the
   idle timeout afterwards).  The listener must have stopped at a probe exactly
   when some wait ended with no connection open for at least that long, and
   never otherwise; once stopped it stays stopped and refuses dials. *)
Record mon := {
  m_open : list conn; m_used : list conn; m_now : N;
  m_zero_at : N;                          (* since when no connection is open *)
  m_need : N;                             (* how long that has to last *)
  m_stopped : bool;
  m_hookn : nat; m_bound : bool }.        (* the serve-start hook: invocations so far, has succeeded *)

Definition minit (i : input) : mon :=
  {| m_open := []; m_used := []; m_now := 0; m_zero_at := 0; m_need := N.max (i_idle i) grace_floor_ms; m_stopped := false;
     m_hookn := 0; m_bound := false |}.

Definition mopen (m : mon) (c : conn) : mon :=
  {| m_open := c :: m_open m; m_used := c :: m_used m; m_now := m_now m; m_zero_at := m_zero_at m;
     m_need := m_need m; m_stopped := m_stopped m; m_hookn := m_hookn m; m_bound := m_bound m |}.

Definition mclose (i : input) (m : mon) (c : conn) : mon :=
  let o' := remove1 c (m_open m) in
  {| m_open := o'; m_used := m_used m; m_now := m_now m;
     m_zero_at := match o' with [] => m_now m | _ => m_zero_at m end;
     m_need := match o' with [] => i_idle i | _ => m_need m end;
     m_stopped := m_stopped m; m_hookn := m_hookn m; m_bound := m_bound m |}.

(* A connection the hook refuses was open for an instant (the server closes it
   unserved): the period with no open connection starts again at that instant,
   with the idle timeout (no longer the startup grace); it never stays open. *)
Definition mstep (i : input) (m : mon) (o : op) : mon * (bool * bool) :=
  match o with
  | Open c =>
      let ok := negb (m_stopped m) && negb (mem c (m_used m)) in
      let refuse := ok && negb (m_bound m) && nth (m_hookn m) (i_hook i) false in
      let m1 := if ok then (if refuse then mclose i (mopen m c) c else mopen m c) else m in
      ({| m_open := m_open m1; m_used := m_used m1; m_now := m_now m1; m_zero_at := m_zero_at m1;
          m_need := m_need m1; m_stopped := m_stopped m1;
          m_hookn := if ok && negb (m_bound m) then S (m_hookn m) else m_hookn m;
          m_bound := m_bound m || (ok && negb refuse) |}, (ok, refuse))
  | Talk cs => (m, (forallb (fun c => mem c (m_open m)) cs, false))
  | Close c => if mem c (m_open m) then (mclose i m c, (true, false)) else (m, (false, false))
  | Wait d =>
      let now' := m_now m + d in
      let expire := negb (i_idle i =? 0) && negb (m_stopped m)
                    && match m_open m with [] => true | _ => false end
                    && (m_zero_at m + m_need m <=? now') in
      ({| m_open := m_open m; m_used := m_used m; m_now := now'; m_zero_at := m_zero_at m;
          m_need := m_need m; m_stopped := m_stopped m || expire; m_hookn := m_hookn m; m_bound := m_bound m |}, (true, false))
  end.

Definition mprobe (i : input) (m : mon) (ok : bool * bool) : probe :=
  {| p_ok := fst ok; p_refused := snd ok; p_ret := m_stopped m;
     p_file := if i_unix i then (if m_stopped m then None else Some sock_mode) else None |}.

Fixpoint mrun (i : input) (m : mon) (ops : list op) : list probe :=
  match ops with
  | [] => []
  | o :: rest => let '(m1, ok) := mstep i m o in mprobe i m1 ok :: mrun i m1 rest
  end.

(* a stopped monitor has no open connection and has seen the whole idle period *)
Definition mon_safe (m : mon) : bool :=
  negb (m_stopped m) || (match m_open m with [] => true | _ => false end && (m_zero_at m + m_need m <=? m_now m)).

(* every connection's view is what the same calls get alone; in_scope is the C02 premise *)
Definition all_in_scope (i : input) : bool := forallb (forallb C02.in_scope) (i_conns i).

(* The property is a SAFETY statement (the listener stops ONLY after ..., never
   while one is open), so an observed probe [a] is judged against the monitor's
   probe [e] one way: Run has returned only if the monitor has stopped; while
   the monitor has not stopped a dial succeeds, an open connection is usable and
   the Unix socket file is there with mode 0600, and the hook's refusals are as
   scripted (all of this only while the monitor has not stopped).
   (That the listener DOES stop when the period has elapsed is liveness: it is
   part of the model and is compared by [obs_eqb], not judged here.) *)
Definition probe_safe (a e : probe) : bool :=
  implb (p_ret a) (p_ret e)
  && implb (p_ok e) (p_ok a)
  && (negb (p_ok e) || Bool.eqb (p_refused a) (p_refused e))
  && match p_file e with Some mode => opt_eqb N.eqb (p_file a) (Some mode) | None => true end.

Definition spec_ok (i : input) (o : obs) : bool :=
  Nat.eqb (length (o_probes o)) (length (i_ops i))
  && list_eqb probe_safe (o_probes o) (mrun i (minit i) (ops_of i))
  && (negb (all_in_scope i) || list_eqb streams_eqb (o_views o) (o_alone o))
  && Nat.eqb (length (o_views o)) (length (i_conns i)).
