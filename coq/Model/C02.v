(* Model/C02.v — one pipe / Unix / TCP connection: the serve loop reads request
   streams off ONE flat sequence of client IPC streams and, for stream methods,
   one more stream as the call's input (vgirpc/server_serve.go serveOne,
   wire.go ReadRequest, server_unary.go serveUnary, server_stream.go
   serveStream, server.go drainInputStream; server_unix.go / server_tcp.go run
   the same serveOne loop per connection).

   Two descriptions are given and proved equal in Proofs/C02.v:
     - [serve_flat]  the reader-level model: consumes client streams exactly as
                     the Go code does, whatever they are;
     - [serve_call]  the per-call answer: outcome class of one call -> its
                     response streams, and whether the server reads the call's
                     input stream. *)
From VR Require Export Lib.Frames Gen.Consts.
Open Scope N_scope.

(* ---------- scripted user code (rpcutil.go CallScript / TurnScript / StreamScript) *)
Inductive failure := FRpc (ty : bytes) | FUntyped | FPanic.
Inductive act := AEmit | AEmit2 | ANoEmit | AFinish | AEmitFinish | AErr (f : failure).
Record turn := { t_logs : list bytes; t_act : act; t_value : Z }.
Record script := {
  sc_logs : list bytes;            (* INFO logs of the unary handler / stream init *)
  sc_fail : option failure;        (* handler / init fails *)
  sc_nil : bool;                   (* stream init returns (nil, nil) *)
  sc_value : Z;                    (* unary result is value + x *)
  sc_header : option Z;            (* StreamResult.Header *)
  sc_turns : list turn }.

(* ---------- what a client puts on the wire *)
Inductive mname := MUInt | MUVoid | MProd | MProdH | MExch | MExchH | MDescribe | MTransport | MUnknown.
Inductive mfield := MAbsent | MBadUtf8 | MName (m : mname).      (* vgi_rpc.method *)
Inductive vfield := VAbsent | VGood | VBad.                       (* vgi_rpc.request_version *)
Inductive pvfield := PVAbsent | PVSame | PVOther.                 (* vgi_rpc.protocol_version vs the server's major.minor *)
Inductive shape := SX | SOther | SEmpty.                          (* batch schema: the declared {x:int64} / other fields / no fields *)

(* the calls of a history, as the client means them *)
Record req := {
  r_method : mfield; r_ver : vfield; r_pv : pvfield;
  r_ptr : bool;                    (* batch carries vgi_rpc.shm_offset *)
  r_shape : shape; r_rows : N; r_x : Z; r_reqid : bytes;
  r_extra : nat;                   (* further batches in the request stream (ReadRequest drains them) *)
  r_script : script }.             (* what user code does IF this request reaches it *)
Record item := { it_cancel : bool; it_vals : list Z }.
Record inputs := { in_shape : shape; in_items : list item }.
Inductive call := Unary (r : req) | Stream (r : req) (ins : inputs).

(* the same, as the server sees it: anonymous IPC streams of batches *)
Record meta := {
  m_method : mfield; m_ver : vfield; m_pv : pvfield; m_ptr : bool; m_cancel : bool;
  m_reqid : bytes; m_script : script }.
Record cbatch := { cb_rows : N; cb_vals : list Z; cb_meta : meta }.
Record cstream := { cs_shape : shape; cs_batches : list cbatch }.

Definition no_script : script :=
  {| sc_logs := []; sc_fail := None; sc_nil := false; sc_value := 0%Z; sc_header := None; sc_turns := [] |}.

Definition encode_req (r : req) : cstream :=
  let b := {| cb_rows := r_rows r; cb_vals := [r_x r];
              cb_meta := {| m_method := r_method r; m_ver := r_ver r; m_pv := r_pv r; m_ptr := r_ptr r;
                            m_cancel := false; m_reqid := r_reqid r; m_script := r_script r |} |} in
  {| cs_shape := r_shape r; cs_batches := b :: repeat b (r_extra r) |}.

Definition encode_item (it : item) : cbatch :=
  {| cb_rows := N.of_nat (length (it_vals it)); cb_vals := it_vals it;
     cb_meta := {| m_method := MAbsent; m_ver := VAbsent; m_pv := PVAbsent; m_ptr := false;
                   m_cancel := it_cancel it; m_reqid := []; m_script := no_script |} |}.

Definition encode_inputs (ins : inputs) : cstream :=
  {| cs_shape := in_shape ins; cs_batches := map encode_item (in_items ins) |}.

Definition client_writes_call (c : call) : list cstream :=
  match c with
  | Unary r => [encode_req r]
  | Stream r ins => [encode_req r; encode_inputs ins]
  end.
Definition client_writes (cs : list call) : list cstream := concat (map client_writes_call cs).

(* ---------- response vocabulary *)
Definition level_info : bytes := str "INFO".
Definition sch_out : bytes := str "v:int64".
Definition sch_hdr : bytes := str "h:int64".
Definition exc_type_error : bytes := str "TypeError".
Definition exc_io_error : bytes := str "IOError".
Definition n_methods : N := 6.                         (* methods registered by NewScriptedServer *)

Definition exc_of (f : failure) : bytes := match f with FRpc ty => ty | FUntyped | FPanic => exc_runtime_error end.
Definition exc_frame (ty kind reqid : bytes) : frame := FExc ty [] reqid kind.
Definition err_stream (schema ty kind reqid : bytes) : stream :=
  {| st_schema := schema; st_frames := [exc_frame ty kind reqid] |}.
Definition log_frames (reqid : bytes) (logs : list bytes) : list frame :=
  map (fun m => FLog level_info m reqid []) logs.

Inductive mkind := KUnary (void : bool) | KStream (exchange hasheader : bool).
Definition lookup (m : mname) : option mkind :=
  match m with
  | MUInt => Some (KUnary false) | MUVoid => Some (KUnary true)
  | MProd => Some (KStream false false) | MProdH => Some (KStream false true)
  | MExch => Some (KStream true false) | MExchH => Some (KStream true true)
  | MDescribe | MTransport | MUnknown => None
  end.
Definition result_schema (void : bool) : bytes := if void then [] else schema_result_int64.

(* ---------- the lockstep loop over the batches of the input stream *)
Fixpoint sumZ (l : list Z) : Z := match l with [] => 0%Z | x :: t => (x + sumZ t)%Z end.

Definition default_turn (exchange : bool) : turn :=
  {| t_logs := []; t_act := if exchange then AEmit else AFinish; t_value := 0%Z |}.

(* one Produce / Exchange call: frames flushed, and whether the loop goes on *)
Definition run_turn (exchange : bool) (reqid : bytes) (t : turn) (insum : Z) : list frame * bool :=
  let logs := log_frames [] (t_logs t) in           (* OutputCollector.ClientLog: no request id *)
  let data := FData 1 [(t_value t + (if exchange then insum else 0))%Z] [] in
  let boom := ([exc_frame exc_runtime_error [] reqid], false) in
  match t_act t with
  | AEmit => (logs ++ [data], true)
  | AEmit2 => boom                               (* second Emit returns an error; collected batches are dropped *)
  | ANoEmit => boom                              (* validate: no data batch was emitted *)
  | AFinish => if exchange then boom else (logs, false)
  | AEmitFinish => if exchange then boom else (logs ++ [data], false)
  | AErr f => ([exc_frame (exc_of f) [] reqid], false)
  end.

Fixpoint lockstep (exchange : bool) (in_ok : bool) (reqid : bytes) (turns : list turn) (bs : list cbatch) : list frame :=
  match bs with
  | [] => []                                     (* client closed its input: EOS *)
  | b :: bs' =>
      if m_cancel (cb_meta b) then []            (* cancel: no user call, stream ends *)
      else if exchange && negb in_ok then [exc_frame exc_type_error [] reqid]   (* castRecordBatch fails *)
      else
        let t := match turns with [] => default_turn exchange | t :: _ => t end in
        let '(fs, go) := run_turn exchange reqid t (sumZ (cb_vals b)) in
        if go then fs ++ lockstep exchange in_ok reqid (tl turns) bs' else fs
  end.

(* the data stream of a stream call whose init succeeded, given the input stream *)
Definition run_stream (exchange : bool) (reqid : bytes) (sc : script) (init_logs : list frame) (inp : cstream) : stream :=
  {| st_schema := sch_out;
     st_frames := init_logs ++ lockstep exchange (match cs_shape inp with SX => true | _ => false end) reqid (sc_turns sc) (cs_batches inp) |}.

(* ---------- reader-level model ------------------------------------------------ *)
Definition has_fields (s : shape) : bool := match s with SEmpty => false | _ => true end.
Definition is_ptr (b : cbatch) : bool := (cb_rows b =? 0) && m_ptr (cb_meta b).     (* IsShmPointerBatch *)

Inductive rr := RREof | RRErr (ty : bytes) | RROk (b : cbatch) (m : mname).

(* wire.go ReadRequest on one client stream: first batch, rest drained *)
Definition read_request (s : cstream) : rr :=
  match cs_batches s with
  | [] => RREof
  | b :: _ =>
      match m_method (cb_meta b) with
      | MAbsent => RRErr ss_exc_no_method
      | MBadUtf8 => RRErr ss_exc_bad_utf8
      | MName m =>
          match m_ver (cb_meta b) with
          | VAbsent => RRErr ss_exc_no_version
          | VBad => RRErr ss_exc_bad_version
          | VGood => if has_fields (cs_shape s) && negb (cb_rows b =? 1) && negb (is_ptr b)
                     then RRErr ss_exc_bad_rows else RROk b m
          end
      end
  end.

(* what serveOne does after reading its request stream *)
Inductive action :=
| Stop                                              (* serve loop returns *)
| Reply (out : list stream)                         (* answers; reads nothing more *)
| ReplyDrain (out : list stream)                    (* answers, then drainInputStream: one more client stream is consumed *)
| ReplyRun (pre : list stream) (k : cstream -> stream).  (* optional header stream, then the lockstep loop over one more client stream *)

(* code variants: the current tree drains on all three refusal paths; the pre-fix trees did not *)
Record variant := { v_param_drain : bool; v_gate_drain : bool; v_ptr_drain : bool }.
Definition current : variant := {| v_param_drain := true; v_gate_drain := true; v_ptr_drain := true |}.

Definition params_ok (s : cstream) : bool := match cs_shape s with SX => true | _ => false end.

Definition unary_frames (void : bool) (reqid : bytes) (x : Z) (sc : script) : list frame :=
  log_frames reqid (sc_logs sc) ++
  [ match sc_fail sc with
    | Some f => exc_frame (exc_of f) [] reqid
    | None => if void then FData 0 [] [] else FData 1 [(sc_value sc + x)%Z] []
    end ].

Definition step (v : variant) (gate : bool) (s : cstream) : action :=
  match read_request s with
  | RREof => Stop
  | RRErr ty => Reply [err_stream [] ty [] []]                    (* request id is not echoed here *)
  | RROk b m =>
      let reqid := m_reqid (cb_meta b) in
      let sc := m_script (cb_meta b) in
      if is_ptr b then                                                  (* no segment on this connection *)
        let out := [err_stream [] exc_io_error [] reqid] in
        match lookup m with
        | Some (KStream _ _) => if v_ptr_drain v then ReplyDrain out else Reply out   (* drainRefusedStreamInput *)
        | _ => Reply out
        end
      else match m with
      | MDescribe => Reply [ {| st_schema := ss_describe_schema; st_frames := [FData n_methods [] []] |} ]
      | MTransport => Reply [ {| st_schema := []; st_frames := [FData 0 [] []] |} ]
      | _ =>
        match lookup m with
        | None => Reply [err_stream [] ss_exc_unknown_method ss_kind_unknown_method reqid]
        | Some k =>
            if gate && negb (match m_pv (cb_meta b) with PVSame => true | _ => false end) then
              match k with
              | KUnary void => Reply [err_stream (result_schema void) ss_exc_protocol_version ss_kind_protocol_version reqid]
              | KStream _ _ =>
                  let out := [err_stream [] ss_exc_protocol_version ss_kind_protocol_version reqid] in
                  if v_gate_drain v then ReplyDrain out else Reply out
              end
            else
            match k with
            | KUnary void =>
                if negb (params_ok s) then Reply [err_stream (result_schema void) exc_type_error [] reqid]
                else Reply [ {| st_schema := result_schema void;
                                st_frames := unary_frames void reqid (hd 0%Z (cb_vals b)) sc |} ]
            | KStream exchange hasheader =>
                if negb (params_ok s) then
                  let out := [err_stream [] exc_type_error [] reqid] in
                  if v_param_drain v then ReplyDrain out else Reply out
                else match sc_fail sc with
                | Some f => ReplyDrain [err_stream sch_out (exc_of f) [] reqid]       (* init logs are never written on this path *)
                | None =>
                    if sc_nil sc then ReplyDrain [err_stream sch_out exc_runtime_error [] reqid]
                    else
                      match (if hasheader then sc_header sc else None) with
                      | Some h =>
                          ReplyRun [ {| st_schema := sch_hdr; st_frames := log_frames [] (sc_logs sc) ++ [FData 1 [h] []] |} ]
                                   (run_stream exchange reqid sc [])
                      | None => ReplyRun [] (run_stream exchange reqid sc (log_frames reqid (sc_logs sc)))
                      end
                end
            end
        end
      end
  end.

(* the serve loop over the flat sequence of client streams *)
Fixpoint serve_flat (v : variant) (gate : bool) (ws : list cstream) : list stream :=
  match ws with
  | [] => []                                          (* EOF *)
  | s :: rest =>
      match step v gate s with
      | Stop => []
      | Reply out => out ++ serve_flat v gate rest
      | ReplyDrain out => out ++ match rest with [] => [] | _ :: rest' => serve_flat v gate rest' end
      | ReplyRun pre k => pre ++ match rest with
                                 | [] => []            (* ipc.NewReader on EOF: the call is abandoned, loop ends *)
                                 | inp :: rest' => k inp :: serve_flat v gate rest'
                                 end
      end
  end.

(* ---------- per-call model ------------------------------------------------------ *)
(* every way one call can end; the failure classes of the property are constructors *)
Inductive outcome :=
| ONoMethod | OBadUtf8 | ONoVersion | OBadVersion | OBadRows        (* refused by ReadRequest *)
| OPtrNoSegment (stream_method : bool)
| ODescribe | OTransport
| OUnknownMethod
| OGateRefused (k : mkind)
| OParamMismatch (k : mkind)
| OUnaryRan (void : bool)                  (* handler ran: value, error or panic *)
| OInitFailed (f : failure)                (* stream init returned an error / panicked *)
| OInitNil
| OStreamRan (exchange hasheader : bool).  (* lockstep loop ran: completes, mid-stream error / panic, contract violation, cancel *)

Definition req_is_ptr (r : req) : bool := (r_rows r =? 0) && r_ptr r.

Definition classify (gate : bool) (r : req) : outcome :=
  match r_method r with
  | MAbsent => ONoMethod
  | MBadUtf8 => OBadUtf8
  | MName m =>
      match r_ver r with
      | VAbsent => ONoVersion
      | VBad => OBadVersion
      | VGood =>
          if has_fields (r_shape r) && negb (r_rows r =? 1) && negb (req_is_ptr r) then OBadRows
          else if req_is_ptr r then OPtrNoSegment (match lookup m with Some (KStream _ _) => true | _ => false end)
          else match m with
               | MDescribe => ODescribe
               | MTransport => OTransport
               | _ => match lookup m with
                      | None => OUnknownMethod
                      | Some k =>
                          if gate && negb (match r_pv r with PVSame => true | _ => false end) then OGateRefused k
                          else if negb (match r_shape r with SX => true | _ => false end) then OParamMismatch k
                          else match k with
                               | KUnary void => OUnaryRan void
                               | KStream e h =>
                                   match sc_fail (r_script r) with
                                   | Some f => OInitFailed f
                                   | None => if sc_nil (r_script r) then OInitNil else OStreamRan e h
                                   end
                               end
                      end
               end
      end
  end.

(* does the server read (run or drain) the client's input stream for this outcome? *)
Definition consumes_input (o : outcome) : bool :=
  match o with
  | OPtrNoSegment true | OGateRefused (KStream _ _) | OParamMismatch (KStream _ _) | OInitFailed _ | OInitNil | OStreamRan _ _ => true
  | _ => false
  end.

Definition header_stream (r : req) (o : outcome) : list stream :=
  match o with
  | OStreamRan _ true =>
      match sc_header (r_script r) with
      | Some h => [ {| st_schema := sch_hdr; st_frames := log_frames [] (sc_logs (r_script r)) ++ [FData 1 [h] []] |} ]
      | None => []
      end
  | _ => []
  end.

Definition no_inputs : inputs := {| in_shape := SEmpty; in_items := [] |}.

Definition data_stream (r : req) (o : outcome) (ins : inputs) : stream :=
  let id := r_reqid r in
  match o with
  | ONoMethod => err_stream [] ss_exc_no_method [] []
  | OBadUtf8 => err_stream [] ss_exc_bad_utf8 [] []
  | ONoVersion => err_stream [] ss_exc_no_version [] []
  | OBadVersion => err_stream [] ss_exc_bad_version [] []
  | OBadRows => err_stream [] ss_exc_bad_rows [] []
  | OPtrNoSegment _ => err_stream [] exc_io_error [] id
  | ODescribe => {| st_schema := ss_describe_schema; st_frames := [FData n_methods [] []] |}
  | OTransport => {| st_schema := []; st_frames := [FData 0 [] []] |}
  | OUnknownMethod => err_stream [] ss_exc_unknown_method ss_kind_unknown_method id
  | OGateRefused (KUnary void) => err_stream (result_schema void) ss_exc_protocol_version ss_kind_protocol_version id
  | OGateRefused (KStream _ _) => err_stream [] ss_exc_protocol_version ss_kind_protocol_version id
  | OParamMismatch (KUnary void) => err_stream (result_schema void) exc_type_error [] id
  | OParamMismatch (KStream _ _) => err_stream [] exc_type_error [] id
  | OUnaryRan void => {| st_schema := result_schema void; st_frames := unary_frames void id (r_x r) (r_script r) |}
  | OInitFailed f => err_stream sch_out (exc_of f) [] id
  | OInitNil => err_stream sch_out exc_runtime_error [] id
  | OStreamRan e h =>
      run_stream e id (r_script r)
        (match header_stream r o with [] => log_frames id (sc_logs (r_script r)) | _ => [] end)
        (encode_inputs ins)
  end.

Definition call_req (c : call) : req := match c with Unary r => r | Stream r _ => r end.
Definition call_inputs (c : call) : inputs := match c with Unary _ => no_inputs | Stream _ ins => ins end.
Definition is_stream_call (c : call) : bool := match c with Unary _ => false | Stream _ _ => true end.

(* the complete response to ONE call: optional header stream, then one data stream *)
Definition serve_call (gate : bool) (c : call) : list stream :=
  let r := call_req c in
  let o := classify gate r in
  header_stream r o ++ [data_stream r o (call_inputs c)].

Definition serve_loop (gate : bool) (cs : list call) : list stream := concat (map (serve_call gate) cs).

(* client and server agree on whether the call has an input stream *)
Definition in_frame (gate : bool) (c : call) : bool :=
  Bool.eqb (is_stream_call c) (consumes_input (classify gate (call_req c))).

(* ---------- harness interface -------------------------------------------------- *)
(* i_bursts: how many calls the client puts into each write on the connection
   (empty = one call per write). The bytes - and so everything below - do not
   depend on it; the harness varies it to pipeline requests on real sockets. *)
Record input := { i_gate : bool; i_calls : list call; i_bursts : list nat }.

(* the history cut into the groups of calls the client writes at once *)
Fixpoint bursts_of (sizes : list nat) (cs : list call) : list (list call) :=
  match sizes with
  | [] => match cs with [] => [] | _ => [cs] end
  | n :: t => firstn n cs :: bursts_of t (skipn n cs)
  end.
Record obs := {
  o_streams : list stream;            (* everything the server wrote on the connection, in order *)
  o_alone : list (list stream);       (* what it writes for each call served ALONE on a fresh connection *)
  o_escaped : bool;                   (* a panic escaped Serve *)
  o_leftover : N }.                   (* scripts queued on the surface and never run *)

(* the model of the CODE is the reader-level one *)
Definition run_conn (gate : bool) (cs : list call) : list stream := serve_flat current gate (client_writes cs).
Definition model (i : input) : obs :=
  {| o_streams := run_conn (i_gate i) (i_calls i);
     o_alone := map (fun c => run_conn (i_gate i) [c]) (i_calls i);
     o_escaped := false; o_leftover := 0 |}.

Definition obs_eqb (a b : obs) : bool :=
  list_eqb stream_eqb (o_streams a) (o_streams b)
  && list_eqb (list_eqb stream_eqb) (o_alone a) (o_alone b)
  && Bool.eqb (o_escaped a) (o_escaped b).   (* o_leftover is judged by spec_ok only: the model does not track the script queue *)

(* ---------- the property in decidable form, on one observation ------------------
   Scope = the calls the property quantifies over: unary-shaped requests of any
   kind (garbage included) that do not name a registered stream method with
   valid routing, and stream calls to registered stream methods with valid
   routing metadata and row count (arbitrary parameters, script, inputs).      *)
Definition is_stream_method (m : mfield) : bool :=
  match m with MName m' => match lookup m' with Some (KStream _ _) => true | _ => false end | _ => false end.
Definition routed (r : req) : bool :=
  match r_method r, r_ver r with
  | MName _, VGood => negb (has_fields (r_shape r)) || (r_rows r =? 1) || req_is_ptr r
  | _, _ => false
  end.
Definition in_scope (c : call) : bool :=
  match c with
  | Unary r => negb (routed r && is_stream_method (r_method r))
  | Stream r _ => routed r && is_stream_method (r_method r)
  end.

Definition frame_reqid_ok (id : bytes) (f : frame) : bool :=
  match f with
  | FLog _ _ r _ => beqb r id || beqb r []
  | FExc _ _ r _ => beqb r id || beqb r []
  | _ => true
  end.

(* exceptions occur at most once and only as the last batch of a stream *)
Fixpoint exc_only_last (fs : list frame) : bool :=
  match fs with
  | [] => true
  | f :: t => match t with [] => true | _ => negb (is_exc f) && exc_only_last t end
  end.

Definition is_final (f : frame) : bool := is_data f || is_exc f.

(* a complete data stream answering call c: logs / data batches, at most one
   exception and only as the last batch, every log / exception correlated to
   this call's request id (or carrying none); a unary-shaped call gets exactly
   one result-or-exception batch *)
Definition data_stream_ok (c : call) (s : stream) : bool :=
  let fs := st_frames s in
  negb (beqb (st_schema s) sch_hdr)
  && forallb (frame_reqid_ok (r_reqid (call_req c))) fs
  && exc_only_last fs
  && (is_stream_call c || Nat.eqb (count is_final fs) 1).

(* a header stream: logs, then exactly one one-row batch *)
Fixpoint header_frames_ok (fs : list frame) : bool :=
  match fs with
  | [] => false
  | f :: t => match t with
              | [] => match f with FData 1 [_] _ => true | _ => false end
              | _ => is_log f && header_frames_ok t
              end
  end.
Definition header_stream_ok (s : stream) : bool := header_frames_ok (st_frames s).

(* a call that is entirely valid and whose script succeeds must get its value:
   this is what [the next request is served correctly] means for the canaries *)
Definition good_unary_value (gate : bool) (c : call) : option (bytes * frame) :=
  match c with
  | Unary r =>
      match classify gate r, sc_fail (r_script r) with
      | OUnaryRan void, None => Some (result_schema void, if void then FData 0 [] [] else FData 1 [(sc_value (r_script r) + r_x r)%Z] [])
      | _, _ => None
      end
  | _ => None
  end.

Fixpoint responses_ok (gate : bool) (cs : list call) (ss : list stream) : bool :=
  match cs with
  | [] => match ss with [] => true | _ => false end          (* nothing left over *)
  | c :: cs' =>
      match ss with
      | [] => false
      | s :: ss' =>
          let after_hdr :=
            if is_stream_call c && beqb (st_schema s) sch_hdr then (header_stream_ok s, ss') else (true, ss) in
          match snd after_hdr with
          | [] => false
          | d :: rest =>
              fst after_hdr && data_stream_ok c d
              && match good_unary_value gate c with
                 | Some (sch, f) => beqb (st_schema d) sch && frame_eqb (last (st_frames d) FToken) f
                 | None => true
                 end
              && responses_ok gate cs' rest
          end
      end
  end.

Fixpoint alone_ok (gate : bool) (cs : list call) (al : list (list stream)) : bool :=
  match cs, al with
  | [], [] => true
  | c :: cs', a :: al' => responses_ok gate [c] a && alone_ok gate cs' al'
  | _, _ => false
  end.

(* On a history of in-scope calls: no panic escapes, every script ran, the
   connection carries - in request order and with nothing in between or left
   over - for each call an optional header stream and exactly one complete data
   stream; every fully valid unary call gets its value; and the whole output is
   the concatenation of what each call gets when it is alone on a fresh
   connection (so nothing a call leaves behind reaches a later one). *)
Definition spec_ok (i : input) (o : obs) : bool :=
  negb (forallb in_scope (i_calls i))
  || (negb (o_escaped o) && N.eqb (o_leftover o) 0
      && responses_ok (i_gate i) (i_calls i) (o_streams o)
      && alone_ok (i_gate i) (i_calls i) (o_alone o)
      && list_eqb stream_eqb (o_streams o) (concat (o_alone o))).
