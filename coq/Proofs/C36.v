(* Proofs/C36.v — lemmas and proofs for property C36 (Model/C36.v). *)
From Coq Require Import Permutation ZifyBool ZifyN ZifyNat.
From VR Require Import Model.C36.
From VR Require Model.C34.
Import ListNotations.
Local Open Scope N_scope.
Local Arguments N.eqb : simpl never.
Local Arguments Z.ltb : simpl never.
Local Arguments N.leb : simpl never.

(* ---------- the allocator, seen as a multiset of live offsets ------------------ *)
Definition offs (t : tbl) : list N := map fst t.

Lemma alloc_from_perm size sz : forall t prev off t',
  C34.alloc_from size sz prev t = Some (off, t') -> Permutation (offs t') (off :: offs t).
Proof.
  induction t as [|[o l] r IH]; intros prev off t' H; cbn [C34.alloc_from] in H.
  - destruct (sz <=? C34.sub64 size prev); inversion H; subst. apply Permutation_refl.
  - destruct (sz <=? C34.sub64 o prev).
    + inversion H; subst. apply Permutation_refl.
    + destruct (C34.alloc_from size sz (C34.add64 o l) r) as [[off' r']|] eqn:E; inversion H; subst.
      apply IH in E. unfold offs in *. cbn [map fst].
      eapply Permutation_trans; [apply perm_skip; exact E|apply perm_swap].
Qed.

Lemma write_slot_perm size z t p t' :
  write_slot size z t = (Some p, t') -> Permutation (offs t') (fst p :: offs t).
Proof.
  unfold write_slot, C34.step. destruct (C34.canfit size (z_est z) t).
  - destruct (C34.alloc size (z_total z) t) as [[off t1]|] eqn:E; intro H; inversion H; subst.
    cbn [fst]. unfold C34.alloc in E.
    destruct (z_total z <=? 0)%Z; [discriminate|]. destruct (C34.MAXA <=? N.of_nat (length t)); [discriminate|].
    eapply alloc_from_perm; exact E.
  - intro H; inversion H.
Qed.

Lemma write_slot_none size z t t' : write_slot size z t = (None, t') -> t' = t.
Proof.
  unfold write_slot, C34.step. destruct (C34.canfit size (z_est z) t).
  - destruct (C34.alloc size (z_total z) t) as [[off t1]|]; intro H; inversion H; reflexivity.
  - intro H; inversion H; reflexivity.
Qed.

Lemma free_perm off : forall t, In off (offs t) ->
  exists t', C34.free off t = Some t' /\ Permutation (offs t) (off :: offs t').
Proof.
  induction t as [|[o l] r IH]; intro H; [destruct H|].
  cbn [C34.free]. destruct (N.eqb_spec o off) as [->|Ne].
  - exists r. split; [reflexivity|apply Permutation_refl].
  - destruct H as [H|H]; [cbn in H; congruence|]. destruct (IH H) as [r' [E P]]. rewrite E.
    exists ((o, l) :: r'). split; [reflexivity|]. unfold offs in *. cbn [map fst].
    eapply Permutation_trans; [apply perm_skip; exact P|apply perm_swap].
Qed.

Lemma free_slot_perm off t : In off (offs t) -> Permutation (offs t) (off :: offs (free_slot off t)).
Proof. intro H. destruct (free_perm off t H) as [t' [E P]]. unfold free_slot. now rewrite E. Qed.

Lemma remove_one_perm x : forall l, In x l -> Permutation l (x :: remove_one x l).
Proof.
  induction l as [|y r IH]; intro H; [destruct H|]. cbn [remove_one].
  destruct (N.eqb_spec x y) as [->|Ne]; [apply Permutation_refl|].
  destruct H as [H|H]; [congruence|]. eapply Permutation_trans; [apply perm_skip; exact (IH H)|apply perm_swap].
Qed.

(* releasing a list of offsets that are all live *)
Lemma free_all_perm : forall got t rest, Permutation (offs t) (got ++ rest) ->
  Permutation (offs (free_all got t)) rest.
Proof.
  induction got as [|o got IH]; intros t rest P; cbn [free_all fold_left]; [exact P|].
  fold (free_all got (free_slot o t)). apply IH.
  assert (I : In o (offs t)) by (eapply Permutation_in; [apply Permutation_sym; exact P|now left]).
  pose proof (free_slot_perm o t I) as Q.
  apply Permutation_cons_inv with (a := o).
  eapply Permutation_trans; [apply Permutation_sym; exact Q|exact P].
Qed.

(* ---------- every step keeps: live offsets = pointers in flight ++ client slots ------ *)
Lemma client_put_perm g w rows t :
  Permutation (offs (snd (client_put g w rows t))) (req_ptrs (fst (client_put g w rows t)) ++ offs t).
Proof.
  unfold client_put. destruct (g_size g) as [size|]; [|apply Permutation_refl].
  destruct w; try apply Permutation_refl.
  destruct (rows =? 0); [apply Permutation_refl|].
  destruct (write_slot size (lookup_sz rows (g_szi g)) t) as [[[off len]|] t'] eqn:E; cbn [fst snd req_ptrs app].
  - apply write_slot_perm in E. exact E.
  - apply write_slot_none in E. subst. apply Permutation_refl.
Qed.

Lemma ship_perm g en ne u s z t :
  Permutation (offs (snd (ship g en ne u s z t))) (ptr_offs [fst (ship g en ne u s z t)] ++ offs t).
Proof.
  unfold ship. destruct (g_size g) as [size|]; [|apply Permutation_refl].
  destruct (en && ne && negb (z_buf z <? g_gate g)%Z); [|apply Permutation_refl].
  destruct (write_slot size z t) as [[[off len]|] t'] eqn:E; cbn [fst snd ptr_offs flat_map app].
  - apply write_slot_perm in E. exact E.
  - apply write_slot_none in E. subst. apply Permutation_refl.
Qed.

Lemma put_items_perm g m : forall its t own X,
  Permutation (offs t) (X ++ own) ->
  let r := put_items g m its t own in
  Permutation (offs (snd (fst r))) (X ++ snd r) /\ Permutation (snd r) (sptrs (fst (fst r)) ++ own).
Proof.
  induction its as [|it its IH]; intros t own X P; cbn [put_items].
  - cbn. split; [exact P|apply Permutation_refl].
  - set (cp := match m with MExch => client_put g (it_wish it) (it_rows it) t | _ => (SInline, t) end).
    assert (Q : Permutation (offs (snd cp)) (req_ptrs (fst cp) ++ offs t)).
    { subst cp. destruct m; try apply Permutation_refl. apply client_put_perm. }
    destruct cp as [s t1] eqn:Ecp. cbn [fst snd] in Q.
    assert (P1 : Permutation (offs t1) (X ++ (req_ptrs s ++ own))).
    { eapply Permutation_trans; [exact Q|].
      eapply Permutation_trans; [apply Permutation_app_head; exact P|].
      rewrite !app_assoc. apply Permutation_app_tail. apply Permutation_app_comm. }
    specialize (IH t1 (req_ptrs s ++ own) X P1). cbv zeta in IH.
    destruct (put_items g m its t1 (req_ptrs s ++ own)) as [[ss t2] own2]. cbn [fst snd] in *.
    destruct IH as [A B]. split; [exact A|].
    unfold sptrs in *. cbn [flat_map fst]. fold (req_ptrs s).
    eapply Permutation_trans; [exact B|]. rewrite <- app_assoc.
    rewrite !app_assoc. apply Permutation_app_tail. apply Permutation_app_comm.
Qed.

Lemma ptr_offs_cons f fs : ptr_offs (f :: fs) = ptr_offs [f] ++ ptr_offs fs.
Proof. unfold ptr_offs. cbn [flat_map]. now rewrite app_nil_r. Qed.

Lemma ptr_offs_retag v : forall fs, ptr_offs (retag v fs) = ptr_offs fs.
Proof.
  unfold ptr_offs, retag. induction fs as [|f fs IH]; [reflexivity|]. cbn [map flat_map]. rewrite IH.
  destruct f as [a u s [[o l]|]| |]; reflexivity.
Qed.
Lemma ptr_offs_set_var v f : ptr_offs [set_var v f] = ptr_offs [f].
Proof. exact (ptr_offs_retag v [f]). Qed.
Lemma view_retag v : forall fs, map view_frame (retag v fs) = retag v (map view_frame fs).
Proof. unfold retag. induction fs as [|f fs IH]; [reflexivity|]. cbn [map]. rewrite IH. destruct f; reflexivity. Qed.
Lemma processed_retag v : forall fs, processed (retag v fs) = processed fs.
Proof. unfold retag. induction fs as [|f fs IH]; [reflexivity|]. cbn [map]. destruct f; cbn [set_var processed]; congruence. Qed.
Lemma retag_firstn v k fs : firstn k (retag v fs) = retag v (firstn k fs).
Proof. unfold retag. apply firstn_map. Qed.
Lemma retag_app v a b : retag v (a ++ b) = retag v a ++ retag v b.
Proof. unfold retag. apply map_app. Qed.
Lemma out_cfg_size g v : g_size (out_cfg g v) = g_size g.
Proof. reflexivity. Qed.

Lemma perm_drop_mid (x : N) a b c : Permutation (x :: a) (b ++ x :: c) -> Permutation a (b ++ c).
Proof. intro P. eapply Permutation_cons_app_inv. exact P. Qed.

Lemma lockstep_perm rf g ex en : forall items turns st X R,
  Permutation (offs (l_tab st)) (X ++ l_own st) ->
  Permutation (l_own st) (sptrs items ++ R) ->
  let r := lockstep rf g ex en turns items st in
  Permutation (offs (l_tab (snd (fst r)))) (ptr_offs (fst (fst r)) ++ X ++ l_own (snd (fst r))).
Proof.
  induction items as [|[[s rows] val] rest IH]; intros turns st X R P O; cbn [lockstep].
  - cbn. exact P.
  - (* the state after the resolution step still satisfies both premises *)
    assert (K : forall st1, Permutation (offs (l_tab st1)) (X ++ l_own st1) ->
                            (exists R', Permutation (l_own st1) (sptrs rest ++ R')) ->
      forall rows' leak,
      let r := (let insum := if ex then (Z.of_N rows' * val)%Z else 0%Z in
                let t := match turns with [] => default_turn ex | t :: _ => t end in
                match t_act t with
                | AErr k => ([WExc (err_exc k)], st1, leak)
                | AFinish => if ex then ([WExc exc_runtime_error], st1, leak) else ([], st1, leak)
                | AEmit =>
                    let v := (t_value t + insum)%Z in
                    let '(f, tab') := ship g en (negb (t_rows t =? 0)) (t_rows t) (Z.of_N (t_rows t) * v)%Z (lookup_sz (t_rows t) (g_szi g)) (l_tab st1) in
                    let '(fs, st2, leak2) := lockstep rf g ex en (tl turns) rest {| l_tab := tab'; l_own := l_own st1 |} in
                    (f :: fs, st2, leak || leak2)
                end) in
      Permutation (offs (l_tab (snd (fst r)))) (ptr_offs (fst (fst r)) ++ X ++ l_own (snd (fst r)))).
    { intros st1 P1 [R' O1] rows' leak. cbv zeta.
      destruct (t_act (match turns with [] => default_turn ex | t :: _ => t end)).
      - pose proof (ship_perm g en (negb (t_rows (match turns with [] => default_turn ex | t :: _ => t end) =? 0))
                      (t_rows (match turns with [] => default_turn ex | t :: _ => t end))
                      (Z.of_N (t_rows (match turns with [] => default_turn ex | t :: _ => t end)) *
                       (t_value (match turns with [] => default_turn ex | t :: _ => t end) + (if ex then (Z.of_N rows' * val)%Z else 0%Z)))%Z
                      (lookup_sz (t_rows (match turns with [] => default_turn ex | t :: _ => t end)) (g_szi g)) (l_tab st1)) as S.
        destruct (ship _ _ _ _ _ _ _) as [f tab']. cbn [fst snd] in S.
        assert (P2 : Permutation (offs tab') ((ptr_offs [f] ++ X) ++ l_own st1)).
        { eapply Permutation_trans; [exact S|]. rewrite <- app_assoc. apply Permutation_app_head. exact P1. }
        specialize (IH (tl turns) {| l_tab := tab'; l_own := l_own st1 |} (ptr_offs [f] ++ X) R' P2 O1). cbv zeta in IH.
        destruct (lockstep rf g ex en (tl turns) rest _) as [[fs st2] leak2]. cbn [fst snd] in *.
        eapply Permutation_trans; [exact IH|].
        rewrite (ptr_offs_cons f fs).
        rewrite <- !app_assoc. rewrite !app_assoc. do 2 apply Permutation_app_tail. apply Permutation_app_comm.
      - destruct ex; cbn [fst snd ptr_offs flat_map app]; exact P1.
      - cbn [fst snd ptr_offs flat_map app]. exact P1. }
    destruct s as [|off|].
    + apply K; [exact P|]. exists R. exact O.
    + destruct en.
      * unfold sptrs in O. cbn [flat_map fst] in O. fold (sptrs rest) in O. cbn [app] in O.
        assert (I : In off (l_own st)) by (eapply Permutation_in; [apply Permutation_sym; exact O|now left]).
        pose proof (remove_one_perm off _ I) as RO.
        assert (IT : In off (offs (l_tab st))).
        { eapply Permutation_in; [apply Permutation_sym; exact P|]. apply in_or_app. now right. }
        pose proof (free_slot_perm off _ IT) as FS.
        apply K; cbn [l_tab l_own].
        -- apply (perm_drop_mid off).
           eapply Permutation_trans; [apply Permutation_sym; exact FS|].
           eapply Permutation_trans; [exact P|]. apply Permutation_app_head. exact RO.
        -- exists R. apply Permutation_cons_inv with (a := off).
           eapply Permutation_trans; [apply Permutation_sym; exact RO|exact O].
      * destruct rf; [cbn [fst snd ptr_offs flat_map app]; exact P|].
        apply K; [exact P|]. unfold sptrs in O. cbn [flat_map fst] in O. fold (sptrs rest) in O. cbn [app] in O.
        exists (off :: R). eapply Permutation_trans; [exact O|]. apply Permutation_middle.
    + destruct en; [cbn [fst snd ptr_offs flat_map app]; exact P|].
      destruct rf; [cbn [fst snd ptr_offs flat_map app]; exact P|].
      apply K; [exact P|]. exists R. exact O.
Qed.

Lemma refusal_no_ptrs v m items : ptr_offs (concat (fst (refusal v m items))) = [].
Proof. unfold refusal. destruct (is_stream m && negb (v_ptr_drain v)); [destruct items|]; reflexivity. Qed.

Lemma serve_perm v g sn a c rs items t own X R :
  Permutation (offs t) (X ++ own) -> Permutation own (req_ptrs rs ++ sptrs items ++ R) ->
  let ans := serve v g sn a c rs items t own in
  Permutation (offs (a_tab ans)) (ptr_offs (concat (a_resp ans)) ++ X ++ a_own ans).
Proof.
  intros P O. cbv zeta.
  (* after resolving the request pointer both premises still hold *)
  assert (K : forall t' own', Permutation (offs t') (X ++ own') -> Permutation own' (sptrs items ++ R) ->
    forall engaged,
    let ans := (let err ty := {| a_resp := [[WExc ty]]; a_tab := t'; a_own := own'; a_alive := true; a_bad := false |} in
      match c_method c with
      | MUnknown => err ss_exc_unknown_method
      | MBlob =>
          if sc_fail (c_script c) then err exc_value_error
          else
            let n := sc_n (c_script c) in
            let ft := ship g engaged true n (Z.of_N n * c_x c)%Z (lookup_sz n (g_szb g)) t' in
            {| a_resp := [[set_var blob_schema (fst ft)]]; a_tab := snd ft; a_own := own'; a_alive := true; a_bad := false |}
      | MProd | MExch =>
          if sc_fail (c_script c) then err exc_value_error
          else
            let exchange := match c_method c with MExch => true | _ => false end in
            let r := lockstep (v_input_refuse v) (out_cfg g (sc_var (c_script c))) exchange engaged (sc_turns (c_script c)) items {| l_tab := t'; l_own := own' |} in
            {| a_resp := [retag (sc_var (c_script c)) (fst (fst r))]; a_tab := l_tab (snd (fst r)); a_own := l_own (snd (fst r)); a_alive := true; a_bad := snd r |}
      end) in
    Permutation (offs (a_tab ans)) (ptr_offs (concat (a_resp ans)) ++ X ++ a_own ans)).
  { intros t' own' P' O' engaged. cbv zeta.
    assert (L : forall ex, let r := lockstep (v_input_refuse v) (out_cfg g (sc_var (c_script c))) ex engaged (sc_turns (c_script c)) items {| l_tab := t'; l_own := own' |} in
              Permutation (offs (l_tab (snd (fst r)))) (ptr_offs (concat [retag (sc_var (c_script c)) (fst (fst r))]) ++ X ++ l_own (snd (fst r)))).
    { intro ex. cbv zeta. cbn [concat]. rewrite app_nil_r, ptr_offs_retag.
      apply (lockstep_perm (v_input_refuse v) (out_cfg g (sc_var (c_script c))) ex engaged items (sc_turns (c_script c)) {| l_tab := t'; l_own := own' |} X R); assumption. }
    destruct (c_method c); cbn [a_tab a_resp a_own]; try exact P'.
    - destruct (sc_fail (c_script c)); [cbn [a_tab a_resp a_own concat app ptr_offs flat_map]; exact P'|].
      cbn [a_tab a_resp a_own concat app].
      pose proof (ship_perm g engaged true (sc_n (c_script c)) (Z.of_N (sc_n (c_script c)) * c_x c)%Z
                    (lookup_sz (sc_n (c_script c)) (g_szb g)) t') as S.
      rewrite ptr_offs_set_var.
      eapply Permutation_trans; [exact S|].
      apply Permutation_app_head. exact P'.
    - destruct (sc_fail (c_script c)); cbn [a_tab a_resp a_own]; [exact P'|]. apply L.
    - destruct (sc_fail (c_script c)); cbn [a_tab a_resp a_own]; [exact P'|]. apply L. }
  unfold serve.
  destruct rs as [|off|]; cbn [req_ptrs app] in O.
  - destruct sn; apply K; assumption.
  - destruct sn.
    + assert (I : In off own) by (eapply Permutation_in; [apply Permutation_sym; exact O|now left]).
      pose proof (remove_one_perm off _ I) as RO.
      assert (IT : In off (offs t)).
      { eapply Permutation_in; [apply Permutation_sym; exact P|]. apply in_or_app. now right. }
      pose proof (free_slot_perm off _ IT) as FS.
      apply K.
      * apply (perm_drop_mid off).
        eapply Permutation_trans; [apply Permutation_sym; exact FS|].
        eapply Permutation_trans; [exact P|]. apply Permutation_app_head. exact RO.
      * apply Permutation_cons_inv with (a := off).
        eapply Permutation_trans; [apply Permutation_sym; exact RO|exact O].
    + cbn [a_tab a_resp a_own]. rewrite refusal_no_ptrs. exact P.
  - destruct sn; cbn [a_tab a_resp a_own]; rewrite refusal_no_ptrs; exact P.
Qed.

(* the invariant of the session: live slots = pointers whose release is deferred ++ client slots not yet consumed *)
Definition Inv (st : state) : Prop := Permutation (offs (s_tab st)) (s_deferred st ++ s_own st).

Lemma serve_call_inv v g st c : Inv st -> Inv (snd (fst (serve_call v g st c))).
Proof.
  unfold Inv, serve_call. intro P.
  set (rq := client_put g (c_wish c) 1 (s_tab st)).
  pose proof (client_put_perm g (c_wish c) 1 (s_tab st)) as CP. fold rq in CP.
  set (rs := fst rq) in *. set (own0 := req_ptrs rs ++ s_own st).
  assert (P0 : Permutation (offs (snd rq)) (s_deferred st ++ own0)).
  { eapply Permutation_trans; [exact CP|]. subst own0.
    eapply Permutation_trans; [apply Permutation_app_head; exact P|].
    rewrite !app_assoc. apply Permutation_app_tail. apply Permutation_app_comm. }
  set (pi := if is_stream (c_method c) then put_items g (c_method c) (c_items c) (snd rq) own0 else ([], snd rq, own0)).
  assert (PI : Permutation (offs (snd (fst pi))) (s_deferred st ++ snd pi)
               /\ Permutation (snd pi) (sptrs (fst (fst pi)) ++ own0)).
  { subst pi. destruct (is_stream (c_method c)).
    - apply (put_items_perm g (c_method c) (c_items c) (snd rq) own0 (s_deferred st) P0).
    - cbn [fst snd sptrs flat_map app]. split; [exact P0|apply Permutation_refl]. }
  destruct PI as [P1 O1].
  set (en := ensure (s_att st) (eff_adv g (c_adv c))).
  assert (O2 : Permutation (snd pi) (req_ptrs rs ++ sptrs (fst (fst pi)) ++ s_own st)).
  { eapply Permutation_trans; [exact O1|]. subst own0. rewrite !app_assoc. apply Permutation_app_tail. apply Permutation_app_comm. }
  pose proof (serve_perm v g (fst en) (eff_adv g (c_adv c)) c rs (fst (fst pi)) (snd (fst pi)) (snd pi) (s_deferred st) (s_own st) P1 O2) as S.
  cbv zeta in S. cbn [snd fst s_tab s_deferred s_own].
  set (ans := serve v g (fst en) (eff_adv g (c_adv c)) c rs (fst (fst pi)) (snd (fst pi)) (snd pi)) in *.
  destruct (c_release_now c).
  - apply free_all_perm. exact S.
  - eapply Permutation_trans; [exact S|]. rewrite !app_assoc. apply Permutation_app_tail. apply Permutation_app_comm.
Qed.

Lemma run_inv v g : forall cs st, Inv st -> Inv (snd (run v g st cs)).
Proof.
  induction cs as [|c r IH]; intros st I; cbn [run]; [exact I|].
  destruct (s_alive st).
  - pose proof (serve_call_inv v g st c I) as I1.
    destruct (serve_call v g st c) as [[o st1] bad]. cbn [fst snd] in I1.
    specialize (IH st1 I1). destruct (run v g st1 r) as [os st2]. exact IH.
  - specialize (IH st I). destruct (run v g st r) as [os st2]. exact IH.
Qed.

Lemma inv_init : Inv init. Proof. unfold Inv, init. cbn. apply Permutation_refl. Qed.

(* after any history: once the client has released every pointer it received, the live
   slots are exactly the client's own slots that the server never consumed *)
Lemma after_release_perm v g cs :
  let st := snd (run v g init cs) in Permutation (offs (after_release st)) (s_own st).
Proof.
  cbv zeta. pose proof (run_inv v g cs init inv_init) as I. unfold Inv in I.
  unfold after_release. apply free_all_perm. exact I.
Qed.

(* ---------- transparency --------------------------------------------------------- *)
(* what the lockstep loop answers on a plain connection: a function of the script and
   of the CONTENT of the inputs only *)
Fixpoint plain_frames (ex : bool) (turns : list turn) (items : list (N * Z)) : list wframe :=
  match items with
  | [] => []
  | (rows, val) :: rest =>
      let insum := if ex then (Z.of_N rows * val)%Z else 0%Z in
      let t := match turns with [] => default_turn ex | t :: _ => t end in
      match t_act t with
      | AErr k => [WExc (err_exc k)]
      | AFinish => if ex then [WExc exc_runtime_error] else []
      | AEmit => WData 0 (t_rows t) (Z.of_N (t_rows t) * (t_value t + insum))%Z None :: plain_frames ex (tl turns) rest
      end
  end.

Definition content (items : list sitem) : list (N * Z) := map (fun i => (snd (fst i), snd i)) items.
Definition item_content (its : list item) : list (N * Z) := map (fun it => (it_rows it, it_val it)) its.

Definition plain_answer (c : call) : list (list wframe) :=
  match c_method c with
  | MUnknown => [[WExc ss_exc_unknown_method]]
  | MBlob => if sc_fail (c_script c) then [[WExc exc_value_error]]
             else [[WData blob_schema (sc_n (c_script c)) (Z.of_N (sc_n (c_script c)) * c_x c)%Z None]]
  | MProd => if sc_fail (c_script c) then [[WExc exc_value_error]]
             else [retag (sc_var (c_script c)) (plain_frames false (sc_turns (c_script c)) (item_content (c_items c)))]
  | MExch => if sc_fail (c_script c) then [[WExc exc_value_error]]
             else [retag (sc_var (c_script c)) (plain_frames true (sc_turns (c_script c)) (item_content (c_items c)))]
  end.

Lemma ship_view g en ne u s z t : view_frame (fst (ship g en ne u s z t)) = WData 0 u s None.
Proof.
  unfold ship. destruct (g_size g); [|reflexivity].
  destruct (en && ne && negb (z_buf z <? g_gate g)%Z); [|reflexivity].
  destruct (write_slot n z t) as [[p|] t']; reflexivity.
Qed.

Lemma ship_data g en ne u s z t : exists p, fst (ship g en ne u s z t) = WData 0 u s p.
Proof.
  unfold ship. destruct (g_size g); [|now exists None].
  destruct (en && ne && negb (z_buf z <? g_gate g)%Z); [|now exists None].
  destruct (write_slot n z t) as [[p|] t']; [now exists (Some p)|now exists None].
Qed.

(* the loop met no unresolvable pointer: its frames, pointers resolved, are the plain ones *)
Lemma lockstep_view rf g ex en : forall items turns st,
  snd (lockstep rf g ex en turns items st) = false ->
  map view_frame (fst (fst (lockstep rf g ex en turns items st))) = plain_frames ex turns (content items).
Proof.
  induction items as [|[[s rows] val] rest IH]; intros turns st H; [reflexivity|].
  cbn [lockstep content map plain_frames fst snd] in *.
  assert (K : forall rows' st1 leak,
    rows' = rows ->
    snd (let insum := if ex then (Z.of_N rows' * val)%Z else 0%Z in
         let t := match turns with [] => default_turn ex | t :: _ => t end in
         match t_act t with
         | AErr k => ([WExc (err_exc k)], st1, leak)
         | AFinish => if ex then ([WExc exc_runtime_error], st1, leak) else ([], st1, leak)
         | AEmit =>
             let v := (t_value t + insum)%Z in
             let '(f, tab') := ship g en (negb (t_rows t =? 0)) (t_rows t) (Z.of_N (t_rows t) * v)%Z (lookup_sz (t_rows t) (g_szi g)) (l_tab st1) in
             let '(fs, st2, leak2) := lockstep rf g ex en (tl turns) rest {| l_tab := tab'; l_own := l_own st1 |} in
             (f :: fs, st2, leak || leak2)
         end) = false ->
    map view_frame (fst (fst (let insum := if ex then (Z.of_N rows' * val)%Z else 0%Z in
         let t := match turns with [] => default_turn ex | t :: _ => t end in
         match t_act t with
         | AErr k => ([WExc (err_exc k)], st1, leak)
         | AFinish => if ex then ([WExc exc_runtime_error], st1, leak) else ([], st1, leak)
         | AEmit =>
             let v := (t_value t + insum)%Z in
             let '(f, tab') := ship g en (negb (t_rows t =? 0)) (t_rows t) (Z.of_N (t_rows t) * v)%Z (lookup_sz (t_rows t) (g_szi g)) (l_tab st1) in
             let '(fs, st2, leak2) := lockstep rf g ex en (tl turns) rest {| l_tab := tab'; l_own := l_own st1 |} in
             (f :: fs, st2, leak || leak2)
         end)))
    = (let insum := if ex then (Z.of_N rows * val)%Z else 0%Z in
       let t := match turns with [] => default_turn ex | t :: _ => t end in
       match t_act t with
       | AErr k => [WExc (err_exc k)]
       | AFinish => if ex then [WExc exc_runtime_error] else []
       | AEmit => WData 0 (t_rows t) (Z.of_N (t_rows t) * (t_value t + insum))%Z None :: plain_frames ex (tl turns) (content rest)
       end)).
  { intros rows' st1 leak -> H1. cbv zeta in *.
    destruct (t_act (match turns with [] => default_turn ex | t :: _ => t end)).
    - pose proof (ship_view g en (negb (t_rows (match turns with [] => default_turn ex | t :: _ => t end) =? 0))
                    (t_rows (match turns with [] => default_turn ex | t :: _ => t end))
                    (Z.of_N (t_rows (match turns with [] => default_turn ex | t :: _ => t end)) *
                     (t_value (match turns with [] => default_turn ex | t :: _ => t end) + (if ex then (Z.of_N rows * val)%Z else 0%Z)))%Z
                    (lookup_sz (t_rows (match turns with [] => default_turn ex | t :: _ => t end)) (g_szi g)) (l_tab st1)) as SV.
      destruct (ship _ _ _ _ _ _ _) as [f tab']. cbn [fst] in SV.
      specialize (IH (tl turns) {| l_tab := tab'; l_own := l_own st1 |}).
      destruct (lockstep rf g ex en (tl turns) rest _) as [[fs st2] leak2]. cbn [fst snd] in *.
      apply orb_false_iff in H1 as [_ H2]. cbn [map]. rewrite SV. now rewrite (IH H2).
    - destruct ex; reflexivity.
    - reflexivity. }
  assert (Z0 : forall st1, snd (let insum := if ex then (Z.of_N 0 * val)%Z else 0%Z in
         let t := match turns with [] => default_turn ex | t :: _ => t end in
         match t_act t with
         | AErr k => ([WExc (err_exc k)], st1, true)
         | AFinish => if ex then ([WExc exc_runtime_error], st1, true) else ([], st1, true)
         | AEmit =>
             let v := (t_value t + insum)%Z in
             let '(f, tab') := ship g en (negb (t_rows t =? 0)) (t_rows t) (Z.of_N (t_rows t) * v)%Z (lookup_sz (t_rows t) (g_szi g)) (l_tab st1) in
             let '(fs, st2, leak2) := lockstep rf g ex en (tl turns) rest {| l_tab := tab'; l_own := l_own st1 |} in
             (f :: fs, st2, true || leak2)
         end) = true).
  { intro st1. cbv zeta. destruct (t_act (match turns with [] => default_turn ex | t :: _ => t end)).
    - destruct (ship _ _ _ _ _ _ _) as [f tab']. destruct (lockstep rf g ex en (tl turns) rest _) as [[fs st2] leak2]. reflexivity.
    - destruct ex; reflexivity.
    - reflexivity. }
  destruct s as [|off|].
  - apply K; [reflexivity|exact H].
  - destruct en; [apply K; [reflexivity|exact H]|].
    destruct rf; [cbn [snd] in H; discriminate|]. rewrite Z0 in H. discriminate.
  - destruct en; [cbn [orb snd] in H; discriminate|].
    destruct rf; [cbn [orb snd] in H; discriminate|]. cbn [orb] in H. rewrite Z0 in H. discriminate.
Qed.

Lemma put_items_content g m : forall its t own, content (fst (fst (put_items g m its t own))) = item_content its.
Proof.
  induction its as [|it its IH]; intros t own; [reflexivity|]. cbn [put_items].
  destruct (match m with MExch => client_put g (it_wish it) (it_rows it) t | _ => (SInline, t) end) as [s t1].
  specialize (IH t1 (req_ptrs s ++ own)). destruct (put_items g m its t1 (req_ptrs s ++ own)) as [[ss t2] own2].
  cbn [fst snd content map] in *. unfold content in IH. now rewrite IH.
Qed.

(* one call: the server met no unresolvable pointer => the client's view is the plain answer *)
Lemma serve_view v g sn a c rs items t own :
  a_bad (serve v g sn a c rs items t own) = false ->
  (is_stream (c_method c) = true -> content items = item_content (c_items c)) ->
  view (a_resp (serve v g sn a c rs items t own)) = plain_answer c.
Proof.
  unfold serve, plain_answer. intros H C.
  assert (K : forall t' own' engaged,
    a_bad (let err ty := {| a_resp := [[WExc ty]]; a_tab := t'; a_own := own'; a_alive := true; a_bad := false |} in
      match c_method c with
      | MUnknown => err ss_exc_unknown_method
      | MBlob =>
          if sc_fail (c_script c) then err exc_value_error
          else
            let n := sc_n (c_script c) in
            let ft := ship g engaged true n (Z.of_N n * c_x c)%Z (lookup_sz n (g_szb g)) t' in
            {| a_resp := [[set_var blob_schema (fst ft)]]; a_tab := snd ft; a_own := own'; a_alive := true; a_bad := false |}
      | MProd | MExch =>
          if sc_fail (c_script c) then err exc_value_error
          else
            let exchange := match c_method c with MExch => true | _ => false end in
            let r := lockstep (v_input_refuse v) (out_cfg g (sc_var (c_script c))) exchange engaged (sc_turns (c_script c)) items {| l_tab := t'; l_own := own' |} in
            {| a_resp := [retag (sc_var (c_script c)) (fst (fst r))]; a_tab := l_tab (snd (fst r)); a_own := l_own (snd (fst r)); a_alive := true; a_bad := snd r |}
      end) = false ->
    view (a_resp (let err ty := {| a_resp := [[WExc ty]]; a_tab := t'; a_own := own'; a_alive := true; a_bad := false |} in
      match c_method c with
      | MUnknown => err ss_exc_unknown_method
      | MBlob =>
          if sc_fail (c_script c) then err exc_value_error
          else
            let n := sc_n (c_script c) in
            let ft := ship g engaged true n (Z.of_N n * c_x c)%Z (lookup_sz n (g_szb g)) t' in
            {| a_resp := [[set_var blob_schema (fst ft)]]; a_tab := snd ft; a_own := own'; a_alive := true; a_bad := false |}
      | MProd | MExch =>
          if sc_fail (c_script c) then err exc_value_error
          else
            let exchange := match c_method c with MExch => true | _ => false end in
            let r := lockstep (v_input_refuse v) (out_cfg g (sc_var (c_script c))) exchange engaged (sc_turns (c_script c)) items {| l_tab := t'; l_own := own' |} in
            {| a_resp := [retag (sc_var (c_script c)) (fst (fst r))]; a_tab := l_tab (snd (fst r)); a_own := l_own (snd (fst r)); a_alive := true; a_bad := snd r |}
      end))
    = match c_method c with
      | MUnknown => [[WExc ss_exc_unknown_method]]
      | MBlob => if sc_fail (c_script c) then [[WExc exc_value_error]]
                 else [[WData blob_schema (sc_n (c_script c)) (Z.of_N (sc_n (c_script c)) * c_x c)%Z None]]
      | MProd => if sc_fail (c_script c) then [[WExc exc_value_error]]
                 else [retag (sc_var (c_script c)) (plain_frames false (sc_turns (c_script c)) (item_content (c_items c)))]
      | MExch => if sc_fail (c_script c) then [[WExc exc_value_error]]
                 else [retag (sc_var (c_script c)) (plain_frames true (sc_turns (c_script c)) (item_content (c_items c)))]
      end).
  { intros t' own' engaged H1. cbv zeta in *. destruct (c_method c); cbn [is_stream] in C.
    - destruct (sc_fail (c_script c)); [reflexivity|]. cbn [a_resp view map].
      destruct (ship_data g engaged true (sc_n (c_script c)) (Z.of_N (sc_n (c_script c)) * c_x c)%Z (lookup_sz (sc_n (c_script c)) (g_szb g)) t') as [p SD].
      rewrite SD. reflexivity.
    - destruct (sc_fail (c_script c)); [reflexivity|]. cbn [a_resp a_bad] in *. unfold view. cbn [map].
      rewrite view_retag, (lockstep_view _ _ false engaged items _ _ H1). now rewrite (C eq_refl).
    - destruct (sc_fail (c_script c)); [reflexivity|]. cbn [a_resp a_bad] in *. unfold view. cbn [map].
      rewrite view_retag, (lockstep_view _ _ true engaged items _ _ H1). now rewrite (C eq_refl).
    - reflexivity. }
  destruct rs as [|off|]; [destruct sn; apply K; exact H| |].
  - destruct sn; [apply K; exact H|]. cbn [a_bad] in H. discriminate.
  - destruct sn; cbn [a_bad] in H; discriminate.
Qed.

Lemma serve_call_view v g st c :
  snd (serve_call v g st c) = false -> view (b_resp (fst (fst (serve_call v g st c)))) = plain_answer c.
Proof.
  unfold serve_call. cbn [fst snd b_resp]. intro H. apply serve_view; [exact H|].
  intro S. rewrite S. apply put_items_content.
Qed.

(* a client without a segment: nothing is ever a pointer, nothing is ever flagged *)
Lemma client_put_plain g w rows t : g_size g = None -> client_put g w rows t = (SInline, t).
Proof. intro E. unfold client_put. now rewrite E. Qed.

Lemma put_items_plain g m : g_size g = None -> forall its t own,
  put_items g m its t own = (map (fun it => (SInline, it_rows it, it_val it)) its, t, own).
Proof.
  intros E. induction its as [|it its IH]; intros t own; [reflexivity|]. cbn [put_items].
  assert (X : (match m with MExch => client_put g (it_wish it) (it_rows it) t | _ => (SInline, t) end) = (SInline, t)).
  { destruct m; try reflexivity. now apply client_put_plain. }
  rewrite X. cbn [req_ptrs app]. now rewrite IH.
Qed.

Lemma lockstep_inline_ok rf g ex en : forall its turns st,
  snd (lockstep rf g ex en turns (map (fun it => (SInline, it_rows it, it_val it)) its) st) = false.
Proof.
  induction its as [|it its IH]; intros turns st; [reflexivity|]. cbn [map lockstep]. cbv zeta.
  destruct (t_act (match turns with [] => default_turn ex | t :: _ => t end)).
  - destruct (ship _ _ _ _ _ _ _) as [f tab'].
    specialize (IH (tl turns) {| l_tab := tab'; l_own := l_own st |}).
    destruct (lockstep rf g ex en (tl turns) _ _) as [[fs st2] leak2]. cbn [snd] in *. now rewrite IH.
  - destruct ex; reflexivity.
  - reflexivity.
Qed.

Lemma ship_plain g en ne u s z t : g_size g = None -> ship g en ne u s z t = (WData 0 u s None, t).
Proof. intro E. unfold ship. now rewrite E. Qed.

Lemma lockstep_plain rf g ex en : g_size g = None -> forall its turns st,
  fst (fst (lockstep rf g ex en turns (map (fun it => (SInline, it_rows it, it_val it)) its) st))
  = plain_frames ex turns (item_content its).
Proof.
  intro E. induction its as [|it its IH]; intros turns st; [reflexivity|].
  cbn [map lockstep item_content plain_frames]. cbv zeta.
  destruct (t_act (match turns with [] => default_turn ex | t :: _ => t end)).
  - rewrite (ship_plain g _ _ _ _ _ _ E).
    specialize (IH (tl turns) {| l_tab := l_tab st; l_own := l_own st |}).
    destruct (lockstep rf g ex en (tl turns) _ _) as [[fs st2] leak2]. cbn [fst snd] in *.
    unfold item_content in IH. now rewrite IH.
  - destruct ex; reflexivity.
  - reflexivity.
Qed.

Lemma serve_call_plain v g st c : g_size g = None ->
  b_resp (fst (fst (serve_call v g st c))) = plain_answer c
  /\ snd (serve_call v g st c) = false
  /\ s_alive (snd (fst (serve_call v g st c))) = true.
Proof.
  intro E. unfold serve_call. cbn [fst snd b_resp s_alive].
  rewrite (client_put_plain g _ _ _ E). cbn [fst snd req_ptrs app].
  assert (PI : (if is_stream (c_method c) then put_items g (c_method c) (c_items c) (s_tab st) (s_own st) else ([], s_tab st, s_own st))
               = (if is_stream (c_method c) then map (fun it => (SInline, it_rows it, it_val it)) (c_items c) else [], s_tab st, s_own st)).
  { destruct (is_stream (c_method c)); [now apply put_items_plain|reflexivity]. }
  rewrite PI. cbn [fst snd]. unfold eff_adv. rewrite E. unfold serve, plain_answer. cbn [is_ptr_sent has_name].
  assert (K : forall sn,
    let ans := (let err ty := {| a_resp := [[WExc ty]]; a_tab := s_tab st; a_own := s_own st; a_alive := true; a_bad := false |} in
      match c_method c with
      | MUnknown => err ss_exc_unknown_method
      | MBlob =>
          if sc_fail (c_script c) then err exc_value_error
          else
            let n := sc_n (c_script c) in
            let ft := ship g (sn && (false || false)) true n (Z.of_N n * c_x c)%Z (lookup_sz n (g_szb g)) (s_tab st) in
            {| a_resp := [[set_var blob_schema (fst ft)]]; a_tab := snd ft; a_own := s_own st; a_alive := true; a_bad := false |}
      | MProd | MExch =>
          if sc_fail (c_script c) then err exc_value_error
          else
            let exchange := match c_method c with MExch => true | _ => false end in
            let r := lockstep (v_input_refuse v) (out_cfg g (sc_var (c_script c))) exchange (sn && (false || false)) (sc_turns (c_script c))
                       (if is_stream (c_method c) then map (fun it => (SInline, it_rows it, it_val it)) (c_items c) else [])
                       {| l_tab := s_tab st; l_own := s_own st |} in
            {| a_resp := [retag (sc_var (c_script c)) (fst (fst r))]; a_tab := l_tab (snd (fst r)); a_own := l_own (snd (fst r)); a_alive := true; a_bad := snd r |}
      end) in
    a_resp ans = match c_method c with
      | MUnknown => [[WExc ss_exc_unknown_method]]
      | MBlob => if sc_fail (c_script c) then [[WExc exc_value_error]]
                 else [[WData blob_schema (sc_n (c_script c)) (Z.of_N (sc_n (c_script c)) * c_x c)%Z None]]
      | MProd => if sc_fail (c_script c) then [[WExc exc_value_error]]
                 else [retag (sc_var (c_script c)) (plain_frames false (sc_turns (c_script c)) (item_content (c_items c)))]
      | MExch => if sc_fail (c_script c) then [[WExc exc_value_error]]
                 else [retag (sc_var (c_script c)) (plain_frames true (sc_turns (c_script c)) (item_content (c_items c)))]
      end /\ a_bad ans = false /\ a_alive ans = true).
  { intro sn. cbv zeta. destruct (c_method c); cbn [is_stream].
    - destruct (sc_fail (c_script c)); [repeat split|]. rewrite (ship_plain g _ _ _ _ _ _ E). repeat split.
    - destruct (sc_fail (c_script c)); [repeat split|]. cbn [a_resp a_bad a_alive].
      rewrite (lockstep_plain _ (out_cfg g (sc_var (c_script c))) false _ E), lockstep_inline_ok. repeat split.
    - destruct (sc_fail (c_script c)); [repeat split|]. cbn [a_resp a_bad a_alive].
      rewrite (lockstep_plain _ (out_cfg g (sc_var (c_script c))) true _ E), lockstep_inline_ok. repeat split.
    - repeat split. }
  destruct (fst (ensure (s_att st) AdvNone)); apply K.
Qed.

Lemma serve_call_alive g st c : s_alive (snd (fst (serve_call current g st c))) = true.
Proof.
  unfold serve_call. cbn [fst snd s_alive]. unfold serve.
  set (rs := fst (client_put g (c_wish c) 1 (s_tab st))).
  set (sn := fst (ensure (s_att st) (eff_adv g (c_adv c)))).
  assert (R : forall items, snd (refusal current (c_method c) items) = true).
  { intro items. unfold refusal. cbn [current v_ptr_drain negb]. now rewrite andb_false_r. }
  destruct rs; destruct sn; cbn [a_alive]; try apply R;
    destruct (c_method c); try reflexivity; destruct (sc_fail (c_script c)); reflexivity.
Qed.

(* over a whole history: wherever the server met no unresolvable pointer, the client of the
   segment-owning session sees, after resolving pointers, exactly what the plain session shows *)
Lemma transparent_run g gp : g_size gp = None -> forall cs st stp,
  s_alive st = true -> s_alive stp = true ->
  Forall2 (fun ow op => snd ow = false -> view (b_resp (fst ow)) = b_resp (fst op))
          (fst (run current g st cs)) (fst (run current gp stp cs)).
Proof.
  intro E. induction cs as [|c r IH]; intros st stp A Ap; cbn [run]; [constructor|].
  rewrite A, Ap.
  pose proof (serve_call_view current g st c) as V.
  pose proof (serve_call_alive g st c) as A1.
  destruct (serve_call_plain current gp stp c E) as [PR [PB PA]].
  destruct (serve_call current g st c) as [[o st1] bad].
  destruct (serve_call current gp stp c) as [[op stp1] badp]. cbn [fst snd] in *.
  specialize (IH st1 stp1 A1 PA).
  destruct (run current g st1 r) as [os st2]. destruct (run current gp stp1 r) as [osp stp2]. cbn [fst] in *.
  constructor; [|exact IH]. cbn [fst snd]. intro B. rewrite PR. apply V. exact B.
Qed.

(* ---------- the decidable form of the property, on the model ---------------------- *)
Lemma wframe_eqb_refl f : wframe_eqb f f = true.
Proof.
  destruct f as [a u s [[o l]|]| |]; cbn [wframe_eqb opt_eqb]; rewrite ?N.eqb_refl, ?Z.eqb_refl, ?beqb_refl; try reflexivity.
  unfold pair_eqb. cbn [fst snd]. now rewrite !N.eqb_refl.
Qed.
Lemma frames_eqb_refl fs : list_eqb wframe_eqb fs fs = true.
Proof. induction fs as [|f fs IH]; cbn [list_eqb]; [reflexivity|]. now rewrite wframe_eqb_refl, IH. Qed.
Lemma resp_eqb_refl r : resp_eqb r r = true.
Proof. unfold resp_eqb. induction r as [|fs r IH]; cbn [list_eqb]; [reflexivity|]. now rewrite frames_eqb_refl, IH. Qed.

Lemma plain_frames_noptr ex : forall items turns, forallb no_ptr_frame (plain_frames ex turns items) = true.
Proof.
  induction items as [|[rows val] rest IH]; intro turns; [reflexivity|]. cbn [plain_frames]. cbv zeta.
  destruct (t_act _); [cbn [forallb no_ptr_frame]; apply IH|destruct ex; reflexivity|reflexivity].
Qed.

Lemma retag_noptr v : forall fs, forallb no_ptr_frame (retag v fs) = forallb no_ptr_frame fs.
Proof. unfold retag. induction fs as [|f fs IH]; [reflexivity|]. cbn [map forallb]. rewrite IH. destruct f as [a u s [p|]| |]; reflexivity. Qed.

Lemma plain_answer_shape c :
  Nat.eqb (length (plain_answer c)) 1 = true /\ forallb (forallb no_ptr_frame) (plain_answer c) = true.
Proof.
  unfold plain_answer. destruct (c_method c); try destruct (sc_fail (c_script c)); split; try reflexivity;
    cbn [forallb]; rewrite retag_noptr, plain_frames_noptr; reflexivity.
Qed.

Lemma client_put_sent g w rows t :
  match fst (client_put g w rows t) with
  | SInline => True
  | SPtr _ => w = WPtr
  | SBad => w = WBad
  end.
Proof.
  unfold client_put. destruct (g_size g); [|exact I]. destruct w; cbn [fst]; try exact I; try reflexivity.
  destruct (rows =? 0); [exact I|]. destruct (write_slot _ _ _) as [[[o l]|] t']; cbn [fst]; [reflexivity|exact I].
Qed.

Lemma put_items_nonexch g m : m <> MExch -> forall its t own,
  fst (fst (put_items g m its t own)) = map (fun it => (SInline, it_rows it, it_val it)) its.
Proof.
  intro NE. induction its as [|it its IH]; intros t own; [reflexivity|]. cbn [put_items].
  assert (X : (match m with MExch => client_put g (it_wish it) (it_rows it) t | _ => (SInline, t) end) = (SInline, t))
    by (destruct m; try reflexivity; congruence).
  rewrite X. specialize (IH t (req_ptrs SInline ++ own)).
  destruct (put_items g m its t (req_ptrs SInline ++ own)) as [[ss t2] own2]. cbn [fst snd map] in *. now rewrite IH.
Qed.

(* ---------- the loop in front of an unresolvable pointer input ---------------------- *)
Definition unresolvable (en : bool) (s : sent) : bool :=
  match s with SInline => false | SPtr _ => negb en | SBad => true end.
Fixpoint sfirst (en : bool) (items : list sitem) : option nat :=
  match items with
  | [] => None
  | i :: r => if unresolvable en (fst (fst i)) then Some O else option_map S (sfirst en r)
  end.

Lemma emits_before_nil k : emits_before k [] = true.
Proof. destruct k; reflexivity. Qed.

(* current code, exchange: the answers to the inputs before the first unresolvable pointer are the
   plain ones; if the loop gets that far the stream ends there with one IOError *)
Lemma lockstep_reach g en : forall items turns st,
  map view_frame (fst (fst (lockstep true g true en turns items st))) =
  match sfirst en items with
  | Some k => if emits_before k turns then firstn k (plain_frames true turns (content items)) ++ [WExc exc_io_error]
              else plain_frames true turns (content items)
  | None => plain_frames true turns (content items)
  end.
Proof.
  induction items as [|[[s rows] val] rest IH]; intros turns st; [reflexivity|].
  cbn [sfirst fst snd content map].
  destruct (unresolvable en s) eqn:U.
  - (* refused at once *)
    cbn [emits_before firstn app]. cbn [lockstep].
    destruct s as [|off|]; cbn [unresolvable] in U; [discriminate| |].
    + destruct en; [discriminate|]. reflexivity.
    + rewrite orb_true_r. reflexivity.
  - (* resolved (or inline): one turn, then the rest *)
    assert (K : forall st1,
      map view_frame (fst (fst (lockstep true g true en turns ((SInline, rows, val) :: rest) st1)))
      = match option_map S (sfirst en rest) with
        | Some k => if emits_before k turns then firstn k (plain_frames true turns ((rows, val) :: content rest)) ++ [WExc exc_io_error]
                    else plain_frames true turns ((rows, val) :: content rest)
        | None => plain_frames true turns ((rows, val) :: content rest)
        end).
    { intro st1. cbn [lockstep plain_frames]. cbv zeta.
      destruct turns as [|t tr]; cbn [tl].
      - (* default turn of an exchange: emit *)
        cbn [default_turn t_act t_rows t_value].
        pose proof (ship_view g en (negb (1 =? 0)) 1 (Z.of_N 1 * (0 + Z.of_N rows * val))%Z (lookup_sz 1 (g_szi g)) (l_tab st1)) as SV.
        destruct (ship _ _ _ _ _ _ _) as [f tab']. cbn [fst] in SV.
        specialize (IH [] {| l_tab := tab'; l_own := l_own st1 |}).
        destruct (lockstep true g true en [] rest _) as [[fs st2] leak2]. cbn [fst snd map] in *.
        rewrite SV, IH. destruct (sfirst en rest) as [k|]; cbn [option_map]; [|reflexivity].
        rewrite !emits_before_nil. reflexivity.
      - destruct (t_act t) as [| |ek] eqn:A.
        + pose proof (ship_view g en (negb (t_rows t =? 0)) (t_rows t) (Z.of_N (t_rows t) * (t_value t + Z.of_N rows * val))%Z
                        (lookup_sz (t_rows t) (g_szi g)) (l_tab st1)) as SV.
          destruct (ship _ _ _ _ _ _ _) as [f tab']. cbn [fst] in SV.
          specialize (IH tr {| l_tab := tab'; l_own := l_own st1 |}).
          destruct (lockstep true g true en tr rest _) as [[fs st2] leak2]. cbn [fst snd map] in *.
          rewrite SV, IH. destruct (sfirst en rest) as [k|]; cbn [option_map]; [|reflexivity].
          cbn [emits_before]. rewrite A. destruct (emits_before k tr); reflexivity.
        + cbn [fst map view_frame]. destruct (sfirst en rest) as [k|]; cbn [option_map]; [|reflexivity].
          cbn [emits_before]. rewrite A. reflexivity.
        + cbn [fst map view_frame]. destruct (sfirst en rest) as [k|]; cbn [option_map]; [|reflexivity].
          cbn [emits_before]. rewrite A. reflexivity. }
    destruct s as [|off|]; cbn [unresolvable] in U; [apply K| |discriminate].
    destruct en; [|discriminate].
    (* a resolved pointer: the same turn on the same content, another state *)
    specialize (K {| l_tab := free_slot off (l_tab st); l_own := remove_one off (l_own st) |}).
    cbn [lockstep] in *. exact K.
Qed.

Lemma first_unresolvable_sfirst g en : forall its t own k,
  first_unresolvable en its (map (fun i => is_ptr_sent (fst (fst i))) (fst (fst (put_items g MExch its t own)))) k
  = option_map (fun j => (j + k)%nat) (sfirst en (fst (fst (put_items g MExch its t own)))).
Proof.
  induction its as [|it its IH]; intros t own k; [reflexivity|]. cbn [put_items].
  pose proof (client_put_sent g (it_wish it) (it_rows it) t) as CS.
  destruct (client_put g (it_wish it) (it_rows it) t) as [s t1]. cbn [fst] in CS.
  specialize (IH t1 (req_ptrs s ++ own) (S k)).
  destruct (put_items g MExch its t1 (req_ptrs s ++ own)) as [[ss t2] own2].
  cbn [fst snd map first_unresolvable sfirst] in *.
  assert (SH : forall o : option nat, option_map (fun j => (j + S k)%nat) o = option_map (fun j => (j + k)%nat) (option_map S o)).
  { intros [j|]; cbn [option_map]; [f_equal; lia|reflexivity]. }
  destruct s as [|off|]; cbn [is_ptr_sent unresolvable andb].
  - rewrite IH. apply SH.
  - rewrite CS, orb_false_r. destruct en; cbn [negb]; [rewrite IH; apply SH|reflexivity].
  - rewrite CS, orb_true_r. reflexivity.
Qed.

(* what the walk asks of one call holds on the model *)
Lemma call_clause g size st c : g_size g = Some size ->
  let w := fst (fst (serve_call current g st c)) in
  let seg_now := fst (ensure (s_att st) (c_adv c)) in
  let engaged := seg_now && (has_name (c_adv c) || b_req_ptr w) in
  Nat.eqb (length (b_resp w)) 1 = true
  /\ snd (ensure (s_att st) (c_adv c)) = s_att (snd (fst (serve_call current g st c)))
  /\ (if b_req_ptr w && (negb seg_now || match c_wish c with WBad => true | _ => false end) then
        resp_eqb (b_resp w) [[WExc exc_io_error]]
      else match (match c_method c with
                  | MExch => if sc_fail (c_script c) then None
                             else match first_unresolvable engaged (c_items c) (b_items_ptr w) 0 with
                                  | Some k => if emits_before k (sc_turns (c_script c)) then Some k else None
                                  | None => None
                                  end
                  | _ => None
                  end) with
           | Some k => match b_resp w, plain_answer c with
                       | [fs], [ps] => list_eqb wframe_eqb (map view_frame fs) (firstn k ps ++ [WExc exc_io_error])
                       | _, _ => false
                       end
           | None => resp_eqb (view (b_resp w)) (plain_answer c)
           end) = true.
Proof.
  intro E. unfold serve_call. cbn [fst snd b_resp b_req_ptr b_items_ptr s_att]. unfold eff_adv. rewrite E.
  pose proof (client_put_sent g (c_wish c) 1 (s_tab st)) as CS.
  set (rq := client_put g (c_wish c) 1 (s_tab st)) in *. set (rs := fst rq) in *.
  set (pi := if is_stream (c_method c) then put_items g (c_method c) (c_items c) (snd rq) (req_ptrs rs ++ s_own st) else ([], snd rq, req_ptrs rs ++ s_own st)).
  set (sn := fst (ensure (s_att st) (c_adv c))).
  split; [|split; [reflexivity|]].
  - (* exactly one stream *)
    unfold serve. assert (R : length (fst (refusal current (c_method c) (fst (fst pi)))) = 1%nat).
    { unfold refusal. cbn [current v_ptr_drain negb]. now rewrite andb_false_r. }
    destruct rs; destruct sn; cbn [a_resp]; rewrite ?R; try reflexivity;
      destruct (c_method c); try reflexivity; destruct (sc_fail (c_script c)); reflexivity.
  - assert (RF : fst (refusal current (c_method c) (fst (fst pi))) = [[WExc exc_io_error]]).
    { unfold refusal. cbn [current v_ptr_drain negb]. now rewrite andb_false_r. }
    (* the answer when the request is not refused *)
    assert (K : is_ptr_sent rs = false \/ (sn = true /\ exists off, rs = SPtr off) ->
      match (match c_method c with
             | MExch => if sc_fail (c_script c) then None
                        else match first_unresolvable (sn && (has_name (c_adv c) || is_ptr_sent rs)) (c_items c)
                                     (map (fun i => is_ptr_sent (fst (fst i))) (fst (fst pi))) 0 with
                             | Some k => if emits_before k (sc_turns (c_script c)) then Some k else None
                             | None => None
                             end
             | _ => None end) with
      | Some k => match a_resp (serve current g sn (c_adv c) c rs (fst (fst pi)) (snd (fst pi)) (snd pi)), plain_answer c with
                  | [fs], [ps] => list_eqb wframe_eqb (map view_frame fs) (firstn k ps ++ [WExc exc_io_error])
                  | _, _ => false
                  end
      | None => resp_eqb (view (a_resp (serve current g sn (c_adv c) c rs (fst (fst pi)) (snd (fst pi)) (snd pi)))) (plain_answer c)
      end = true).
    { intro NR.
      assert (V : a_bad (serve current g sn (c_adv c) c rs (fst (fst pi)) (snd (fst pi)) (snd pi)) = false ->
                  resp_eqb (view (a_resp (serve current g sn (c_adv c) c rs (fst (fst pi)) (snd (fst pi)) (snd pi)))) (plain_answer c) = true).
      { intro B. rewrite (serve_view current g sn (c_adv c) c rs _ _ _ B); [apply resp_eqb_refl|].
        intro S. subst pi. rewrite S. apply put_items_content. }
      assert (NRF : forall X Y : answer, (match rs, sn with SBad, _ | SPtr _, false => X | _, _ => Y end) = Y).
      { intros X Y. destruct NR as [NP|[SN [off ->]]]; [destruct rs; try discriminate; destruct sn; reflexivity|rewrite SN; reflexivity]. }
      destruct (c_method c) eqn:M.
      - apply V. unfold serve. rewrite NRF, M. destruct (sc_fail (c_script c)); reflexivity.
      - apply V. unfold serve. rewrite NRF, M. destruct (sc_fail (c_script c)); [reflexivity|]. cbn [a_bad].
        subst pi. cbn [is_stream fst snd]. rewrite put_items_nonexch by discriminate. apply lockstep_inline_ok.
      - unfold serve. rewrite NRF, M. unfold plain_answer. rewrite M.
        destruct (sc_fail (c_script c)); [reflexivity|]. cbn [a_resp current v_input_refuse].
        subst pi. cbn [is_stream fst snd].
        rewrite (first_unresolvable_sfirst g _ (c_items c) (snd rq) (req_ptrs rs ++ s_own st) 0).
        pose proof (lockstep_reach (out_cfg g (sc_var (c_script c))) (sn && (has_name (c_adv c) || is_ptr_sent rs))
                      (fst (fst (put_items g MExch (c_items c) (snd rq) (req_ptrs rs ++ s_own st)))) (sc_turns (c_script c))) as LR.
        rewrite put_items_content in LR.
        match goal with |- context [lockstep true ?g0 true ?en ?tu ?it ?st0] => specialize (LR st0) end.
        destruct (sfirst _ _) as [k|]; cbn [option_map].
        + rewrite Nat.add_0_r. destruct (emits_before k (sc_turns (c_script c))).
          * rewrite view_retag, LR, retag_app, retag_firstn. apply frames_eqb_refl.
          * unfold view. cbn [map]. rewrite view_retag, LR. apply resp_eqb_refl.
        + unfold view. cbn [map]. rewrite view_retag, LR. apply resp_eqb_refl.
      - apply V. unfold serve. rewrite NRF, M. reflexivity. }
    destruct rs as [|off|] eqn:RS; cbn [is_ptr_sent andb] in *.
    + apply K. now left.
    + rewrite CS. destruct sn eqn:SN; cbn [negb orb andb].
      * apply K. right. split; [reflexivity|now exists off].
      * unfold serve. cbn [a_resp]. rewrite RF. apply resp_eqb_refl.
    + rewrite CS, orb_true_r. unfold serve. destruct sn; cbn [a_resp]; rewrite RF; apply resp_eqb_refl.
Qed.

Lemma calls_ok_run g size gp : g_size g = Some size -> g_size gp = None -> forall cs st stp,
  s_alive st = true -> s_alive stp = true ->
  calls_ok (s_att st) cs (map fst (fst (run current g st cs)))
           (map (fun o => b_resp (fst o)) (fst (run current gp stp cs))) = true.
Proof.
  intros E Ep. induction cs as [|c r IH]; intros st stp A Ap; cbn [run]; [reflexivity|].
  rewrite A, Ap.
  pose proof (call_clause g size st c E) as CC. cbv zeta in CC.
  pose proof (serve_call_alive g st c) as A1.
  destruct (serve_call_plain current gp stp c Ep) as [PR [_ PA]].
  destruct (plain_answer_shape c) as [PL PN].
  destruct (serve_call current g st c) as [[o st1] bad].
  destruct (serve_call current gp stp c) as [[op stp1] badp]. cbn [fst snd] in *.
  specialize (IH st1 stp1 A1 PA).
  destruct (run current g st1 r) as [os st2]. destruct (run current gp stp1 r) as [osp stp2].
  cbn [fst snd map calls_ok] in *.
  destruct CC as [L [AT CL]].
  destruct (ensure (s_att st) (c_adv c)) as [sn att'] eqn:EN. cbn [fst snd] in *.
  rewrite PR, L, PL, PN. cbn [andb]. subst att'. rewrite IH, andb_true_r.
  destruct (b_req_ptr o && (negb sn || match c_wish c with WBad => true | _ => false end)); [exact CL|].
  destruct (match c_method c with MExch => _ | _ => None end); exact CL.
Qed.

(* ---------- the client's own slots ---------------------------------------------- *)
Lemma remove_one_incl x : forall l, incl (remove_one x l) l.
Proof.
  induction l as [|y r IH]; [apply incl_refl|]. cbn [remove_one].
  destruct (x =? y); [apply incl_tl, incl_refl|]. apply incl_cons; [now left|]. apply incl_tl. exact IH.
Qed.

Lemma lockstep_own rf g ex en : forall items turns st,
  incl (l_own (snd (fst (lockstep rf g ex en turns items st)))) (l_own st).
Proof.
  induction items as [|[[s rows] val] rest IH]; intros turns st; [apply incl_refl|]. cbn [lockstep].
  assert (K : forall rows' st1 leak, incl (l_own st1) (l_own st) ->
    incl (l_own (snd (fst (let insum := if ex then (Z.of_N rows' * val)%Z else 0%Z in
         let t := match turns with [] => default_turn ex | t :: _ => t end in
         match t_act t with
         | AErr k => ([WExc (err_exc k)], st1, leak)
         | AFinish => if ex then ([WExc exc_runtime_error], st1, leak) else ([], st1, leak)
         | AEmit =>
             let v := (t_value t + insum)%Z in
             let '(f, tab') := ship g en (negb (t_rows t =? 0)) (t_rows t) (Z.of_N (t_rows t) * v)%Z (lookup_sz (t_rows t) (g_szi g)) (l_tab st1) in
             let '(fs, st2, leak2) := lockstep rf g ex en (tl turns) rest {| l_tab := tab'; l_own := l_own st1 |} in
             (f :: fs, st2, leak || leak2)
         end)))) (l_own st)).
  { intros rows' st1 leak I. cbv zeta. destruct (t_act _).
    - destruct (ship _ _ _ _ _ _ _) as [f tab']. specialize (IH (tl turns) {| l_tab := tab'; l_own := l_own st1 |}).
      destruct (lockstep rf g ex en (tl turns) rest _) as [[fs st2] leak2]. cbn [fst snd l_own] in *.
      eapply incl_tran; [exact IH|exact I].
    - destruct ex; exact I.
    - exact I. }
  destruct s as [|off|].
  - apply K, incl_refl.
  - destruct en; [apply K; cbn [l_own]; apply remove_one_incl|]. destruct rf; [apply incl_refl|apply K, incl_refl].
  - destruct (en || rf); [apply incl_refl|apply K, incl_refl].
Qed.

Lemma serve_own v g sn a c rs items t own : incl (a_own (serve v g sn a c rs items t own)) own.
Proof.
  unfold serve.
  assert (K : forall t' own', incl own' own -> forall engaged,
    incl (a_own (let err ty := {| a_resp := [[WExc ty]]; a_tab := t'; a_own := own'; a_alive := true; a_bad := false |} in
      match c_method c with
      | MUnknown => err ss_exc_unknown_method
      | MBlob =>
          if sc_fail (c_script c) then err exc_value_error
          else
            let n := sc_n (c_script c) in
            let ft := ship g engaged true n (Z.of_N n * c_x c)%Z (lookup_sz n (g_szb g)) t' in
            {| a_resp := [[set_var blob_schema (fst ft)]]; a_tab := snd ft; a_own := own'; a_alive := true; a_bad := false |}
      | MProd | MExch =>
          if sc_fail (c_script c) then err exc_value_error
          else
            let exchange := match c_method c with MExch => true | _ => false end in
            let r := lockstep (v_input_refuse v) (out_cfg g (sc_var (c_script c))) exchange engaged (sc_turns (c_script c)) items {| l_tab := t'; l_own := own' |} in
            {| a_resp := [retag (sc_var (c_script c)) (fst (fst r))]; a_tab := l_tab (snd (fst r)); a_own := l_own (snd (fst r)); a_alive := true; a_bad := snd r |}
      end)) own).
  { intros t' own' I engaged. cbv zeta.
    destruct (c_method c);
      [destruct (sc_fail (c_script c)); exact I
      |destruct (sc_fail (c_script c)); [exact I|cbn [a_own]; apply (incl_tran (lockstep_own _ _ _ _ _ _ _)); cbn [l_own]; exact I]
      |destruct (sc_fail (c_script c)); [exact I|cbn [a_own]; apply (incl_tran (lockstep_own _ _ _ _ _ _ _)); cbn [l_own]; exact I]
      |exact I]. }
  destruct rs as [|off|]; [destruct sn; apply K, incl_refl| |destruct sn; apply incl_refl].
  destruct sn; [apply K, remove_one_incl|apply incl_refl].
Qed.

Lemma serve_call_own v g st c : incl (s_own st) (s_sent st) ->
  incl (s_own (snd (fst (serve_call v g st c)))) (s_sent (snd (fst (serve_call v g st c)))).
Proof.
  intro I. unfold serve_call. cbn [fst snd s_own s_sent].
  set (rq := client_put g (c_wish c) 1 (s_tab st)). set (rs := fst rq).
  set (pi := if is_stream (c_method c) then put_items g (c_method c) (c_items c) (snd rq) (req_ptrs rs ++ s_own st) else ([], snd rq, req_ptrs rs ++ s_own st)).
  eapply incl_tran; [apply serve_own|].
  assert (O : Permutation (snd pi) (sptrs (fst (fst pi)) ++ req_ptrs rs ++ s_own st)).
  { subst pi. destruct (is_stream (c_method c)).
    - (* put_items_perm needs a table premise only for its first conclusion; restate the second directly *)
      assert (G : forall its t own, Permutation (snd (put_items g (c_method c) its t own)) (sptrs (fst (fst (put_items g (c_method c) its t own))) ++ own)).
      { induction its as [|it its IH]; intros t own; [apply Permutation_refl|]. cbn [put_items].
        destruct (match c_method c with MExch => client_put g (it_wish it) (it_rows it) t | _ => (SInline, t) end) as [s t1].
        specialize (IH t1 (req_ptrs s ++ own)). destruct (put_items g (c_method c) its t1 (req_ptrs s ++ own)) as [[ss t2] own2].
        cbn [fst snd] in *. unfold sptrs in *. cbn [flat_map fst]. fold (req_ptrs s).
        eapply Permutation_trans; [exact IH|]. rewrite <- app_assoc. rewrite !app_assoc. apply Permutation_app_tail. apply Permutation_app_comm. }
      apply G.
    - cbn [fst snd sptrs flat_map app]. apply Permutation_refl. }
  intros x Hx. apply (Permutation_in _ O) in Hx.
  apply in_app_or in Hx as [Hx|Hx]; [apply in_or_app; right; apply in_or_app; now right|].
  apply in_app_or in Hx as [Hx|Hx]; [apply in_or_app; right; apply in_or_app; now left|].
  apply in_or_app. left. apply I. exact Hx.
Qed.

Lemma run_own v g : forall cs st, incl (s_own st) (s_sent st) ->
  incl (s_own (snd (run v g st cs))) (s_sent (snd (run v g st cs))).
Proof.
  induction cs as [|c r IH]; intros st I; cbn [run]; [exact I|].
  destruct (s_alive st).
  - pose proof (serve_call_own v g st c I) as I1.
    destruct (serve_call v g st c) as [[o st1] bad]. cbn [fst snd] in I1.
    specialize (IH st1 I1). destruct (run v g st1 r) as [os st2]. exact IH.
  - specialize (IH st I). destruct (run v g st r) as [os st2]. exact IH.
Qed.

(* no pointer left the client: it allocated nothing *)
Lemma sptrs_flags items : existsb (fun x => x) (map (fun i : sitem => is_ptr_sent (fst (fst i))) items) = false -> sptrs items = [].
Proof.
  induction items as [|[[s rows] val] r IH]; [reflexivity|]. cbn [map existsb fst]. intro H.
  apply orb_false_iff in H as [H1 H2]. unfold sptrs in *. cbn [flat_map fst]. rewrite (IH H2).
  destruct s; try discriminate; reflexivity.
Qed.

Lemma run_sent v g : forall cs st,
  sent_any (map fst (fst (run v g st cs))) = false -> s_sent (snd (run v g st cs)) = s_sent st.
Proof.
  induction cs as [|c r IH]; intros st H; cbn [run] in *; [reflexivity|].
  destruct (s_alive st).
  - assert (SC : s_sent (snd (fst (serve_call v g st c)))
                 = s_sent st ++ req_ptrs (fst (client_put g (c_wish c) 1 (s_tab st)))
                   ++ sptrs (fst (fst (if is_stream (c_method c)
                                       then put_items g (c_method c) (c_items c) (snd (client_put g (c_wish c) 1 (s_tab st)))
                                              (req_ptrs (fst (client_put g (c_wish c) 1 (s_tab st))) ++ s_own st)
                                       else ([], snd (client_put g (c_wish c) 1 (s_tab st)), req_ptrs (fst (client_put g (c_wish c) 1 (s_tab st))) ++ s_own st)))))
      by reflexivity.
    assert (OB : b_req_ptr (fst (fst (serve_call v g st c))) = is_ptr_sent (fst (client_put g (c_wish c) 1 (s_tab st)))
                 /\ b_items_ptr (fst (fst (serve_call v g st c)))
                    = map (fun i : sitem => is_ptr_sent (fst (fst i)))
                        (fst (fst (if is_stream (c_method c)
                                       then put_items g (c_method c) (c_items c) (snd (client_put g (c_wish c) 1 (s_tab st)))
                                              (req_ptrs (fst (client_put g (c_wish c) 1 (s_tab st))) ++ s_own st)
                                       else ([], snd (client_put g (c_wish c) 1 (s_tab st)), req_ptrs (fst (client_put g (c_wish c) 1 (s_tab st))) ++ s_own st)))))
      by (split; reflexivity).
    destruct (serve_call v g st c) as [[o st1] bad]. cbn [fst snd] in *.
    specialize (IH st1). destruct (run v g st1 r) as [os st2]. cbn [fst snd map sent_any existsb] in *.
    unfold sent_any in *. cbn [existsb] in H. apply orb_false_iff in H as [H1 H2]. apply orb_false_iff in H1 as [R1 R2].
    rewrite (IH H2), SC. destruct OB as [OB1 OB2]. rewrite OB1 in R1. rewrite OB2 in R2.
    rewrite (sptrs_flags _ R2). destruct (fst (client_put g (c_wish c) 1 (s_tab st))); try discriminate. cbn [req_ptrs app]. now rewrite app_nil_r.
  - specialize (IH st). destruct (run v g st r) as [os st2]. cbn [fst snd map] in *.
    unfold sent_any in *. cbn [existsb dead_obs b_req_ptr b_items_ptr orb] in H. exact (IH H).
Qed.

(* ---------- request pointers the server consumed ------------------------------------ *)
Lemma serve_own_consumed v g a c off items t own :
  incl (a_own (serve v g true a c (SPtr off) items t own)) (remove_one off own).
Proof.
  unfold serve.
  destruct (c_method c); try apply incl_refl; destruct (sc_fail (c_script c)); try apply incl_refl; cbn [a_own];
    apply (incl_tran (lockstep_own _ _ _ _ _ _ _)); cbn [l_own]; apply incl_refl.
Qed.

Lemma incl_nil_eq (l : list N) : incl l [] -> l = [].
Proof. destruct l as [|x r]; [reflexivity|]. intro H. destruct (H x (or_introl eq_refl)). Qed.

Lemma serve_call_consumed g size st c : g_size g = Some size -> s_own st = [] ->
  let w := fst (fst (serve_call current g st c)) in
  existsb (fun x => x) (b_items_ptr w) = false ->
  (negb (b_req_ptr w) || (fst (ensure (s_att st) (c_adv c)) && match c_wish c with WBad => false | _ => true end)) = true ->
  s_own (snd (fst (serve_call current g st c))) = [].
Proof.
  intros E O. unfold serve_call. cbn [fst snd b_items_ptr b_req_ptr s_own]. unfold eff_adv. rewrite E, O, app_nil_r.
  pose proof (client_put_sent g (c_wish c) 1 (s_tab st)) as CS.
  set (rq := client_put g (c_wish c) 1 (s_tab st)) in *. set (rs := fst rq) in *.
  set (pi := if is_stream (c_method c) then put_items g (c_method c) (c_items c) (snd rq) (req_ptrs rs) else ([], snd rq, req_ptrs rs)).
  intros F R.
  assert (OW : Permutation (snd pi) (sptrs (fst (fst pi)) ++ req_ptrs rs)).
  { subst pi. destruct (is_stream (c_method c)); [|apply Permutation_refl].
    assert (G : forall its t own, Permutation (snd (put_items g (c_method c) its t own)) (sptrs (fst (fst (put_items g (c_method c) its t own))) ++ own)).
    { induction its as [|it its IH]; intros t own; [apply Permutation_refl|]. cbn [put_items].
      destruct (match c_method c with MExch => client_put g (it_wish it) (it_rows it) t | _ => (SInline, t) end) as [s t1].
      specialize (IH t1 (req_ptrs s ++ own)). destruct (put_items g (c_method c) its t1 (req_ptrs s ++ own)) as [[ss t2] own2].
      cbn [fst snd] in *. unfold sptrs in *. cbn [flat_map fst]. fold (req_ptrs s).
      eapply Permutation_trans; [exact IH|]. rewrite <- app_assoc. rewrite !app_assoc. apply Permutation_app_tail. apply Permutation_app_comm. }
    apply G. }
  rewrite (sptrs_flags _ F) in OW. cbn [app] in OW.
  destruct rs as [|off|] eqn:RS; cbn [req_ptrs is_ptr_sent negb orb] in *.
  - apply Permutation_sym, Permutation_nil in OW. apply incl_nil_eq. rewrite <- OW. apply serve_own.
  - apply andb_true_iff in R as [SN _]. rewrite SN.
    apply Permutation_sym, Permutation_length_1_inv in OW. apply incl_nil_eq.
    eapply incl_tran; [apply serve_own_consumed|]. rewrite OW. cbn [remove_one]. rewrite N.eqb_refl. apply incl_refl.
  - rewrite CS in R. rewrite andb_false_r in R. discriminate.
Qed.

Lemma run_consumed g size : g_size g = Some size -> forall cs st, s_alive st = true -> s_own st = [] ->
  all_consumed (s_att st) cs (map fst (fst (run current g st cs))) = true ->
  s_own (snd (run current g st cs)) = [].
Proof.
  intro E. induction cs as [|c r IH]; intros st A O H; cbn [run] in *; [exact O|]. rewrite A in *.
  pose proof (serve_call_consumed g size st c E O) as SC. cbv zeta in SC.
  pose proof (serve_call_alive g st c) as A1.
  assert (AT : snd (ensure (s_att st) (c_adv c)) = s_att (snd (fst (serve_call current g st c)))).
  { unfold serve_call. cbn [fst snd s_att]. unfold eff_adv. now rewrite E. }
  destruct (serve_call current g st c) as [[o st1] bad]. cbn [fst snd] in *.
  specialize (IH st1 A1). destruct (run current g st1 r) as [os st2]. cbn [fst snd map all_consumed] in *.
  destruct (ensure (s_att st) (c_adv c)) as [sn att'] eqn:EN. cbn [fst snd] in *. subst att'.
  apply andb_true_iff in H as [H H3]. apply andb_true_iff in H as [H1 H2].
  apply negb_true_iff in H1. apply IH; [apply SC; assumption|exact H3].
Qed.

(* ---------- the exact size of the table, call by call --------------------------------- *)
Definition is_sptr (s : sent) : bool := match s with SPtr _ => true | _ => false end.
Definition slots_of (items : list sitem) : list bool := map (fun i => is_sptr (fst (fst i))) items.

Lemma count_slots items : count_true (slots_of items) = length (sptrs items).
Proof.
  unfold count_true, slots_of, sptrs. induction items as [|[[s rows] val] r IH]; [reflexivity|].
  cbn [map filter flat_map fst]. destruct s; cbn [is_sptr app length]; now rewrite IH.
Qed.

Lemma slots_skipn : forall p items, skipn p (slots_of items) = slots_of (skipn p items).
Proof. induction p as [|p IH]; intros [|i r]; try reflexivity. cbn [skipn slots_of map]. apply IH. Qed.

Lemma real_slots_nil its : real_slots its [] = [].
Proof. destruct its; reflexivity. Qed.

Lemma real_slots_model g m : forall its t own,
  real_slots its (map (fun i : sent * N * Z => is_ptr_sent (fst (fst i))) (fst (fst (put_items g m its t own))))
  = slots_of (fst (fst (put_items g m its t own))).
Proof.
  induction its as [|it its IH]; intros t own; [reflexivity|]. cbn [put_items].
  assert (CS : match fst (match m with MExch => client_put g (it_wish it) (it_rows it) t | _ => (SInline, t) end) with
               | SInline => True | SPtr _ => it_wish it = WPtr | SBad => it_wish it = WBad end).
  { destruct m; try exact I. apply client_put_sent. }
  destruct (match m with MExch => client_put g (it_wish it) (it_rows it) t | _ => (SInline, t) end) as [s t1]. cbn [fst] in CS.
  specialize (IH t1 (req_ptrs s ++ own)). destruct (put_items g m its t1 (req_ptrs s ++ own)) as [[ss t2] own2].
  cbn [fst snd map real_slots slots_of] in *. fold (slots_of ss). rewrite IH. f_equal.
  destruct s; cbn [is_ptr_sent is_sptr andb]; [reflexivity|now rewrite CS|now rewrite CS].
Qed.

Lemma put_items_own g m : forall its t own,
  Permutation (snd (put_items g m its t own)) (sptrs (fst (fst (put_items g m its t own))) ++ own).
Proof.
  induction its as [|it its IH]; intros t own; [apply Permutation_refl|]. cbn [put_items].
  destruct (match m with MExch => client_put g (it_wish it) (it_rows it) t | _ => (SInline, t) end) as [s t1].
  specialize (IH t1 (req_ptrs s ++ own)). destruct (put_items g m its t1 (req_ptrs s ++ own)) as [[ss t2] own2].
  cbn [fst snd] in *. unfold sptrs in *. cbn [flat_map fst]. fold (req_ptrs s).
  eapply Permutation_trans; [exact IH|]. rewrite <- app_assoc. rewrite !app_assoc. apply Permutation_app_tail. apply Permutation_app_comm.
Qed.

Lemma err_not_io k : beqb (err_exc k) exc_io_error = false.
Proof. destruct k; reflexivity. Qed.


(* current code, exchange: the loop frees exactly the slots of the inputs it got to -
   one per answer, plus the one whose turn failed - whatever the turn then did *)
Lemma lockstep_exch_len g en : forall items turns st R,
  Permutation (l_own st) (sptrs items ++ R) ->
  let r := lockstep true g true en turns items st in
  length (l_own (snd (fst r))) = (length (sptrs (skipn (processed (fst (fst r))) items)) + length R)%nat.
Proof.
  induction items as [|[[s rows] val] rest IH]; intros turns st R P; cbv zeta.
  - cbn [lockstep fst snd processed skipn]. apply Permutation_length in P. rewrite P, app_length. reflexivity.
  - assert (K : forall h st1 rows' leak, Permutation (l_own st1) (sptrs rest ++ R) ->
      let r := (let insum := (Z.of_N rows' * val)%Z in
                let t := match turns with [] => default_turn true | t :: _ => t end in
                match t_act t with
                | AErr k => ([WExc (err_exc k)], st1, leak)
                | AFinish => ([WExc exc_runtime_error], st1, leak)
                | AEmit =>
                    let v := (t_value t + insum)%Z in
                    let '(f, tab') := ship g en (negb (t_rows t =? 0)) (t_rows t) (Z.of_N (t_rows t) * v)%Z (lookup_sz (t_rows t) (g_szi g)) (l_tab st1) in
                    let '(fs, st2, leak2) := lockstep true g true en (tl turns) rest {| l_tab := tab'; l_own := l_own st1 |} in
                    (f :: fs, st2, leak || leak2)
                end) in
      length (l_own (snd (fst r))) = (length (sptrs (skipn (processed (fst (fst r))) (h :: rest))) + length R)%nat).
    { intros h st1 rows' leak P1. cbv zeta.
      destruct (t_act (match turns with [] => default_turn true | t :: _ => t end)) as [| |ek].
      - destruct (ship_data g en (negb (t_rows (match turns with [] => default_turn true | t :: _ => t end) =? 0))
                    (t_rows (match turns with [] => default_turn true | t :: _ => t end))
                    (Z.of_N (t_rows (match turns with [] => default_turn true | t :: _ => t end)) *
                     (t_value (match turns with [] => default_turn true | t :: _ => t end) + Z.of_N rows' * val))%Z
                    (lookup_sz (t_rows (match turns with [] => default_turn true | t :: _ => t end)) (g_szi g)) (l_tab st1)) as [p SD].
        destruct (ship _ _ _ _ _ _ _) as [f tab']. cbn [fst] in SD. subst f.
        specialize (IH (tl turns) {| l_tab := tab'; l_own := l_own st1 |} R P1). cbv zeta in IH.
        destruct (lockstep true g true en (tl turns) rest _) as [[fs st2] leak2]. cbn [fst snd processed skipn] in *. exact IH.
      - cbn [fst snd processed skipn]. change (beqb exc_runtime_error exc_io_error) with false. cbn [skipn].
        apply Permutation_length in P1. rewrite P1, app_length. reflexivity.
      - cbn [fst snd processed]. rewrite err_not_io. cbn [skipn].
        apply Permutation_length in P1. rewrite P1, app_length. reflexivity. }
    cbn [lockstep].
    destruct s as [|off|].
    + apply K. exact P.
    + destruct en.
      * unfold sptrs in P. cbn [flat_map fst] in P. fold (sptrs rest) in P. cbn [app] in P.
        assert (I : In off (l_own st)) by (eapply Permutation_in; [apply Permutation_sym; exact P|now left]).
        pose proof (remove_one_perm off _ I) as RO.
        apply K. cbn [l_own]. apply Permutation_cons_inv with (a := off).
        eapply Permutation_trans; [apply Permutation_sym; exact RO|exact P].
      * cbn [fst snd processed]. change (beqb exc_io_error exc_io_error) with true. cbn [skipn].
        apply Permutation_length in P. rewrite P, app_length. reflexivity.
    + rewrite orb_true_r. cbn [fst snd processed]. change (beqb exc_io_error exc_io_error) with true. cbn [skipn].
      apply Permutation_length in P. rewrite P, app_length. reflexivity.
Qed.

Lemma lockstep_inline_own rf g ex en : forall its turns st,
  l_own (snd (fst (lockstep rf g ex en turns (map (fun it => (SInline, it_rows it, it_val it)) its) st))) = l_own st.
Proof.
  induction its as [|it its IH]; intros turns st; [reflexivity|]. cbn [map lockstep]. cbv zeta.
  destruct (t_act (match turns with [] => default_turn ex | t :: _ => t end)).
  - destruct (ship _ _ _ _ _ _ _) as [f tab'].
    specialize (IH (tl turns) {| l_tab := tab'; l_own := l_own st |}).
    destruct (lockstep rf g ex en (tl turns) _ _) as [[fs st2] leak2]. cbn [fst snd l_own] in *. exact IH.
  - destruct ex; reflexivity.
  - reflexivity.
Qed.

Lemma serve_call_len g size st c : g_size g = Some size ->
  length (s_own (snd (fst (serve_call current g st c))))
  = (length (s_own st) + unconsumed (fst (ensure (s_att st) (c_adv c))) c (fst (fst (serve_call current g st c))))%nat.
Proof.
  intro E. unfold serve_call, unconsumed. cbn [fst snd b_resp b_req_ptr b_items_ptr s_own]. unfold eff_adv. rewrite E.
  pose proof (client_put_sent g (c_wish c) 1 (s_tab st)) as CS.
  set (rq := client_put g (c_wish c) 1 (s_tab st)) in *. set (rs := fst rq) in *.
  set (pi := if is_stream (c_method c) then put_items g (c_method c) (c_items c) (snd rq) (req_ptrs rs ++ s_own st) else ([], snd rq, req_ptrs rs ++ s_own st)).
  set (sn := fst (ensure (s_att st) (c_adv c))).
  assert (OW : Permutation (snd pi) (sptrs (fst (fst pi)) ++ req_ptrs rs ++ s_own st)).
  { subst pi. destruct (is_stream (c_method c)); [apply put_items_own|apply Permutation_refl]. }
  assert (SL : real_slots (c_items c) (map (fun i : sent * N * Z => is_ptr_sent (fst (fst i))) (fst (fst pi))) = slots_of (fst (fst pi))).
  { subst pi. destruct (is_stream (c_method c)); [apply real_slots_model|apply real_slots_nil]. }
  rewrite SL. clear SL.
  (* not refused: the request slot, if any, is gone *)
  assert (K : forall own', Permutation own' (sptrs (fst (fst pi)) ++ s_own st) -> forall t' engaged,
    length (a_own (let err ty := {| a_resp := [[WExc ty]]; a_tab := t'; a_own := own'; a_alive := true; a_bad := false |} in
      match c_method c with
      | MUnknown => err ss_exc_unknown_method
      | MBlob =>
          if sc_fail (c_script c) then err exc_value_error
          else
            let n := sc_n (c_script c) in
            let ft := ship g engaged true n (Z.of_N n * c_x c)%Z (lookup_sz n (g_szb g)) t' in
            {| a_resp := [[set_var blob_schema (fst ft)]]; a_tab := snd ft; a_own := own'; a_alive := true; a_bad := false |}
      | MProd | MExch =>
          if sc_fail (c_script c) then err exc_value_error
          else
            let exchange := match c_method c with MExch => true | _ => false end in
            let r := lockstep (v_input_refuse current) (out_cfg g (sc_var (c_script c))) exchange engaged (sc_turns (c_script c)) (fst (fst pi)) {| l_tab := t'; l_own := own' |} in
            {| a_resp := [retag (sc_var (c_script c)) (fst (fst r))]; a_tab := l_tab (snd (fst r)); a_own := l_own (snd (fst r)); a_alive := true; a_bad := snd r |}
      end))
    = (length (s_own st) +
       match c_method c with
       | MExch => if sc_fail (c_script c) then count_true (slots_of (fst (fst pi)))
                  else match a_resp (let err ty := {| a_resp := [[WExc ty]]; a_tab := t'; a_own := own'; a_alive := true; a_bad := false |} in
      match c_method c with
      | MUnknown => err ss_exc_unknown_method
      | MBlob =>
          if sc_fail (c_script c) then err exc_value_error
          else
            let n := sc_n (c_script c) in
            let ft := ship g engaged true n (Z.of_N n * c_x c)%Z (lookup_sz n (g_szb g)) t' in
            {| a_resp := [[set_var blob_schema (fst ft)]]; a_tab := snd ft; a_own := own'; a_alive := true; a_bad := false |}
      | MProd | MExch =>
          if sc_fail (c_script c) then err exc_value_error
          else
            let exchange := match c_method c with MExch => true | _ => false end in
            let r := lockstep (v_input_refuse current) (out_cfg g (sc_var (c_script c))) exchange engaged (sc_turns (c_script c)) (fst (fst pi)) {| l_tab := t'; l_own := own' |} in
            {| a_resp := [retag (sc_var (c_script c)) (fst (fst r))]; a_tab := l_tab (snd (fst r)); a_own := l_own (snd (fst r)); a_alive := true; a_bad := snd r |}
      end) with
                       | [fs] => count_true (skipn (processed fs) (slots_of (fst (fst pi))))
                       | _ => count_true (slots_of (fst (fst pi)))
                       end
       | _ => count_true (slots_of (fst (fst pi)))
       end)%nat).
  { intros own' P t' engaged. cbv zeta.
    assert (L0 : length own' = (length (s_own st) + count_true (slots_of (fst (fst pi))))%nat).
    { apply Permutation_length in P. rewrite P, app_length, count_slots. lia. }
    destruct (c_method c) eqn:M; cbn [a_own].
    - destruct (sc_fail (c_script c)); exact L0.
    - destruct (sc_fail (c_script c)); [exact L0|]. cbn [a_own].
      subst pi. cbn [is_stream fst snd] in *. rewrite put_items_nonexch by discriminate.
      rewrite lockstep_inline_own. cbn [l_own]. rewrite put_items_nonexch in L0 by discriminate. exact L0.
    - destruct (sc_fail (c_script c)); [exact L0|]. cbn [a_own a_resp current v_input_refuse].
      pose proof (lockstep_exch_len (out_cfg g (sc_var (c_script c))) engaged (fst (fst pi)) (sc_turns (c_script c)) {| l_tab := t'; l_own := own' |} (s_own st) P) as LL.
      cbv zeta in LL. rewrite LL, processed_retag, slots_skipn, count_slots. lia.
    - exact L0. }
  unfold serve.
  destruct rs as [|off|] eqn:RS; cbn [is_ptr_sent andb req_ptrs app] in *.
  - (* inline request *)
    assert (NRF : forall X Y : answer, (if sn then Y else Y) = Y) by (intros; destruct sn; reflexivity).
    destruct sn; apply K; exact OW.
  - rewrite CS. destruct sn eqn:SN; cbn [negb orb andb].
    + assert (I : In off (snd pi)) by (eapply Permutation_in; [apply Permutation_sym; exact OW|apply in_or_app; right; now left]).
      pose proof (remove_one_perm off _ I) as RO.
      apply K. apply Permutation_cons_inv with (a := off).
      eapply Permutation_trans; [apply Permutation_sym; exact RO|].
      eapply Permutation_trans; [exact OW|]. apply Permutation_sym, Permutation_middle.
    + cbn [a_own]. apply Permutation_length in OW. rewrite OW, app_length. cbn [length]. rewrite count_slots. lia.
  - rewrite CS, orb_true_r. destruct sn; cbn [a_own]; apply Permutation_length in OW; rewrite OW, app_length, count_slots; cbn [length]; lia.
Qed.

Lemma tables_ok_run g size : g_size g = Some size -> forall cs st, s_alive st = true -> Inv st ->
  tables_ok (s_att st) (length (s_own st)) (length (s_deferred st)) cs (map fst (fst (run current g st cs)))
            (length (s_own (snd (run current g st cs)))) = true.
Proof.
  intro E. induction cs as [|c r IH]; intros st A I; cbn [run].
  - cbn [fst snd map tables_ok]. apply Nat.eqb_refl.
  - rewrite A.
    pose proof (serve_call_len g size st c E) as SL.
    pose proof (serve_call_inv current g st c I) as I1.
    pose proof (serve_call_alive g st c) as A1.
    assert (AT : snd (ensure (s_att st) (c_adv c)) = s_att (snd (fst (serve_call current g st c)))).
    { unfold serve_call. cbn [fst snd s_att]. unfold eff_adv. now rewrite E. }
    assert (TB : b_tab (fst (fst (serve_call current g st c))) = s_tab (snd (fst (serve_call current g st c)))) by reflexivity.
    assert (DF : s_deferred (snd (fst (serve_call current g st c)))
                 = if c_release_now c then s_deferred st
                   else s_deferred st ++ ptr_offs (concat (b_resp (fst (fst (serve_call current g st c)))))) by reflexivity.
    destruct (serve_call current g st c) as [[o st1] bad]. cbn [fst snd] in *.
    specialize (IH st1 A1 I1). destruct (run current g st1 r) as [os st2]. cbn [fst snd map tables_ok] in *.
    destruct (ensure (s_att st) (c_adv c)) as [sn att'] eqn:EN. cbn [fst snd] in *. subst att'.
    assert (DL : length (s_deferred st1) = if c_release_now c then length (s_deferred st)
                                           else (length (s_deferred st) + length (ptr_offs (concat (b_resp o))))%nat).
    { rewrite DF. destruct (c_release_now c); [reflexivity|apply app_length]. }
    rewrite <- SL. rewrite <- DL. rewrite IH, andb_true_r.
    apply Nat.eqb_eq. rewrite TB. unfold Inv in I1. apply Permutation_length in I1.
    unfold offs in I1. rewrite map_length, app_length in I1. lia.
Qed.

(* ---------- the main theorem in decidable form -------------------------------- *)
Lemma model_meets_spec i : spec_ok i (model i) = true.
Proof.
  unfold spec_ok, model, model_v.
  pose proof (calls_ok_run (cfg_of i) (HDR + i_data i) (no_seg (cfg_of i)) eq_refl eq_refl (i_calls i) init init eq_refl eq_refl) as CO.
  pose proof (after_release_perm current (cfg_of i) (i_calls i)) as AR. cbv zeta in AR.
  pose proof (run_own current (cfg_of i) (i_calls i) init (incl_refl _)) as OW.
  pose proof (run_sent current (cfg_of i) (i_calls i) init) as RS.
  pose proof (run_consumed (cfg_of i) (HDR + i_data i) eq_refl (i_calls i) init eq_refl eq_refl) as RC.
  destruct (run current (cfg_of i) init (i_calls i)) as [os st] eqn:ER. cbn [fst snd o_escaped o_with o_without o_after o_own negb andb] in *.
  change (s_att init) with false in CO. rewrite CO. cbn [andb].
  assert (EMP : s_own st = [] -> after_release st = []).
  { intro O. rewrite O in AR. apply Permutation_sym, Permutation_nil in AR. unfold offs in AR.
    destruct (after_release st); [reflexivity|discriminate]. }
  pose proof (tables_ok_run (cfg_of i) (HDR + i_data i) eq_refl (i_calls i) init eq_refl inv_init) as TO.
  rewrite ER in TO. cbn [fst snd] in TO. change (s_att init) with false in TO.
  change (length (s_own init)) with O in TO. change (length (s_deferred init)) with O in TO.
  assert (AL : length (after_release st) = length (s_own st)).
  { apply Permutation_length in AR. unfold offs in AR. now rewrite map_length in AR. }
  rewrite AL, TO, andb_true_r.
  apply andb_true_iff. split; [apply andb_true_iff; split|].
  - apply forallb_forall. intros e He. apply existsb_exists. exists (fst e). split; [|apply N.eqb_refl].
    apply OW. eapply Permutation_in; [exact AR|]. unfold offs. now apply in_map.
  - destruct (sent_any (map fst os)) eqn:SA; [reflexivity|]. cbn [orb].
    specialize (RS eq_refl). cbn [init s_sent] in RS. rewrite RS in OW.
    rewrite EMP; [reflexivity|]. destruct (s_own st) as [|x l]; [reflexivity|exfalso; exact (OW x (or_introl eq_refl))].
  - change (s_att init) with false in RC. destruct (all_consumed false (i_calls i) (map fst os)); [|reflexivity]. cbn [negb orb].
    rewrite EMP; [reflexivity|]. apply RC. reflexivity.
Qed.

(* ---------- a pointer request the connection cannot resolve ------------------------ *)
Lemma refused_request g st c :
  b_req_ptr (fst (fst (serve_call current g st c))) = true ->
  fst (ensure (s_att st) (eff_adv g (c_adv c))) = false ->
  b_resp (fst (fst (serve_call current g st c))) = [[WExc exc_io_error]]
  /\ s_alive (snd (fst (serve_call current g st c))) = true
  /\ s_deferred (snd (fst (serve_call current g st c))) = s_deferred st.
Proof.
  unfold serve_call. cbn [fst snd b_req_ptr b_resp s_alive s_deferred]. intros P SN. rewrite SN.
  assert (RF : forall items, refusal current (c_method c) items = ([[WExc exc_io_error]], true)).
  { intro items. unfold refusal. cbn [current v_ptr_drain negb]. now rewrite andb_false_r. }
  unfold serve. destruct (fst (client_put g (c_wish c) 1 (s_tab st))); [discriminate| |];
    cbn [a_resp a_alive]; rewrite RF; cbn [fst snd concat app ptr_offs flat_map];
    (split; [reflexivity|split; [reflexivity|]]); destruct (c_release_now c); try reflexivity; apply app_nil_r.
Qed.

(* every later call is served: where the server meets no unresolvable pointer the client's
   view is the plain answer of that call *)
Lemma run_served g : forall cs st, s_alive st = true ->
  Forall2 (fun ow c => snd ow = false -> view (b_resp (fst ow)) = plain_answer c) (fst (run current g st cs)) cs.
Proof.
  induction cs as [|c r IH]; intros st A; cbn [run]; [constructor|]. rewrite A.
  pose proof (serve_call_view current g st c) as V. pose proof (serve_call_alive g st c) as A1.
  destruct (serve_call current g st c) as [[o st1] bad]. cbn [fst snd] in *.
  specialize (IH st1 A1). destruct (run current g st1 r) as [os st2]. cbn [fst] in *.
  constructor; [exact V|exact IH].
Qed.

Lemma run_cons g st c r : s_alive st = true ->
  fst (run current g st (c :: r))
  = (fst (fst (serve_call current g st c)), snd (serve_call current g st c)) :: fst (run current g (snd (fst (serve_call current g st c))) r).
Proof.
  intro A. cbn [run]. rewrite A. destruct (serve_call current g st c) as [[o st1] bad]. cbn [fst snd].
  destruct (run current g st1 r) as [os st2]. reflexivity.
Qed.

(* a connection on which the segment was never (validly) advertised holds no segment *)
Lemma never_advertised v g : forall cs st, s_att st = false ->
  forallb (fun c => match c_adv c with AdvGood => false | _ => true end) cs = true ->
  s_att (snd (run v g st cs)) = false.
Proof.
  induction cs as [|c r IH]; intros st A H; cbn [run]; [exact A|]. cbn [forallb] in H. apply andb_true_iff in H as [H1 H2].
  destruct (s_alive st).
  - assert (A1 : s_att (snd (fst (serve_call v g st c))) = false).
    { unfold serve_call. cbn [fst snd s_att]. rewrite A. unfold eff_adv. destruct (g_size g); [|reflexivity].
      destruct (c_adv c); try reflexivity. discriminate. }
    destruct (serve_call v g st c) as [[o st1] bad]. cbn [fst snd] in *.
    specialize (IH st1 A1 H2). destruct (run v g st1 r) as [os st2]. exact IH.
  - specialize (IH st A H2). destruct (run v g st r) as [os st2]. exact IH.
Qed.

(* ---------- the two unrepaired trees ------------------------------------------------ *)
Definition sz_int : list (N * sz) :=
  [(1, {| z_buf := 12; z_est := 4108; z_total := 288 |}); (2, {| z_buf := 20; z_est := 4116; z_total := 296 |});
   (6, {| z_buf := 52; z_est := 4148; z_total := 328 |}); (8, {| z_buf := 68; z_est := 4164; z_total := 344 |})].
Definition sz_blob : list (N * sz) := [(50, {| z_buf := 59; z_est := 4155; z_total := 352 |})].
Definition canary : call :=
  {| c_method := MBlob; c_dyn := false; c_adv := AdvNone; c_wish := WInline; c_x := 9;
     c_script := {| sc_fail := false; sc_var := 0; sc_n := 50; sc_turns := [] |}; c_items := []; c_release_now := true |}.
Definition emit (rows : N) (v : Z) : turn := {| t_rows := rows; t_value := v; t_act := AEmit |}.

(* before 6a8fa9d: a pointer request for a stream method on a connection without a segment *)
Definition witness_drain : input :=
  {| i_data := 16384; i_gate := 48; i_szi := sz_int; i_szb := sz_blob;
     i_calls := [ {| c_method := MExch; c_dyn := false; c_adv := AdvNone; c_wish := WPtr; c_x := 5;
                     c_script := {| sc_fail := false; sc_var := 0; sc_n := 0; sc_turns := [emit 8 1] |};
                     c_items := [ {| it_wish := WInline; it_rows := 2; it_val := 1 |} ]; c_release_now := true |};
                  canary ] |}.
Definition witness_drain_empty : input :=
  {| i_data := 16384; i_gate := 48; i_szi := sz_int; i_szb := sz_blob;
     i_calls := [ {| c_method := MProd; c_dyn := false; c_adv := AdvNone; c_wish := WPtr; c_x := 5;
                     c_script := {| sc_fail := false; sc_var := 0; sc_n := 0; sc_turns := [] |};
                     c_items := []; c_release_now := true |};
                  canary ] |}.
(* before 29847dc: exchange inputs as pointers on a connection that never advertised a segment *)
Definition witness_input : input :=
  {| i_data := 16384; i_gate := 48; i_szi := sz_int; i_szb := sz_blob;
     i_calls := [ canary;
                  {| c_method := MExch; c_dyn := false; c_adv := AdvNone; c_wish := WInline; c_x := 1;
                     c_script := {| sc_fail := false; sc_var := 0; sc_n := 0; sc_turns := [emit 8 1; emit 2 2; emit 8 3] |};
                     c_items := [ {| it_wish := WPtr; it_rows := 8; it_val := 2 |}; {| it_wish := WInline; it_rows := 6; it_val := 1 |};
                                  {| it_wish := WPtr; it_rows := 2; it_val := 5 |} ]; c_release_now := true |};
                  canary ] |}.

Lemma legacy_drain_refuted_l :
  spec_ok witness_drain (model_v legacy_drain witness_drain) = false
  /\ map b_resp (o_with (model_v legacy_drain witness_drain))
     = [[[WExc exc_io_error]; [WExc ss_exc_no_method]]; [[WData 50 50 450 None]]]
  /\ map b_resp (o_with (model_v legacy_drain witness_drain_empty)) = [[[WExc exc_io_error]]; []]
  /\ map b_resp (o_with (model witness_drain)) = [[[WExc exc_io_error]]; [[WData 50 50 450 None]]].
Proof. vm_compute. repeat split. Qed.

Lemma legacy_input_refuted_l :
  spec_ok witness_input (model_v legacy_input witness_input) = false
  /\ map b_resp (o_with (model_v legacy_input witness_input))
     = [[[WData 50 50 450 None]]; [[WData 0 8 8 None; WData 0 2 16 None; WData 0 8 24 None]]; [[WData 50 50 450 None]]]
  /\ o_without (model_v legacy_input witness_input)
     = [[[WData 50 50 450 None]]; [[WData 0 8 136 None; WData 0 2 16 None; WData 0 8 104 None]]; [[WData 50 50 450 None]]]
  /\ map b_resp (o_with (model witness_input)) = [[[WData 50 50 450 None]]; [[WExc exc_io_error]]; [[WData 50 50 450 None]]].
Proof. vm_compute. repeat split. Qed.

Lemma run_alive g : forall cs st, s_alive st = true -> s_alive (snd (run current g st cs)) = true.
Proof.
  induction cs as [|c r IH]; intros st A; cbn [run]; [exact A|]. rewrite A.
  pose proof (serve_call_alive g st c) as A1. destruct (serve_call current g st c) as [[o st1] bad]. cbn [fst snd] in *.
  specialize (IH st1 A1). destruct (run current g st1 r) as [os st2]. exact IH.
Qed.

Lemma refused_and_continue g st c rest :
  s_alive st = true ->
  b_req_ptr (fst (fst (serve_call current g st c))) = true ->
  fst (ensure (s_att st) (eff_adv g (c_adv c))) = false ->
  let r := serve_call current g st c in
  b_resp (fst (fst r)) = [[WExc exc_io_error]]
  /\ fst (run current g st (c :: rest)) = (fst (fst r), snd r) :: fst (run current g (snd (fst r)) rest)
  /\ Forall2 (fun ow c2 => snd ow = false -> view (b_resp (fst ow)) = plain_answer c2)
             (fst (run current g (snd (fst r)) rest)) rest.
Proof.
  intros A P SN. cbv zeta. destruct (refused_request g st c P SN) as [R [A1 _]].
  split; [exact R|split; [apply run_cons; exact A|apply run_served; exact A1]].
Qed.

Lemma never_advertised_refused g pre c rest :
  forallb (fun c => match c_adv c with AdvGood => false | _ => true end) (pre ++ [c]) = true ->
  let st := snd (run current g init pre) in
  b_req_ptr (fst (fst (serve_call current g st c))) = true ->
  let r := serve_call current g st c in
  b_resp (fst (fst r)) = [[WExc exc_io_error]]
  /\ fst (run current g st (c :: rest)) = (fst (fst r), snd r) :: fst (run current g (snd (fst r)) rest)
  /\ Forall2 (fun ow c2 => snd ow = false -> view (b_resp (fst ow)) = plain_answer c2)
             (fst (run current g (snd (fst r)) rest)) rest.
Proof.
  intros H st P. rewrite forallb_app in H. apply andb_true_iff in H as [H1 H2]. cbn [forallb] in H2. rewrite andb_true_r in H2.
  apply refused_and_continue; [apply run_alive; reflexivity|exact P|].
  subst st. rewrite (never_advertised current g pre init eq_refl H1).
  unfold eff_adv. destruct (g_size g); [|reflexivity]. destruct (c_adv c); try reflexivity. discriminate.
Qed.

Lemma no_leak v g cs :
  let st := snd (run v g init cs) in
  Permutation (map fst (after_release st)) (s_own st) /\ incl (s_own st) (s_sent st).
Proof. cbv zeta. split; [apply (after_release_perm v g cs)|apply run_own, incl_refl]. Qed.

Lemma no_leak_empty v g cs :
  let st := snd (run v g init cs) in
  (s_own st = [] \/ sent_any (map fst (fst (run v g init cs))) = false) -> after_release st = [].
Proof.
  cbv zeta. intro H. destruct (no_leak v g cs) as [P I].
  assert (O : s_own (snd (run v g init cs)) = []).
  { destruct H as [H|H]; [exact H|]. pose proof (run_sent v g cs init H) as RS. cbn [init s_sent] in RS. rewrite RS in I.
    destruct (s_own (snd (run v g init cs))) as [|x l]; [reflexivity|exfalso; exact (I x (or_introl eq_refl))]. }
  rewrite O in P. apply Permutation_sym, Permutation_nil in P.
  destruct (after_release (snd (run v g init cs))); [reflexivity|discriminate].
Qed.

(* non-vacuity: a session that ships responses through the segment, takes request and
   input pointers, falls back to the pipe when the segment is full, and ends clean *)
Definition example_input : input :=
  {| i_data := 1000 + 4164; i_gate := 48; i_szi := sz_int;
     i_szb := [(50, {| z_buf := 59; z_est := 4155; z_total := 352 |}); (100, {| z_buf := 109; z_est := 4205; z_total := 400 |})];
     i_calls := [ {| c_method := MBlob; c_dyn := false; c_adv := AdvGood; c_wish := WPtr; c_x := 3;
                     c_script := {| sc_fail := false; sc_var := 0; sc_n := 100; sc_turns := [] |}; c_items := []; c_release_now := false |};
                  {| c_method := MExch; c_dyn := false; c_adv := AdvNone; c_wish := WPtr; c_x := 1;
                     c_script := {| sc_fail := false; sc_var := 0; sc_n := 0; sc_turns := [emit 8 1; emit 8 2] |};
                     c_items := [ {| it_wish := WPtr; it_rows := 8; it_val := 2 |}; {| it_wish := WPtr; it_rows := 6; it_val := 1 |} ];
                     c_release_now := true |};
                  canary ] |}.
Lemma example_facts :
  let o := model example_input in
  map b_req_ptr (o_with o) = [true; true; false]
  /\ map b_items_ptr (o_with o) = [[]; [true; false]; []]      (* the second input no longer fits: sent inline *)
  /\ map b_resp (o_with o) = [[[WData 50 100 300 (Some (65536, 400))]];
                              [[WData 0 8 136 (Some (65936, 344)); WData 0 8 64 (Some (66280, 344))]];
                              [[WData 50 50 450 None]]]
  /\ o_after o = []
  /\ forallb (fun ob => negb (snd ob)) (fst (run current (cfg_of example_input) init (i_calls example_input))) = true.
Proof. vm_compute. repeat split. Qed.

Lemma consumed_empty g size cs : g_size g = Some size ->
  all_consumed false cs (map fst (fst (run current g init cs))) = true ->
  after_release (snd (run current g init cs)) = [].
Proof.
  intros E H. apply (no_leak_empty current g cs). left.
  apply (run_consumed g size E cs init eq_refl eq_refl). exact H.
Qed.

Lemma tables_exact g size cs : g_size g = Some size ->
  tables_ok false 0 0 cs (map fst (fst (run current g init cs)))
            (length (after_release (snd (run current g init cs)))) = true.
Proof.
  intro E. pose proof (tables_ok_run g size E cs init eq_refl inv_init) as TO.
  pose proof (after_release_perm current g cs) as AR. cbv zeta in AR.
  apply Permutation_length in AR. unfold offs in AR. rewrite map_length in AR. rewrite AR. exact TO.
Qed.

(* the dynamic registration of a stream method changes nothing on a pipe *)
Definition set_dyn (b : bool) (c : call) : call :=
  {| c_method := c_method c; c_dyn := b; c_adv := c_adv c; c_wish := c_wish c; c_x := c_x c;
     c_script := c_script c; c_items := c_items c; c_release_now := c_release_now c |}.
Lemma dyn_same v g st c b : serve_call v g st (set_dyn b c) = serve_call v g st c.
Proof. reflexivity. Qed.
Lemma dyn_same_plain c b : plain_answer (set_dyn b c) = plain_answer c.
Proof. reflexivity. Qed.
