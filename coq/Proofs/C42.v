(* Proofs/C42.v — lemmas and proofs for property C42 (Model/C42.v). *)
From VR Require Import Model.C42.
From VR Require Model.C02 Proofs.C02.
From Coq Require Import List Bool ZArith Lia Arith ZifyBool ZifyN ZifyNat.
Import ListNotations.
Local Arguments N.eqb : simpl never.
Local Arguments N.leb : simpl never.
Local Arguments N.add : simpl never.
Local Arguments Z.eqb : simpl never.
Local Arguments Z.add : simpl never.
Local Arguments Z.sub : simpl never.
Local Arguments Z.of_nat : simpl never.
Local Arguments Nat.eqb : simpl nomatch.

Ltac simpl_st := cbn [active tvar shutdown wg closed looppend ph pendt firedt nextg accepted serving finished started
                      clock armlog last_count last_done late sessions] in *.

Ltac stepcases H :=
  repeat match type of H with
  | context [match ?x with _ => _ end] => let E := fresh "E" in destruct x eqn:E
  end; try discriminate H; try (injection H as <-); simpl_st.

(* ---------- small list facts ---------------------------------------------------------- *)
Lemma mem_In x l : mem x l = true <-> In x l.
Proof.
  unfold mem. rewrite existsb_exists. split.
  - intros (y & Hy & E). apply Nat.eqb_eq in E. now subst.
  - intros H. exists x. split; [exact H | apply Nat.eqb_refl].
Qed.

Lemma remove1_In x c l : In x (remove1 c l) -> In x l.
Proof.
  induction l as [|y l IH]; cbn [remove1]; [easy|].
  destruct (Nat.eqb y c); cbn [In]; intuition.
Qed.

Lemma remove1_length c l : In c l -> S (length (remove1 c l)) = length l.
Proof.
  induction l as [|y l IH]; cbn [remove1 In]; [easy|].
  intros H. destruct (Nat.eqb y c) eqn:E; [reflexivity|].
  cbn [length]. f_equal. apply IH. destruct H as [->|H]; [|exact H]. rewrite Nat.eqb_refl in E. discriminate.
Qed.

Lemma In_remove1 x c l : In x l -> x = c \/ In x (remove1 c l).
Proof.
  induction l as [|y l IH]; cbn [remove1 In]; [easy|].
  intros [->|H].
  - destruct (Nat.eqb x c) eqn:E; [left; now apply Nat.eqb_eq | right; now left].
  - destruct (Nat.eqb y c) eqn:E; [now right|]. destruct (IH H) as [->|H']; [now left | right; now right].
Qed.

Lemma remove_all_single g : remove_all g [g] = [].
Proof. unfold remove_all. cbn [filter]. now rewrite Nat.eqb_refl. Qed.

(* ---------- the invariant of the listener machine ---------------------------------------- *)
Record inv (k : cfg) (s : st) : Prop := {
  i_active : active s = Z.of_nat (length (serving s));
  i_wg : wg s = Z.of_nat (length (serving s));
  i_pend : pendt s = [] \/ exists g, tvar s = Some g /\ pendt s = [g];
  i_shut : shutdown s = closed s;
  i_phase : ph s <> PAccept -> closed s = true /\ looppend s = None;
  i_ret : ph s = PReturned -> serving s = [];
  i_acc : forall c, In c (accepted s) <-> In c (finished s) \/ In c (serving s) \/ looppend s = Some c;
  i_fresh : forall g, tvar s = Some g ->
            serving s = [] /\ exists n, lookup g (armlog s) = Some n /\ (last_count s <= n)%nat /\ (last_done s <= n)%nat /\ (n <= clock s)%nat;
  i_clock : (last_count s <= clock s)%nat /\ (last_done s <= clock s)%nat;
  i_late : closed s = true -> forall c, In c (open_conns s) -> late s = Some c;
  i_has : forall c, In c (serving s) -> lookup c (sessions s) <> None;
  i_sacc : forall c, lookup c (sessions s) <> None -> In c (accepted s);
  i_sess : forall c x, lookup c (sessions s) = Some x ->
           snd x ++ C02.serve_flat C02.current (cf_gate k) (fst x) = C02.run_conn (cf_gate k) (cf_calls k c) }.

Lemma inv_init k : inv k (init k).
Proof.
  constructor; unfold init, open_conns; simpl_st; try easy.
  - destruct (cf_idle k); [right; now exists 0%nat | now left].
  - intros c. cbn [In]. intuition discriminate.
  - intros g. destruct (cf_idle k); [|discriminate]. intros [= <-]. split; [reflexivity|]. exists 0%nat. cbn [lookup]. rewrite Nat.eqb_refl. auto.
Qed.

(* one serveOne step is a prefix step of the reader-level run *)
Lemma serve_one_flat g ws :
  C02.serve_flat C02.current g ws =
  match serve_one g ws with Some (o, r) => o ++ C02.serve_flat C02.current g r | None => [] end.
Proof.
  destruct ws as [|s rest]; [reflexivity|]. cbn [C02.serve_flat serve_one].
  destruct (C02.step C02.current g s) as [|out|out|pre kk]; try reflexivity.
  - destruct rest; reflexivity.
  - destruct rest; cbn [C02.serve_flat]; [reflexivity | now rewrite <- app_assoc].
Qed.

Lemma serve_sess_inv g x :
  snd (serve_sess g x) ++ C02.serve_flat C02.current g (fst (serve_sess g x)) = snd x ++ C02.serve_flat C02.current g (fst x).
Proof.
  unfold serve_sess. rewrite (serve_one_flat g (fst x)).
  destruct (serve_one g (fst x)) as [[o r]|] eqn:E; cbn [fst snd].
  - now rewrite <- app_assoc.
  - now rewrite (serve_one_flat g (fst x)), E.
Qed.

Lemma lookup_update {A} c c' (v : A) l :
  lookup c' (update c v l) = if Nat.eqb c c' then match lookup c l with Some _ => Some v | None => None end else lookup c' l.
Proof.
  induction l as [|[k w] l IH]; cbn [update lookup]; [now destruct (Nat.eqb c c')|].
  destruct (Nat.eqb k c) eqn:E1; cbn [lookup].
  - apply Nat.eqb_eq in E1. subst k. destruct (Nat.eqb c c') eqn:E2; reflexivity.
  - destruct (Nat.eqb k c') eqn:E2.
    + apply Nat.eqb_eq in E2. subst k. rewrite Nat.eqb_sym, E1. reflexivity.
    + exact IH.
Qed.

Lemma disarm_pend_nil k s : inv k s -> disarm_pend s = [].
Proof.
  intros I. unfold disarm_pend. destruct (i_pend k s I) as [E|(g & Eg & Ep)].
  - rewrite E. now destruct (tvar s).
  - rewrite Eg, Ep. apply remove_all_single.
Qed.

Ltac fresh_weaken If :=
  let g := fresh "g" in let Hg := fresh "Hg" in
  intros g Hg; destruct (If g Hg) as (Hs & n & Hl & H1 & H2 & H3); split; [exact Hs|];
  exists n; repeat split; auto; lia.

Lemma length_nil {A} (l : list A) : Z.of_nat (length l) = 0%Z -> l = [].
Proof. destruct l; [reflexivity | cbn [length]; lia]. Qed.

Lemma inv_step k s e s' : inv k s -> step k s e = Some s' -> inv k s'.
Proof.
  intros I H. pose proof (disarm_pend_nil k s I) as DP.
  destruct I as [Ia Iw Ip Is Iph Ir Iacc If Ic Il Ih Isa Ise].
  destruct e; cbn [step] in H.
  - (* AcceptRet *)
    destruct (is_accepting s && negb (closed s) && negb (mem c (accepted s))
              && match looppend s with None => true | Some _ => false end) eqn:G; [|discriminate].
    injection H as <-. rewrite !andb_true_iff in G. destruct G as (((G1 & G2) & G3) & G4).
    destruct (looppend s) eqn:EL; [discriminate|]. unfold is_accepting in G1. destruct (ph s) eqn:EP; try discriminate.
    apply negb_true_iff in G2.
    constructor; unfold open_conns in *; simpl_st; auto.
    + intros Hp. now elim Hp.
    + intros c0. cbn [In]. rewrite (Iacc c0). split; [intros [->|[?|[?|?]]]; auto; discriminate | intros [?|[?|[= ->]]]; auto].
    + fresh_weaken If.
    + lia.
    + congruence.
    + intros c0 Hn. right. now apply Isa.
  - (* Count *)
    destruct (looppend s) as [c'|] eqn:EL; [|discriminate].
    destruct (Nat.eqb c c') eqn:EC; [|discriminate]. apply Nat.eqb_eq in EC. subst c'.
    injection H as <-.
    constructor; unfold open_conns in *; simpl_st; auto.
    + cbn [length]. lia.
    + cbn [length]. lia.
    + intros Hp. destruct (Iph Hp) as [_ ?]. discriminate.
    + intros Hp. assert (ph s <> PAccept) as Hq by (rewrite Hp; discriminate). destruct (Iph Hq) as [_ ?]. discriminate.
    + intros c0. cbn [In]. rewrite (Iacc c0). split; [intros [?|[?|[= ->]]]; auto | intros [?|[[->|?]|?]]; auto; discriminate].
    + discriminate.
    + lia.
    + intros Hc c0 Hin. apply (Il Hc). rewrite EL. exact Hin.
    + intros c0. cbn [In lookup]. destruct (Nat.eqb c c0) eqn:E0; [discriminate|].
      intros [->|Hin]; [rewrite Nat.eqb_refl in E0; discriminate | now apply Ih].
    + intros c0. cbn [lookup]. destruct (Nat.eqb c c0) eqn:E0; [|apply Isa].
      apply Nat.eqb_eq in E0. subst c0. intros _. apply Iacc. auto.
    + intros c0 x. cbn [lookup]. destruct (Nat.eqb c c0) eqn:E0; [|apply Ise].
      apply Nat.eqb_eq in E0. subst c0. intros [= <-]. reflexivity.
  - (* Start *)
    destruct (mem c (serving s) && negb (mem c (started s))) eqn:EM; [|discriminate]. injection H as <-.
    constructor; unfold open_conns in *; simpl_st; auto.
    + fresh_weaken If.
    + lia.
  - (* Serve *)
    destruct (mem c (serving s) && mem c (started s)) eqn:EM; [|discriminate].
    destruct (lookup c (sessions s)) as [x|] eqn:EX; [|discriminate].
    injection H as <-.
    constructor; unfold open_conns in *; simpl_st; auto.
    + fresh_weaken If.
    + lia.
    + intros c0 Hin. rewrite lookup_update, EX. destruct (Nat.eqb c c0); [discriminate | now apply Ih].
    + intros c0. rewrite lookup_update, EX. destruct (Nat.eqb c c0) eqn:E0; [|apply Isa].
      apply Nat.eqb_eq in E0. subst c0. intros _. apply Isa. congruence.
    + intros c0 y. rewrite lookup_update, EX. destruct (Nat.eqb c c0) eqn:E0; [|apply Ise].
      apply Nat.eqb_eq in E0. subst c0. intros [= <-]. rewrite serve_sess_inv. now apply Ise.
  - (* Done *)
    destruct (mem c (serving s)) eqn:EM; [|discriminate]. apply mem_In in EM.
    pose proof (remove1_length c _ EM) as RL.
    injection H as <-.
    constructor; unfold open_conns in *; simpl_st; auto; unfold conn in *.
    + lia.
    + lia.
    + destruct (Z.eqb (active s - 1) 0 && cf_idle k && negb (shutdown s)); [|exact Ip].
      right. exists (nextg s). rewrite DP. auto.
    + intros Hp. rewrite (Ir Hp) in EM. easy.
    + intros c0. cbn [In]. rewrite (Iacc c0). split.
      * intros [?|[Hs|?]]; auto. destruct (In_remove1 c0 c _ Hs) as [->|?]; auto.
      * intros [[->|?]|[Hs|?]]; auto. right. left. eapply remove1_In, Hs.
    + destruct (Z.eqb (active s - 1) 0 && cf_idle k && negb (shutdown s)) eqn:ER.
      * intros g [= <-]. rewrite !andb_true_iff in ER. destruct ER as ((ER & _) & _).
        split; [apply length_nil; lia|]. exists (S (clock s)). cbn [lookup]. rewrite Nat.eqb_refl. repeat split; auto; lia.
      * intros g Hg. destruct (If g Hg) as (Hs & _). rewrite Hs in EM. easy.
    + lia.
    + intros Hc c0 Hin. apply (Il Hc). destruct (looppend s); cbn [In] in *; [destruct Hin as [?|Hin]; auto; right|]; eapply remove1_In, Hin.
    + intros c0 Hin. eapply Ih, remove1_In, Hin.
  - (* TimerFire *)
    destruct (mem g (pendt s)) eqn:EM; [|discriminate]. injection H as <-.
    constructor; unfold open_conns in *; simpl_st; auto.
    + left. destruct Ip as [E|(g' & _ & E)]; rewrite E in *; [reflexivity|].
      apply mem_In in EM. destruct EM as [<-|[]]. apply remove_all_single.
    + fresh_weaken If.
    + lia.
  - (* Callback *)
    destruct (mem g (firedt s)) eqn:EM; [|discriminate]. injection H as <-.
    set (close := (negb (cf_gencheck k) || match tvar s with Some g' => Nat.eqb g g' | None => false end) && Z.eqb (active s) 0) in *.
    constructor; unfold open_conns in *; simpl_st; auto.
    + now rewrite Is.
    + intros Hp. destruct (Iph Hp) as [-> ?]. auto.
    + fresh_weaken If.
    + lia.
    + intros Hc c0 Hin. destruct (closed s) eqn:EC.
      * rewrite andb_false_r. now apply Il.
      * cbn [orb negb] in Hc. rewrite Hc. cbn [andb]. unfold close in Hc. apply andb_true_iff in Hc. destruct Hc as [_ Hz].
        assert (serving s = []) as Hs by (apply length_nil; lia). rewrite Hs in Hin.
        destruct (looppend s); cbn [In] in Hin; [destruct Hin as [->|[]]; reflexivity | easy].
  - (* AcceptFail *)
    destruct (is_accepting s && closed s && match looppend s with None => true | Some _ => false end) eqn:G; [|discriminate].
    injection H as <-. rewrite !andb_true_iff in G. destruct G as ((G1 & G2) & G3).
    destruct (looppend s) eqn:EL; [discriminate|].
    constructor; unfold open_conns in *; simpl_st; auto; try rewrite EL; auto.
    + discriminate.
    + fresh_weaken If.
    + lia.
    + intros Hc c0 Hin. apply (Il Hc). rewrite EL. exact Hin.
  - (* FinalDisarm *)
    destruct (ph s) eqn:EP; try discriminate. injection H as <-.
    assert (closed s = true /\ looppend s = None) as [HC HL] by (apply Iph; discriminate).
    constructor; unfold open_conns in *; simpl_st; auto.
    + discriminate.
    + discriminate.
    + lia.
  - (* Return *)
    destruct (ph s) eqn:EP; try discriminate.
    destruct (Z.eqb (wg s) 0) eqn:EW; [|discriminate]. injection H as <-.
    assert (closed s = true /\ looppend s = None) as [HC HL] by (apply Iph; discriminate).
    constructor; unfold open_conns in *; simpl_st; auto.
    + congruence.
    + intros _. apply length_nil. lia.
    + fresh_weaken If.
    + lia.
Qed.

Lemma inv_exec k s e : inv k s -> inv k (exec k s e).
Proof. intros I. unfold exec. destruct (step k s e) eqn:H; [eapply inv_step; eauto | exact I]. Qed.

Lemma inv_run k es : forall s, inv k s -> inv k (run k s es).
Proof. induction es as [|e es IH]; intros s I; [exact I|]. apply IH, inv_exec, I. Qed.

Lemma inv_reach k es : inv k (run k (init k) es).
Proof. apply inv_run, inv_init. Qed.

Lemma run_app k s a b : run k s (a ++ b) = run k (run k s a) b.
Proof. unfold run. apply fold_left_app. Qed.

(* ---------- shutdown only when idle ------------------------------------------------------- *)
Lemma closes_only_idle k s e :
  inv k s -> closed s = false -> closed (exec k s e) = true ->
  (exists g, e = Callback g) /\ active s = 0%Z /\ serving s = [] /\ shutdown (exec k s e) = true.
Proof.
  intros I Hc. unfold exec. destruct (step k s e) as [s'|] eqn:H; [|congruence].
  destruct e; cbn [step] in H; try (stepcases H; congruence).
  - (* Callback *)
    destruct (mem g (firedt s)); [|discriminate]. injection H as <-. simpl_st. rewrite Hc. cbn [orb].
    intros Hx. apply andb_true_iff in Hx as Hy. destruct Hy as [_ Hz]. apply Z.eqb_eq in Hz.
    repeat split; [now exists g | exact Hz | | now rewrite Hx, orb_true_r].
    apply length_nil. rewrite <- (i_active k s I). exact Hz.
  - (* Return: the loop has left Accept only after the listener was closed *)
    destruct (ph s) eqn:EP; try discriminate. destruct (i_phase k s I) as [HC _]; [rewrite EP; discriminate | congruence].
Qed.

(* ---------- the idle period ---------------------------------------------------------------- *)
Lemma fresh_close k s g :
  inv k s -> closed s = false -> closed (exec k s (Callback g)) = true ->
  cf_gencheck k = true \/ tvar s = Some g ->
  tvar s = Some g /\
  exists n, lookup g (armlog s) = Some n /\ (last_count s <= n)%nat /\ (last_done s <= n)%nat /\ serving s = [].
Proof.
  intros I Hc Hx Hf.
  assert (tvar s = Some g) as Ht.
  { destruct Hf as [Hg|Ht]; [|exact Ht]. unfold exec in Hx. cbn [step] in Hx.
    destruct (mem g (firedt s)); [|congruence]. simpl_st. rewrite Hc, Hg in Hx. cbn [orb negb] in Hx.
    destruct (tvar s) as [g'|]; [|discriminate]. apply andb_true_iff in Hx. destruct Hx as [Hx _]. apply Nat.eqb_eq in Hx. now subst. }
  destruct (i_fresh k s I g Ht) as (Hs & n & Hl & H1 & H2 & _). split; [exact Ht|]. exists n. auto.
Qed.

Lemma fire_keeps_current k s g :
  inv k s -> mem g (pendt s) = true -> tvar (exec k s (TimerFire g)) = Some g /\ closed (exec k s (TimerFire g)) = closed s.
Proof.
  intros I Hm. unfold exec. cbn [step]. rewrite Hm. simpl_st. split; [|reflexivity].
  destruct (i_pend k s I) as [E|(g' & Et & E)]; rewrite E in Hm; [discriminate|].
  apply mem_In in Hm. destruct Hm as [<-|[]]. exact Et.
Qed.

(* ---------- Run returns after every connection goroutine finished ---------------------------- *)
Lemma returned_all_done k s :
  inv k s -> is_returned s = true ->
  closed s = true /\ serving s = [] /\ looppend s = None /\ forall c, In c (accepted s) -> In c (finished s).
Proof.
  intros I Hr. unfold is_returned in Hr. destruct (ph s) eqn:EP; try discriminate.
  destruct (i_phase k s I) as [HC HL]; [rewrite EP; discriminate|].
  pose proof (i_ret k s I EP) as HS. repeat split; auto.
  intros c Hin. apply (i_acc k s I) in Hin. rewrite HS, HL in Hin. destruct Hin as [?|[[]|?]]; [assumption | discriminate].
Qed.

(* ---------- connections are independent ------------------------------------------------------ *)
Lemma view_is_prefix k s c :
  inv k s -> exists rest, out_of s c ++ rest = C02.run_conn (cf_gate k) (cf_calls k c).
Proof.
  intros I. unfold out_of. destruct (lookup c (sessions s)) as [x|] eqn:E.
  - eexists. exact (i_sess k s I c x E).
  - eexists. reflexivity.
Qed.

(* ---------- witnesses ---------------------------------------------------------------------------- *)
Definition code_cfg : cfg := {| cf_idle := true; cf_gencheck := true; cf_gate := false; cf_calls := fun _ => [] |}.
Definition legacy_cfg : cfg := {| cf_idle := true; cf_gencheck := false; cf_gate := false; cf_calls := fun _ => [] |}.

(* connection 2 is accepted between the timer firing and its callback taking the lock, and is not yet counted *)
Definition w_accept_window : list ev :=
  [AcceptRet 1; Count 1; Done 1; TimerFire 1; AcceptRet 2; Callback 1; Count 2]%nat.
(* connection 2 lives and dies between the timer firing and its callback taking the lock *)
Definition w_stale : list ev :=
  [AcceptRet 1; Count 1; Done 1; TimerFire 1; AcceptRet 2; Count 2; Done 2]%nat.

Lemma accept_window_witness :
  let s := run code_cfg (init code_cfg) w_accept_window in
  closed s = true /\ serving s = [2%nat] /\ late s = Some 2%nat /\ is_returned s = false.
Proof. vm_compute. auto. Qed.

Lemma stale_witness :
  let s := run legacy_cfg (init legacy_cfg) w_stale in
  closed s = false /\ closed (exec legacy_cfg s (Callback 1)) = true
  /\ lookup 1%nat (armlog s) = Some 3%nat /\ last_count s = 6%nat /\ last_done s = 7%nat /\ tvar s = Some 2%nat.
Proof. vm_compute. auto 10. Qed.

Lemma stale_checked :
  let s := run code_cfg (init code_cfg) w_stale in
  closed s = false /\ closed (exec code_cfg s (Callback 1)) = false.
Proof. vm_compute. auto. Qed.

(* the serve-start hook refuses connection 1; 2 is held open; 3 comes and goes; the timer armed by its Done fires *)
Definition w_late_count : list ev :=
  [AcceptRet 1; Count 1; Done 1; AcceptRet 2; Count 2; Start 2; AcceptRet 3; Count 3; Start 3; Done 3; TimerFire 1; Callback 1]%nat.

Lemma late_count_witness :
  let s := run_late code_cfg (init code_cfg) w_late_count in
  closed s = true /\ serving s = [2%nat] /\ active s = 0%Z /\ looppend s = None /\ late s = None
  /\ active (run_late code_cfg (init code_cfg) [AcceptRet 1; Count 1; Done 1]%nat) = (-1)%Z.
Proof. vm_compute. auto 10. Qed.

Lemma late_count_code :
  let s := run code_cfg (init code_cfg) w_late_count in
  closed s = false /\ serving s = [2%nat] /\ active s = 1%Z /\ pendt s = [].
Proof. vm_compute. auto. Qed.

Lemma serve_needs_start k s c : mem c (started s) = false -> sessions (exec k s (Serve c)) = sessions s.
Proof. intros H. unfold exec. cbn [step]. rewrite H, andb_false_r. reflexivity. Qed.

(* ====================================================================================== *)
(* Part 3: the timed run is an instance of the machine and meets the reference monitor  *)
(* ====================================================================================== *)
Definition ctl (s : st) :=
  (active s, tvar s, shutdown s, wg s, closed s, looppend s, (ph s, pendt s, firedt s, nextg s, accepted s, serving s, finished s, started s)).

Definition is_serve (e : ev) : bool := match e with Serve _ => true | _ => false end.

Lemma serve_ctl k s c : ctl (exec k s (Serve c)) = ctl s.
Proof.
  unfold exec. cbn [step]. destruct (mem c (serving s) && mem c (started s)); [|reflexivity].
  destruct (lookup c (sessions s)); reflexivity.
Qed.

Lemma serves_ctl k es : forallb is_serve es = true -> forall s, ctl (run k s es) = ctl s.
Proof.
  induction es as [|e es IH]; intros H s; [reflexivity|]. cbn [forallb] in H. apply andb_true_iff in H. destruct H as [He H].
  cbn [run fold_left]. fold (run k (exec k s e) es). rewrite (IH H). destruct e; try discriminate. apply serve_ctl.
Qed.

Record simc (i : input) (t : tstate) (m : mon) : Prop := {
  s_inv : inv (cfg_of i) (t_s t);
  s_loop : looppend (t_s t) = None;
  s_fired : firedt (t_s t) = [];
  s_mode : (ph (t_s t) = PAccept /\ closed (t_s t) = false /\ m_stopped m = false)
           \/ (ph (t_s t) = PReturned /\ closed (t_s t) = true /\ m_stopped m = true /\ serving (t_s t) = []);
  s_open : serving (t_s t) = m_open m;
  s_used : accepted (t_s t) = m_used m;
  s_now : t_now t = m_now m;
  s_timer : if cf_idle (cfg_of i) && negb (closed (t_s t)) && match serving (t_s t) with [] => true | _ => false end
            then exists g, pendt (t_s t) = [g] /\ tvar (t_s t) = Some g /\ t_dl t = m_zero_at m + m_need m
            else pendt (t_s t) = [] }.

Record sim (i : input) (t : tstate) (m : mon) : Prop := {
  s_core : simc i t m;
  s_hookn : t_hookn t = m_hookn m;
  s_bound : t_bound t = m_bound m }.

Lemma simc_ext i t m t' m' :
  simc i t m -> t_s t' = t_s t -> t_now t' = t_now t -> t_dl t' = t_dl t ->
  (m_open m', m_used m', m_now m', m_zero_at m', m_need m', m_stopped m') = (m_open m, m_used m, m_now m, m_zero_at m, m_need m, m_stopped m) ->
  simc i t' m'.
Proof.
  intros [I HL HF HM HO HU HN HT] E1 E2 E3 E4. injection E4 as F1 F2 F3 F4 F5 F6.
  constructor; rewrite ?E1, ?E2, ?E3, ?F1, ?F2, ?F3, ?F4, ?F5, ?F6; assumption.
Qed.

Lemma sim_init i : sim i (tinit i) (minit i).
Proof.
  constructor; [|reflexivity|reflexivity].
  constructor; unfold tinit, minit; cbn [t_s t_now t_dl m_open m_used m_now m_stopped m_zero_at m_need]; try reflexivity.
  - apply inv_init.
  - left. auto.
  - unfold init. simpl_st. rewrite andb_true_r. destruct (cf_idle (cfg_of i)); cbn [andb negb]; [|reflexivity].
    exists 0%nat. auto.
Qed.

Lemma talk_events_serve k c : forallb is_serve (talk_events k c) = true.
Proof. unfold talk_events. induction (length (C02.client_writes (cf_calls k c))); [reflexivity | exact IHn]. Qed.

Lemma concat_serve k cs : forallb is_serve (concat (map (talk_events k) cs)) = true.
Proof. induction cs as [|c cs IH]; [reflexivity|]. cbn [map concat]. rewrite forallb_app, talk_events_serve. exact IH. Qed.

Lemma forallb_ext_eq {A} (f g : A -> bool) l : (forall x, f x = g x) -> forallb f l = forallb g l.
Proof. intros H. induction l as [|x l IH]; [reflexivity|]. cbn [forallb]. now rewrite H, IH. Qed.

Lemma open_noop k s c :
  closed s = true \/ mem c (accepted s) = true -> looppend s = None -> run k s [AcceptRet c; Count c] = s.
Proof.
  intros H HL. unfold run. cbn [fold_left]. unfold exec at 2. cbn [step].
  destruct (is_accepting s && negb (closed s) && negb (mem c (accepted s)) && match looppend s with None => true | Some _ => false end) eqn:G.
  - rewrite !andb_true_iff in G. destruct G as (((_ & G2) & G3) & _). apply negb_true_iff in G2, G3. destruct H; congruence.
  - unfold exec. cbn [step]. now rewrite HL.
Qed.

Lemma open_run k s c :
  ph s = PAccept -> closed s = false -> looppend s = None -> mem c (accepted s) = false ->
  let s' := run k s [AcceptRet c; Count c] in
  tvar s' = None /\ closed s' = false /\ looppend s' = None /\ ph s' = PAccept /\ pendt s' = disarm_pend s
  /\ firedt s' = firedt s /\ accepted s' = c :: accepted s /\ serving s' = c :: serving s
  /\ sessions s' = (c, (C02.client_writes (cf_calls k c), [])) :: sessions s.
Proof.
  intros HP HC HL HM.
  assert (is_accepting s && negb (closed s) && negb (mem c (accepted s))
          && match looppend s with None => true | Some _ => false end = true) as G
    by (unfold is_accepting; rewrite HP, HC, HL, HM; reflexivity).
  unfold run, exec. cbn [fold_left step]. rewrite G. simpl_st. rewrite Nat.eqb_refl. simpl_st.
  unfold disarm_pend. simpl_st. auto 10.
Qed.

Lemma done_noop k s c : mem c (serving s) = false -> run k s [Done c] = s.
Proof. intros H. unfold run, exec. cbn [fold_left step]. now rewrite H. Qed.

Lemma done_run k s c :
  mem c (serving s) = true ->
  let s' := run k s [Done c] in
  let rearm := Z.eqb (active s - 1) 0 && cf_idle k && negb (shutdown s) in
  serving s' = remove1 c (serving s) /\ closed s' = closed s /\ looppend s' = looppend s /\ ph s' = ph s
  /\ firedt s' = firedt s /\ accepted s' = accepted s
  /\ tvar s' = (if rearm then Some (nextg s) else tvar s)
  /\ pendt s' = (if rearm then nextg s :: disarm_pend s else pendt s)
  /\ nextg s' = (if rearm then S (nextg s) else nextg s).
Proof. intros H. unfold run, exec. cbn [fold_left step]. rewrite H. simpl_st. auto 10. Qed.

Lemma x_fire k s g :
  mem g (pendt s) = true ->
  let s' := exec k s (TimerFire g) in
  pendt s' = remove_all g (pendt s) /\ firedt s' = g :: firedt s /\ tvar s' = tvar s
  /\ (active s', wg s', closed s', shutdown s', looppend s', ph s', accepted s', serving s')
     = (active s, wg s, closed s, shutdown s, looppend s, ph s, accepted s, serving s).
Proof. intros H. unfold exec. cbn [step]. rewrite H. simpl_st. auto. Qed.

Lemma x_callback k s g :
  tvar s = Some g -> mem g (firedt s) = true -> active s = 0%Z ->
  let s' := exec k s (Callback g) in
  closed s' = true /\ shutdown s' = true /\ firedt s' = remove1 g (firedt s) /\ pendt s' = pendt s /\ tvar s' = tvar s
  /\ (active s', wg s', looppend s', ph s', accepted s', serving s') = (active s, wg s, looppend s, ph s, accepted s, serving s).
Proof.
  intros HG H HA. unfold exec. cbn [step]. rewrite H, HG, HA. simpl_st. rewrite Nat.eqb_refl, orb_true_r. cbn [andb]. rewrite Z.eqb_refl, !orb_true_r. auto 10.
Qed.

Lemma x_acceptfail k s :
  ph s = PAccept -> closed s = true -> looppend s = None ->
  let s' := exec k s AcceptFail in
  ph s' = PBroke /\ (closed s', firedt s', pendt s', tvar s', wg s', looppend s', accepted s', serving s')
                    = (closed s, firedt s, pendt s, tvar s, wg s, looppend s, accepted s, serving s).
Proof. intros HP HC HL. unfold exec. cbn [step]. unfold is_accepting. rewrite HP, HC, HL. cbn [andb]. simpl_st. auto. Qed.

Lemma x_finaldisarm k s :
  ph s = PBroke ->
  let s' := exec k s FinalDisarm in
  ph s' = PWait /\ pendt s' = disarm_pend s
  /\ (closed s', firedt s', wg s', looppend s', accepted s', serving s') = (closed s, firedt s, wg s, looppend s, accepted s, serving s).
Proof. intros HP. unfold exec. cbn [step]. rewrite HP. simpl_st. auto. Qed.

Lemma x_return k s :
  ph s = PWait -> wg s = 0%Z ->
  let s' := exec k s Return in
  ph s' = PReturned /\ closed s' = true
  /\ (pendt s', firedt s', looppend s', accepted s', serving s') = (pendt s, firedt s, looppend s, accepted s, serving s).
Proof. intros HP HW. unfold exec. cbn [step]. rewrite HP, HW, Z.eqb_refl. simpl_st. auto. Qed.

Lemma fire_run k s g :
  inv k s ->
  tvar s = Some g -> ph s = PAccept -> closed s = false -> looppend s = None -> pendt s = [g] -> firedt s = []
  -> serving s = [] ->
  let s' := settle k (run k s [TimerFire g; Callback g]) in
  ph s' = PReturned /\ closed s' = true /\ serving s' = [] /\ pendt s' = [] /\ firedt s' = []
  /\ looppend s' = None /\ accepted s' = accepted s.
Proof.
  intros I HG HP HC HL HPe HF HS.
  assert (active s = 0%Z) as HA by (rewrite (i_active _ _ I), HS; reflexivity).
  assert (wg s = 0%Z) as HW by (rewrite (i_wg _ _ I), HS; reflexivity).
  unfold settle. change (run k s [TimerFire g; Callback g]) with (exec k (exec k s (TimerFire g)) (Callback g)).
  set (s1 := exec k s (TimerFire g)).
  assert (mem g (pendt s) = true) as M1 by (rewrite HPe; cbn [mem existsb]; now rewrite Nat.eqb_refl).
  destruct (x_fire k s g M1) as (A1 & A2 & A3 & A4). fold s1 in A1, A2, A3, A4. injection A4 as B1 B2 B3 B4 B5 B6 B7 B8.
  set (s2 := exec k s1 (Callback g)).
  assert (mem g (firedt s1) = true) as M2 by (rewrite A2; cbn [mem existsb]; now rewrite Nat.eqb_refl).
  destruct (x_callback k s1 g (eq_trans A3 HG) M2 (eq_trans B1 HA)) as (C1 & C2 & C3 & C4 & C5 & C6). fold s2 in C1, C2, C3, C4, C5, C6.
  injection C6 as D1 D2 D3 D4 D5 D6.
  change (run k s2 [AcceptFail; FinalDisarm; Return]) with (exec k (exec k (exec k s2 AcceptFail) FinalDisarm) Return).
  set (s3 := exec k s2 AcceptFail).
  destruct (x_acceptfail k s2) as (F1 & F2); [congruence | exact C1 | congruence |]. fold s3 in F1, F2.
  injection F2 as G1 G2 G3 G4 G5 G6 G7 G8.
  set (s4 := exec k s3 FinalDisarm).
  destruct (x_finaldisarm k s3 F1) as (H1 & H2 & H3). fold s4 in H1, H2, H3. injection H3 as J1 J2 J3 J4 J5 J6.
  destruct (x_return k s4 H1) as (K1 & K2 & K3); [congruence|]. injection K3 as L1 L2 L3 L4 L5.
  assert (pendt s3 = []) as P3 by (rewrite G3, C4, A1, HPe; apply remove_all_single).
  assert (disarm_pend s3 = []) as DP3 by (unfold disarm_pend; rewrite P3; now destruct (tvar s3)).
  assert (firedt s2 = []) as F2' by (rewrite C3, A2, HF; cbn [remove1]; now rewrite Nat.eqb_refl).
  repeat split; try congruence.
Qed.

Lemma start_same k s c :
  let s' := exec k s (Start c) in
  (active s', tvar s', shutdown s', wg s', closed s', looppend s', (ph s', pendt s', firedt s', nextg s', accepted s', serving s', finished s', sessions s'))
  = (active s, tvar s, shutdown s, wg s, closed s, looppend s, (ph s, pendt s, firedt s, nextg s, accepted s, serving s, finished s, sessions s)).
Proof. unfold exec. cbn [step]. destruct (mem c (serving s) && negb (mem c (started s))); reflexivity. Qed.

Lemma open_core_simc i t m c :
  simc i t m -> closed (t_s t) = false -> mem c (accepted (t_s t)) = false ->
  simc i (set_s t (run (cfg_of i) (t_s t) [AcceptRet c; Count c])) (mopen m c).
Proof.
  intros [I HL HF HM HO HU HN HT] G1 G2. unfold set_s, mopen.
      destruct HM as [(HP & _ & HS)|(_ & HC & _)]; [|congruence].
      destruct (open_run (cfg_of i) (t_s t) c HP G1 HL G2) as (E1 & E2 & E3 & E4 & E5 & E6 & E7 & E8 & _).
      constructor; cbn [t_s t_now t_dl m_open m_used m_now m_stopped m_zero_at m_need]; try congruence.
      * apply inv_run, I.
      * left. auto.
      * rewrite E8, HO. reflexivity.
      * rewrite E7, HU. reflexivity.
      * rewrite E8, E5. rewrite andb_false_r. apply (disarm_pend_nil _ _ I).
Qed.

Lemma start_simc i t m c : simc i t m -> simc i (set_s t (exec (cfg_of i) (t_s t) (Start c))) m.
Proof.
  intros [I HL HF HM HO HU HN HT].
  pose proof (start_same (cfg_of i) (t_s t) c) as C. cbv zeta in C. injection C as C1 C2 C3 C4 C5 C6 C7 C8 C9 C10 C11 C12 C13 C14.
  constructor; unfold set_s; cbn [t_s t_now t_dl]; try congruence.
  - apply inv_exec, I.
  - rewrite C5, C12, C8, C2. exact HT.
Qed.

Lemma close_core_simc i t m c :
  simc i t m -> mem c (serving (t_s t)) = true -> simc i (close_core i t c) (mclose i m c).
Proof.
  intros [I HL HF HM HO HU HN HT] EM. unfold close_core, mclose. rewrite <- HO.
    destruct HM as [(HP & HC & HS)|(_ & _ & _ & HE)]; [|rewrite HE in EM; discriminate].
      destruct (done_run (cfg_of i) (t_s t) c EM) as (E1 & E2 & E3 & E4 & E5 & E6 & E7 & E8 & E9).
      pose proof (i_shut _ _ I) as HSh. rewrite HC in HSh. rewrite HSh in E7, E8, E9. cbn [negb] in E7, E8, E9. rewrite andb_true_r in E7, E8, E9.
      apply mem_In in EM. pose proof (remove1_length c _ EM) as RL. pose proof (i_active _ _ I) as IA.
      assert (serving (t_s t) <> []) as HNE by (intros Z0; rewrite Z0 in EM; easy).
      assert (pendt (t_s t) = []) as HP0.
      { destruct (serving (t_s t)); [congruence|]. now rewrite andb_false_r in HT. }
      constructor; cbn [t_s t_now t_dl m_open m_used m_now m_stopped m_zero_at m_need]; try congruence.
      * apply inv_run, I.
      * left. split; [congruence|]. split; [congruence | exact HS].
      * rewrite E1, E2, HC. cbn [negb]. rewrite andb_true_r.
        destruct (remove1 c (serving (t_s t))) as [|y l] eqn:ER.
        -- assert ((active (t_s t) - 1 =? 0)%Z = true) as HZ by (apply Z.eqb_eq; cbn [length] in RL; unfold conn in *; lia).
           rewrite HZ in E7, E8, E9. cbn [andb] in E7, E8, E9.
           destruct (cf_idle (cfg_of i)) eqn:EI; cbn [andb].
           ++ exists (nextg (t_s t)). rewrite E8, E7, E9, (disarm_pend_nil _ _ I).
              assert (Nat.eqb (nextg (t_s t)) (S (nextg (t_s t))) = false) as -> by (apply Nat.eqb_neq; lia).
              rewrite HN. auto.
           ++ now rewrite E8.
        -- rewrite andb_false_r.
           assert ((active (t_s t) - 1 =? 0)%Z = false) as HZ by (apply Z.eqb_neq; cbn [length] in RL; unfold conn in *; lia).
           rewrite HZ in E8. cbn [andb] in E8. now rewrite E8.
Qed.

Lemma close_core_noop i t m c :
  simc i t m -> mem c (serving (t_s t)) = false -> simc i (close_core i t c) m.
Proof.
  intros S EM. unfold close_core. rewrite (done_noop _ _ _ EM), Nat.eqb_refl. eapply simc_ext; eauto.
Qed.

Lemma top_simc i t m o :
  simc i t m -> t_hookn t = m_hookn m -> t_bound t = m_bound m ->
  simc i (fst (top i t o)) (fst (mstep i m o)) /\ snd (top i t o) = snd (mstep i m o).
Proof.
  intros S Hh Hb. pose proof S as [I HL HF HM HO HU HN HT].
  destruct o as [c|cs|c|d].
  - (* Open *)
    cbn [top mstep fst snd]. rewrite <- HU, <- Hh, <- Hb.
    assert (closed (t_s t) = m_stopped m) as HCS by (destruct HM as [(_ & -> & ->)|(_ & -> & -> & _)]; reflexivity).
    rewrite <- HCS. split; [|reflexivity].
    destruct (negb (closed (t_s t)) && negb (mem c (accepted (t_s t)))) eqn:G; cbn [andb].
    + apply andb_true_iff in G. destruct G as [G1 G2]. apply negb_true_iff in G1, G2.
      pose proof (open_core_simc i t m c S G1 G2) as S1.
      destruct (negb (t_bound t) && nth (t_hookn t) (i_hook i) false).
      * assert (mem c (serving (t_s (set_s t (run (cfg_of i) (t_s t) [AcceptRet c; Count c])))) = true) as EM.
        { destruct HM as [(HP & _ & _)|(_ & HC & _)]; [|congruence].
          destruct (open_run (cfg_of i) (t_s t) c HP G1 HL G2) as (_ & _ & _ & _ & _ & _ & _ & E8 & _).
          unfold set_s. cbn [t_s]. rewrite E8. cbn [mem existsb]. now rewrite Nat.eqb_refl. }
        pose proof (close_core_simc i _ _ c S1 EM) as S2. eapply simc_ext; [exact S2 | reflexivity..].
      * change (run (cfg_of i) (t_s t) [AcceptRet c; Count c; Start c])
          with (exec (cfg_of i) (t_s (set_s t (run (cfg_of i) (t_s t) [AcceptRet c; Count c]))) (Start c)).
        pose proof (start_simc i _ _ c S1) as S2. eapply simc_ext; [exact S2 | reflexivity..].
    + eapply simc_ext; [exact S | reflexivity..].
  - (* Talk *)
    cbn [top mstep fst snd]. split; [|f_equal].
    + pose proof (serves_ctl (cfg_of i) _ (concat_serve (cfg_of i) (filter (is_live (t_s t)) cs)) (t_s t)) as C.
      unfold ctl in C. injection C as C1 C2 C3 C4 C5 C6 C7 C8 C9 C10 C11 C12 C13 C14.
      constructor; cbn [t_s t_now t_dl]; try congruence.
      * apply inv_run, I.
      * rewrite C5, C12, C8, C2. exact HT.
    + apply forallb_ext_eq. intros c. unfold is_open. now rewrite HO.
  - (* Close *)
    cbn [top mstep fst snd]. unfold is_open. rewrite <- HO.
    destruct (mem c (serving (t_s t))) eqn:EM; cbn [fst snd]; (split; [|reflexivity]).
    + now apply close_core_simc.
    + now apply close_core_noop.
  - (* Wait *)
    cbn [top mstep fst snd]. split; [|reflexivity].
    change (cf_idle (cfg_of i)) with (negb (i_idle i =? 0)) in HT.
    destruct (negb (i_idle i =? 0) && negb (closed (t_s t)) && match serving (t_s t) with [] => true | _ => false end) eqn:EC.
    + destruct HT as (g & HPe & HTv & HD).
      rewrite !andb_true_iff in EC. destruct EC as ((EI & ECl) & ES). apply negb_true_iff in ECl.
      destruct (serving (t_s t)) eqn:ESv; [|discriminate].
      destruct HM as [(HP & HC & HSt)|(_ & HC & _)]; [|congruence].
      rewrite HPe, HD, <- HN, <- HO, HSt, EI. cbn [negb andb orb].
      destruct (m_zero_at m + m_need m <=? t_now t + d) eqn:EX.
      * destruct (fire_run (cfg_of i) (t_s t) g I HTv HP HC HL HPe HF ESv) as (E1 & E2 & E3 & E4 & E5 & E6 & E7).
        constructor; cbn [t_s t_now t_dl m_open m_used m_now m_stopped m_zero_at m_need]; try congruence.
        -- apply inv_run, inv_run, I.
        -- right. auto.
        -- rewrite E2. cbn [negb]. rewrite andb_false_r. exact E4.
      * constructor; cbn [t_s t_now t_dl m_open m_used m_now m_stopped m_zero_at m_need]; try congruence; auto.
        change (cf_idle (cfg_of i)) with (negb (i_idle i =? 0)). rewrite EI, HC, ESv. cbn [negb andb]. exists g. auto.
    + assert (pendt (t_s t) = []) as HP0 by exact HT. rewrite HP0.
      assert (negb (i_idle i =? 0) && negb (m_stopped m) && match m_open m with [] => true | _ => false end = false) as EX.
      { rewrite <- HO. destruct HM as [(_ & HC & ->)|(_ & HC & -> & _)]; [rewrite HC in EC; exact EC | now rewrite andb_false_r]. }
      rewrite EX. cbn [andb]. rewrite orb_false_r.
      constructor; cbn [t_s t_now t_dl m_open m_used m_now m_stopped m_zero_at m_need]; try congruence; auto.
      change (cf_idle (cfg_of i)) with (negb (i_idle i =? 0)). now rewrite EC.
Qed.

Lemma top_sim i t m o :
  sim i t m ->
  sim i (fst (top i t o)) (fst (mstep i m o)) /\ snd (top i t o) = snd (mstep i m o).
Proof.
  intros [S Hh Hb]. destruct (top_simc i t m o S Hh Hb) as [S1 E1]. split; [|exact E1].
  constructor; [exact S1 | |].
  - destruct o; cbn [top mstep fst t_hookn m_hookn close_core]; try exact Hh;
      try (destruct (mem c (m_open m)); exact Hh).
    rewrite Hh, Hb. f_equal.
    destruct S as [_ _ _ HM _ HU _ _]. rewrite <- HU.
    destruct HM as [(_ & -> & ->)|(_ & -> & -> & _)]; reflexivity.
  - destruct o; cbn [top mstep fst t_bound m_bound close_core]; try exact Hb;
      try (destruct (mem c (m_open m)); exact Hb).
    rewrite Hh, Hb. destruct S as [_ _ _ HM _ HU _ _]. rewrite <- HU.
    destruct HM as [(_ & -> & ->)|(_ & -> & -> & _)]; reflexivity.
Qed.


Lemma probe_sim i t m ok : sim i t m -> probe_of i t ok = mprobe i m ok.
Proof.
  intros [[_ _ _ HM _ _ _ _] _ _]. unfold probe_of, mprobe, is_returned.
  destruct HM as [(-> & -> & ->)|(-> & -> & -> & _)]; reflexivity.
Qed.

Lemma trun_sim i ops : forall t m, sim i t m -> snd (trun i t ops) = mrun i m ops /\ exists m', sim i (fst (trun i t ops)) m'.
Proof.
  induction ops as [|o ops IH]; intros t m S; cbn [trun mrun]; [split; [reflexivity | now exists m]|].
  destruct (top_sim i t m o S) as [S1 E1].
  destruct (top i t o) as [t1 ok]. destruct (mstep i m o) as [m1 ok']. cbn [fst snd] in S1, E1. subst ok'.
  destruct (IH t1 m1 S1) as [E2 S2]. destruct (trun i t1 ops) as [t2 ps]. cbn [fst snd] in *.
  split; [|exact S2]. now rewrite (probe_sim i t1 m1 ok S1), E2.
Qed.

Lemma probe_eqb_refl p : probe_eqb p p = true.
Proof. unfold probe_eqb. rewrite !eqb_reflx. destruct (p_file p); cbn [opt_eqb]; [apply N.eqb_refl | reflexivity]. Qed.

Lemma probe_safe_refl p : probe_safe p p = true.
Proof.
  unfold probe_safe. rewrite eqb_reflx, orb_true_r. destruct (p_ret p), (p_ok p); cbn [implb andb];
    (destruct (p_file p); cbn [opt_eqb]; [apply N.eqb_refl | reflexivity]).
Qed.

Lemma mrun_length i ops : forall m, length (mrun i m ops) = length ops.
Proof. induction ops as [|o ops IH]; intros m; cbn [mrun]; [reflexivity|]. destruct (mstep i m o). cbn [length]. now rewrite IH. Qed.

Lemma list_eqb_refl {A} (e : A -> A -> bool) : (forall x, e x x = true) -> forall l, list_eqb e l l = true.
Proof. intros H l. induction l as [|x l IH]; [reflexivity|]. cbn [list_eqb]. now rewrite H, IH. Qed.

(* ---------- views: after a Talk the connection has read everything it will ever get ---------- *)
Definition exh (g : bool) (x : sess) : Prop := C02.serve_flat C02.current g (fst x) = [].
Definition oexh (g : bool) (o : option sess) : Prop := match o with Some x => exh g x | None => True end.
Definition L (k : cfg) (c : conn) : nat := length (C02.client_writes (cf_calls k c)).

Lemma serve_one_shorter g ws o r : serve_one g ws = Some (o, r) -> (length r < length ws)%nat.
Proof.
  destruct ws as [|s rest]; [discriminate|]. cbn [serve_one].
  destruct (C02.step C02.current g s); try discriminate; intros [= <- <-]; cbn [length]; destruct rest; cbn [length]; lia.
Qed.

Lemma serve_sess_len g x : (length (fst (serve_sess g x)) <= length (fst x))%nat.
Proof.
  unfold serve_sess. destruct (serve_one g (fst x)) as [[o r]|] eqn:E; cbn [fst]; [|lia].
  apply serve_one_shorter in E. lia.
Qed.

Lemma serve_sess_exh g x : exh g x -> exh g (serve_sess g x).
Proof.
  unfold exh, serve_sess. intros H. pose proof (serve_one_flat g (fst x)) as F. rewrite H in F.
  destruct (serve_one g (fst x)) as [[o r]|]; cbn [fst]; [|exact H].
  symmetry in F. now apply app_eq_nil in F.
Qed.

Lemma serve_lookup k s c' c :
  lookup c (sessions (exec k s (Serve c'))) =
  if Nat.eqb c' c && (mem c' (serving s) && mem c' (started s))
  then match lookup c (sessions s) with Some x => Some (serve_sess (cf_gate k) x) | None => None end
  else lookup c (sessions s).
Proof.
  unfold exec. cbn [step]. destruct (mem c' (serving s) && mem c' (started s)); [|now rewrite andb_false_r].
  destruct (lookup c' (sessions s)) as [x|] eqn:E; simpl_st.
  - rewrite lookup_update, E. rewrite andb_true_r. destruct (Nat.eqb c' c) eqn:E0; [|reflexivity].
    apply Nat.eqb_eq in E0. subst c'. now rewrite E.
  - rewrite andb_true_r. destruct (Nat.eqb c' c) eqn:E0; [|reflexivity]. apply Nat.eqb_eq in E0. subst c'. now rewrite E.
Qed.

Lemma started_serve k s c : started (exec k s (Serve c)) = started s.
Proof. pose proof (serve_ctl k s c) as H. unfold ctl in H. now injection H. Qed.

Lemma started_serves k es s : forallb is_serve es = true -> started (run k s es) = started s.
Proof. intros H. pose proof (serves_ctl k es H s) as C. unfold ctl in C. now injection C. Qed.

Lemma serving_serve k s c : serving (exec k s (Serve c)) = serving s.
Proof. pose proof (serve_ctl k s c) as H. unfold ctl in H. now injection H. Qed.

Lemma serving_serves k es s : forallb is_serve es = true -> serving (run k s es) = serving s.
Proof. intros H. pose proof (serves_ctl k es H s) as C. unfold ctl in C. now injection C. Qed.

Lemma oexh_serves k c es : forallb is_serve es = true -> forall s,
  oexh (cf_gate k) (lookup c (sessions s)) -> oexh (cf_gate k) (lookup c (sessions (run k s es))).
Proof.
  induction es as [|e es IH]; intros H s Hx; [exact Hx|]. cbn [forallb] in H. apply andb_true_iff in H. destruct H as [He H].
  cbn [run fold_left]. fold (run k (exec k s e) es). apply (IH H). destruct e; try discriminate.
  rewrite serve_lookup. destruct (Nat.eqb c0 c && (mem c0 (serving s) && mem c0 (started s))); [|exact Hx].
  destruct (lookup c (sessions s)); [|exact I]. now apply serve_sess_exh.
Qed.

Lemma exhaust_run k c n : forall s,
  mem c (serving s) = true -> mem c (started s) = true ->
  match lookup c (sessions s) with Some x => (length (fst x) <= n)%nat | None => True end ->
  oexh (cf_gate k) (lookup c (sessions (run k s (repeat (Serve c) n)))).
Proof.
  induction n as [|n IH]; intros s HM HM' HL.
  - cbn [repeat run fold_left]. destruct (lookup c (sessions s)) as [x|]; [|exact I].
    unfold oexh, exh. destruct (fst x); [reflexivity | cbn [length] in HL; lia].
  - cbn [repeat run fold_left]. fold (run k (exec k s (Serve c)) (repeat (Serve c) n)).
    destruct (lookup c (sessions s)) as [x|] eqn:EX.
    + destruct (serve_one (cf_gate k) (fst x)) as [[o r]|] eqn:E1.
      * apply IH; [now rewrite serving_serve | now rewrite started_serve |]. rewrite serve_lookup, Nat.eqb_refl, HM, HM', EX. cbn [andb].
        unfold serve_sess. rewrite E1. cbn [fst]. apply serve_one_shorter in E1. lia.
      * apply oexh_serves; [clear; induction n; [reflexivity | exact IHn]|].
        rewrite serve_lookup, Nat.eqb_refl, HM, HM', EX. cbn [andb oexh]. apply serve_sess_exh.
        unfold exh. now rewrite (serve_one_flat _ (fst x)), E1.
    + apply oexh_serves; [clear; induction n; [reflexivity | exact IHn]|].
      rewrite serve_lookup, EX. now destruct (Nat.eqb c c && (mem c (serving s) && mem c (started s))).
Qed.

Definition W (k : cfg) (talked pending : list conn) (s : st) : Prop :=
  forall c, match lookup c (sessions s) with
            | None => mem c talked = false
            | Some x => (length (fst x) <= L k c)%nat /\
                        (if mem c talked then exh (cf_gate k) x else if mem c pending then True else snd x = [])
            end.

Lemma W_serve k tk pd s c' : W k tk pd s -> mem c' tk || mem c' pd = true -> W k tk pd (exec k s (Serve c')).
Proof.
  intros HW Hin c. rewrite serve_lookup. specialize (HW c).
  destruct (Nat.eqb c' c && (mem c' (serving s) && mem c' (started s))) eqn:E; [|exact HW].
  apply andb_true_iff in E. destruct E as [E _]. apply Nat.eqb_eq in E. subst c'.
  destruct (lookup c (sessions s)) as [x|]; [|exact HW]. destruct HW as [H1 H2]. split.
  - pose proof (serve_sess_len (cf_gate k) x). lia.
  - destruct (mem c tk); [now apply serve_sess_exh|]. cbn [orb] in Hin. now rewrite Hin.
Qed.

Lemma W_repeat k tk pd c1 n : forall s, W k tk pd s -> mem c1 pd = true -> W k tk pd (run k s (repeat (Serve c1) n)).
Proof.
  induction n as [|n IHn]; intros s HW Hp; [exact HW|]. cbn [repeat run fold_left].
  apply IHn; [|exact Hp]. apply W_serve; [exact HW | now rewrite Hp, orb_true_r].
Qed.

Lemma W_talk k tk pd : forall l s,
  W k tk pd s -> (forall c, In c l -> mem c pd = true /\ mem c (serving s) = true /\ mem c (started s) = true) ->
  let s' := run k s (concat (map (talk_events k) l)) in
  W k tk pd s' /\ forall c, In c l -> oexh (cf_gate k) (lookup c (sessions s')).
Proof.
  induction l as [|c1 l IH]; intros s HW Hl; cbn [map concat]; [split; [exact HW | easy]|].
  rewrite run_app. set (s1 := run k s (talk_events k c1)).
  destruct (Hl c1 (or_introl eq_refl)) as (Hp1 & Hs1 & Hst1).
  assert (W k tk pd s1) as HW1.
  { unfold s1, talk_events. now apply W_repeat. }
  assert (serving s1 = serving s) as HS1 by (apply serving_serves, talk_events_serve).
  assert (started s1 = started s) as HS1' by (apply started_serves, talk_events_serve).
  destruct (IH s1 HW1) as [HW2 HE2].
  { intros c Hc. rewrite HS1, HS1'. apply Hl. now right. }
  split; [exact HW2|]. intros c [<-|Hc]; [|now apply HE2].
  apply oexh_serves; [apply concat_serve|]. unfold s1, talk_events. apply exhaust_run; [exact Hs1 | exact Hst1 |].
  specialize (HW c1). destruct (lookup c1 (sessions s)); [|exact I]. apply HW.
Qed.

Lemma mem_app x a b : mem x (a ++ b) = mem x a || mem x b.
Proof. unfold mem. apply existsb_app. Qed.

Lemma mem_filter x f l : mem x (filter f l) = true -> f x = true /\ mem x l = true.
Proof. rewrite !mem_In, filter_In. tauto. Qed.

Lemma sessions_exec k s e :
  match e with Serve _ | Count _ => False | _ => True end -> sessions (exec k s e) = sessions s.
Proof.
  intros He. unfold exec. destruct (step k s e) as [s'|] eqn:H; [|reflexivity].
  destruct e; try easy; cbn [step] in H; stepcases H; reflexivity.
Qed.

Record V (i : input) (t : tstate) : Prop := {
  v_inv : inv (cfg_of i) (t_s t);
  v_W : W (cfg_of i) (t_talked t) [] (t_s t) }.

Lemma V_init i : V i (tinit i).
Proof. constructor; [apply inv_init|]. intros c. reflexivity. Qed.

Lemma V_ext i t t' : V i t -> t_s t' = t_s t -> t_talked t' = t_talked t -> V i t'.
Proof. intros [I HW] E1 E2. constructor; rewrite ?E1, ?E2; assumption. Qed.

Lemma V_exec i t e :
  V i t -> match e with Serve _ | Count _ => False | _ => True end -> V i (set_s t (exec (cfg_of i) (t_s t) e)).
Proof.
  intros [I HW] He. constructor; unfold set_s; cbn [t_s t_talked]; [apply inv_exec, I|].
  intros c0. rewrite sessions_exec; [apply HW | exact He].
Qed.

Lemma V_open_core i t m c :
  simc i t m -> V i t -> closed (t_s t) = false -> mem c (accepted (t_s t)) = false ->
  V i (set_s t (run (cfg_of i) (t_s t) [AcceptRet c; Count c])).
Proof.
  intros S [I HW] EC EM. constructor; unfold set_s; cbn [t_s t_talked]; [apply inv_run, I|].
  assert (ph (t_s t) = PAccept) as HP by (destruct (s_mode _ _ _ S) as [(? & _)|(_ & ? & _)]; [assumption | congruence]).
  destruct (open_run (cfg_of i) (t_s t) c HP EC (s_loop _ _ _ S) EM) as (_ & _ & _ & _ & _ & _ & _ & _ & ES).
  intros c0. rewrite ES. cbn [lookup]. destruct (Nat.eqb c c0) eqn:E0; [|apply HW].
  apply Nat.eqb_eq in E0. subst c0. split; [unfold L; cbn [fst]; lia|]. cbn [snd mem existsb].
  assert (lookup c (sessions (t_s t)) = None) as HN.
  { destruct (lookup c (sessions (t_s t))) eqn:EL; [|reflexivity].
    assert (In c (accepted (t_s t))) as Hin by (apply (i_sacc _ _ I); congruence). apply mem_In in Hin. congruence. }
  specialize (HW c). rewrite HN in HW. now rewrite HW.
Qed.

Lemma V_close_core i t c : V i t -> V i (close_core i t c).
Proof. intros HV. eapply V_ext; [exact (V_exec i t (Done c) HV Logic.I) | reflexivity | reflexivity]. Qed.

Lemma top_V i t m o : sim i t m -> V i t -> V i (fst (top i t o)).
Proof.
  intros [S _ _] HV. pose proof HV as [I HW]. destruct o as [c|cs|c|d]; cbn [top fst].
  - (* Open *)
    destruct (negb (closed (t_s t)) && negb (mem c (accepted (t_s t)))) eqn:G; cbn [andb].
    + apply andb_true_iff in G. destruct G as [G1 G2]. apply negb_true_iff in G1, G2.
      pose proof (V_open_core i t m c S HV G1 G2) as V1.
      destruct (negb (t_bound t) && nth (t_hookn t) (i_hook i) false).
      * eapply V_ext; [exact (V_close_core i _ c V1) | reflexivity | reflexivity].
      * eapply V_ext; [exact (V_exec i _ (Start c) V1 Logic.I) | reflexivity | reflexivity].
    + eapply V_ext; [exact HV | reflexivity | reflexivity].
  - (* Talk *)
    set (live := filter (is_live (t_s t)) cs).
    assert (W (cfg_of i) (t_talked t) live (t_s t)) as HW0.
    { intros c. specialize (HW c). destruct (lookup c (sessions (t_s t))); [|exact HW]. destruct HW as [H1 H2]. split; [exact H1|].
      destruct (mem c (t_talked t)); [exact H2|]. now destruct (mem c live). }
    destruct (W_talk (cfg_of i) (t_talked t) live live (t_s t) HW0) as [HW1 HE1].
    { intros c Hc. apply mem_In in Hc as Hm. split; [exact Hm|]. apply mem_filter in Hm. destruct Hm as [Hm _]. unfold is_live in Hm. now apply andb_true_iff in Hm. }
    constructor; cbn [t_s t_talked]; [apply inv_run, I|].
    set (s' := run (cfg_of i) (t_s t) (concat (map (talk_events (cfg_of i)) live))) in *.
    assert (inv (cfg_of i) s') as I' by (apply inv_run, I).
    assert (serving s' = serving (t_s t)) as HS by (apply serving_serves, concat_serve).
    intros c. specialize (HW1 c). rewrite mem_app. destruct (lookup c (sessions s')) as [x|] eqn:EL.
    + destruct HW1 as [H1 H2]. split; [exact H1|]. destruct (mem c live) eqn:EM; cbn [orb].
      * apply mem_In in EM. specialize (HE1 c EM). now rewrite EL in HE1.
      * destruct (mem c (t_talked t)); [exact H2|]. exact H2.
    + rewrite HW1, orb_false_r. destruct (mem c live) eqn:EM; [|reflexivity].
      apply mem_filter in EM. destruct EM as [EM _]. unfold is_live in EM. apply andb_true_iff in EM. destruct EM as [EM _]. apply mem_In in EM. rewrite <- HS in EM.
      now apply (i_has _ _ I') in EM.
  - (* Close *)
    now apply V_close_core.
  - (* Wait *)
    assert (forall g, V i {| t_s := settle (cfg_of i) (run (cfg_of i) (t_s t) [TimerFire g; Callback g]); t_now := t_now t + d; t_dl := t_dl t; t_talked := t_talked t; t_hookn := t_hookn t; t_bound := t_bound t |}) as HF.
    { intros g. constructor; cbn [t_s t_talked]; [apply inv_run, inv_run, I|]. intros c0. unfold settle.
      change (run (cfg_of i) (t_s t) [TimerFire g; Callback g]) with (exec (cfg_of i) (exec (cfg_of i) (t_s t) (TimerFire g)) (Callback g)).
      set (s2 := exec (cfg_of i) (exec (cfg_of i) (t_s t) (TimerFire g)) (Callback g)).
      change (run (cfg_of i) s2 [AcceptFail; FinalDisarm; Return]) with (exec (cfg_of i) (exec (cfg_of i) (exec (cfg_of i) s2 AcceptFail) FinalDisarm) Return).
      unfold s2. rewrite !sessions_exec; try exact Logic.I. apply HW. }
    destruct (pendt (t_s t)) as [|g l]; [constructor; auto|].
    destruct (t_dl t <=? t_now t + d); [apply HF | constructor; auto].
Qed.

Lemma trun_V i ops : forall t m, sim i t m -> V i t -> V i (fst (trun i t ops)).
Proof.
  induction ops as [|o ops IH]; intros t m S HV; cbn [trun]; [exact HV|].
  destruct (top_sim i t m o S) as [S1 _]. pose proof (top_V i t m o S HV) as V1.
  destruct (top i t o) as [t1 ok]. cbn [fst] in S1, V1. specialize (IH t1 _ S1 V1).
  destruct (trun i t1 ops) as [t2 ps]. exact IH.
Qed.

Lemma view_of_V i t c :
  V i t -> out_of (t_s t) c = if mem c (t_talked t) then C02.run_conn (i_gate i) (nth c (i_conns i) []) else [].
Proof.
  intros [I HW]. unfold out_of. specialize (HW c). destruct (lookup c (sessions (t_s t))) as [x|] eqn:E.
  - destruct HW as [_ H2]. pose proof (i_sess _ _ I c x E) as HS. cbn [cfg_of cf_gate cf_calls] in HS, H2.
    destruct (mem c (t_talked t)).
    + unfold exh in H2. cbn [cfg_of cf_gate] in H2. rewrite H2, app_nil_r in HS. exact HS.
    + exact H2.
  - now rewrite HW.
Qed.

Lemma model_meets_spec i : spec_ok i (model i) = true.
Proof.
  unfold spec_ok, model.
  destruct (trun_sim i (ops_of i) (tinit i) (minit i) (sim_init i)) as [EP _].
  pose proof (trun_V i (ops_of i) (tinit i) (minit i) (sim_init i) (V_init i)) as HV.
  assert (length (ops_of i) = length (i_ops i)) as HLen by apply map_length.
  destruct (trun i (tinit i) (ops_of i)) as [t ps]. cbn [fst snd] in EP, HV. cbn [o_probes o_views o_alone].
  rewrite EP, (list_eqb_refl probe_safe probe_safe_refl), mrun_length, HLen, Nat.eqb_refl. cbn [andb].
  rewrite map_length. unfold conn_ids. rewrite seq_length, Nat.eqb_refl, andb_true_r.
  apply orb_true_iff. right.
  rewrite (map_ext _ _ (fun c => view_of_V i t c HV)).
  apply list_eqb_refl. intros l. apply list_eqb_refl. apply C02.stream_eqb_refl.
Qed.

Lemma timed_run_is_schedule i ops : forall t, exists es, t_s (fst (trun i t ops)) = run (cfg_of i) (t_s t) es.
Proof.
  induction ops as [|o ops IH]; intros t; cbn [trun]; [now exists []|].
  assert (exists es, t_s (fst (top i t o)) = run (cfg_of i) (t_s t) es) as [es1 E1].
  { destruct o as [c|cs|c|d]; cbn [top fst t_s close_core]; try (eexists; reflexivity).
    { destruct (negb (closed (t_s t)) && negb (mem c (accepted (t_s t)))); cbn [andb]; [|now exists []].
      destruct (negb (t_bound t) && nth (t_hookn t) (i_hook i) false); unfold close_core, set_s; cbn [t_s].
      - exists ([AcceptRet c; Count c] ++ [Done c]). now rewrite run_app.
      - eexists; reflexivity. }
    destruct (pendt (t_s t)) as [|g l]; [now exists []|].
    destruct (t_dl t <=? t_now t + d); [|now exists []].
    exists ([TimerFire g; Callback g] ++ [AcceptFail; FinalDisarm; Return]). unfold settle. now rewrite run_app. }
  destruct (top i t o) as [t1 ok]. cbn [fst] in E1. destruct (IH t1) as [es2 E2].
  destruct (trun i t1 ops) as [t2 ps]. cbn [fst] in *. exists (es1 ++ es2). now rewrite run_app, <- E1.
Qed.

(* ---------- transport details (round-robin talk, per-connection shm segments) are invisible ---------- *)
Definition with_transport (i : input) (shm : list bool) (ops : list iop) : input :=
  {| i_unix := i_unix i; i_idle := i_idle i; i_gate := i_gate i; i_hook := i_hook i; i_shm := shm;
     i_conns := i_conns i; i_ops := ops |}.

Lemma trun_transport i shm ops' ops : forall t, trun (with_transport i shm ops') t ops = trun i t ops.
Proof.
  induction ops as [|o ops IH]; intros t; [reflexivity|]. cbn [trun].
  assert (top (with_transport i shm ops') t o = top i t o) as -> by (destruct o; reflexivity).
  destruct (top i t o) as [t1 ok]. rewrite IH. reflexivity.
Qed.

Lemma transport_invisible i shm ops' :
  map norm_op ops' = map norm_op (i_ops i) -> model (with_transport i shm ops') = model i.
Proof.
  intros H. unfold model, ops_of. rewrite trun_transport. cbn [with_transport i_ops]. rewrite H. reflexivity.
Qed.
