(* Proofs/C26.v — lemmas and proofs for the token introspection route. *)
From VR Require Import Model.C26.
From Coq Require Import ZifyBool ZifyN ZifyNat Lia.
Local Open Scope Z_scope.
Local Arguments N.eqb : simpl never.
Local Arguments N.leb : simpl never.
Local Arguments Z.eqb : simpl never.
Local Arguments Z.leb : simpl never.
Local Arguments Z.ltb : simpl never.
Local Arguments Z.gtb : simpl never.
Local Arguments Z.geb : simpl never.
Local Arguments Z.sub : simpl never.
Local Arguments Z.add : simpl never.

(* ---- constants the proofs depend on (regenerated from the compiled code) ---- *)
Lemma default_rate_pos : 0 < introspect_default_rate.
Proof. reflexivity. Qed.
Lemma eff_rate_pos c : 0 < eff_rate c.
Proof. unfold eff_rate. pose proof default_rate_pos. destruct (c_rate c <=? 0) eqn:E; lia. Qed.
Lemma max_token_pos : 0 < introspect_max_token_chars.
Proof. reflexivity. Qed.
(* the five fixed bodies are pairwise distinct: a caller can tell the refusal
   axes apart, and 404-not-enabled from 404-unresolved *)
Lemma bodies_distinct :
  introspect_body_403 <> introspect_body_404 /\ introspect_body_404 <> introspect_body_not_enabled
  /\ introspect_body_404 <> introspect_body_429 /\ introspect_body_404 <> introspect_body_503.
Proof. repeat split; intro H; apply beqb_eq in H; vm_compute in H; discriminate. Qed.
(* the regular expression the model's automaton was written against *)
Lemma jws_regex_text :
  introspect_jws_regex = str "\A[A-Za-z0-9_-]+\.[A-Za-z0-9_-]+\.[A-Za-z0-9_-]*\z".
Proof. reflexivity. Qed.

Lemma beqb_sym a b : beqb a b = beqb b a.
Proof.
  destruct (beqb a b) eqn:E.
  - apply beqb_eq in E; subst; now rewrite beqb_refl.
  - destruct (beqb b a) eqn:E2; [|reflexivity]. apply beqb_eq in E2; subst. now rewrite beqb_refl in E.
Qed.

(* ---- readIntrospectToken ------------------------------------------------ *)
Lemma read_token_some b t : read_token b = Some t ->
  b_tok b = Some t /\ 0 < blen t <= introspect_max_token_chars
  /\ b_len b <= introspect_max_body_bytes /\ b_clen b <= introspect_max_body_bytes.
Proof.
  unfold read_token.
  destruct (b_clen b >? introspect_max_body_bytes) eqn:E1; [discriminate|].
  destruct (b_len b >? introspect_max_body_bytes) eqn:E2; [discriminate|].
  destruct (b_tok b) as [t'|]; [|discriminate].
  destruct (negb (nonempty t') || (blen t' >? introspect_max_token_chars)) eqn:E3; [discriminate|].
  intro H; inversion H; subst t'. apply orb_false_iff in E3 as [E3 E4].
  repeat split; try lia.
  destruct t; [discriminate|]. unfold blen; cbn [length]. lia.
Qed.

Lemma read_token_body_read b t : read_token b = Some t -> body_is_read b = true.
Proof. intro H. apply read_token_some in H as (_ & _ & _ & H). unfold body_is_read. lia. Qed.

(* ---- per-request facts: one lemma per clause of the property -------------- *)
Definition resp (o : rout) : Z * rbody * option Z := (o_status o, o_body o, o_retry o).

Definition resp_of_answer (a : answer) : Z * rbody * option Z :=
  match a with
  | AnsUnres => (404, BRaw introspect_body_404, None)
  | AnsUnavail r => (503, BRaw introspect_body_503, Some r)
  | AnsIdent p n t => (200, BIdent p n t, None)
  end.

(* the route as a function of (config, limiter, now, authenticator outcome,
   effective answer): no credential text among its arguments *)
Definition handle2 (c : config) (s : lim) (now : Z) (a : auth_out) (ans : answer) : (Z * rbody * option Z) * lim :=
  if negb (enabled c) then ((404, BRaw introspect_body_not_enabled, None), s) else
  match a with
  | AUnavail n => ((503, BAuthLayer, Some (retry_of n)), s)
  | AReject => ((401, BAuthLayer, None), s)
  | AOther => ((500, BAuthLayer, None), s)
  | ACtx au p =>
      if negb (au && allowlisted c p) then ((403, BRaw introspect_body_403, None), s) else
      let '(ok, s') := lim_allow (c_window c) (eff_rate c) now p s in
      if negb ok then ((429, BRaw introspect_body_429, Some 1), s') else (resp_of_answer ans, s')
  end.

Ltac hcases c s q :=
  unfold handle;
  destruct (enabled c) eqn:Een; cbn [negb];
  [ destruct (eff_auth c q) as [au p|n| |] eqn:Eau;
    [ destruct (au && allowlisted c p) eqn:Eal; cbn [negb];
      [ destruct (lim_allow (c_window c) (eff_rate c) (q_now q) p s) as [ok s'] eqn:Elim;
        destruct ok; cbn [negb];
        [ destruct (read_token (q_body q)) as [cred|] eqn:Ert;
          [ destruct (jws_shaped cred) eqn:Ejws;
            [ | destruct (r_err (q_res q)) as [e|] eqn:Eerr;
                [ | destruct (r_ok (q_res q)) eqn:Eok; cbn [negb] ] ]
          | ]
        | ]
      | ]
    | | | ]
  | ].

Lemma handle_factor c s q :
  (resp (fst (handle c s q)), snd (handle c s q)) = handle2 c s (q_now q) (eff_auth c q) (eff_answer c q).
Proof.
  unfold handle2, eff_answer, res_answer. hcases c s q; try reflexivity.
  destruct e; reflexivity.
Qed.

Lemma handle_disabled c s q : enabled c = false ->
  handle c s q = (mk 404 (BRaw introspect_body_not_enabled) None [], s).
Proof. intro H. unfold handle. now rewrite H. Qed.

Lemma tr0_cases c : (if c_has_auth c then [AAuth] else []) = [AAuth] \/ (if c_has_auth c then [AAuth] else []) = [].
Proof. destruct (c_has_auth c); auto. Qed.

Ltac in_trace H :=
  repeat (apply in_app_or in H; destruct H as [H|H]);
  repeat match type of H with
         | In _ (if ?b then _ else _) => destruct b
         | In _ (_ :: _) => destruct H as [H|H]
         | In _ [] => destruct H
         | _ = _ => try discriminate H
         end.

(* callers that may not introspect: no limiter, no body read, no resolver; the
   one fixed 403 when the authenticator produced a context *)
Lemma step_unauthorized c s q : enabled c = true -> authorized c q = false ->
  let o := fst (handle c s q) in
  ~ In ARead (o_trace o) /\ ~ In ALimit (o_trace o) /\ (forall cr, ~ In (AResolve cr) (o_trace o))
  /\ snd (handle c s q) = s
  /\ match eff_auth c q with
     | ACtx _ _ => o_status o = 403 /\ o_body o = BRaw introspect_body_403
     | AUnavail _ => o_status o = 503 /\ o_body o = BAuthLayer
     | AReject => o_status o = 401 /\ o_body o = BAuthLayer
     | AOther => o_status o = 500 /\ o_body o = BAuthLayer
     end.
Proof.
  intros He Ha. unfold authorized in Ha. hcases c s q; try congruence;
    cbn [fst snd mk o_trace o_status o_body];
    (repeat split; [intro H | intro H | intros cr H | .. ]; try reflexivity;
     destruct (c_has_auth c); cbn in H; intuition discriminate).
Qed.

(* the resolver is invoked only by an authorized caller, after the limiter, at
   most once, with the request's own credential, which is usable and not JWS-shaped *)
Lemma step_resolve c s q cr : In (AResolve cr) (o_trace (fst (handle c s q))) ->
  enabled c = true /\ authorized c q = true /\ read_token (q_body q) = Some cr /\ jws_shaped cr = false
  /\ exists pre, o_trace (fst (handle c s q)) = pre ++ [AResolve cr] /\ In ALimit pre
                 /\ forall cr', ~ In (AResolve cr') pre.
Proof.
  unfold authorized. hcases c s q; cbn [fst snd mk o_trace]; intro H;
    destruct (c_has_auth c) eqn:Eha; destruct (body_is_read (q_body q)) eqn:Ebr; cbn [app In] in H;
    try (exfalso; intuition discriminate).
  all: assert (cred = cr) as -> by
    (repeat (destruct H as [H|H]; [first [discriminate H | now inversion H]|]); destruct H).
  all: repeat split; auto.
  all: eexists; split; [reflexivity|]; cbn [app In]; split; [intuition | intros cr' H'; intuition discriminate].
Qed.

(* an authorized caller past the limiter gets exactly the effective answer;
   a refused one reads nothing *)
Lemma step_authorized c s q : enabled c = true -> authorized c q = true ->
  let o := fst (handle c s q) in
  (o_status o = 429 /\ o_body o = BRaw introspect_body_429 /\ ~ In ARead (o_trace o) /\ forall cr, ~ In (AResolve cr) (o_trace o))
  \/ (o_status o <> 429 /\ resp o = resp_of_answer (eff_answer c q)).
Proof.
  intros He Ha. unfold authorized in Ha. unfold eff_answer, res_answer.
  hcases c s q; try congruence; cbn [fst snd mk o_trace o_status o_body resp resp_of_answer];
    try (right; split; [discriminate | try reflexivity; destruct e; reflexivity]).
  left. repeat split; [intro H | intros cr H]; destruct (c_has_auth c); cbn in H; intuition discriminate.
Qed.

(* effect on the limiter *)
Lemma step_limiter c s q pp : enabled c = true -> eff_auth c q = ACtx true pp -> allowlisted c pp = true ->
  snd (handle c s q) = snd (lim_allow (c_window c) (eff_rate c) (q_now q) pp s)
  /\ (o_status (fst (handle c s q)) =? 429) = negb (fst (lim_allow (c_window c) (eff_rate c) (q_now q) pp s)).
Proof.
  intros He Ha Hal. hcases c s q; try congruence; inversion Ha; subst; try (cbn in Eal; congruence);
    rewrite Elim; cbn [fst snd mk o_status negb]; split; reflexivity.
Qed.

(* ---- lifting per-request facts to histories ------------------------------ *)
Lemma run_from_Forall2 c (P : req -> rout -> Prop) :
  (forall s q, P q (fst (handle c s q))) -> forall h s, Forall2 P h (run_from c s h).
Proof.
  intros HP h; induction h as [|q t IH]; intro s; cbn [run_from]; [constructor|].
  specialize (HP s q). destruct (handle c s q) as [o s'] eqn:E. constructor; [exact HP | apply IH].
Qed.

Lemma run_from_length c h : forall s, length (run_from c s h) = length h.
Proof. induction h as [|q t IH]; intro s; cbn [run_from]; [reflexivity|]. destruct (handle c s q). cbn. now rewrite IH. Qed.

(* T1 *)
Lemma disabled_all c h : enabled c = false ->
  Forall (fun o => o_trace o = [] /\ o_status o = 404 /\ o_body o = BRaw introspect_body_not_enabled) (run c h).
Proof.
  intro He. unfold run. generalize lim0. induction h as [|q t IH]; intro s; cbn [run_from]; [constructor|].
  rewrite (handle_disabled c s q He). constructor; [now repeat split | apply IH].
Qed.

(* T2 *)
Definition unauthorized_ok (c : config) (q : req) (o : rout) : Prop :=
  authorized c q = false ->
  ~ In ARead (o_trace o) /\ ~ In ALimit (o_trace o) /\ (forall cr, ~ In (AResolve cr) (o_trace o))
  /\ (forall au p, eff_auth c q = ACtx au p -> o_status o = 403 /\ o_body o = BRaw introspect_body_403)
  /\ ((forall au p, eff_auth c q <> ACtx au p) -> (o_status o = 401 \/ o_status o = 500 \/ o_status o = 503) /\ o_body o = BAuthLayer).

Lemma unauthorized_all c h : enabled c = true -> Forall2 (unauthorized_ok c) h (run c h).
Proof.
  intro He. apply run_from_Forall2. intros s q Ha.
  destruct (step_unauthorized c s q He Ha) as (H1 & H2 & H3 & _ & H5).
  repeat split; auto.
  - rewrite H in H5. apply H5.
  - rewrite H in H5. apply H5.
  - destruct (eff_auth c q) as [au p| | |]; [exfalso; eapply H; reflexivity | | | ]; intuition.
  - destruct (eff_auth c q) as [au p| | |]; [exfalso; eapply H; reflexivity | | | ]; intuition.
Qed.

(* T3 *)
Definition resolve_ok (c : config) (q : req) (o : rout) : Prop :=
  forall cr, In (AResolve cr) (o_trace o) ->
    enabled c = true /\ authorized c q = true
    /\ b_tok (q_body q) = Some cr /\ jws_shaped cr = false
    /\ 0 < blen cr <= introspect_max_token_chars
    /\ b_len (q_body q) <= introspect_max_body_bytes /\ b_clen (q_body q) <= introspect_max_body_bytes
    /\ exists pre, o_trace o = pre ++ [AResolve cr] /\ In ALimit pre /\ forall cr', ~ In (AResolve cr') pre.

Lemma resolve_all c h : Forall2 (resolve_ok c) h (run c h).
Proof.
  apply run_from_Forall2. intros s q cr H.
  destruct (step_resolve c s q cr H) as (H1 & H2 & H3 & H4 & H5).
  destruct (read_token_some _ _ H3) as (H6 & H7 & H8 & H9). repeat split; auto; lia.
Qed.

(* T5 *)
Definition answered_ok (c : config) (q : req) (o : rout) : Prop :=
  authorized c q = true -> o_status o <> 429 -> resp o = resp_of_answer (eff_answer c q).

Lemma answered_all c h : enabled c = true -> Forall2 (answered_ok c) h (run c h).
Proof.
  intro He. apply run_from_Forall2. intros s q Ha Hs.
  destruct (step_authorized c s q He Ha) as [(H & _)|(_ & H)]; [contradiction | exact H].
Qed.

(* T6 *)
Lemma noninterference_from c h1 h2 :
  Forall2 (fun q1 q2 => q_now q1 = q_now q2 /\ eff_auth c q1 = eff_auth c q2 /\ eff_answer c q1 = eff_answer c q2) h1 h2 ->
  forall s, map resp (run_from c s h1) = map resp (run_from c s h2).
Proof.
  induction 1 as [|q1 q2 t1 t2 (Hn & Ha & He) _ IH]; intro s; [reflexivity|].
  cbn [run_from]. pose proof (handle_factor c s q1) as F1. pose proof (handle_factor c s q2) as F2.
  rewrite Hn, Ha, He in F1. rewrite <- F2 in F1.
  destruct (handle c s q1) as [o1 s1]. destruct (handle c s q2) as [o2 s2].
  cbn [fst snd] in F1. assert (Hr : resp o1 = resp o2) by congruence. assert (Hs : s1 = s2) by congruence.
  subst s2. cbn [map]. f_equal; [exact Hr | apply IH].
Qed.

(* ---- T4: the rate bound ---------------------------------------------------- *)
Definition bound (c : config) (s : lim) (who : bytes) (kk k : nat) : Z :=
  if Nat.ltb kk k then 0 else if Nat.eqb kk k then eff_rate c - l_counts s who else eff_rate c.

Lemma authorized_ctx c q : authorized c q = true ->
  exists p, eff_auth c q = ACtx true p /\ allowlisted c p = true /\ caller c q = p.
Proof.
  unfold authorized, caller. destruct (eff_auth c q) as [au p| | |]; try discriminate.
  intro H. apply andb_true_iff in H as [H1 H2]. subst. now exists p.
Qed.

Lemma rate_gen c : forall h s ws k,
  l_ws s = ws -> (forall who, 0 <= l_counts s who <= eff_rate c) ->
  forall who kk, count_adm c who kk h (run_from c s h) (windows c ws k h) <= bound c s who kk k.
Proof.
  pose proof (eff_rate_pos c) as Hr.
  induction h as [|q t IH]; intros s ws k Hws Hc who kk.
  - cbn [count_adm run_from windows]. unfold bound. specialize (Hc who).
    destruct (Nat.ltb kk k); [lia|]. destruct (Nat.eqb kk k); lia.
  - cbn [run_from windows].
    destruct (enabled c && authorized c q) eqn:Eea.
    + apply andb_true_iff in Eea as [Een Eau].
      destruct (authorized_ctx c q Eau) as (p & Hctx & Hal & Hcaller).
      destruct (step_limiter c s q p Een Hctx Hal) as [Hs Hst].
      destruct (handle c s q) as [o s'] eqn:Eh. cbn [fst snd] in Hs, Hst.
      cbn [count_adm]. unfold admitted. rewrite Een, Eau, Hcaller. cbn [andb].
      unfold lim_allow in Hs, Hst. unfold lim_roll, lim_reset in Hs, Hst. rewrite Hws in Hs, Hst.
      set (reset := match ws with None => true | Some w => q_now q - w >=? c_window c end) in *.
      destruct reset eqn:Ereset; cbn [l_counts l_ws] in Hs, Hst.
      * (* a new window starts: counts are zero *)
        assert (E0 : (0 >=? eff_rate c) = false) by lia. rewrite E0 in Hs, Hst. cbn [fst snd negb] in Hs, Hst.
        specialize (IH s' (Some (q_now q)) (S k)).
        assert (Hws' : l_ws s' = Some (q_now q)) by (subst s'; reflexivity).
        assert (Hc' : forall w, 0 <= l_counts s' w <= eff_rate c).
        { intro w. subst s'. cbn [l_counts]. unfold upd. destruct (beqb w p); lia. }
        specialize (IH Hws' Hc' who kk). unfold bound in *. specialize (Hc who).
        assert (Hcw : l_counts s' who = if beqb p who then 1 else 0).
        { subst s'. cbn [l_counts]. unfold upd. rewrite (beqb_sym who p). destruct (beqb p who); lia. }
        rewrite Hcw in IH. rewrite Hst. cbn [negb andb].
        destruct (Nat.ltb kk k) eqn:E1; destruct (Nat.eqb kk k) eqn:E2;
          destruct (Nat.ltb kk (S k)) eqn:E3; destruct (Nat.eqb kk (S k)) eqn:E4;
          destruct (Nat.eqb (S k) kk) eqn:E5; destruct (beqb p who); cbn [andb] in *; lia.
      * (* same window *)
        destruct (l_counts s p >=? eff_rate c) eqn:Efull; cbn [fst snd negb] in Hs, Hst.
        -- specialize (IH s' ws k). assert (Hws' : l_ws s' = ws) by (subst s'; assumption).
           assert (Hc' : forall w, 0 <= l_counts s' w <= eff_rate c) by (subst s'; assumption).
           specialize (IH Hws' Hc' who kk). rewrite Hst. subst s'. cbn [negb andb]. lia.
        -- specialize (IH s' ws k). assert (Hws' : l_ws s' = ws) by (subst s'; assumption).
           assert (Hc' : forall w, 0 <= l_counts s' w <= eff_rate c).
           { intro w. subst s'. cbn [l_counts]. unfold upd. pose proof (Hc w). pose proof (Hc p).
             destruct (beqb w p); lia. }
           specialize (IH Hws' Hc' who kk). unfold bound in *. specialize (Hc who).
           assert (Hcw : l_counts s' who = l_counts s who + if beqb p who then 1 else 0).
           { subst s'. cbn [l_counts]. unfold upd. rewrite (beqb_sym who p).
             destruct (beqb p who) eqn:Eb; [apply beqb_eq in Eb; subst; lia | lia]. }
           rewrite Hcw in IH. rewrite Hst. cbn [negb andb].
           destruct (Nat.ltb kk k) eqn:E1; destruct (Nat.eqb kk k) eqn:E2;
             destruct (Nat.eqb k kk) eqn:E5; destruct (beqb p who); cbn [andb] in *; lia.
    + (* this request does not reach the limiter *)
      assert (Hs : snd (handle c s q) = s).
      { destruct (enabled c) eqn:Een.
        - cbn [andb] in Eea. now destruct (step_unauthorized c s q Een Eea) as (_ & _ & _ & H & _).
        - now rewrite (handle_disabled c s q Een). }
      destruct (handle c s q) as [o s'] eqn:Eh. cbn [snd] in Hs. subst s'.
      cbn [count_adm]. unfold admitted.
      replace (enabled c && authorized c q && negb (o_status o =? 429)) with false
        by (rewrite Eea; reflexivity).
      cbn [andb]. specialize (IH s ws k Hws Hc who kk). lia.
Qed.

Lemma rate_bound c h who kk :
  count_adm c who kk h (run c h) (windows c None O h) <= eff_rate c.
Proof.
  pose proof (eff_rate_pos c) as Hr.
  pose proof (rate_gen c h lim0 None O eq_refl) as H.
  assert (Hc : forall w, 0 <= l_counts lim0 w <= eff_rate c) by (intro; cbn; lia).
  specialize (H Hc who kk). unfold run. unfold bound in H. cbn [l_counts lim0] in H.
  destruct (Nat.ltb kk 0); [lia|]. destruct (Nat.eqb kk 0); lia.
Qed.

(* ---- T7: the model satisfies the decidable form of the property ----------- *)
Lemma z404 : (404 =? 429) = false. Proof. reflexivity. Qed.
Lemma z503 : (503 =? 429) = false. Proof. reflexivity. Qed.
Lemma z200 : (200 =? 429) = false. Proof. reflexivity. Qed.

Lemma step_spec c s q : spec_req c q (fst (handle c s q)) = true.
Proof.
  unfold spec_req, authorized, eff_answer, res_answer.
  hcases c s q; cbn [fst mk o_leak o_status o_body o_trace negb andb rbody_eqb];
    destruct (c_has_auth c); destruct (body_is_read (q_body q));
    cbn [app existsb is_subject is_limit is_resolve resolves_ok orb negb andb];
    rewrite ?Ert, ?Ejws, ?Z.eqb_refl, ?beqb_refl, ?z404, ?z503, ?z200; cbn [negb andb]; try reflexivity.
  all: try (destruct e; reflexivity).
  all: destruct (read_token_some _ _ Ert) as (_ & Hlen & _).
  all: replace (0 <? blen cred) with true by lia;
       replace (blen cred <=? introspect_max_token_chars) with true by lia; cbn [andb]; try reflexivity.
  all: try (destruct e; reflexivity).
Qed.

Lemma spec_reqs_run c : forall h s, spec_reqs c h (run_from c s h) = true.
Proof.
  induction h as [|q t IH]; intro s; cbn [run_from spec_reqs]; [reflexivity|].
  pose proof (step_spec c s q) as H. destruct (handle c s q) as [o s']. cbn [fst] in H.
  cbn [spec_reqs]. now rewrite H, IH.
Qed.

Lemma rate_ok_all c h0 os0 ws0 :
  (forall who kk, count_adm c who kk h0 os0 ws0 <= eff_rate c) ->
  forall h ws, rate_ok_at c h0 os0 ws0 h ws = true.
Proof.
  intro H. induction h as [|q t IH]; intros [|w ws]; cbn [rate_ok_at]; try reflexivity.
  apply andb_true_iff; split; [apply Z.leb_le; apply H | apply IH].
Qed.

Lemma model_meets_spec : forall i, spec_ok i (model i) = true.
Proof.
  intro i. unfold spec_ok, model. cbn [o_enable_err o_outs].
  rewrite Bool.eqb_reflx. unfold run at 1. rewrite spec_reqs_run. cbn [andb].
  apply rate_ok_all. intros who kk. apply rate_bound.
Qed.

(* ---- T8: with a non-decreasing clock the windows are real time intervals ---- *)
(* the start of the window governing each request (None before the limiter is first consulted) *)
Fixpoint wstarts (c : config) (ws : option Z) (h : list req) : list (option Z) :=
  match h with
  | [] => []
  | q :: t =>
      if enabled c && authorized c q then
        let reset := match ws with None => true | Some w => q_now q - w >=? c_window c end in
        let ws' := if reset then Some (q_now q) else ws in
        ws' :: wstarts c ws' t
      else ws :: wstarts c ws t
  end.

Fixpoint nondecreasing (lo : Z) (h : list req) : Prop :=
  match h with [] => True | q :: t => lo <= q_now q /\ nondecreasing (q_now q) t end.

Fixpoint count_at (c : config) (who : bytes) (w0 : Z) (h : list req) (os : list rout) (ws : list (option Z)) : Z :=
  match h, os, ws with
  | q :: h', o :: os', w :: ws' =>
      (if admitted c q o && beqb (caller c q) who && opt_eqb Z.eqb w (Some w0) then 1 else 0)
      + count_at c who w0 h' os' ws'
  | _, _, _ => 0
  end.

Definition bound_t (c : config) (s : lim) (who : bytes) (w0 : Z) (ws : option Z) : Z :=
  match ws with
  | None => eff_rate c
  | Some w => if w0 <? w then 0 else if w0 =? w then eff_rate c - l_counts s who else eff_rate c
  end.

Lemma rate_gen_t c : 0 < c_window c -> forall h s ws lo,
  l_ws s = ws -> (forall who, 0 <= l_counts s who <= eff_rate c) ->
  (forall w, ws = Some w -> w <= lo) -> nondecreasing lo h ->
  forall who w0, count_at c who w0 h (run_from c s h) (wstarts c ws h) <= bound_t c s who w0 ws.
Proof.
  intro HW. pose proof (eff_rate_pos c) as Hr.
  induction h as [|q t IH]; intros s ws lo Hws Hc Hlo Hmono who w0.
  - cbn [count_at run_from wstarts]. unfold bound_t. specialize (Hc who).
    destruct ws as [w|]; [|lia]. destruct (w0 <? w); [lia|]. destruct (w0 =? w); lia.
  - cbn [nondecreasing] in Hmono. destruct Hmono as [Hq Hmono].
    cbn [run_from wstarts].
    destruct (enabled c && authorized c q) eqn:Eea.
    + apply andb_true_iff in Eea as [Een Eau].
      destruct (authorized_ctx c q Eau) as (p & Hctx & Hal & Hcaller).
      destruct (step_limiter c s q p Een Hctx Hal) as [Hs Hst].
      destruct (handle c s q) as [o s'] eqn:Eh. cbn [fst snd] in Hs, Hst.
      cbn [count_at]. unfold admitted. rewrite Een, Eau, Hcaller. cbn [andb].
      unfold lim_allow in Hs, Hst. unfold lim_roll, lim_reset in Hs, Hst. rewrite Hws in Hs, Hst.
      assert (Hfresh : forall s0, s0 = {| l_ws := Some (q_now q); l_counts := upd (fun _ => 0) p (0 + 1) |} ->
                l_ws s0 = Some (q_now q) /\ (forall w, 0 <= l_counts s0 w <= eff_rate c)
                /\ l_counts s0 who = if beqb p who then 1 else 0).
      { intros s0 ->. cbn [l_ws l_counts]. unfold upd. rewrite (beqb_sym who p).
        repeat split; try (destruct (beqb w p); lia); destruct (beqb p who); lia. }
      assert (E0 : (0 >=? eff_rate c) = false) by lia.
      destruct ws as [w|].
      * specialize (Hlo w eq_refl).
        destruct (q_now q - w >=? c_window c) eqn:Ereset; cbn [l_counts l_ws] in Hs, Hst.
        -- rewrite E0 in Hs, Hst. cbn [fst snd negb] in Hs, Hst.
           destruct (Hfresh s' Hs) as (Hws' & Hc' & Hcw).
           assert (Hlo' : forall w1, Some (q_now q) = Some w1 -> w1 <= q_now q) by (intros w1 E; inversion E; lia).
           specialize (IH s' (Some (q_now q)) (q_now q) Hws' Hc' Hlo' Hmono who w0).
           unfold bound_t in *. rewrite Hcw in IH. rewrite Hst. cbn [negb andb opt_eqb]. specialize (Hc who).
           destruct (w0 <? w) eqn:E1; destruct (w0 =? w) eqn:E2; destruct (w0 <? q_now q) eqn:E3;
             destruct (w0 =? q_now q) eqn:E4; destruct (q_now q =? w0) eqn:E5; destruct (beqb p who);
             cbn [andb] in *; lia.
        -- destruct (l_counts s p >=? eff_rate c) eqn:Efull; cbn [fst snd negb] in Hs, Hst.
           ++ assert (Hlo' : forall w1, Some w = Some w1 -> w1 <= q_now q) by (intros w1 E; inversion E; lia).
              assert (Hws' : l_ws s' = Some w) by (subst s'; assumption).
              assert (Hc' : forall w1, 0 <= l_counts s' w1 <= eff_rate c) by (subst s'; assumption).
              specialize (IH s' (Some w) (q_now q) Hws' Hc' Hlo' Hmono who w0).
              rewrite Hst. subst s'. cbn [negb andb]. lia.
           ++ assert (Hlo' : forall w1, Some w = Some w1 -> w1 <= q_now q) by (intros w1 E; inversion E; lia).
              assert (Hws' : l_ws s' = Some w) by (subst s'; assumption).
              assert (Hc' : forall w1, 0 <= l_counts s' w1 <= eff_rate c).
              { intro w1. subst s'. cbn [l_counts]. unfold upd. pose proof (Hc w1). pose proof (Hc p).
                destruct (beqb w1 p); lia. }
              specialize (IH s' (Some w) (q_now q) Hws' Hc' Hlo' Hmono who w0).
              assert (Hcw : l_counts s' who = l_counts s who + if beqb p who then 1 else 0).
              { subst s'. cbn [l_counts]. unfold upd. rewrite (beqb_sym who p).
                destruct (beqb p who) eqn:Eb; [apply beqb_eq in Eb; subst; lia | lia]. }
              unfold bound_t in *. rewrite Hcw in IH. rewrite Hst. cbn [negb andb opt_eqb]. specialize (Hc who).
              destruct (w0 <? w) eqn:E1; destruct (w0 =? w) eqn:E2; destruct (w =? w0) eqn:E5;
                destruct (beqb p who); cbn [andb] in *; lia.
      * cbn [l_counts l_ws] in Hs, Hst. rewrite E0 in Hs, Hst. cbn [fst snd negb] in Hs, Hst.
        destruct (Hfresh s' Hs) as (Hws' & Hc' & Hcw).
        assert (Hlo' : forall w1, Some (q_now q) = Some w1 -> w1 <= q_now q) by (intros w1 E; inversion E; lia).
        specialize (IH s' (Some (q_now q)) (q_now q) Hws' Hc' Hlo' Hmono who w0).
        unfold bound_t in *. rewrite Hcw in IH. rewrite Hst. cbn [negb andb opt_eqb].
        destruct (w0 <? q_now q) eqn:E3; destruct (w0 =? q_now q) eqn:E4; destruct (q_now q =? w0) eqn:E5;
          destruct (beqb p who); cbn [andb] in *; lia.
    + assert (Hs : snd (handle c s q) = s).
      { destruct (enabled c) eqn:Een.
        - cbn [andb] in Eea. now destruct (step_unauthorized c s q Een Eea) as (_ & _ & _ & H & _).
        - now rewrite (handle_disabled c s q Een). }
      destruct (handle c s q) as [o s'] eqn:Eh. cbn [snd] in Hs. subst s'.
      cbn [count_at]. unfold admitted.
      replace (enabled c && authorized c q && negb (o_status o =? 429)) with false by (rewrite Eea; reflexivity).
      cbn [andb].
      assert (Hlo' : forall w1, ws = Some w1 -> w1 <= q_now q) by (intros w1 E; specialize (Hlo w1 E); lia).
      specialize (IH s ws (q_now q) Hws Hc Hlo' Hmono who w0). lia.
Qed.

Lemma rate_bound_t c h lo who w0 : 0 < c_window c -> nondecreasing lo h ->
  count_at c who w0 h (run c h) (wstarts c None h) <= eff_rate c.
Proof.
  intros HW Hm. pose proof (eff_rate_pos c) as Hr.
  assert (Hc : forall w, 0 <= l_counts lim0 w <= eff_rate c) by (intro; cbn; lia).
  assert (Hlo : forall w, @None Z = Some w -> w <= lo) by discriminate.
  exact (rate_gen_t c HW h lim0 None lo eq_refl Hc Hlo Hm who w0).
Qed.

(* every request that reaches the limiter lies inside the window that governs it *)
Lemma wstarts_interval c : 0 < c_window c -> forall h ws lo,
  (forall w, ws = Some w -> w <= lo) -> nondecreasing lo h ->
  Forall2 (fun q w' => enabled c && authorized c q = true ->
                       exists w, w' = Some w /\ w <= q_now q < w + c_window c) h (wstarts c ws h).
Proof.
  intro HW. induction h as [|q t IH]; intros ws lo Hlo Hm; cbn [wstarts]; [constructor|].
  cbn [nondecreasing] in Hm. destruct Hm as [Hq Hm].
  destruct (enabled c && authorized c q) eqn:Eea.
  - destruct ws as [w|].
    + specialize (Hlo w eq_refl). destruct (q_now q - w >=? c_window c) eqn:Er.
      * constructor; [intros _; exists (q_now q); split; [reflexivity | lia] |].
        apply (IH _ (q_now q)); [intros w1 E; inversion E; lia | exact Hm].
      * constructor; [intros _; exists w; split; [reflexivity | lia] |].
        apply (IH _ (q_now q)); [intros w1 E; inversion E; lia | exact Hm].
    + constructor; [intros _; exists (q_now q); split; [reflexivity | lia] |].
      apply (IH _ (q_now q)); [intros w1 E; inversion E; lia | exact Hm].
  - constructor; [intro E; rewrite Eea in E; discriminate E |].
    apply (IH _ (q_now q)); [intros w1 E; specialize (Hlo w1 E); lia | exact Hm].
Qed.

(* ---- the automaton accepts every three-segment base64url string ------------- *)
Lemma loop_b64 st : (st = J1 \/ st = J3 \/ st = J4) ->
  forall a, forallb b64url a = true -> fold_left jstep a st = st.
Proof.
  intros Hst a; induction a as [|x a IH]; cbn [fold_left forallb]; [reflexivity|].
  intro H. apply andb_true_iff in H as [Hx Ha].
  replace (jstep st x) with st by (destruct Hst as [->|[->| ->]]; cbn [jstep]; now rewrite Hx).
  now apply IH.
Qed.

Lemma enter_b64 st st' : (st = J0 /\ st' = J1) \/ (st = J2 /\ st' = J3) ->
  forall a, a <> [] -> forallb b64url a = true -> fold_left jstep a st = st'.
Proof.
  intros Hst [|x a] Hne; [congruence|]. cbn [fold_left forallb]. intro H.
  apply andb_true_iff in H as [Hx Ha].
  replace (jstep st x) with st' by (destruct Hst as [[-> ->]|[-> ->]]; cbn [jstep]; now rewrite Hx).
  apply loop_b64; [destruct Hst as [[_ ->]|[_ ->]]; auto | exact Ha].
Qed.

Lemma jws_complete a b d :
  a <> [] -> b <> [] -> forallb b64url a = true -> forallb b64url b = true -> forallb b64url d = true ->
  jws_shaped (a ++ [DOT] ++ b ++ [DOT] ++ d) = true.
Proof.
  intros Ha Hb Fa Fb Fd. unfold jws_shaped. rewrite !fold_left_app.
  rewrite (enter_b64 J0 J1) by auto. cbn [fold_left]. change (jstep J1 DOT) with J2.
  rewrite (enter_b64 J2 J3) by auto. change (jstep J3 DOT) with J4.
  rewrite (loop_b64 J4) by auto. reflexivity.
Qed.

(* and nothing with a byte outside the alphabet, or with another number of dots *)
Lemma jws_sound_chars s : jws_shaped s = true -> forallb (fun x => b64url x || N.eqb x DOT) s = true.
Proof.
  unfold jws_shaped. generalize J0. induction s as [|x s IH]; intro st; cbn [fold_left forallb]; [reflexivity|].
  intro H. assert (Hx : jstep st x <> JX).
  { intro E. rewrite E in H. clear -H. induction s as [|y s IHs]; cbn in H; [discriminate | auto]. }
  apply andb_true_iff; split; [| apply (IH _ H)].
  destruct st; cbn [jstep] in Hx; destruct (b64url x); cbn [orb]; try reflexivity;
    try (destruct (N.eqb x DOT); [reflexivity | congruence]); congruence.
Qed.

(* ---- corollaries in the form the property file states ---------------------- *)
Lemma noninterference c h1 h2 :
  Forall2 (fun q1 q2 => q_now q1 = q_now q2 /\ q_auth q1 = q_auth q2 /\ eff_answer c q1 = eff_answer c q2) h1 h2 ->
  map resp (run c h1) = map resp (run c h2).
Proof.
  intro H. apply noninterference_from.
  induction H as [|q1 q2 t1 t2 (Hn & Ha & He) _ IH]; constructor; [|exact IH].
  repeat split; auto. unfold eff_auth. now rewrite Ha.
Qed.

Definition unresolvable (q : req) : Prop :=
  read_token (q_body q) = None
  \/ (exists cr, read_token (q_body q) = Some cr /\ jws_shaped cr = true)
  \/ (r_err (q_res q) = None /\ r_ok (q_res q) = false).

Lemma unresolvable_answer c q : unresolvable q -> eff_answer c q = AnsUnres.
Proof.
  unfold eff_answer, res_answer. intros [H|[(cr & H & J)|(H & K)]].
  - now rewrite H.
  - now rewrite H, J.
  - destruct (read_token (q_body q)) as [cr|]; [|reflexivity].
    destruct (jws_shaped cr); [reflexivity|]. now rewrite H, K.
Qed.

Lemma unresolved_all c h : enabled c = true ->
  Forall2 (fun q o => authorized c q = true -> o_status o <> 429 -> unresolvable q ->
                      o_status o = 404 /\ o_body o = BRaw introspect_body_404 /\ o_retry o = None) h (run c h).
Proof.
  intro He. apply run_from_Forall2. intros s q Ha Hs Hu.
  destruct (step_authorized c s q He Ha) as [(H & _)|(_ & H)]; [contradiction|].
  rewrite (unresolvable_answer c q Hu) in H. unfold resp, resp_of_answer in H. inversion H. auto.
Qed.

(* the fixed window is not a sliding one: two admissions of one caller one tick
   apart with rate 1 (the code comments say as much) *)
Definition sl_cfg : config :=
  {| c_call_enable := true; c_has_resolver := true; c_principals := [str "a"; str "b"];
     c_default_ttl := 0; c_rate := 1; c_has_auth := true; c_window := 10 |}.
Definition sl_req (now : Z) (who : bytes) : req :=
  {| q_now := now; q_auth := ACtx true who;
     q_body := {| b_clen := 20; b_len := 20; b_tok := Some (str "opaque") |};
     q_res := {| r_err := None; r_ok := true; r_princ := str "subj"; r_name := str "n"; r_ttl := 0 |} |}.
Definition sl_hist : list req := [sl_req 0 (str "b"); sl_req 9 (str "a"); sl_req 10 (str "a")].

Lemma sliding_refuted :
  nondecreasing 0 sl_hist /\ 0 < c_window sl_cfg /\ eff_rate sl_cfg = 1
  /\ map o_status (run sl_cfg sl_hist) = [200; 200; 200]
  /\ map (caller sl_cfg) sl_hist = [str "b"; str "a"; str "a"]
  /\ 10 - 9 < c_window sl_cfg.
Proof. cbn [nondecreasing sl_hist sl_req q_now]. repeat split; try lia; vm_compute; reflexivity. Qed.

Lemma rate_time_window c h lo : 0 < c_window c -> nondecreasing lo h ->
  (forall who w, count_at c who w h (run c h) (wstarts c None h) <= eff_rate c)
  /\ Forall2 (fun q w' => enabled c && authorized c q = true ->
                          exists w, w' = Some w /\ w <= q_now q < w + c_window c)
             h (wstarts c None h).
Proof.
  intros HW Hm. split.
  - intros who w. exact (rate_bound_t c h lo who w HW Hm).
  - apply (wstarts_interval c HW h None lo); [discriminate | exact Hm].
Qed.

Lemma sliding_refuted_ex :
  exists c h, nondecreasing 0 h /\ 0 < c_window c /\ eff_rate c = 1
    /\ map o_status (run c h) = [200; 200; 200]
    /\ map (caller c) h = [str "b"; str "a"; str "a"] /\ map q_now h = [0; 9; 10].
Proof.
  exists sl_cfg, sl_hist. destruct sliding_refuted as (H1 & H2 & H3 & H4 & H5 & _).
  split; [exact H1|]. split; [exact H2|]. split; [exact H3|]. split; [exact H4|]. split; [exact H5 | reflexivity].
Qed.
