(* Proofs/C02.v — the reader-level serve loop equals the per-call model on every
   history whose calls are in frame; shape of each response; the decidable spec
   holds on the model; refutations of the pre-fix variants. *)
From VR Require Import Model.C02.
From Coq Require Import ZifyBool ZifyN ZifyNat.
Local Arguments N.eqb : simpl never.
Local Arguments Z.add : simpl never.
Local Arguments beqb : simpl never.
Open Scope N_scope.

(* ---------- one serveOne step on the request a client wrote --------------------- *)

Definition step_matches (r : req) (o : outcome) (a : action) : Prop :=
  match a with
  | Stop => False
  | Reply out => consumes_input o = false /\ header_stream r o = [] /\ forall ins, out = [data_stream r o ins]
  | ReplyDrain out => consumes_input o = true /\ header_stream r o = [] /\ forall ins, out = [data_stream r o ins]
  | ReplyRun pre k => consumes_input o = true /\ pre = header_stream r o
                      /\ forall ins, k (encode_inputs ins) = data_stream r o ins
  end.

Lemma step_spec g r : step_matches r (classify g r) (step current g (encode_req r)).
Proof.
  destruct r as [mf ver pv ptr sh rows x id ex sc].
  unfold step, read_request, classify, encode_req, is_ptr, req_is_ptr, params_ok.
  cbn [cs_batches cs_shape cb_meta cb_rows cb_vals m_method m_ver m_pv m_ptr m_reqid m_script
       r_method r_ver r_pv r_ptr r_shape r_rows r_x r_reqid r_script hd].
  destruct mf as [| |m]; [cbn; auto | cbn; auto |].
  destruct ver; [cbn; auto | | cbn; auto].
  destruct (has_fields sh && negb (rows =? 1) && negb ((rows =? 0) && ptr)) eqn:Hrows; [cbn; auto|].
  cbn [cs_batches cs_shape cb_meta cb_rows cb_vals m_method m_ver m_pv m_ptr m_reqid m_script hd].
  destruct ((rows =? 0) && ptr) eqn:Hptr.
  { destruct m; cbn; auto. }
  destruct m; cbn [lookup]; try (cbn; auto; fail);
    (destruct (g && negb match pv with PVSame => true | _ => false end) eqn:Hg; [cbn; auto|]);
    (destruct sh; cbn [negb]; try (cbn; auto; fail));
    try (cbn; auto; fail);
    destruct sc as [logs fail nil val hdr turns]; cbn [sc_fail sc_nil sc_header sc_logs sc_turns];
    (destruct fail; [cbn; auto|]); (destruct nil; [cbn; auto|]);
    try (destruct hdr); cbn; auto.
Qed.

(* ---------- stays in frame ------------------------------------------------------- *)

Lemma in_frame_unary g r : in_frame g (Unary r) = true -> consumes_input (classify g r) = false.
Proof. unfold in_frame; cbn. now destruct (consumes_input (classify g r)). Qed.

Lemma in_frame_stream g r ins : in_frame g (Stream r ins) = true -> consumes_input (classify g r) = true.
Proof. unfold in_frame; cbn. now destruct (consumes_input (classify g r)). Qed.

(* One in-frame call in front of ANY continuation of the connection input: the
   server answers it with serve_call and is left exactly at the continuation. *)
Lemma serve_flat_call g c ws :
  in_frame g c = true ->
  serve_flat current g (client_writes_call c ++ ws) = serve_call g c ++ serve_flat current g ws.
Proof.
  intros Hf. destruct c as [r | r ins]; unfold serve_call; cbn [client_writes_call call_req call_inputs app].
  - apply in_frame_unary in Hf. cbn [serve_flat].
    pose proof (step_spec g r) as S. destruct (step current g (encode_req r)) as [|out|out|pre k]; cbn [step_matches] in S.
    + contradiction.
    + destruct S as (_ & Hh & Hd). now rewrite Hh, (Hd no_inputs).
    + destruct S as (Hc & _). congruence.
    + destruct S as (Hc & _). congruence.
  - apply in_frame_stream in Hf. cbn [serve_flat].
    pose proof (step_spec g r) as S. destruct (step current g (encode_req r)) as [|out|out|pre k]; cbn [step_matches] in S.
    + contradiction.
    + destruct S as (Hc & _). congruence.
    + destruct S as (_ & Hh & Hd). now rewrite Hh, (Hd ins).
    + destruct S as (_ & Hp & Hk). rewrite Hp, Hk. now rewrite <- app_assoc.
Qed.

Lemma client_writes_cons c cs : client_writes (c :: cs) = client_writes_call c ++ client_writes cs.
Proof. reflexivity. Qed.

Lemma client_writes_app h1 h2 : client_writes (h1 ++ h2) = client_writes h1 ++ client_writes h2.
Proof. unfold client_writes. now rewrite map_app, concat_app. Qed.

Lemma serve_loop_app g h1 h2 : serve_loop g (h1 ++ h2) = serve_loop g h1 ++ serve_loop g h2.
Proof. unfold serve_loop. now rewrite map_app, concat_app. Qed.

(* the general form: an in-frame prefix followed by arbitrary client bytes *)
Lemma serve_flat_prefix g h ws :
  Forall (fun c => in_frame g c = true) h ->
  serve_flat current g (client_writes h ++ ws) = serve_loop g h ++ serve_flat current g ws.
Proof.
  induction 1 as [|c cs Hc _ IH]; [reflexivity|].
  rewrite client_writes_cons, <- app_assoc, serve_flat_call by exact Hc.
  rewrite IH. unfold serve_loop. cbn [map concat]. now rewrite app_assoc.
Qed.

Lemma stays_in_frame g h :
  Forall (fun c => in_frame g c = true) h ->
  serve_flat current g (client_writes h) = serve_loop g h.
Proof.
  intros H. rewrite <- (app_nil_r (client_writes h)), serve_flat_prefix by exact H.
  cbn [serve_flat]. apply app_nil_r.
Qed.

Lemma next_request_unaffected g h1 h2 :
  Forall (fun c => in_frame g c = true) h1 ->
  serve_flat current g (client_writes (h1 ++ h2)) = serve_loop g h1 ++ serve_flat current g (client_writes h2).
Proof. intros H. rewrite client_writes_app. now apply serve_flat_prefix. Qed.

(* ---------- which calls are in frame --------------------------------------------- *)

Lemma consumes_iff g r :
  consumes_input (classify g r) = routed r && is_stream_method (r_method r).
Proof.
  destruct r as [mf ver pv ptr sh rows x id ex sc].
  unfold classify, routed, is_stream_method, req_is_ptr.
  cbn [r_method r_ver r_pv r_ptr r_shape r_rows r_script].
  destruct mf as [| |m]; [reflexivity | reflexivity |].
  destruct ver; [reflexivity | | reflexivity].
  destruct sh, (rows =? 1) eqn:H1, (rows =? 0) eqn:H0, ptr; cbn [has_fields negb andb orb];
    try lia;
    destruct m; cbn [lookup consumes_input andb]; try reflexivity;
    destruct (g && negb match pv with PVSame => true | _ => false end); cbn [consumes_input negb]; try reflexivity;
    destruct (sc_fail sc); try reflexivity; destruct (sc_nil sc); reflexivity.
Qed.

Lemma in_scope_in_frame g c : in_scope c = true -> in_frame g c = true.
Proof.
  unfold in_frame, in_scope. destruct c as [r|r ins]; cbn [is_stream_call call_req]; rewrite consumes_iff; intros H.
  - now destruct (routed r && is_stream_method (r_method r)).
  - now rewrite H.
Qed.

Lemma in_frame_in_scope g c : in_frame g c = true -> in_scope c = true.
Proof.
  unfold in_frame, in_scope. destruct c as [r|r ins]; cbn [is_stream_call call_req]; rewrite consumes_iff;
    now destruct (routed r && is_stream_method (r_method r)).
Qed.

Lemma scope_forall g cs : forallb in_scope cs = true -> Forall (fun c => in_frame g c = true) cs.
Proof.
  intros H. apply Forall_forall. intros c Hc. apply in_scope_in_frame.
  rewrite forallb_forall in H. now apply H.
Qed.

(* ---------- frames of one response ------------------------------------------------ *)

Definition noexc (fs : list frame) : bool := forallb (fun f => negb (is_exc f)) fs.

Lemma eol_app_noexc a b : noexc a = true -> b <> [] -> exc_only_last (a ++ b) = exc_only_last b.
Proof.
  intros Ha Hb. induction a as [|f a IH]; [reflexivity|].
  cbn [noexc forallb] in Ha. apply andb_true_iff in Ha as [Hf Ha].
  cbn [app exc_only_last]. destruct (a ++ b) eqn:E.
  - destruct a; [cbn in E; congruence | discriminate].
  - rewrite Hf. cbn [andb]. now apply IH.
Qed.

Lemma eol_noexc a : noexc a = true -> exc_only_last a = true.
Proof.
  induction a as [|f a IH]; [reflexivity|]. cbn [noexc forallb]. intros H.
  apply andb_true_iff in H as [Hf Ha]. cbn [exc_only_last]. destruct a; [reflexivity|].
  rewrite Hf. now apply IH.
Qed.

Lemma eol_snoc a f : noexc a = true -> exc_only_last (a ++ [f]) = true.
Proof. intros H. rewrite eol_app_noexc by (auto; discriminate). reflexivity. Qed.

Lemma noexc_app a b : noexc (a ++ b) = noexc a && noexc b.
Proof. apply forallb_app. Qed.

Lemma log_noexc id l : noexc (log_frames id l) = true.
Proof. induction l; [reflexivity|]. cbn. exact IHl. Qed.

Lemma log_reqid id id' l : id' = id \/ id' = [] -> forallb (frame_reqid_ok id) (log_frames id' l) = true.
Proof.
  intros H. induction l as [|m l IH]; [reflexivity|].
  cbn [log_frames map forallb frame_reqid_ok]. fold (log_frames id' l). rewrite IH, andb_true_r.
  destruct H as [-> | ->]; rewrite beqb_refl; [reflexivity | apply orb_true_r].
Qed.

Lemma count_app {A} (p : A -> bool) a b : count p (a ++ b) = (count p a + count p b)%nat.
Proof. unfold count. now rewrite filter_app, app_length. Qed.

Lemma log_count id l : count is_final (log_frames id l) = 0%nat.
Proof. induction l; [reflexivity|]. cbn. exact IHl. Qed.

Lemma exc_reqid id ty k : frame_reqid_ok id (exc_frame ty k id) = true.
Proof. cbn [frame_reqid_ok exc_frame]. now rewrite beqb_refl. Qed.

Lemma exc_reqid_nil id ty k : frame_reqid_ok id (exc_frame ty k []) = true.
Proof. cbn [frame_reqid_ok exc_frame]. rewrite (beqb_refl []). apply orb_true_r. Qed.

(* one Produce / Exchange call *)
Lemma run_turn_ok e id t s :
  forallb (frame_reqid_ok id) (fst (run_turn e id t s)) = true
  /\ (if snd (run_turn e id t s) then noexc (fst (run_turn e id t s)) = true
      else exc_only_last (fst (run_turn e id t s)) = true).
Proof.
  assert (L : forallb (frame_reqid_ok id) (log_frames [] (t_logs t)) = true) by (apply log_reqid; now right).
  assert (B : forall ty, forallb (frame_reqid_ok id) [exc_frame ty [] id] = true)
    by (intros; cbn [forallb]; now rewrite exc_reqid).
  unfold run_turn. destruct (t_act t), e; cbn [fst snd]; rewrite ?forallb_app, ?L, ?B, ?noexc_app, ?log_noexc;
    repeat split; try reflexivity; try (apply eol_snoc, log_noexc); try (apply eol_noexc, log_noexc).
Qed.

Lemma lockstep_ok e ok id turns bs :
  forallb (frame_reqid_ok id) (lockstep e ok id turns bs) = true
  /\ exc_only_last (lockstep e ok id turns bs) = true.
Proof.
  revert turns. induction bs as [|b bs IH]; intros turns; [split; reflexivity|].
  cbn [lockstep]. destruct (m_cancel (cb_meta b)); [split; reflexivity|].
  destruct (e && negb ok).
  { split; [cbn [forallb]; now rewrite exc_reqid | reflexivity]. }
  set (t := match turns with [] => default_turn e | t :: _ => t end).
  pose proof (run_turn_ok e id t (sumZ (cb_vals b))) as [R1 R2].
  destruct (run_turn e id t (sumZ (cb_vals b))) as [fs go]; cbn [fst snd] in R1, R2.
  destruct go; [|now split].
  destruct (IH (tl turns)) as [I1 I2]. split.
  - now rewrite forallb_app, R1, I1.
  - destruct (lockstep e ok id (tl turns) bs) eqn:E.
    + rewrite app_nil_r. now apply eol_noexc.
    + rewrite eol_app_noexc by (auto; discriminate). exact I2.
Qed.

Lemma not_hdr_nil : beqb [] sch_hdr = false. Proof. reflexivity. Qed.
Lemma not_hdr_out : beqb sch_out sch_hdr = false. Proof. reflexivity. Qed.
Lemma not_hdr_res void : beqb (result_schema void) sch_hdr = false. Proof. destruct void; reflexivity. Qed.
Lemma not_hdr_describe : beqb ss_describe_schema sch_hdr = false. Proof. reflexivity. Qed.

(* frames of an error stream / unary stream *)
Lemma err_stream_ok c sch ty k id :
  beqb sch sch_hdr = false -> (id = r_reqid (call_req c) \/ id = []) ->
  data_stream_ok c (err_stream sch ty k id) = true.
Proof.
  intros Hs Hid. unfold data_stream_ok, err_stream. cbn [st_schema st_frames forallb exc_only_last].
  rewrite Hs. destruct Hid as [-> | ->]; rewrite ?exc_reqid, ?exc_reqid_nil; cbn; apply orb_true_r.
Qed.

Lemma unary_frames_ok void id x sc :
  forallb (frame_reqid_ok id) (unary_frames void id x sc) = true
  /\ exc_only_last (unary_frames void id x sc) = true
  /\ count is_final (unary_frames void id x sc) = 1%nat.
Proof.
  unfold unary_frames. rewrite forallb_app, count_app, log_count, log_reqid by now left.
  split; [|split].
  - destruct (sc_fail sc); [cbn [forallb]; now rewrite exc_reqid | destruct void; reflexivity].
  - apply eol_snoc, log_noexc.
  - destruct (sc_fail sc); [reflexivity | destruct void; reflexivity].
Qed.

Lemma data_stream_ok_model g c :
  in_frame g c = true ->
  data_stream_ok c (data_stream (call_req c) (classify g (call_req c)) (call_inputs c)) = true.
Proof.
  intros Hf.
  assert (Hcons : is_stream_call c = consumes_input (classify g (call_req c))).
  { unfold in_frame in Hf. now apply eqb_prop in Hf. }
  set (r := call_req c) in *. set (o := classify g r) in *.
  assert (E : forall sch ty k id, beqb sch sch_hdr = false -> (id = r_reqid r \/ id = []) ->
              data_stream_ok c (err_stream sch ty k id) = true) by (intros; now apply err_stream_ok).
  destruct o as [| | | | |sm| | | |k|k|void|f| |e h] eqn:Ho; cbn [data_stream];
    try (apply E; [first [apply not_hdr_nil | apply not_hdr_out | apply not_hdr_res] | auto]; fail).
  - (* describe *) unfold data_stream_ok. cbn [st_schema st_frames]. rewrite not_hdr_describe.
    cbn [consumes_input] in Hcons. rewrite Hcons. reflexivity.
  - (* transport options *) unfold data_stream_ok. cbn [st_schema st_frames].
    cbn [consumes_input] in Hcons. rewrite Hcons. reflexivity.
  - destruct k; apply E; auto using not_hdr_nil, not_hdr_res.
  - destruct k; apply E; auto using not_hdr_nil, not_hdr_res.
  - (* unary handler ran *)
    destruct (unary_frames_ok void (r_reqid r) (r_x r) (r_script r)) as (U1 & U2 & U3).
    unfold data_stream_ok. fold r. cbn [st_schema st_frames]. rewrite not_hdr_res, U1, U2, U3.
    cbn. apply orb_true_r.
  - (* lockstep loop ran *)
    cbn [consumes_input] in Hcons.
    unfold data_stream_ok, run_stream. fold r. cbn [st_schema st_frames]. rewrite not_hdr_out, Hcons.
    set (ls := lockstep e _ (r_reqid r) (sc_turns (r_script r)) (cs_batches (encode_inputs (call_inputs c)))).
    destruct (lockstep_ok e (match cs_shape (encode_inputs (call_inputs c)) with SX => true | _ => false end)
                (r_reqid r) (sc_turns (r_script r)) (cs_batches (encode_inputs (call_inputs c)))) as [L1 L2].
    fold ls in L1, L2.
    set (il := match header_stream r (OStreamRan e h) with [] => log_frames (r_reqid r) (sc_logs (r_script r)) | _ => [] end).
    assert (I1 : forallb (frame_reqid_ok (r_reqid r)) il = true).
    { unfold il. destruct (header_stream r (OStreamRan e h)); [apply log_reqid; now left | reflexivity]. }
    assert (I2 : noexc il = true).
    { unfold il. destruct (header_stream r (OStreamRan e h)); [apply log_noexc | reflexivity]. }
    rewrite forallb_app, I1, L1. cbn [negb andb orb]. rewrite andb_true_r.
    destruct ls eqn:El; [rewrite app_nil_r; now apply eol_noexc|].
    rewrite eol_app_noexc by (auto; discriminate). exact L2.
Qed.

Lemma header_frames_snoc id l h : header_frames_ok (log_frames id l ++ [FData 1 [h] []]) = true.
Proof.
  induction l as [|m l IH]; [reflexivity|].
  cbn [log_frames map app header_frames_ok]. fold (log_frames id l).
  destruct (log_frames id l ++ [FData 1 [h] []]) eqn:E; [destruct (log_frames id l); discriminate|].
  cbn [is_log andb]. exact IH.
Qed.

(* the response to one call: optional header stream + exactly one data stream *)
Lemma one_response g c :
  exists d, st_schema d <> sch_hdr /\
    (serve_call g c = [d]
     \/ exists h e, serve_call g c = [h; d] /\ st_schema h = sch_hdr /\ header_stream_ok h = true
                    /\ classify g (call_req c) = OStreamRan e true).
Proof.
  unfold serve_call. set (r := call_req c). set (o := classify g r).
  exists (data_stream r o (call_inputs c)). split.
  - destruct o as [| | | | |sm| | | |k|k|void|f| |e h]; cbn [data_stream err_stream run_stream st_schema];
      try destruct k; try destruct void; cbn; discriminate.
  - destruct o as [| | | | |sm| | | |k|k|void|f| |e h] eqn:Ho; cbn [header_stream app]; try (now left).
    destruct h; [|now left]. destruct (sc_header (r_script r)) as [hv|]; [|now left].
    right. eexists _, e. split; [reflexivity|]. split; [reflexivity|]. split; [|reflexivity].
    unfold header_stream_ok. cbn [st_frames]. apply header_frames_snoc.
Qed.

Lemma call_response_ok g c cs rest :
  in_frame g c = true ->
  responses_ok g (c :: cs) (serve_call g c ++ rest) = responses_ok g cs rest.
Proof.
  intros Hf. pose proof (data_stream_ok_model g c Hf) as Hd.
  assert (Hcons : is_stream_call c = consumes_input (classify g (call_req c))).
  { unfold in_frame in Hf. now apply eqb_prop in Hf. }
  assert (Hgood : match good_unary_value g c with
                  | Some (sch, f) => beqb (st_schema (data_stream (call_req c) (classify g (call_req c)) (call_inputs c))) sch
                                     && frame_eqb (last (st_frames (data_stream (call_req c) (classify g (call_req c)) (call_inputs c))) FToken) f
                  | None => true
                  end = true).
  { destruct c as [r|r ins]; cbn [good_unary_value call_req call_inputs]; [|reflexivity].
    destruct (classify g r) eqn:Ho; try reflexivity.
    destruct (sc_fail (r_script r)) eqn:Hfail; [reflexivity|].
    cbn [data_stream st_schema st_frames]. unfold unary_frames. rewrite Hfail, last_last, beqb_refl, frame_eqb_refl. reflexivity. }
  destruct (one_response g c) as (d & Hnh & [E | (h & e & E & Hh & Hok & Ho)]).
  - assert (Ed : d = data_stream (call_req c) (classify g (call_req c)) (call_inputs c)).
    { unfold serve_call in E. destruct (header_stream (call_req c) (classify g (call_req c))) as [|? [|? ?]]; cbn [app] in E; congruence. }
    rewrite E. cbn [app responses_ok].
    assert (Hb : beqb (st_schema d) sch_hdr = false) by now apply beqb_neq.
    rewrite Hb, andb_false_r. cbn [fst snd]. rewrite <- Ed in Hd, Hgood. rewrite Hd.
    destruct (good_unary_value g c) as [[sch f]|]; [rewrite Hgood|]; reflexivity.
  - assert (Ed : d = data_stream (call_req c) (classify g (call_req c)) (call_inputs c)).
    { unfold serve_call in E. destruct (header_stream (call_req c) (classify g (call_req c))) as [|? [|? [|? ?]]]; cbn [app] in E; congruence. }
    rewrite Ho in Hcons. cbn [consumes_input] in Hcons.
    rewrite E. cbn [app responses_ok]. rewrite Hcons, Hh, beqb_refl. cbn [andb fst snd]. rewrite Hok.
    rewrite <- Ed in Hd, Hgood. rewrite Hd.
    destruct (good_unary_value g c) as [[sch f]|]; [rewrite Hgood|]; reflexivity.
Qed.

Lemma responses_ok_loop g cs :
  Forall (fun c => in_frame g c = true) cs -> responses_ok g cs (serve_loop g cs) = true.
Proof.
  induction 1 as [|c cs Hc _ IH]; [reflexivity|].
  unfold serve_loop. cbn [map concat]. rewrite call_response_ok by exact Hc. exact IH.
Qed.

Lemma stream_eqb_refl s : stream_eqb s s = true.
Proof.
  unfold stream_eqb. rewrite beqb_refl. cbn [andb].
  induction (st_frames s) as [|f l IH]; [reflexivity|]. cbn [list_eqb]. now rewrite frame_eqb_refl, IH.
Qed.

Lemma streams_eqb_refl l : list_eqb stream_eqb l l = true.
Proof. induction l as [|s l IH]; [reflexivity|]. cbn [list_eqb]. now rewrite stream_eqb_refl, IH. Qed.

Lemma run_conn_single g c : in_frame g c = true -> run_conn g [c] = serve_call g c.
Proof.
  intros H. unfold run_conn. rewrite stays_in_frame by (constructor; [exact H | constructor]).
  unfold serve_loop. cbn [map concat]. apply app_nil_r.
Qed.

Lemma alone_ok_model g cs :
  Forall (fun c => in_frame g c = true) cs -> alone_ok g cs (map (fun c => run_conn g [c]) cs) = true.
Proof.
  induction 1 as [|c cs Hc _ IH]; [reflexivity|].
  cbn [map alone_ok]. rewrite IH, andb_true_r, run_conn_single by exact Hc.
  rewrite <- (app_nil_r (serve_call g c)), call_response_ok by exact Hc. reflexivity.
Qed.

Lemma concat_alone g cs :
  Forall (fun c => in_frame g c = true) cs -> concat (map (fun c => run_conn g [c]) cs) = serve_loop g cs.
Proof.
  induction 1 as [|c cs Hc _ IH]; [reflexivity|].
  cbn [map concat]. rewrite IH, run_conn_single by exact Hc. reflexivity.
Qed.

Lemma model_meets_spec i : spec_ok i (model i) = true.
Proof.
  unfold spec_ok. destruct (forallb in_scope (i_calls i)) eqn:Hs; [|reflexivity].
  cbn [negb orb]. pose proof (scope_forall (i_gate i) _ Hs) as Hf.
  unfold model. cbn [o_streams o_alone o_escaped o_leftover negb andb N.eqb].
  unfold run_conn at 1 3. rewrite (stays_in_frame _ _ Hf), (responses_ok_loop _ _ Hf), (alone_ok_model _ _ Hf), (concat_alone _ _ Hf).
  rewrite streams_eqb_refl. reflexivity.
Qed.

(* ---------- the pre-fix code variants, and why the premise is needed ------------------ *)

Definition good_script : script :=
  {| sc_logs := []; sc_fail := None; sc_nil := false; sc_value := 100%Z; sc_header := None; sc_turns := [] |}.
Definition good_req (m : mname) (id : bytes) : req :=
  {| r_method := MName m; r_ver := VGood; r_pv := PVSame; r_ptr := false; r_shape := SX; r_rows := 1; r_x := 7%Z;
     r_reqid := id; r_extra := 0; r_script := good_script |}.
Definition one_tick : inputs := {| in_shape := SEmpty; in_items := [ {| it_cancel := false; it_vals := [] |} ] |}.
Definition canary : call := Unary (good_req MUInt (str "canary")).

(* a stream call with mismatched parameters, then a unary call *)
Definition w_param : list call :=
  [ Stream {| r_method := MName MProd; r_ver := VGood; r_pv := PVAbsent; r_ptr := false; r_shape := SOther; r_rows := 1;
              r_x := 5%Z; r_reqid := str "r1"; r_extra := 0; r_script := good_script |} one_tick; canary ].
(* gate on: a stream call with an incompatible protocol version, then a unary call *)
Definition w_gate : list call :=
  [ Stream {| r_method := MName MExch; r_ver := VGood; r_pv := PVOther; r_ptr := false; r_shape := SX; r_rows := 1;
              r_x := 5%Z; r_reqid := str "r1"; r_extra := 0; r_script := good_script |} one_tick; canary ].
(* a stream call whose request is a shm pointer batch on a connection without a segment *)
Definition w_ptr (ins : inputs) : list call :=
  [ Stream {| r_method := MName MProd; r_ver := VGood; r_pv := PVAbsent; r_ptr := true; r_shape := SX; r_rows := 0;
              r_x := 5%Z; r_reqid := str "r1"; r_extra := 0; r_script := good_script |} ins; canary ].

Definition legacy_param : variant := {| v_param_drain := false; v_gate_drain := true; v_ptr_drain := true |}.
Definition legacy_gate : variant := {| v_param_drain := true; v_gate_drain := false; v_ptr_drain := true |}.
Definition legacy_ptr : variant := {| v_param_drain := true; v_gate_drain := true; v_ptr_drain := false |}.

Lemma param_legacy :
  forallb in_scope w_param = true /\ length (serve_loop false w_param) = 2%nat
  /\ length (serve_flat legacy_param false (client_writes w_param)) = 3%nat
  /\ serve_flat current false (client_writes w_param) = serve_loop false w_param.
Proof. repeat split; vm_compute; reflexivity. Qed.

Lemma gate_legacy :
  forallb in_scope w_gate = true /\ length (serve_loop true w_gate) = 2%nat
  /\ length (serve_flat legacy_gate true (client_writes w_gate)) = 3%nat
  /\ serve_flat current true (client_writes w_gate) = serve_loop true w_gate.
Proof. repeat split; vm_compute; reflexivity. Qed.

Lemma ptr_legacy :
  forallb in_scope (w_ptr one_tick) = true /\ length (serve_loop false (w_ptr one_tick)) = 2%nat
  /\ length (serve_flat legacy_ptr false (client_writes (w_ptr one_tick))) = 3%nat
  /\ length (serve_flat legacy_ptr false (client_writes (w_ptr no_inputs))) = 1%nat
  /\ serve_flat current false (client_writes (w_ptr one_tick)) = serve_loop false (w_ptr one_tick)
  /\ serve_flat current false (client_writes (w_ptr no_inputs)) = serve_loop false (w_ptr no_inputs).
Proof. repeat split; vm_compute; reflexivity. Qed.

(* outside the premise: a client that writes an input stream behind a request the
   server cannot recognise as a stream call (unknown method / refused by
   ReadRequest) is out of frame even on the current code *)
Definition w_unknown_stream : list call :=
  [ Stream {| r_method := MName MUnknown; r_ver := VGood; r_pv := PVAbsent; r_ptr := false; r_shape := SX; r_rows := 1;
              r_x := 5%Z; r_reqid := str "r1"; r_extra := 0; r_script := good_script |} one_tick; canary ].
Definition w_badversion_stream : list call :=
  [ Stream {| r_method := MName MProd; r_ver := VBad; r_pv := PVAbsent; r_ptr := false; r_shape := SX; r_rows := 1;
              r_x := 5%Z; r_reqid := str "r1"; r_extra := 0; r_script := good_script |} one_tick; canary ].

Lemma premise_needed :
  forallb in_scope w_unknown_stream = false
  /\ length (serve_flat current false (client_writes w_unknown_stream)) = 3%nat
  /\ forallb in_scope w_badversion_stream = false
  /\ length (serve_flat current false (client_writes w_badversion_stream)) = 3%nat.
Proof. repeat split; vm_compute; reflexivity. Qed.

(* the request-level exception types in the model are the ones the compiled
   ReadRequest reports on the probe requests of verif_session.go *)
Lemma read_request_probes :
  ss_exc_accepted = [] /\ ss_exc_empty_schema_rows = [] /\ ss_exc_ptr_zero_rows = []
  /\ ss_exc_zero_rows = ss_exc_bad_rows /\ ss_exc_bad_rows <> [] /\ ss_exc_no_method <> []
  /\ ss_exc_no_version <> [] /\ ss_exc_bad_version <> [] /\ ss_exc_bad_utf8 <> [].
Proof. repeat split; try reflexivity; discriminate. Qed.

(* ---------- one response per request, over a whole history ---------------------------- *)

(* resp answers call c: an optional header stream (stream calls only), then exactly
   one complete, well-formed data stream *)
Definition well_formed_response (c : call) (resp : list stream) : Prop :=
  exists d, st_schema d <> sch_hdr /\ data_stream_ok c d = true /\
    (resp = [d] \/ exists h, resp = [h; d] /\ st_schema h = sch_hdr /\ header_stream_ok h = true /\ is_stream_call c = true).

Lemma serve_call_well_formed g c : in_frame g c = true -> well_formed_response c (serve_call g c).
Proof.
  intros Hf. pose proof (data_stream_ok_model g c Hf) as Hd.
  destruct (one_response g c) as (d & Hnh & [E | (h & e & E & Hh & Hok & Ho)]).
  - assert (Ed : d = data_stream (call_req c) (classify g (call_req c)) (call_inputs c)).
    { unfold serve_call in E. destruct (header_stream (call_req c) (classify g (call_req c))) as [|? [|? ?]]; cbn [app] in E; congruence. }
    exists d. rewrite Ed at 2. auto.
  - assert (Ed : d = data_stream (call_req c) (classify g (call_req c)) (call_inputs c)).
    { unfold serve_call in E. destruct (header_stream (call_req c) (classify g (call_req c))) as [|? [|? [|? ?]]]; cbn [app] in E; congruence. }
    exists d. rewrite Ed at 2. split; [exact Hnh|]. split; [exact Hd|]. right. exists h. repeat split; auto.
    unfold in_frame in Hf. apply eqb_prop in Hf. rewrite Hf, Ho. reflexivity.
Qed.

Lemma one_response_per_request g cs :
  forallb in_scope cs = true ->
  exists resps, serve_flat current g (client_writes cs) = concat resps
                /\ Forall2 well_formed_response cs resps.
Proof.
  intros Hs. pose proof (scope_forall g _ Hs) as Hf.
  exists (map (serve_call g) cs). split; [now apply stays_in_frame|].
  clear Hs. induction Hf as [|c cs Hc _ IH]; constructor; [now apply serve_call_well_formed | exact IH].
Qed.

(* ---------- pipelined clients ----------------------------------------------------- *)

Lemma bursts_concat sizes cs : concat (bursts_of sizes cs) = cs.
Proof.
  revert cs. induction sizes as [|n t IH]; intros cs.
  - destruct cs; [reflexivity|]. cbn [bursts_of concat]. apply app_nil_r.
  - cbn [bursts_of concat]. rewrite IH. apply firstn_skipn.
Qed.

(* however the in-frame history is grouped into writes, the connection output is
   the concatenation of what each group gets when it is the whole connection *)
Lemma serve_flat_bursts g bs :
  Forall (fun c => in_frame g c = true) (concat bs) ->
  serve_flat current g (client_writes (concat bs))
  = concat (map (fun b => serve_flat current g (client_writes b)) bs).
Proof.
  induction bs as [|b bs IH]; intros H; [reflexivity|].
  cbn [concat map] in *. apply Forall_app in H as [Hb Hr].
  rewrite client_writes_app, serve_flat_prefix by exact Hb.
  rewrite IH by exact Hr. now rewrite stays_in_frame by exact Hb.
Qed.

Lemma pipelining_irrelevant g sizes cs :
  forallb in_scope cs = true ->
  serve_flat current g (client_writes cs)
  = concat (map (fun b => serve_flat current g (client_writes b)) (bursts_of sizes cs)).
Proof.
  intros H. rewrite <- (bursts_concat sizes cs) at 1. apply serve_flat_bursts.
  rewrite bursts_concat. now apply scope_forall.
Qed.
