(* Proofs/C24.v — lemmas for the credential extractors (model: Model/C24.v). *)
From VR Require Import Model.C24.
From Coq Require Import ZifyBool ZifyN ZifyNat.
Open Scope N_scope.
Local Arguments N.eqb : simpl never.
Local Arguments N.leb : simpl never.
Local Arguments N.ltb : simpl never.
Local Arguments N.mul : simpl never.
Local Arguments N.add : simpl never.
Local Arguments N.div : simpl never.
Local Arguments N.modulo : simpl never.

(* ======================================================================== *)
(* generic list facts                                                        *)
(* ======================================================================== *)
Lemma list_ind2 (P : bytes -> Prop) :
  P [] -> (forall c, P [c]) -> (forall c c2 t, P t -> P (c2 :: t) -> P (c :: c2 :: t)) ->
  forall s, P s.
Proof.
  intros H0 H1 H2 s. enough (G : P s /\ forall c, P (c :: s)) by apply G.
  induction s as [|x s [IHa IHb]]; split; auto.
Qed.

Lemma forallb_rev {A} (f : A -> bool) l : forallb f (rev l) = forallb f l.
Proof.
  induction l as [|x l IH]; cbn; [reflexivity|].
  rewrite forallb_app, IH. cbn. rewrite andb_true_r. apply andb_comm.
Qed.

(* ---- trimming ------------------------------------------------------------ *)
Lemma trim_left_allsp w : allsp w = true -> trim_left w = [].
Proof.
  induction w as [|c w IH]; cbn; [reflexivity|]. intro H. apply andb_true_iff in H as [Hc Hw].
  rewrite Hc. now apply IH.
Qed.

Lemma trim_left_pad w s : allsp w = true -> trim_left (w ++ s) = trim_left s.
Proof.
  induction w as [|c w IH]; cbn; [reflexivity|]. intro H. apply andb_true_iff in H as [Hc Hw].
  rewrite Hc. now apply IH.
Qed.

Lemma trim_left_ns s : starts_space s = false -> trim_left s = s.
Proof. destruct s as [|c s]; cbn; [reflexivity|]. now intros ->. Qed.

Lemma trim_left_starts s : starts_space (trim_left s) = false.
Proof.
  induction s as [|c s IH]; cbn; [reflexivity|]. destruct (is_space c) eqn:E; [exact IH|]. cbn. exact E.
Qed.

Lemma trim_left_decomp s : exists w, allsp w = true /\ s = w ++ trim_left s.
Proof.
  unfold allsp. induction s as [|c s (w & Hw & E)]; [now exists []|]. cbn. destruct (is_space c) eqn:Ec.
  - exists (c :: w). cbn. rewrite Ec, Hw. split; [reflexivity | now f_equal].
  - now exists [].
Qed.

(* a non-blank first byte stops trim_left even when text follows *)
Lemma trim_left_app_ns a s : starts_space (trim_left a) = false -> trim_left a <> [] ->
  trim_left (a ++ s) = trim_left a ++ s.
Proof.
  induction a as [|c a IH]; cbn; [congruence|]. destruct (is_space c) eqn:E; [exact IH | reflexivity].
Qed.

Lemma trim_left_app a s : trim_left (a ++ s) = if allsp a then trim_left s else trim_left a ++ s.
Proof.
  induction a as [|c a IH]; cbn; [reflexivity|]. destruct (is_space c) eqn:E; cbn; [exact IH | reflexivity].
Qed.

Lemma trim_right_pad s w : allsp w = true -> trim_right (s ++ w) = trim_right s.
Proof.
  intro H. unfold trim_right. rewrite rev_app_distr, trim_left_pad; [reflexivity|].
  unfold allsp. now rewrite forallb_rev.
Qed.

Lemma trim_right_ns s : ends_space s = false -> trim_right s = s.
Proof. intro H. unfold trim_right. rewrite trim_left_ns by exact H. apply rev_involutive. Qed.

Lemma trim_right_decomp s : exists w, allsp w = true /\ s = trim_right s ++ w.
Proof.
  destruct (trim_left_decomp (rev s)) as (w & Hw & E). exists (rev w). split.
  - unfold allsp. now rewrite forallb_rev.
  - unfold trim_right. rewrite <- rev_app_distr, <- E. symmetry. apply rev_involutive.
Qed.

Lemma trim_right_allsp w : allsp w = true -> trim_right w = [].
Proof. intro H. unfold trim_right. rewrite trim_left_allsp; [reflexivity|]. unfold allsp. now rewrite forallb_rev. Qed.

Lemma trim_space_pad_l w s : allsp w = true -> trim_space (w ++ s) = trim_space s.
Proof. intro H. unfold trim_space. now rewrite trim_left_pad. Qed.

Lemma trim_space_pad_r s w : allsp w = true -> trim_space (s ++ w) = trim_space s.
Proof.
  intro H. unfold trim_space. rewrite trim_left_app. destruct (allsp s) eqn:E.
  - rewrite (trim_left_allsp w H), (trim_left_allsp s E). reflexivity.
  - now apply trim_right_pad.
Qed.

(* the text between blanks, when it has no blank at either end *)
Lemma trim_space_core w1 m w2 :
  allsp w1 = true -> allsp w2 = true -> starts_space m = false -> ends_space m = false ->
  trim_space (w1 ++ m ++ w2) = m.
Proof.
  intros H1 H2 Hs He. rewrite trim_space_pad_l by exact H1. rewrite trim_space_pad_r by exact H2.
  unfold trim_space. rewrite trim_left_ns by exact Hs. now apply trim_right_ns.
Qed.

Lemma trim_space_decomp s : exists w1 w2, allsp w1 = true /\ allsp w2 = true /\ s = w1 ++ trim_space s ++ w2.
Proof.
  destruct (trim_left_decomp s) as (w1 & H1 & E1).
  destruct (trim_right_decomp (trim_left s)) as (w2 & H2 & E2).
  exists w1, w2. repeat split; auto. unfold trim_space. now rewrite <- E2.
Qed.

Lemma nonspace_ends s : forallb (fun c => negb (is_space c)) s = true ->
  starts_space s = false /\ ends_space s = false.
Proof.
  intro H. assert (G : forall l, forallb (fun c => negb (is_space c)) l = true -> starts_space l = false).
  { intros [|c l]; cbn; [reflexivity|]. intro G. apply andb_true_iff in G as [G _]. now apply negb_true_iff in G. }
  split; [now apply G|]. unfold ends_space. apply G. now rewrite forallb_rev.
Qed.

(* ======================================================================== *)
(* (a) bearer                                                                *)
(* ======================================================================== *)
Lemma find_key_nodup toks k p :
  nodup_keys toks = true -> In (k, p) toks ->
  find (fun tp => beqb k (fst tp)) toks = Some (k, p).
Proof.
  induction toks as [|[k0 p0] r IH]; cbn; [contradiction|]. intros Hn Hin.
  apply andb_true_iff in Hn as [Hfresh Hn]. destruct Hin as [E | Hin].
  - inversion E; subst. now rewrite beqb_refl.
  - destruct (beqb k k0) eqn:Ek.
    + apply beqb_eq in Ek; subst k0. exfalso. apply negb_true_iff in Hfresh.
      assert (X : existsb (fun tq : bytes * bytes => beqb k (fst tq)) r = true).
      { apply existsb_exists. exists (k, p). split; [exact Hin | apply beqb_refl]. }
      congruence.
    + now apply IH.
Qed.

Lemma prefix_nonempty tok : bearer_prefix ++ tok <> [].
Proof. discriminate. Qed.

Lemma bearer_accept_iff_l toks hdrs p :
  nodup_keys toks = true ->
  (bearer_auth toks hdrs = BAccept p <->
   exists tok, In (tok, p) toks /\ hd [] hdrs = bearer_prefix ++ tok).
Proof.
  intro Hn. unfold bearer_auth. set (h := hd [] hdrs). split.
  - destruct h as [|c h'] eqn:Eh; [discriminate|]. rewrite <- Eh.
    destruct (has_prefix bearer_prefix h) eqn:Ep; [|discriminate].
    apply has_prefix_spec in Ep as [r Er]. rewrite Er, drop_app_len.
    destruct (find _ toks) as [[k q]|] eqn:Ef; [|discriminate]. intro E; inversion E; subst q.
    apply find_some in Ef as [Hin Hk]. cbn in Hk. apply beqb_eq in Hk. subst k. now exists r.
  - intros (tok & Hin & E). rewrite E. destruct (bearer_prefix ++ tok) as [|c h'] eqn:Eh; [discriminate|].
    rewrite <- Eh. rewrite has_prefix_app, drop_app_len.
    now rewrite (find_key_nodup toks tok p Hn Hin).
Qed.

Lemma bearer_reject_iff_l toks hdrs :
  (exists t, bearer_auth toks hdrs = BReject t) <->
  ~ exists tok p, In (tok, p) toks /\ hd [] hdrs = bearer_prefix ++ tok.
Proof.
  unfold bearer_auth. set (h := hd [] hdrs). split.
  - intros [t Ht] (tok & p & Hin & E). rewrite E in Ht.
    destruct (bearer_prefix ++ tok) as [|c h'] eqn:Eh; [discriminate|]. rewrite <- Eh in Ht.
    rewrite has_prefix_app, drop_app_len in Ht.
    destruct (find _ toks) eqn:Ef; [discriminate|].
    apply (find_none _ _ Ef) in Hin. cbn in Hin. now rewrite beqb_refl in Hin.
  - intro Hno. destruct h as [|c h'] eqn:Eh; [now eexists|]. rewrite <- Eh.
    destruct (has_prefix bearer_prefix h) eqn:Ep; [|now eexists].
    apply has_prefix_spec in Ep as [r Er]. rewrite Er, drop_app_len.
    destruct (find _ toks) as [[k q]|] eqn:Ef; [|now eexists]. exfalso. apply Hno.
    apply find_some in Ef as [Hin Hk]. cbn in Hk. apply beqb_eq in Hk. subst k.
    exists r, q. split; [exact Hin | congruence].
Qed.

Lemma bearer_reject_type toks hdrs t : bearer_auth toks hdrs = BReject t -> t = value_error.
Proof.
  unfold bearer_auth. destruct (hd [] hdrs); [now intros [= <-]|].
  destruct (has_prefix _ _); [|now intros [= <-]]. destruct (find _ _); [discriminate | now intros [= <-]].
Qed.

Lemma bearer_spec_holds toks hdrs :
  nodup_keys toks = true -> bearer_spec toks hdrs (bearer_auth toks hdrs) = true.
Proof.
  intro Hn. unfold bearer_spec. destruct (bearer_auth toks hdrs) as [p|t] eqn:E.
  - apply (bearer_accept_iff_l toks hdrs p Hn) in E as (tok & Hin & Eh).
    apply existsb_exists. exists (tok, p). split; [exact Hin|]. cbn. rewrite Eh. now rewrite !beqb_refl.
  - rewrite (bearer_reject_type _ _ _ E), beqb_refl, andb_true_r. apply negb_true_iff.
    match goal with |- ?x = false => destruct x eqn:Ex end; [|reflexivity]. exfalso.
    apply existsb_exists in Ex as ([tok p] & Hin & Hb). cbn in Hb. apply beqb_eq in Hb.
    assert (X : exists t, bearer_auth toks hdrs = BReject t) by now exists t.
    apply bearer_reject_iff_l in X. apply X. now exists tok, p.
Qed.

(* ======================================================================== *)
(* (b) splitRespectingQuotes                                                 *)
(* ======================================================================== *)
Definition prepend (p : bytes) (l : list bytes) : list bytes :=
  match l with h :: t => (p ++ h) :: t | [] => [p] end.

Lemma cons_hd_prepend c p l : cons_hd c (prepend p l) = prepend (c :: p) l.
Proof. destruct l; reflexivity. Qed.
Lemma prepend_nil l : l <> [] -> prepend [] l = l.
Proof. destruct l; [congruence | reflexivity]. Qed.
Lemma cons_hd_ne c l : cons_hd c l <> [].
Proof. destruct l; discriminate. Qed.

Lemma split_rq_one d inq c : split_rq d inq [c] =
  if c =? QUOTE then [[c]] else if (c =? BSL) && inq then [[c]]
  else if (c =? d) && negb inq then [[]; []] else [[c]].
Proof. reflexivity. Qed.
Lemma split_rq_two d inq c c2 t : split_rq d inq (c :: c2 :: t) =
  if c =? QUOTE then cons_hd c (split_rq d (negb inq) (c2 :: t))
  else if (c =? BSL) && inq then cons_hd c (cons_hd c2 (split_rq d inq t))
  else if (c =? d) && negb inq then [] :: split_rq d inq (c2 :: t)
  else cons_hd c (split_rq d inq (c2 :: t)).
Proof. reflexivity. Qed.

Lemma split_ne d inq s : split_rq d inq s <> [].
Proof.
  destruct s as [|c [|c2 t]]; [discriminate | rewrite split_rq_one | rewrite split_rq_two];
    repeat match goal with |- context [if ?b then _ else _] => destruct b end;
    try discriminate; apply cons_hd_ne.
Qed.

Lemma join_cons_hd d c l : l <> [] -> join [d] (cons_hd c l) = c :: join [d] l.
Proof. destruct l as [|h [|h2 r]]; [congruence | reflexivity | reflexivity]. Qed.
Lemma join_nil_cons d l : l <> [] -> join [d] ([] :: l) = d :: join [d] l.
Proof. destruct l; [congruence | reflexivity]. Qed.

(* joining what the splitter returns gives the text back: nothing is lost,
   duplicated or reordered, for EVERY text and either quote state *)
Lemma join_split d s : forall inq, join [d] (split_rq d inq s) = s.
Proof.
  pattern s. apply list_ind2; clear s.
  - reflexivity.
  - intros c inq. rewrite split_rq_one.
    destruct (c =? QUOTE); [reflexivity|]. destruct ((c =? BSL) && inq); [reflexivity|].
    destruct ((c =? d) && negb inq) eqn:E; [|reflexivity].
    apply andb_true_iff in E as [E _]. apply N.eqb_eq in E. now subst.
  - intros c c2 t IH1 IH2 inq. rewrite split_rq_two.
    destruct (c =? QUOTE).
    { rewrite join_cons_hd by apply split_ne. now rewrite IH2. }
    destruct ((c =? BSL) && inq).
    { rewrite join_cons_hd by apply cons_hd_ne. rewrite join_cons_hd by apply split_ne. now rewrite IH1. }
    destruct ((c =? d) && negb inq) eqn:E.
    { rewrite join_nil_cons by apply split_ne. rewrite IH2.
      apply andb_true_iff in E as [E _]. apply N.eqb_eq in E. now subst. }
    rewrite join_cons_hd by apply split_ne. now rewrite IH2.
Qed.

(* [scan d inq s = Some q]: reading s from quote state inq meets no delimiter
   outside quotes, leaves no backslash dangling, and ends in quote state q *)
Fixpoint scan (d : N) (inq : bool) (s : bytes) : option bool :=
  match s with
  | [] => Some inq
  | c :: t =>
    if c =? QUOTE then scan d (negb inq) t
    else if (c =? BSL) && inq then match t with _ :: t2 => scan d inq t2 | [] => None end
    else if (c =? d) && negb inq then None
    else scan d inq t
  end.

Lemma scan_one d inq c : scan d inq [c] =
  if c =? QUOTE then Some (negb inq) else if (c =? BSL) && inq then None
  else if (c =? d) && negb inq then None else Some inq.
Proof. reflexivity. Qed.
Lemma scan_two d inq c c2 t : scan d inq (c :: c2 :: t) =
  if c =? QUOTE then scan d (negb inq) (c2 :: t)
  else if (c =? BSL) && inq then scan d inq t
  else if (c =? d) && negb inq then None else scan d inq (c2 :: t).
Proof. reflexivity. Qed.

Lemma split_app d p : forall inq q r,
  scan d inq p = Some q -> split_rq d inq (p ++ r) = prepend p (split_rq d q r).
Proof.
  pattern p. apply list_ind2; clear p.
  - intros inq q r [= <-]. cbn [app]. symmetry. apply prepend_nil, split_ne.
  - intros c inq q r H. rewrite scan_one in H. cbn [app].
    assert (G : forall i, cons_hd c (split_rq d i r) = prepend [c] (split_rq d i r)).
    { intro i. rewrite <- cons_hd_prepend. now rewrite prepend_nil by apply split_ne. }
    destruct r as [|c2 r'].
    + rewrite split_rq_one. destruct (c =? QUOTE); [injection H as <-; reflexivity|].
      destruct ((c =? BSL) && inq); [discriminate|]. destruct ((c =? d) && negb inq); [discriminate|].
      injection H as <-. reflexivity.
    + rewrite split_rq_two. destruct (c =? QUOTE); [injection H as <-; apply G|].
      destruct ((c =? BSL) && inq); [discriminate|]. destruct ((c =? d) && negb inq); [discriminate|].
      injection H as <-. apply G.
  - intros c c2 t IH1 IH2 inq q r H. rewrite scan_two in H.
    change ((c :: c2 :: t) ++ r) with (c :: c2 :: (t ++ r)). rewrite split_rq_two.
    change (c2 :: t ++ r) with ((c2 :: t) ++ r).
    destruct (c =? QUOTE); [rewrite (IH2 _ _ _ H); apply cons_hd_prepend|].
    destruct ((c =? BSL) && inq); [rewrite (IH1 _ _ _ H); now rewrite !cons_hd_prepend|].
    destruct ((c =? d) && negb inq); [discriminate|].
    rewrite (IH2 _ _ _ H). apply cons_hd_prepend.
Qed.

Lemma scan_app d a : forall inq q b, scan d inq a = Some q -> scan d inq (a ++ b) = scan d q b.
Proof.
  pattern a. apply list_ind2; clear a.
  - now intros inq q b [= <-].
  - intros c inq q b H. rewrite scan_one in H. cbn [app]. destruct b as [|c2 b'].
    + rewrite scan_one. destruct (c =? QUOTE); [now injection H as <-|].
      destruct ((c =? BSL) && inq); [discriminate|]. destruct ((c =? d) && negb inq); [discriminate|].
      now injection H as <-.
    + rewrite scan_two. destruct (c =? QUOTE); [now injection H as <-|].
      destruct ((c =? BSL) && inq); [discriminate|]. destruct ((c =? d) && negb inq); [discriminate|].
      now injection H as <-.
  - intros c c2 t IH1 IH2 inq q b H. rewrite scan_two in H.
    change ((c :: c2 :: t) ++ b) with (c :: c2 :: (t ++ b)). rewrite scan_two.
    change (c2 :: t ++ b) with ((c2 :: t) ++ b).
    destruct (c =? QUOTE); [now apply IH2|]. destruct ((c =? BSL) && inq); [now apply IH1|].
    destruct ((c =? d) && negb inq); [discriminate|]. now apply IH2.
Qed.

Definition closed (d : N) (p : bytes) : Prop := scan d false p = Some false.

Lemma split_closed_one d p : closed d p -> split_rq d false p = [p].
Proof.
  intro H. rewrite <- (app_nil_r p) at 1. rewrite (split_app d p false false [] H).
  cbn. now rewrite app_nil_r.
Qed.

Lemma split_delim d s : d <> QUOTE -> split_rq d false (d :: s) = [] :: split_rq d false s.
Proof.
  intro Hd. apply N.eqb_neq in Hd.
  destruct s as [|x y]; [rewrite split_rq_one | rewrite split_rq_two];
    rewrite Hd, N.eqb_refl, andb_false_r; reflexivity.
Qed.

(* splitting the join of closed parts gives the parts back *)
Lemma split_join d parts :
  d <> QUOTE -> parts <> [] -> Forall (closed d) parts ->
  split_rq d false (join [d] parts) = parts.
Proof.
  intros Hd Hne Hall. induction parts as [|p rest IH]; [congruence|].
  inversion Hall as [|? ? Hp Hrest]; subst. destruct rest as [|p2 rest'].
  - cbn [join]. now apply split_closed_one.
  - change (join [d] (p :: p2 :: rest')) with (p ++ d :: join [d] (p2 :: rest')).
    rewrite (split_app d p false false _ Hp).
    rewrite (split_delim d _ Hd), IH by (auto; discriminate). cbn. now rewrite app_nil_r.
Qed.

(* ---- what is closed -------------------------------------------------------- *)
Lemma unescape_one c : unescape_q [c] = [c].
Proof. cbn. now destruct (c =? BSL). Qed.
Lemma unescape_two c c2 t : unescape_q (c :: c2 :: t) =
  if c =? BSL then (if c2 =? NL then c :: unescape_q (c2 :: t) else c2 :: unescape_q t)
  else c :: unescape_q (c2 :: t).
Proof. reflexivity. Qed.

Lemma escape_q_cons c v : escape_q (c :: v) =
  (if (c =? QUOTE) || (c =? BSL) then [BSL; c] else [c]) ++ escape_q v.
Proof. reflexivity. Qed.

(* unescapeQuoted undoes the renderer's escaping, whatever the bytes *)
Lemma unescape_escape v : unescape_q (escape_q v) = v.
Proof.
  induction v as [|c v IH]; [reflexivity|]. rewrite escape_q_cons.
  destruct ((c =? QUOTE) || (c =? BSL)) eqn:E.
  - cbn [app]. rewrite unescape_two. change (BSL =? BSL) with true. cbv beta match.
    assert (Hn : (c =? NL) = false) by (unfold QUOTE, BSL, NL in *; lia). rewrite Hn. now rewrite IH.
  - apply orb_false_iff in E as [_ Eb]. cbn [app].
    destruct (escape_q v) as [|x y] eqn:Ev.
    + rewrite unescape_one. now rewrite <- IH.
    + rewrite unescape_two, Eb. now rewrite IH.
Qed.

(* inside quotes the escaped text never closes the quote nor splits *)
Lemma scan_escape d v : forall r, scan d true (escape_q v ++ r) = scan d true r.
Proof.
  induction v as [|c v IH]; intro r; [reflexivity|]. rewrite escape_q_cons, <- app_assoc.
  destruct ((c =? QUOTE) || (c =? BSL)) eqn:E.
  - cbn [app]. rewrite scan_two. change (BSL =? QUOTE) with false. change (BSL =? BSL) with true.
    cbn [andb]. apply IH.
  - apply orb_false_iff in E as [Eq Eb]. cbn [app].
    destruct (escape_q v ++ r) as [|x y] eqn:Ev.
    + rewrite scan_one, Eq, Eb. cbn [andb negb]. rewrite andb_false_r.
      specialize (IH r). rewrite Ev in IH. cbn in IH. now rewrite <- IH.
    + rewrite scan_two, Eq, Eb. cbn [andb negb]. rewrite andb_false_r. rewrite <- Ev. apply IH.
Qed.

Definition quoted_text (v : bytes) : bytes := QUOTE :: escape_q v ++ [QUOTE].

Lemma quoted_closed d v : closed d (quoted_text v).
Proof.
  unfold closed, quoted_text.
  destruct (escape_q v ++ [QUOTE]) as [|x y] eqn:E; [destruct (escape_q v); discriminate|].
  rewrite scan_two. change (QUOTE =? QUOTE) with true. cbv beta match. cbn [negb].
  rewrite <- E, scan_escape. reflexivity.
Qed.

Lemma scan_bare d s : (d = COMMA \/ d = SEMI) -> forallb barechar s = true -> scan d false s = Some false.
Proof.
  intros Hd. induction s as [|c s IH]; [reflexivity|]. cbn [forallb]. intro H.
  apply andb_true_iff in H as [Hc Hs]. specialize (IH Hs).
  assert (Eq : (c =? QUOTE) = false) by (unfold barechar, QUOTE, COMMA, SEMI in *; lia).
  assert (Ed : (c =? d) = false) by (unfold barechar, QUOTE, COMMA, SEMI in *; destruct Hd; subst d; lia).
  destruct s as [|c2 t].
  - rewrite scan_one, Eq, Ed, andb_false_r. reflexivity.
  - rewrite scan_two, Eq, Ed, andb_false_r. cbn [andb]. exact IH.
Qed.

(* ---- blanks around the parts ------------------------------------------------ *)
Fixpoint app_last (l : list bytes) (w : bytes) : list bytes :=
  match l with
  | [] => [w]
  | [h] => [h ++ w]
  | h :: t => h :: app_last t w
  end.

Lemma cons_hd_app_last c l w : l <> [] -> cons_hd c (app_last l w) = app_last (cons_hd c l) w.
Proof. destruct l as [|h [|h2 r]]; [congruence | reflexivity | reflexivity]. Qed.
Lemma nil_cons_app_last l w : l <> [] -> [] :: app_last l w = app_last ([] :: l) w.
Proof. destruct l; [congruence | reflexivity]. Qed.

Definition padchar (d c : N) : bool := negb (c =? QUOTE) && negb (c =? BSL) && negb (c =? d).

Lemma split_plain d w : forall inq, forallb (padchar d) w = true -> split_rq d inq w = [w].
Proof.
  induction w as [|c w IH]; intros inq H; [reflexivity|]. cbn [forallb] in H.
  apply andb_true_iff in H as [Hc Hw]. unfold padchar in Hc.
  assert (Eq : (c =? QUOTE) = false) by lia. assert (Eb : (c =? BSL) = false) by lia.
  assert (Ed : (c =? d) = false) by lia.
  destruct w as [|c2 t].
  - rewrite split_rq_one, Eq, Eb, Ed. reflexivity.
  - rewrite split_rq_two, Eq, Eb, Ed. cbn [andb]. now rewrite (IH inq Hw).
Qed.

Lemma scan_plain d w : forall inq, forallb (padchar d) w = true -> scan d inq w = Some inq.
Proof.
  induction w as [|c w IH]; intros inq H; [reflexivity|]. cbn [forallb] in H.
  apply andb_true_iff in H as [Hc Hw]. unfold padchar in Hc.
  assert (Eq : (c =? QUOTE) = false) by lia. assert (Eb : (c =? BSL) = false) by lia.
  assert (Ed : (c =? d) = false) by lia.
  destruct w as [|c2 t].
  - rewrite scan_one, Eq, Eb, Ed. reflexivity.
  - rewrite scan_two, Eq, Eb, Ed. cbn [andb]. exact (IH inq Hw).
Qed.

Lemma split_pad_r d w s : forallb (padchar d) w = true ->
  forall inq, split_rq d inq (s ++ w) = app_last (split_rq d inq s) w.
Proof.
  intro Hw. destruct w as [|x w'].
  { intro inq. rewrite app_nil_r. generalize (split_ne d inq s).
    induction (split_rq d inq s) as [|h [|h2 r] IHl]; intro Hne; [congruence | cbn; now rewrite app_nil_r |].
    change (app_last (h :: h2 :: r) []) with (h :: app_last (h2 :: r) []). rewrite <- IHl by discriminate. reflexivity. }
  pattern s. apply list_ind2; clear s.
  - intro inq. cbn [app]. now rewrite split_plain.
  - intros c inq. change ([c] ++ x :: w') with (c :: x :: w'). rewrite split_rq_two, split_rq_one.
    assert (Hw' : forallb (padchar d) w' = true) by (cbn [forallb] in Hw; now apply andb_true_iff in Hw).
    destruct (c =? QUOTE); [now rewrite split_plain|].
    destruct ((c =? BSL) && inq); [now rewrite split_plain|].
    destruct ((c =? d) && negb inq); now rewrite split_plain.
  - intros c c2 t IH1 IH2 inq. change ((c :: c2 :: t) ++ x :: w') with (c :: c2 :: (t ++ x :: w')).
    rewrite !split_rq_two. change (c2 :: t ++ x :: w') with ((c2 :: t) ++ x :: w').
    destruct (c =? QUOTE); [rewrite IH2; apply cons_hd_app_last, split_ne|].
    destruct ((c =? BSL) && inq).
    { rewrite IH1. rewrite cons_hd_app_last by apply split_ne. apply cons_hd_app_last, cons_hd_ne. }
    destruct ((c =? d) && negb inq); [rewrite IH2; apply nil_cons_app_last, split_ne|].
    rewrite IH2. apply cons_hd_app_last, split_ne.
Qed.

Lemma space_padchar d w : (d = COMMA \/ d = SEMI) -> allsp w = true -> forallb (padchar d) w = true.
Proof.
  intros Hd H. unfold allsp in H. rewrite forallb_forall in *. intros c Hin. specialize (H c Hin).
  unfold padchar, is_space, QUOTE, BSL, COMMA, SEMI in *. destruct Hd; subst d; lia.
Qed.

Lemma apply_pair_pad_l e w p : allsp w = true -> apply_pair e (w ++ p) = apply_pair e p.
Proof. intro H. unfold apply_pair. now rewrite trim_space_pad_l. Qed.
Lemma apply_pair_pad_r e w p : allsp w = true -> apply_pair e (p ++ w) = apply_pair e p.
Proof. intro H. unfold apply_pair. now rewrite trim_space_pad_r. Qed.

Lemma fold_prepend w l e : allsp w = true -> l <> [] ->
  fold_left apply_pair (prepend w l) e = fold_left apply_pair l e.
Proof. intros H Hne. destruct l; [congruence|]. cbn. now rewrite apply_pair_pad_l. Qed.

Lemma fold_app_last w l : allsp w = true -> l <> [] ->
  forall e, fold_left apply_pair (app_last l w) e = fold_left apply_pair l e.
Proof.
  intros H. induction l as [|h [|h2 r] IH]; intros Hne e; [congruence | cbn; now rewrite apply_pair_pad_r |].
  change (app_last (h :: h2 :: r) w) with (h :: app_last (h2 :: r) w). cbn [fold_left].
  apply IH. discriminate.
Qed.

Lemma app_last_ne l w : app_last l w <> [].
Proof. destruct l as [|h [|h2 r]]; discriminate. Qed.

(* trimming an element before splitting it on ';' changes nothing for the pairs *)
Lemma fold_trim_invariant s e :
  fold_left apply_pair (split_rq SEMI false (trim_space s)) e = fold_left apply_pair (split_rq SEMI false s) e.
Proof.
  destruct (trim_space_decomp s) as (w1 & w2 & H1 & H2 & E). rewrite E at 2.
  rewrite (split_app SEMI w1 false false) by (apply scan_plain, space_padchar; auto).
  rewrite split_pad_r by (apply space_padchar; auto).
  rewrite fold_prepend by (auto; apply app_last_ne).
  rewrite fold_app_last by (auto; apply split_ne). reflexivity.
Qed.

(* ---- one key=value pair ------------------------------------------------------ *)
Definition noeq (s : bytes) : bool := forallb (fun c => negb (c =? EQ)) s.

Lemma trim_left_app_eq a s : trim_left (a ++ EQ :: s) = trim_left a ++ EQ :: s.
Proof.
  rewrite trim_left_app. destruct (allsp a) eqn:E; [|reflexivity].
  rewrite (trim_left_allsp a E). reflexivity.
Qed.

Lemma trim_right_app_eq x b : trim_right (x ++ EQ :: b) = x ++ EQ :: trim_right b.
Proof.
  unfold trim_right. rewrite rev_app_distr. cbn [rev]. rewrite <- app_assoc. cbn [app].
  rewrite trim_left_app_eq, rev_app_distr. cbn [rev]. rewrite rev_involutive, <- app_assoc. reflexivity.
Qed.

Lemma noeq_trim_left a : noeq a = true -> noeq (trim_left a) = true.
Proof.
  unfold noeq. induction a as [|c a IH]; cbn; [reflexivity|]. intro H. destruct (is_space c); [|exact H].
  apply andb_true_iff in H as [_ H]. now apply IH.
Qed.

Lemma index_byte_app c A B : forallb (fun x => negb (x =? c)) A = true ->
  index_byte c (A ++ c :: B) = Some (length A).
Proof.
  induction A as [|x A IH]; cbn [app index_byte forallb length]; intro H.
  - now rewrite N.eqb_refl.
  - apply andb_true_iff in H as [Hx HA]. apply negb_true_iff in Hx. rewrite Hx, (IH HA). reflexivity.
Qed.

Lemma drop_S_app {A} (a : list A) x b : drop (S (length a)) (a ++ x :: b) = b.
Proof. induction a; cbn; auto. Qed.

Lemma apply_pair_decomp e a b : noeq a = true ->
  apply_pair e (a ++ EQ :: b) = set_field (to_lower (trim_space a)) (strip_quotes (trim_space b)) e.
Proof.
  intro Ha. unfold apply_pair.
  assert (Ep : trim_space (a ++ EQ :: b) = trim_left a ++ EQ :: trim_right b).
  { unfold trim_space. now rewrite trim_left_app_eq, trim_right_app_eq. }
  rewrite Ep. rewrite index_byte_app by (apply noeq_trim_left, Ha).
  rewrite take_app_len, drop_S_app.
  destruct (trim_left_decomp a) as (w & Hw & Ea). destruct (trim_right_decomp b) as (w' & Hw' & Eb).
  assert (E1 : trim_space (trim_left a) = trim_space a) by (rewrite Ea at 2; now rewrite trim_space_pad_l).
  assert (E2 : trim_space (trim_right b) = trim_space b) by (rewrite Eb at 2; now rewrite trim_space_pad_r).
  now rewrite E1, E2.
Qed.

(* ---- URL encoding ------------------------------------------------------------ *)
Lemma qunesc_pct h1 h2 t : qunesc (PCT :: h1 :: h2 :: t) =
  if ishex h1 && ishex h2 then option_map (cons (16 * unhex h1 + unhex h2)) (qunesc t) else None.
Proof. reflexivity. Qed.
Lemma qunesc_plus t : qunesc (PLUS :: t) = option_map (cons SP) (qunesc t).
Proof. reflexivity. Qed.
Lemma qunesc_plain c t : (c =? PCT) = false -> (c =? PLUS) = false ->
  qunesc (c :: t) = option_map (cons c) (qunesc t).
Proof. intros H1 H2. cbn [qunesc]. now rewrite H1, H2. Qed.

Lemma hexdig_ok n : n < 16 -> ishex (hexdig n) = true /\ unhex (hexdig n) = n.
Proof.
  intro H. unfold hexdig. destruct (n <? 10) eqn:E.
  - unfold ishex, unhex. assert (X : (48 <=? 48 + n) && (48 + n <=? 57) = true) by lia. rewrite X. split; [reflexivity | lia].
  - unfold ishex, unhex.
    assert (X : (48 <=? 55 + n) && (55 + n <=? 57) = false) by lia.
    assert (Y : (97 <=? 55 + n) && (55 + n <=? 102) = false) by lia.
    assert (Z : (65 <=? 55 + n) && (55 + n <=? 70) = true) by lia.
    rewrite X, Y, Z. split; [reflexivity | lia].
Qed.

Lemma qunesc_qesc1 c rest : c < 256 -> qunesc (qesc1 c ++ rest) = option_map (cons c) (qunesc rest).
Proof.
  intro Hc. unfold qesc1. destruct (c =? SP) eqn:Es.
  - apply N.eqb_eq in Es. subst c. apply qunesc_plus.
  - destruct (unreserved c) eqn:Eu.
    + cbn [app]. apply qunesc_plain; unfold unreserved, PCT, PLUS in *; lia.
    + cbn [app]. rewrite qunesc_pct.
      assert (Hn : c / 16 < 16) by (apply N.div_lt_upper_bound; lia).
      assert (Hm : c mod 16 < 16) by (apply N.mod_lt; lia).
      destruct (hexdig_ok _ Hn) as [I1 U1]. destruct (hexdig_ok _ Hm) as [I2 U2].
      rewrite I1, I2, U1, U2. cbn [andb]. rewrite <- (N.div_mod' c 16). reflexivity.
Qed.

(* QueryUnescape undoes QueryEscape on every byte string *)
Lemma qunesc_qescape v : all_bytes v = true -> qunesc (qescape v) = Some v.
Proof.
  induction v as [|c v IH]; [reflexivity|]. cbn [all_bytes forallb]. intro H.
  apply andb_true_iff in H as [Hc Hv]. unfold is_byte in Hc. apply N.ltb_lt in Hc.
  change (qescape (c :: v)) with (qesc1 c ++ qescape v). rewrite qunesc_qesc1 by exact Hc.
  unfold all_bytes in IH. now rewrite (IH Hv).
Qed.

Definition qsafe (c : N) : bool := barechar c && negb (is_space c) && negb (c =? EQ).

Lemma hexdig_safe n : qsafe (hexdig n) = true.
Proof.
  unfold qsafe, barechar, is_space, hexdig, COMMA, SEMI, QUOTE, EQ. destruct (n <? 10) eqn:E; lia.
Qed.

Lemma qescape_safe v : forallb qsafe (qescape v) = true.
Proof.
  induction v as [|c v IH]; [reflexivity|]. change (qescape (c :: v)) with (qesc1 c ++ qescape v).
  rewrite forallb_app, IH, andb_true_r. unfold qesc1.
  destruct (c =? SP); [reflexivity|]. destruct (unreserved c) eqn:Eu.
  - cbn [forallb]. rewrite andb_true_r. unfold qsafe, barechar, is_space, unreserved, COMMA, SEMI, QUOTE, EQ in *. lia.
  - cbn [forallb]. rewrite !hexdig_safe. reflexivity.
Qed.

(* ---- a rendered field --------------------------------------------------------- *)
Lemma barechar_of_qsafe s : forallb qsafe s = true -> forallb barechar s = true.
Proof.
  intro H. rewrite forallb_forall in *. intros c Hin. specialize (H c Hin).
  unfold qsafe in H. now apply andb_true_iff in H as [H _]; apply andb_true_iff in H as [H _].
Qed.
Lemma nonspace_of_qsafe s : forallb qsafe s = true -> forallb (fun c => negb (is_space c)) s = true.
Proof.
  intro H. rewrite forallb_forall in *. intros c Hin. specialize (H c Hin).
  unfold qsafe in H. now apply andb_true_iff in H as [H _]; apply andb_true_iff in H as [_ H].
Qed.
Lemma barechar_of_space s : allsp s = true -> forallb barechar s = true.
Proof.
  intro H. unfold allsp in H. rewrite forallb_forall in *. intros c Hin. specialize (H c Hin).
  unfold barechar, is_space, COMMA, SEMI, QUOTE in *. lia.
Qed.
Lemma noeq_of_space s : allsp s = true -> noeq s = true.
Proof.
  intro H. unfold allsp, noeq in *. rewrite forallb_forall in *. intros c Hin. specialize (H c Hin).
  unfold is_space, EQ in *. lia.
Qed.
Lemma key_facts k : key_ok k = true ->
  forallb barechar k = true /\ noeq k = true /\ starts_space k = false /\ ends_space k = false /\ k <> [].
Proof.
  unfold key_ok. intro H. apply andb_true_iff in H as [Hne H].
  assert (A : forallb barechar k = true).
  { rewrite forallb_forall in *. intros c Hin. specialize (H c Hin). unfold keychar, barechar in *. lia. }
  assert (B : noeq k = true).
  { unfold noeq. rewrite forallb_forall in *. intros c Hin. specialize (H c Hin). unfold keychar in *. lia. }
  assert (C : forallb (fun c => negb (is_space c)) k = true).
  { rewrite forallb_forall in *. intros c Hin. specialize (H c Hin). unfold keychar in *. lia. }
  destruct (nonspace_ends k C) as [S1 S2]. repeat split; auto. destruct k; [discriminate | discriminate].
Qed.

Definition wire_of (f : field) : bytes := wire_val (f_key f) (fval_val (f_val f)).
Definition valtext (f : field) : bytes := render_val (f_key f) (f_val f).

Lemma valtext_facts f : wf_field f = true ->
  starts_space (valtext f) = false /\ ends_space (valtext f) = false
  /\ strip_quotes (valtext f) = wire_of f
  /\ closed COMMA (valtext f) /\ closed SEMI (valtext f).
Proof.
  unfold wf_field, valtext, wire_of. intro H. repeat (apply andb_true_iff in H as [H ?]).
  destruct (f_val f) as [v|v]; cbn [render_val fval_val] in *.
  - (* bare *)
    assert (G : forallb barechar (wire_val (f_key f) v) = true /\ starts_space (wire_val (f_key f) v) = false
                /\ ends_space (wire_val (f_key f) v) = false).
    { unfold wire_val. destruct (is_urlkey (to_lower (f_key f))).
      - pose proof (qescape_safe v) as Q. split; [now apply barechar_of_qsafe|].
        now apply nonspace_ends, nonspace_of_qsafe.
      - cbn [orb] in *. unfold bare_ok in *. repeat (match goal with X : _ && _ = true |- _ => apply andb_true_iff in X as [X ?] end).
        repeat split; auto; now apply negb_true_iff. }
    destruct G as (Gb & Gs & Ge). repeat split; auto.
    + destruct (wire_val (f_key f) v) as [|q r]; [reflexivity|]. cbn [strip_quotes].
      cbn [forallb] in Gb. apply andb_true_iff in Gb as [Gq _].
      assert (X : (q =? QUOTE) = false) by (unfold barechar in Gq; lia). now rewrite X.
    + apply scan_bare; auto.
    + apply scan_bare; auto.
  - (* quoted *)
    fold (quoted_text (wire_val (f_key f) v)). repeat split.
    + unfold ends_space, quoted_text. cbn [rev]. rewrite rev_app_distr. reflexivity.
    + unfold quoted_text. cbn [strip_quotes]. change (QUOTE =? QUOTE) with true. cbv beta match.
      rewrite rev_app_distr. cbn [rev app]. change (QUOTE =? QUOTE) with true. cbv beta match.
      now rewrite rev_involutive, unescape_escape.
    + apply quoted_closed.
    + apply quoted_closed.
Qed.

Lemma set_field_denote e f : wf_field f = true ->
  set_field (to_lower (f_key f)) (wire_of f) e = denote_field e f.
Proof.
  intro H. unfold set_field, denote_field, wire_of, wire_val.
  assert (Hb : all_bytes (fval_val (f_val f)) = true).
  { unfold wf_field in H. repeat (apply andb_true_iff in H as [H ?]). assumption. }
  destruct (is_urlkey (to_lower (f_key f))); [|reflexivity].
  unfold url_decode. now rewrite qunesc_qescape.
Qed.

Lemma render_field_shape f :
  render_field f = (f_ws1 f ++ f_key f ++ f_ws2 f) ++ EQ :: (f_ws3 f ++ valtext f ++ f_ws4 f).
Proof. unfold render_field, valtext. rewrite <- !app_assoc. reflexivity. Qed.

Lemma wf_field_parts f : wf_field f = true ->
  allsp (f_ws1 f) = true /\ allsp (f_ws2 f) = true /\ allsp (f_ws3 f) = true /\ allsp (f_ws4 f) = true
  /\ key_ok (f_key f) = true.
Proof. unfold wf_field. intro H. repeat (apply andb_true_iff in H as [H ?]). repeat split; assumption. Qed.

(* the parser reads a rendered pair as the grammar means it *)
Lemma apply_pair_field e f : wf_field f = true -> apply_pair e (render_field f) = denote_field e f.
Proof.
  intro H. destruct (wf_field_parts f H) as (W1 & W2 & W3 & W4 & K).
  destruct (key_facts _ K) as (_ & Kq & Ks & Ke & _).
  destruct (valtext_facts f H) as (Vs & Ve & Vq & _ & _).
  rewrite render_field_shape, apply_pair_decomp.
  - rewrite (trim_space_core _ _ _ W1 W2 Ks Ke), (trim_space_core _ _ _ W3 W4 Vs Ve), Vq.
    now apply set_field_denote.
  - unfold noeq in *. rewrite !forallb_app. fold (noeq (f_ws1 f)) (noeq (f_ws2 f)).
    now rewrite (noeq_of_space _ W1), (noeq_of_space _ W2), Kq.
Qed.

Lemma closed_app d a b : closed d a -> closed d b -> closed d (a ++ b).
Proof. unfold closed. intros Ha Hb. now rewrite (scan_app d a false false b Ha). Qed.

Lemma closed_bare d s : (d = COMMA \/ d = SEMI) -> forallb barechar s = true -> closed d s.
Proof. intros. now apply scan_bare. Qed.

Lemma field_closed d f : (d = COMMA \/ d = SEMI) -> wf_field f = true -> closed d (render_field f).
Proof.
  intros Hd H. destruct (wf_field_parts f H) as (W1 & W2 & W3 & W4 & K).
  destruct (key_facts _ K) as (Kb & _). destruct (valtext_facts f H) as (_ & _ & _ & Vc & Vs).
  unfold render_field. fold (valtext f).
  repeat apply closed_app; try (apply closed_bare; auto using barechar_of_space; reflexivity).
  destruct Hd; subst d; assumption.
Qed.

Lemma field_not_blank f : wf_field f = true -> allsp (render_field f) = false.
Proof.
  intro H. destruct (wf_field_parts f H) as (_ & _ & _ & _ & K).
  destruct (key_facts _ K) as (_ & _ & Ks & _ & Kne). unfold render_field, allsp.
  rewrite !forallb_app. destruct (f_key f) as [|c k]; [congruence|]. cbn in Ks. cbn [forallb]. rewrite Ks.
  cbn [andb]. now rewrite andb_false_r.
Qed.

(* ---- elements and headers ------------------------------------------------------ *)
Lemma fold_fields fs : forallb wf_field fs = true -> forall e,
  fold_left apply_pair (map render_field fs) e = fold_left denote_field fs e.
Proof.
  induction fs as [|f fs IH]; intros H e; [reflexivity|]. cbn [forallb] in H.
  apply andb_true_iff in H as [Hf Hfs]. cbn [map fold_left]. rewrite apply_pair_field by exact Hf. now apply IH.
Qed.

Lemma join_not_blank d x l : allsp x = false -> allsp (join [d] (x :: l)) = false.
Proof.
  intro H. destruct l; cbn [join]; [exact H|]. unfold allsp in *. now rewrite forallb_app, H.
Qed.

Lemma parse_elem_render fs : wf_element fs = true -> parse_elem (render_element fs) = denote_element fs.
Proof.
  intro H. unfold wf_element in H. destruct fs as [|f fs']; [reflexivity|].
  unfold parse_elem, denote_element, render_element.
  set (E := join [SEMI] (map render_field (f :: fs'))).
  assert (Hnb : allsp E = false).
  { unfold E. cbn [map]. apply join_not_blank, field_not_blank. cbn [forallb] in H. now apply andb_true_iff in H as [H _]. }
  destruct (trim_space E) as [|x y] eqn:Et.
  - exfalso. destruct (trim_space_decomp E) as (w1 & w2 & H1 & H2 & Ed). rewrite Et in Ed. cbn [app] in Ed.
    rewrite Ed in Hnb. unfold allsp in *. rewrite forallb_app, H1, H2 in Hnb. discriminate.
  - rewrite <- Et, fold_trim_invariant. unfold E. rewrite split_join.
    + f_equal. now apply fold_fields.
    + discriminate.
    + discriminate.
    + apply Forall_forall. intros p Hin. apply in_map_iff in Hin as (g & <- & Hg).
      apply field_closed; [now right|]. rewrite forallb_forall in H. now apply H.
Qed.

Lemma element_closed fs : wf_element fs = true -> closed COMMA (render_element fs).
Proof.
  unfold wf_element, render_element. induction fs as [|f fs IH]; intro H; [reflexivity|].
  cbn [forallb] in H. apply andb_true_iff in H as [Hf Hfs]. destruct fs as [|g fs'].
  - cbn [map join]. apply field_closed; [now left | exact Hf].
  - change (join [SEMI] (map render_field (f :: g :: fs')))
      with (render_field f ++ [SEMI] ++ join [SEMI] (map render_field (g :: fs'))).
    apply closed_app; [apply field_closed; [now left | exact Hf]|].
    apply closed_app; [reflexivity | now apply IH].
Qed.

(* the round trip: the parser returns, for every well-formed syntax tree of any
   size, exactly what the grammar says the rendered header means *)
Lemma parse_render a : wf_header a = true -> parse_xfcc (render_header a) = denote a.
Proof.
  intro H. unfold wf_header in H. unfold parse_xfcc, render_header, denote.
  destruct a as [|fs a']; [reflexivity|].
  rewrite split_join.
  - rewrite flat_map_concat_map, map_map, <- flat_map_concat_map.
    rewrite forallb_forall in H. revert H. generalize (fs :: a'). intros l H.
    induction l as [|x l IH]; [reflexivity|]. cbn [flat_map]. rewrite parse_elem_render by (apply H; now left).
    f_equal. apply IH. intros y Hy. apply H. now right.
  - discriminate.
  - discriminate.
  - apply Forall_forall. intros p Hin. apply in_map_iff in Hin as (g & <- & Hg).
    apply element_closed. rewrite forallb_forall in H. now apply H.
Qed.

(* ======================================================================== *)
(* extractCN on the DN grammar                                               *)
(* ======================================================================== *)
Lemma dn_split_one c : dn_split [c] = if c =? BSL then [[c]] else if c =? COMMA then [[]; []] else [[c]].
Proof. reflexivity. Qed.
Lemma dn_split_two c c2 t : dn_split (c :: c2 :: t) =
  if c =? BSL then (if c2 =? NL then cons_hd c (dn_split (c2 :: t)) else cons_hd c (cons_hd c2 (dn_split t)))
  else if c =? COMMA then [] :: dn_split (c2 :: t) else cons_hd c (dn_split (c2 :: t)).
Proof. reflexivity. Qed.

Lemma dn_split_ne s : dn_split s <> [].
Proof.
  destruct s as [|c [|c2 t]]; [discriminate | rewrite dn_split_one | rewrite dn_split_two];
    repeat match goal with |- context [if ?b then _ else _] => destruct b end;
    try discriminate; apply cons_hd_ne.
Qed.

Lemma dn_split_items v : forallb item_ok v = true ->
  forall r, dn_split (render_dval v ++ r) = prepend (render_dval v) (dn_split r).
Proof.
  induction v as [|i v IH]; intros H r.
  - cbn. symmetry. apply prepend_nil, dn_split_ne.
  - cbn [forallb] in H. apply andb_true_iff in H as [Hi Hv].
    change (render_dval (i :: v)) with (render_item i ++ render_dval v). rewrite <- app_assoc.
    specialize (IH Hv r). destruct i as [c|c]; cbn [render_item app item_ok] in *.
    + assert (Ec : (c =? COMMA) = false) by lia. assert (Eb : (c =? BSL) = false) by lia.
      destruct (render_dval v ++ r) as [|x y] eqn:Ev.
      * rewrite dn_split_one, Eb, Ec. rewrite <- cons_hd_prepend, <- IH. reflexivity.
      * rewrite dn_split_two, Eb, Ec, IH. apply cons_hd_prepend.
    + rewrite dn_split_two. change (BSL =? BSL) with true. cbv beta match.
      apply negb_true_iff in Hi. rewrite Hi, IH. now rewrite !cons_hd_prepend.
Qed.

Definition dnplain (c : N) : bool := negb (c =? COMMA) && negb (c =? BSL).

Lemma render_plain a : render_dval (map DPlain a) = a.
Proof. induction a as [|c a IH]; [reflexivity|]. cbn. unfold render_dval in IH. now rewrite IH. Qed.

Lemma dn_split_plain a : forallb dnplain a = true ->
  forall r, dn_split (a ++ r) = prepend a (dn_split r).
Proof.
  intros H r. rewrite <- (render_plain a) at 1. rewrite dn_split_items; [now rewrite render_plain|].
  rewrite forallb_forall in *. intros i Hin. apply in_map_iff in Hin as (c & <- & Hc). exact (H c Hc).
Qed.

Lemma wf_rdn_parts r : wf_rdn r = true ->
  allsp (r_pad r) = true /\ r_attr r <> [] /\ forallb attrchar (r_attr r) = true
  /\ forallb item_ok (r_val r) = true /\ r_val r <> []
  /\ starts_space (render_dval (r_val r)) = false
  /\ is_space (item_last (last (r_val r) (DPlain 0))) = false.
Proof.
  unfold wf_rdn. intro H. repeat (apply andb_true_iff in H as [H ?]).
  destruct (r_val r) as [|i v] eqn:Ev; [discriminate|].
  repeat split; auto; try discriminate.
  - destruct (r_attr r); [discriminate | discriminate].
  - match goal with X : negb (starts_space (render_item i)) = true |- _ => apply negb_true_iff in X end.
    change (render_dval (i :: v)) with (render_item i ++ render_dval v).
    destruct i; cbn in *; assumption.
  - now apply negb_true_iff.
Qed.

Lemma space_dnplain w : allsp w = true -> forallb dnplain w = true.
Proof.
  intro H. unfold allsp in H. rewrite forallb_forall in *. intros c Hin. specialize (H c Hin).
  unfold dnplain, is_space, COMMA, BSL in *. lia.
Qed.
Lemma attr_dnplain a : forallb attrchar a = true -> forallb dnplain a = true.
Proof.
  intro H. rewrite forallb_forall in *. intros c Hin. specialize (H c Hin).
  unfold dnplain, attrchar in *. lia.
Qed.

Lemma dn_split_rdn r rest : wf_rdn r = true ->
  dn_split (render_rdn r ++ rest) = prepend (render_rdn r) (dn_split rest).
Proof.
  intro H. destruct (wf_rdn_parts r H) as (Hp & _ & Ha & Hv & _).
  unfold render_rdn. rewrite <- !app_assoc.
  rewrite dn_split_plain by now apply space_dnplain.
  rewrite dn_split_plain by now apply attr_dnplain.
  rewrite (dn_split_plain [EQ]) by reflexivity.
  rewrite dn_split_items by exact Hv.
  generalize (dn_split_ne rest). destruct (dn_split rest) as [|h t]; [congruence|]. intros _.
  cbn [prepend]. now rewrite <- !app_assoc.
Qed.

Lemma dn_split_render d : d <> [] -> wf_dn d = true -> dn_split (render_dn d) = map render_rdn d.
Proof.
  unfold wf_dn, render_dn. induction d as [|r d IH]; intros Hne H; [congruence|].
  cbn [forallb] in H. apply andb_true_iff in H as [Hr Hd]. destruct d as [|r2 d'].
  - cbn [map join]. rewrite <- (app_nil_r (render_rdn r)) at 1. rewrite dn_split_rdn by exact Hr.
    cbn. now rewrite app_nil_r.
  - change (join [COMMA] (map render_rdn (r :: r2 :: d')))
      with (render_rdn r ++ COMMA :: join [COMMA] (map render_rdn (r2 :: d'))).
    rewrite dn_split_rdn by exact Hr.
    assert (E : forall s, dn_split (COMMA :: s) = [] :: dn_split s).
    { intros [|x y]; [rewrite dn_split_one | rewrite dn_split_two]; reflexivity. }
    rewrite E, IH by (auto; discriminate). cbn. now rewrite app_nil_r.
Qed.

Lemma render_dval_last v : v <> [] -> exists x, render_dval v = x ++ [item_last (last v (DPlain 0))].
Proof.
  induction v as [|i v IH]; [congruence|]. intros _. destruct v as [|j v'].
  - destruct i as [c|c]; [now exists [] | now exists [BSL]].
  - destruct IH as [x Hx]; [discriminate|]. exists (render_item i ++ x).
    change (render_dval (i :: j :: v')) with (render_item i ++ render_dval (j :: v')).
    rewrite Hx, <- app_assoc. reflexivity.
Qed.

Lemma to_lower1_eq61 c : to_lower1 c = 61 -> c = 61.
Proof. unfold to_lower1. destruct ((65 <=? c) && (c <=? 90)) eqn:E; lia. Qed.

Lemma ef3 x y z : equal_fold [x; y; z] cn_eq =
  (to_lower1 x =? 99) && ((to_lower1 y =? 110) && ((to_lower1 z =? 61) && true)).
Proof. reflexivity. Qed.
Lemma ef_cn1 x : equal_fold [x] cn_name = (to_lower1 x =? 99) && false.
Proof. reflexivity. Qed.
Lemma ef_cn2 x y : equal_fold [x; y] cn_name = (to_lower1 x =? 99) && ((to_lower1 y =? 110) && true).
Proof. reflexivity. Qed.
Lemma ef_cn3 x y z l : equal_fold (x :: y :: z :: l) cn_name = (to_lower1 x =? 99) && ((to_lower1 y =? 110) && false).
Proof. reflexivity. Qed.

Lemma render_dval_ne v : v <> [] -> render_dval v <> [].
Proof. intro H. destruct (render_dval_last v H) as [x ->]. destruct x; discriminate. Qed.

(* what the CN test of extractCN says about a rendered RDN *)
Lemma cn_of_part_rdn r : wf_rdn r = true ->
  cn_of_part (render_rdn r) = if is_cn r then Some (render_dval (r_val r)) else None.
Proof.
  intro H. destruct (wf_rdn_parts r H) as (Hp & Hane & Ha & Hv & Hvne & Hvs & Hvl).
  unfold cn_of_part.
  assert (Et : trim_space (render_rdn r) = r_attr r ++ EQ :: render_dval (r_val r)).
  { assert (Sh : render_rdn r = r_pad r ++ (r_attr r ++ EQ :: render_dval (r_val r)) ++ []).
    { rewrite app_nil_r. reflexivity. }
    rewrite Sh. apply trim_space_core; auto.
    - destruct (r_attr r) as [|a k]; [congruence|]. cbn [forallb] in Ha. apply andb_true_iff in Ha as [Ha _].
      cbn. unfold attrchar in Ha. lia.
    - destruct (render_dval_last _ Hvne) as [x Hx]. rewrite Hx. unfold ends_space.
      rewrite rev_app_distr. cbn [rev]. rewrite rev_app_distr. cbn. exact Hvl. }
  rewrite Et. pose proof (render_dval_ne _ Hvne) as Hne.
  unfold is_cn. destruct (render_dval (r_val r)) as [|v0 val']; [congruence|].
  destruct (r_attr r) as [|a [|b [|c k]]]; [congruence | | |].
  - cbn [app take firstn length]. rewrite ef3, ef_cn1. change (to_lower1 EQ) with 61.
    change (61 =? 110) with false. now rewrite !andb_false_r.
  - cbn [app take firstn length]. rewrite ef3, ef_cn2. change (to_lower1 EQ) with 61.
    change (61 =? 61) with true. cbn [Nat.ltb Nat.leb].
    cbn [andb]. rewrite !andb_true_r. destruct ((to_lower1 a =? 99) && (to_lower1 b =? 110)); reflexivity.
  - cbn [app take firstn length]. rewrite ef3, ef_cn3.
    cbn [forallb] in Ha. apply andb_true_iff in Ha as [_ Ha]. apply andb_true_iff in Ha as [_ Ha].
    apply andb_true_iff in Ha as [Hc _].
    assert (X : (to_lower1 c =? 61) = false).
    { apply N.eqb_neq. intro Y. apply to_lower1_eq61 in Y. unfold attrchar, EQ in Hc. lia. }
    rewrite X. now rewrite !andb_false_r.
Qed.

Lemma first_cn_render d : wf_dn d = true -> first_cn (map render_rdn d) = cn_of d.
Proof.
  unfold wf_dn, cn_of. induction d as [|r d IH]; intro H; [reflexivity|].
  cbn [forallb] in H. apply andb_true_iff in H as [Hr Hd]. cbn [map first_cn find].
  rewrite cn_of_part_rdn by exact Hr. destruct (is_cn r); [reflexivity | now apply IH].
Qed.

Lemma filter_rdns d : wf_dn d = true -> filter nonempty (map render_rdn d) = map render_rdn d.
Proof.
  unfold wf_dn. induction d as [|r d IH]; intro H; [reflexivity|].
  cbn [forallb] in H. apply andb_true_iff in H as [Hr Hd]. cbn [map filter].
  destruct (wf_rdn_parts r Hr) as (_ & Hane & _).
  assert (X : nonempty (render_rdn r) = true).
  { unfold render_rdn. destruct (r_pad r); [|reflexivity]. destruct (r_attr r); [congruence | reflexivity]. }
  rewrite X. f_equal. now apply IH.
Qed.

(* extractCN returns the CN of every well-formed DN, of any length *)
Lemma extract_cn_render d : wf_dn d = true -> extract_cn (render_dn d) = cn_of d.
Proof.
  intro H. unfold extract_cn. destruct d as [|r d']; [reflexivity|].
  rewrite dn_split_render by (auto; discriminate). rewrite filter_rdns by exact H. now apply first_cn_render.
Qed.

(* ======================================================================== *)
(* the authenticator and the decidable form of the property                  *)
(* ======================================================================== *)
Definition sel_ok (sel : bytes) : bool := beqb sel [] || beqb sel sel_first || beqb sel sel_last.

Lemma pick_map {A B} (f : A -> B) sel l : pick sel (map f l) = option_map f (pick sel l).
Proof.
  unfold pick. destruct (beqb sel sel_last).
  - rewrite <- map_rev. destruct (rev l); reflexivity.
  - destruct l; reflexivity.
Qed.

Lemma list_beqb_refl l : list_eqb beqb l l = true.
Proof. induction l as [|x l IH]; [reflexivity|]. cbn. now rewrite beqb_refl, IH. Qed.
Lemma elem_eqb_refl e : elem_eqb e e = true.
Proof. unfold elem_eqb. now rewrite !beqb_refl, list_beqb_refl. Qed.
Lemma list_elem_eqb_refl l : list_eqb elem_eqb l l = true.
Proof. induction l as [|x l IH]; [reflexivity|]. cbn. now rewrite elem_eqb_refl, IH. Qed.

Lemma parse_xfcc_nil : parse_xfcc [] = [].
Proof. reflexivity. Qed.

Lemma xfcc_auth_char sel hdrs : sel_ok sel = true ->
  xfcc_auth sel hdrs =
  match select sel (parse_xfcc (hd [] hdrs)) with
  | Some e => XOk dom_mtls (extract_cn (e_subject e)) (e_hash e) (e_subject e) (e_uri e) (e_dns e) (e_by e)
  | None => XErr value_error
  end.
Proof.
  intro Hs. unfold xfcc_auth. fold (sel_ok sel). rewrite Hs. cbn [negb].
  destruct (hd [] hdrs) as [|c h]; [|reflexivity].
  rewrite parse_xfcc_nil. unfold select. destruct (beqb sel sel_last); reflexivity.
Qed.

Lemma xfcc_auth_badsel sel hdrs : sel_ok sel = false -> xfcc_auth sel hdrs = XCfgErr.
Proof. intro Hs. unfold xfcc_auth. fold (sel_ok sel). now rewrite Hs. Qed.

Lemma auth_spec_holds sel hdrs :
  auth_spec sel (nonempty (hd [] hdrs)) (parse_xfcc (hd [] hdrs))
            (map (fun e => extract_cn (e_subject e)) (parse_xfcc (hd [] hdrs))) (xfcc_auth sel hdrs) = true.
Proof.
  unfold auth_spec. fold (sel_ok sel). destruct (sel_ok sel) eqn:Hs; cbn [negb].
  - rewrite (xfcc_auth_char sel hdrs Hs), pick_map. change (select sel) with (@pick elem sel).
    destruct (hd [] hdrs) as [|c h].
    + rewrite parse_xfcc_nil. unfold pick. destruct (beqb sel sel_last); reflexivity.
    + cbn [nonempty]. destruct (pick sel (parse_xfcc (c :: h))) as [e|]; cbn [option_map].
      * now rewrite !beqb_refl, list_beqb_refl.
      * apply beqb_refl.
  - now rewrite (xfcc_auth_badsel sel hdrs Hs).
Qed.

Lemma xfcc_obs_spec sel hdrs :
  let h := hd [] hdrs in
  match xfcc_obs sel h hdrs with
  | OXfcc h' c s p n a =>
      beqb h' h && split_spec COMMA h' c && split_spec SEMI h' s && Nat.eqb (length n) (length p)
      && auth_spec sel (nonempty h') p n a = true
  | _ => False
  end.
Proof.
  cbn. unfold split_spec. rewrite !join_split, !beqb_refl, map_length, Nat.eqb_refl. cbn [andb].
  apply auth_spec_holds.
Qed.

(* the property in decidable form holds on the model, for every input *)
Lemma model_meets_spec i : spec_ok i (model i) = true.
Proof.
  destruct i as [toks hdrs | sel hdrs | sel a | s | d | v]; cbn [model spec_ok].
  - destruct (nodup_keys toks) eqn:E; [now apply bearer_spec_holds | reflexivity].
  - exact (xfcc_obs_spec sel hdrs).
  - pose proof (xfcc_obs_spec sel [render_header a]) as X. cbn [hd] in X. unfold xfcc_obs in *.
    apply andb_true_iff in X as [X Xa]. apply andb_true_iff in X as [X Xn]. apply andb_true_iff in X as [X Xs].
    apply andb_true_iff in X as [_ Xc]. rewrite Xc, Xs, Xn, Xa. cbn [andb].
    destruct (wf_header a) eqn:W; [|reflexivity]. rewrite parse_render by exact W. apply list_elem_eqb_refl.
  - reflexivity.
  - destruct (wf_dn d) eqn:W; [|reflexivity]. rewrite extract_cn_render by exact W. apply beqb_refl.
  - destruct (all_bytes v) eqn:W; [|reflexivity]. rewrite qunesc_qescape by exact W. cbn. apply beqb_refl.
Qed.

(* default identity, stated on the grammar: whatever well-formed tree the header
   was rendered from, if the selected element's Subject is the rendering of a
   well-formed DN, the principal is that DN's CN and the claims are the element *)
Lemma identity_from_grammar sel a e dn :
  sel_ok sel = true -> wf_header a = true -> select sel (denote a) = Some e ->
  e_subject e = render_dn dn -> wf_dn dn = true ->
  xfcc_auth sel [render_header a] =
  XOk dom_mtls (cn_of dn) (e_hash e) (e_subject e) (e_uri e) (e_dns e) (e_by e).
Proof.
  intros Hs Hw He Hd Hdn. rewrite (xfcc_auth_char _ _ Hs). cbn [hd]. rewrite parse_render by exact Hw.
  rewrite He. rewrite Hd at 1. now rewrite extract_cn_render.
Qed.

Lemma quoted_one_part d v : split_rq d false (quoted_text v) = [quoted_text v].
Proof. apply split_closed_one, quoted_closed. Qed.

Lemma bearer_refuses toks hdrs :
  ~ (exists tok p, In (tok, p) toks /\ hd [] hdrs = bearer_prefix ++ tok) ->
  bearer_auth toks hdrs = BReject value_error.
Proof.
  intro H. apply bearer_reject_iff_l in H as [t Ht]. now rewrite Ht, (bearer_reject_type _ _ _ Ht).
Qed.
