(* Proofs/C17Pool.v — the pool of codec writers under arbitrary interleavings of
   overlapping responses (model in Model/C17.v, section "pool"). *)
From VR Require Import Model.C17.
From Coq Require Import Arith Lia.
Local Open Scope nat_scope.

Section Pool.
Variable bodies : list (list N).

Definition plen (r : nat) : nat := length (body_of bodies r) + 5.
(* r references a writer it may still touch: its Get is done, its program is not *)
Definition live (s : pst) (r : nat) : Prop := 1 <= p_pc s r /\ p_pc s r < plen r.

Definition wr_at (s : pst) (r w : nat) : Prop :=
  let bd := body_of bodies r in
  (p_pc s r = 1 -> p_wr s w = idle) /\
  (2 <= p_pc s r <= length bd + 2 ->
     p_wr s w = {| w_dst := Some r; w_stream := rev (firstn (p_pc s r - 2) bd) |}) /\
  (p_pc s r = length bd + 3 -> p_wr s w = {| w_dst := Some r; w_stream := [] |}) /\
  (p_pc s r = length bd + 4 -> p_wr s w = idle).

Definition sink_at (s : pst) (r : nat) : Prop :=
  let bd := body_of bodies r in
  (p_pc s r <= length bd + 2 -> p_sink s r = []) /\
  (length bd + 3 <= p_pc s r -> p_sink s r = [Complete bd]).

Record PInv (s : pst) : Prop := {
  i_pool : forall w, In w (p_pool s) -> w < p_fresh s /\ p_wr s w = idle;
  i_fresh : forall w, p_fresh s <= w -> p_wr s w = idle;
  i_some : forall r w, p_hold s r = Some w -> 1 <= p_pc s r /\ w < p_fresh s;
  i_ex : forall r, 1 <= p_pc s r -> exists w, p_hold s r = Some w;
  i_xpool : forall r w, live s r -> p_hold s r = Some w -> ~ In w (p_pool s);
  i_excl : forall r1 r2 w, live s r1 -> live s r2 ->
             p_hold s r1 = Some w -> p_hold s r2 = Some w -> r1 = r2;
  i_wr : forall r w, p_hold s r = Some w -> wr_at s r w;
  i_sink : forall r, sink_at s r }.

Lemma init_inv : PInv p_init.
Proof.
  constructor; cbn.
  - intros w [].
  - reflexivity.
  - discriminate.
  - intros r H. lia.
  - intros r w [H _]. cbn in H. lia.
  - intros r1 r2 w [H _]. cbn in H. lia.
  - discriminate.
  - intros r. unfold sink_at. cbn. split; [reflexivity | lia].
Qed.

Lemma upd_same {A} (f : nat -> A) k v : upd f k v k = v.
Proof. unfold upd. now rewrite Nat.eqb_refl. Qed.
Lemma upd_other {A} (f : nat -> A) k v x : x <> k -> upd f k v x = f x.
Proof. unfold upd. intro H. apply Nat.eqb_neq in H. now rewrite H. Qed.

Lemma op_at_cases n pc :
  (pc = 0 /\ op_at true n pc = Some OGet) \/
  (pc = 1 /\ op_at true n pc = Some OReset) \/
  (2 <= pc <= n + 1 /\ op_at true n pc = Some (OWrite (pc - 2))) \/
  (pc = n + 2 /\ op_at true n pc = Some OClose) \/
  (pc = n + 3 /\ op_at true n pc = Some OUnpin) \/
  (pc = n + 4 /\ op_at true n pc = Some OPut) \/
  (n + 5 <= pc /\ op_at true n pc = None).
Proof.
  unfold op_at.
  destruct (Nat.eqb_spec pc 0); [tauto|].
  destruct (Nat.eqb_spec pc 1); [tauto|].
  destruct (Nat.leb_spec pc (n + 1)); [right; right; left; split; [lia | reflexivity]|].
  destruct (Nat.eqb_spec pc (n + 2)); [tauto|].
  destruct (Nat.eqb_spec pc (n + 3)); [tauto|].
  destruct (Nat.eqb_spec pc (n + 4)); [tauto|].
  repeat right. split; [lia | reflexivity].
Qed.

(* frame: a step of live response r0 that touches only its own writer w0, its own
   sink and its own program counter *)
Lemma frame s s' r0 w0 :
  PInv s -> p_hold s r0 = Some w0 -> 1 <= p_pc s r0 -> S (p_pc s r0) < plen r0 ->
  p_pool s' = p_pool s -> p_hold s' = p_hold s -> p_fresh s' = p_fresh s ->
  p_pc s' r0 = S (p_pc s r0) -> (forall r, r <> r0 -> p_pc s' r = p_pc s r) ->
  (forall w, w <> w0 -> p_wr s' w = p_wr s w) ->
  (forall r, r <> r0 -> p_sink s' r = p_sink s r) ->
  wr_at s' r0 w0 -> sink_at s' r0 ->
  PInv s'.
Proof.
  intros I Hh Hpc1 Hpc2 Epool Ehold Efresh Epc0 Epc Ewr Esink Hwr Hsk.
  assert (L0 : live s r0) by (unfold live; lia).
  assert (Lv : forall r, live s' r -> live s r).
  { intros r [H1 H2]. destruct (Nat.eq_dec r r0) as [->|Hn]; [assumption|].
    unfold live. rewrite <- (Epc r Hn). lia. }
  assert (Hw0 : w0 < p_fresh s) by (apply (i_some s I r0 w0 Hh)).
  constructor.
  - intros w Hw. rewrite Epool in Hw. rewrite Efresh. destruct (i_pool s I w Hw) as [H1 H2].
    split; [assumption|]. rewrite Ewr; [assumption|]. intros ->. exact (i_xpool s I r0 w0 L0 Hh Hw).
  - intros w Hw. rewrite Efresh in Hw. rewrite Ewr; [now apply (i_fresh s I) | lia].
  - intros r w Hr. rewrite Ehold in Hr. rewrite Efresh. destruct (i_some s I r w Hr) as [H1 H2].
    split; [|assumption]. destruct (Nat.eq_dec r r0) as [->|Hn]; [lia | now rewrite Epc].
  - intros r Hr. rewrite Ehold. apply (i_ex s I).
    destruct (Nat.eq_dec r r0) as [->|Hn]; [assumption | now rewrite <- Epc].
  - intros r w Hl Hr. rewrite Ehold in Hr. rewrite Epool. exact (i_xpool s I r w (Lv r Hl) Hr).
  - intros r1 r2 w H1 H2 E1 E2. rewrite Ehold in E1, E2. exact (i_excl s I r1 r2 w (Lv _ H1) (Lv _ H2) E1 E2).
  - intros r w Hr. rewrite Ehold in Hr. destruct (Nat.eq_dec r r0) as [->|Hn].
    + rewrite Hh in Hr. injection Hr as <-. assumption.
    + pose proof (i_wr s I r w Hr) as W. unfold wr_at in *. rewrite (Epc r Hn).
      assert (Hd : w <> w0 \/ plen r <= p_pc s r).
      { destruct (Nat.eq_dec w w0) as [->|]; [|now left]. right.
        destruct (le_lt_dec (plen r) (p_pc s r)) as [|Hlt]; [assumption|]. exfalso. apply Hn.
        apply (i_excl s I r r0 w0); try assumption. unfold live. split; [apply (i_some s I r w0 Hr) | assumption]. }
      destruct Hd as [Hd|Hd]; [now rewrite (Ewr w Hd)|].
      unfold plen in Hd. repeat split; intros; lia.
  - intros r. destruct (Nat.eq_dec r r0) as [->|Hn]; [assumption|].
    pose proof (i_sink s I r) as K. unfold sink_at in *. now rewrite (Epc r Hn), (Esink r Hn).
Qed.

Lemma remn_In w x l : In x (remn w l) <-> In x l /\ x <> w.
Proof.
  unfold remn. rewrite filter_In, negb_true_iff, Nat.eqb_neq. tauto.
Qed.

Lemma memn_In w l : memn w l = true <-> In w l.
Proof.
  unfold memn. rewrite existsb_exists. split.
  - intros [y [H1 H2]]. apply Nat.eqb_eq in H2. now subst.
  - intro H. exists w. split; [assumption | apply Nat.eqb_refl].
Qed.

Lemma pick_writer_some s pick w :
  pick_writer s pick = Some w -> exists r', pick = Some r' /\ p_hold s r' = Some w /\ In w (p_pool s).
Proof.
  unfold pick_writer. destruct pick as [r'|]; [|discriminate].
  destruct (p_hold s r') as [w'|] eqn:E; [|discriminate].
  destruct (memn w' (p_pool s)) eqn:Em; [|discriminate].
  intros [= <-]. exists r'. repeat split; [assumption | now apply memn_In].
Qed.

Lemma reset_sink_quiet s w : w_stream (p_wr s w) = [] -> reset_sink s w = p_sink s.
Proof. unfold reset_sink. intros ->. now destruct (w_dst (p_wr s w)). Qed.

Lemma firstn_snoc (bd : list N) k : k < length bd ->
  rev (firstn (S k) bd) = nth k bd 0%N :: rev (firstn k bd).
Proof.
  revert k. induction bd as [|x bd IH]; intros k H; cbn in H; [lia|].
  destruct k as [|k]; [reflexivity|].
  change (firstn (S (S k)) (x :: bd)) with (x :: firstn (S k) bd).
  change (firstn (S k) (x :: bd)) with (x :: firstn k bd).
  cbn [rev nth]. rewrite IH by lia. reflexivity.
Qed.

(* every step of the code-order program preserves the invariant *)
Lemma step_inv s rp : PInv s -> PInv (pstep true bodies s rp).
Proof.
  intro I. destruct rp as [r0 pick]. unfold pstep.
  set (bd := body_of bodies r0). set (n := length bd).
  destruct (op_at_cases n (p_pc s r0)) as [[Hpc ->]|[[Hpc ->]|[[Hpc ->]|[[Hpc ->]|[[Hpc ->]|[[Hpc ->]|[Hpc ->]]]]]]];
    [| | | | | |assumption].
  - (* Get *)
    unfold apply_op. destruct (pick_writer s pick) as [w|] eqn:Ep.
    + apply pick_writer_some in Ep. destruct Ep as [r' [-> [Hr' Hin]]].
      destruct (i_pool s I w Hin) as [Hwf Hwi].
      assert (Lv : forall r, r <> r0 -> live {| p_pool := remn w (p_pool s); p_wr := p_wr s;
                 p_hold := upd (p_hold s) r0 (Some w); p_sink := p_sink s; p_pc := set_pc s r0;
                 p_fresh := p_fresh s; p_picks := Some r' :: p_picks s |} r -> live s r).
      { intros r Hn. unfold live, set_pc. cbn. now rewrite upd_other. }
      constructor; cbn.
      * intros w' Hw'. apply remn_In in Hw'. apply (i_pool s I). tauto.
      * apply (i_fresh s I).
      * intros r w' Hr. unfold set_pc. destruct (Nat.eq_dec r r0) as [->|Hn].
        -- rewrite upd_same in Hr. rewrite ?upd_same. injection Hr as <-. split; [lia | assumption].
        -- rewrite upd_other in Hr by assumption. rewrite ?upd_other by assumption. now apply (i_some s I).
      * intros r Hr. unfold set_pc in Hr. destruct (Nat.eq_dec r r0) as [->|Hn].
        -- rewrite upd_same. now exists w.
        -- rewrite upd_other in Hr by assumption. rewrite ?upd_other by assumption. now apply (i_ex s I).
      * intros r w' Hl Hr Hi. apply remn_In in Hi. destruct Hi as [Hi Hne].
        destruct (Nat.eq_dec r r0) as [->|Hn].
        -- rewrite upd_same in Hr. injection Hr as <-. now apply Hne.
        -- rewrite upd_other in Hr by assumption. exact (i_xpool s I r w' (Lv r Hn Hl) Hr Hi).
      * intros r1 r2 w' H1 H2 E1 E2.
        destruct (Nat.eq_dec r1 r0) as [->|Hn1], (Nat.eq_dec r2 r0) as [->|Hn2]; try reflexivity.
        -- rewrite upd_same in E1. rewrite upd_other in E2 by assumption. injection E1 as <-.
           exfalso. exact (i_xpool s I r2 w (Lv r2 Hn2 H2) E2 Hin).
        -- rewrite upd_same in E2. rewrite upd_other in E1 by assumption. injection E2 as <-.
           exfalso. exact (i_xpool s I r1 w (Lv r1 Hn1 H1) E1 Hin).
        -- rewrite upd_other in E1, E2 by assumption.
           exact (i_excl s I r1 r2 w' (Lv _ Hn1 H1) (Lv _ Hn2 H2) E1 E2).
      * intros r w' Hr. unfold wr_at, set_pc. cbn. destruct (Nat.eq_dec r r0) as [->|Hn].
        -- rewrite upd_same in Hr. rewrite ?upd_same. injection Hr as <-. fold bd. fold n. rewrite Hpc.
           repeat split; intros; try lia. assumption.
        -- rewrite upd_other in Hr by assumption. rewrite ?upd_other by assumption. exact (i_wr s I r w' Hr).
      * intros r. unfold sink_at, set_pc. cbn. destruct (Nat.eq_dec r r0) as [->|Hn].
        -- rewrite upd_same. fold bd. fold n. rewrite Hpc. split; intros; [|lia].
           apply (i_sink s I r0). fold bd. fold n. lia.
        -- rewrite upd_other by assumption. exact (i_sink s I r).
    + assert (Lv : forall r, r <> r0 -> live {| p_pool := p_pool s; p_wr := p_wr s;
                 p_hold := upd (p_hold s) r0 (Some (p_fresh s)); p_sink := p_sink s; p_pc := set_pc s r0;
                 p_fresh := S (p_fresh s); p_picks := None :: p_picks s |} r -> live s r).
      { intros r Hn. unfold live, set_pc. cbn. now rewrite upd_other. }
      constructor; cbn.
      * intros w' Hw'. destruct (i_pool s I w' Hw'). split; [lia | assumption].
      * intros w' Hw'. apply (i_fresh s I). lia.
      * intros r w' Hr. unfold set_pc. destruct (Nat.eq_dec r r0) as [->|Hn].
        -- rewrite upd_same in Hr. rewrite ?upd_same. injection Hr as <-. split; lia.
        -- rewrite upd_other in Hr by assumption. rewrite ?upd_other by assumption. destruct (i_some s I r w' Hr). split; [assumption | lia].
      * intros r Hr. unfold set_pc in Hr. destruct (Nat.eq_dec r r0) as [->|Hn].
        -- rewrite upd_same. now eexists.
        -- rewrite upd_other in Hr by assumption. rewrite ?upd_other by assumption. now apply (i_ex s I).
      * intros r w' Hl Hr Hi. destruct (Nat.eq_dec r r0) as [->|Hn].
        -- rewrite upd_same in Hr. injection Hr as <-. destruct (i_pool s I _ Hi). lia.
        -- rewrite upd_other in Hr by assumption. exact (i_xpool s I r w' (Lv r Hn Hl) Hr Hi).
      * intros r1 r2 w' H1 H2 E1 E2.
        destruct (Nat.eq_dec r1 r0) as [->|Hn1], (Nat.eq_dec r2 r0) as [->|Hn2]; try reflexivity.
        -- rewrite upd_same in E1. rewrite upd_other in E2 by assumption. injection E1 as <-.
           destruct (i_some s I r2 _ E2). lia.
        -- rewrite upd_same in E2. rewrite upd_other in E1 by assumption. injection E2 as <-.
           destruct (i_some s I r1 _ E1). lia.
        -- rewrite upd_other in E1, E2 by assumption.
           exact (i_excl s I r1 r2 w' (Lv _ Hn1 H1) (Lv _ Hn2 H2) E1 E2).
      * intros r w' Hr. unfold wr_at, set_pc. cbn. destruct (Nat.eq_dec r r0) as [->|Hn].
        -- rewrite upd_same in Hr. rewrite ?upd_same. injection Hr as <-. fold bd. fold n. rewrite Hpc.
           repeat split; intros; try lia. apply (i_fresh s I). lia.
        -- rewrite upd_other in Hr by assumption. rewrite ?upd_other by assumption. exact (i_wr s I r w' Hr).
      * intros r. unfold sink_at, set_pc. cbn. destruct (Nat.eq_dec r r0) as [->|Hn].
        -- rewrite upd_same. fold bd. fold n. rewrite Hpc. split; intros; [|lia].
           apply (i_sink s I r0). fold bd. fold n. lia.
        -- rewrite upd_other by assumption. exact (i_sink s I r).
  - (* Reset *)
    destruct (i_ex s I r0) as [w0 Hh]; [lia|]. unfold apply_op. rewrite Hh.
    pose proof (i_wr s I r0 w0 Hh) as W. destruct W as [W1 _]. specialize (W1 Hpc).
    eapply (frame s _ r0 w0); try eassumption; try reflexivity; cbn; unfold set_pc, plen; fold bd; fold n.
    + lia.
    + lia.
    + now rewrite upd_same.
    + intros r Hn. now rewrite upd_other.
    + intros w Hn. now rewrite upd_other.
    + intros r Hn. rewrite reset_sink_quiet; [reflexivity | now rewrite W1].
    + unfold wr_at. cbn. unfold set_pc. rewrite !upd_same. fold bd. fold n. rewrite Hpc.
      repeat split; intros; try lia; try reflexivity.
    + unfold sink_at. cbn. unfold set_pc. rewrite upd_same. fold bd. fold n. rewrite Hpc.
      rewrite reset_sink_quiet by now rewrite W1. split; intros; [|lia].
      apply (i_sink s I r0). fold bd. fold n. lia.
  - (* Write *)
    destruct (i_ex s I r0) as [w0 Hh]; [lia|]. unfold apply_op. rewrite Hh.
    pose proof (i_wr s I r0 w0 Hh) as W. destruct W as [_ [W2 _]]. fold bd in W2. fold n in W2.
    specialize (W2 ltac:(lia)).
    eapply (frame s _ r0 w0); try eassumption; try reflexivity; cbn; unfold set_pc, plen; fold bd; fold n.
    + lia.
    + lia.
    + now rewrite upd_same.
    + intros r Hn. now rewrite upd_other.
    + intros w Hn. now rewrite upd_other.
    + unfold wr_at. cbn. unfold set_pc. rewrite !upd_same. fold bd. fold n.
      repeat split; intros; try lia. rewrite W2. cbn [w_dst w_stream]. f_equal.
      replace (S (p_pc s r0) - 2) with (S (p_pc s r0 - 2)) by lia.
      rewrite firstn_snoc; [reflexivity | fold n; lia].
    + unfold sink_at. cbn. unfold set_pc. rewrite upd_same. fold bd. fold n. split; intros; [|lia].
      apply (i_sink s I r0). fold bd. fold n. lia.
  - (* CodecClose *)
    destruct (i_ex s I r0) as [w0 Hh]; [lia|]. unfold apply_op. rewrite Hh.
    pose proof (i_wr s I r0 w0 Hh) as W. destruct W as [_ [W2 _]]. fold bd in W2. fold n in W2.
    specialize (W2 ltac:(lia)).
    eapply (frame s _ r0 w0); try eassumption; try reflexivity; cbn; unfold set_pc, plen; fold bd; fold n.
    + lia.
    + lia.
    + now rewrite upd_same.
    + intros r Hn. now rewrite upd_other.
    + intros w Hn. now rewrite upd_other.
    + intros r Hn. rewrite W2. cbn [w_dst]. now rewrite upd_other.
    + unfold wr_at. cbn. unfold set_pc. rewrite !upd_same. fold bd. fold n. rewrite Hpc.
      repeat split; intros; try lia. now rewrite W2.
    + unfold sink_at. cbn. unfold set_pc. rewrite upd_same. fold bd. fold n. rewrite Hpc.
      split; intros; [lia|]. rewrite W2. cbn [w_dst w_stream]. rewrite upd_same.
      destruct (i_sink s I r0) as [K _]. fold bd in K. fold n in K. rewrite K by lia. cbn [app].
      rewrite rev_involutive, Hpc. replace (n + 2 - 2) with n by lia. unfold n. now rewrite firstn_all.
  - (* Unpin *)
    destruct (i_ex s I r0) as [w0 Hh]; [lia|]. unfold apply_op. rewrite Hh.
    pose proof (i_wr s I r0 w0 Hh) as W. destruct W as [_ [_ [W3 _]]]. fold bd in W3. fold n in W3.
    specialize (W3 Hpc).
    eapply (frame s _ r0 w0); try eassumption; try reflexivity; cbn; unfold set_pc, plen; fold bd; fold n.
    + lia.
    + lia.
    + now rewrite upd_same.
    + intros r Hn. now rewrite upd_other.
    + intros w Hn. now rewrite upd_other.
    + intros r Hn. rewrite reset_sink_quiet; [reflexivity | now rewrite W3].
    + unfold wr_at. cbn. unfold set_pc. rewrite !upd_same. fold bd. fold n. rewrite Hpc.
      repeat split; intros; try lia; try reflexivity.
    + unfold sink_at. cbn. unfold set_pc. rewrite upd_same. fold bd. fold n. rewrite Hpc.
      rewrite reset_sink_quiet by now rewrite W3. split; intros; [lia|].
      apply (i_sink s I r0). fold bd. fold n. lia.
  - (* Put: r0 stops being live, its writer becomes visible *)
    destruct (i_ex s I r0) as [w0 Hh]; [lia|]. unfold apply_op. rewrite Hh.
    pose proof (i_wr s I r0 w0 Hh) as W. destruct W as [_ [_ [_ W4]]]. fold bd in W4. fold n in W4.
    specialize (W4 Hpc).
    assert (L0 : live s r0) by (unfold live, plen; fold bd; fold n; lia).
    assert (Lv : forall r, live {| p_pool := w0 :: p_pool s; p_wr := p_wr s; p_hold := p_hold s;
                 p_sink := p_sink s; p_pc := set_pc s r0; p_fresh := p_fresh s; p_picks := p_picks s |} r ->
                 live s r /\ r <> r0).
    { intros r. unfold live, set_pc. cbn. destruct (Nat.eq_dec r r0) as [->|Hn].
      - rewrite upd_same. unfold plen. fold bd. fold n. lia.
      - rewrite upd_other by assumption. tauto. }
    constructor; cbn.
    + intros w [<-|Hw]; [|now apply (i_pool s I)]. split; [apply (i_some s I r0 w0 Hh) | assumption].
    + apply (i_fresh s I).
    + intros r w Hr. destruct (i_some s I r w Hr). split; [|assumption]. unfold set_pc.
      destruct (Nat.eq_dec r r0) as [->|Hn]; [rewrite upd_same; lia | now rewrite upd_other].
    + intros r Hr. apply (i_ex s I). unfold set_pc in Hr.
      destruct (Nat.eq_dec r r0) as [->|Hn]; [lia | now rewrite upd_other in Hr].
    + intros r w Hl Hr [<-|Hi]; destruct (Lv r Hl) as [Hl' Hn].
      * apply Hn. exact (i_excl s I r r0 w0 Hl' L0 Hr Hh).
      * exact (i_xpool s I r w Hl' Hr Hi).
    + intros r1 r2 w H1 H2. destruct (Lv _ H1), (Lv _ H2). now apply (i_excl s I).
    + intros r w Hr. unfold wr_at, set_pc. cbn. destruct (Nat.eq_dec r r0) as [->|Hn].
      * rewrite upd_same. fold bd. fold n. repeat split; intros; lia.
      * rewrite upd_other by assumption. exact (i_wr s I r w Hr).
    + intros r. unfold sink_at, set_pc. cbn. destruct (Nat.eq_dec r r0) as [->|Hn].
      * rewrite upd_same. fold bd. fold n. split; intros; [lia|].
        apply (i_sink s I r0). fold bd. fold n. lia.
      * rewrite upd_other by assumption. exact (i_sink s I r).
Qed.

Lemma fold_inv sched : forall s, PInv s -> PInv (fold_left (pstep true bodies) sched s).
Proof. induction sched as [|x t IH]; intros s I; cbn; [assumption|]. apply IH. now apply step_inv. Qed.

Lemma prun_inv sched : PInv (prun true bodies sched).
Proof. apply fold_inv. exact init_inv. Qed.

(* ---- the two headline facts, for every schedule --------------------------------- *)
Lemma pool_safe_l sched r w :
  let s := prun true bodies sched in
  In w (p_pool s) -> p_hold s r = Some w -> plen r <= p_pc s r.
Proof.
  cbv zeta. intros Hi Hh. pose proof (prun_inv sched) as I.
  destruct (le_lt_dec (plen r) (p_pc (prun true bodies sched) r)) as [|Hlt]; [assumption|].
  exfalso. apply (i_xpool _ I r w); try assumption. split; [apply (i_some _ I r w Hh) | assumption].
Qed.

Lemma closed_lossless_l sched r :
  let s := prun true bodies sched in
  (length (body_of bodies r) + 3 <= p_pc s r -> p_sink s r = [Complete (body_of bodies r)]) /\
  (p_pc s r <= length (body_of bodies r) + 2 -> p_sink s r = []).
Proof. cbv zeta. destruct (i_sink _ (prun_inv sched) r) as [H1 H2]. split; assumption. Qed.

Lemma seg_list_refl l : list_eqb seg_eqb l l = true.
Proof.
  induction l as [|x l IH]; [reflexivity|]. cbn. rewrite IH, andb_true_r.
  destruct x as [cs|]; [|reflexivity]. cbn. induction cs as [|c cs IHc]; [reflexivity|].
  cbn. now rewrite N.eqb_refl, IHc.
Qed.

Lemma resp_ok_true sched r : resp_ok bodies (prun true bodies sched) r = true.
Proof.
  unfold resp_ok. destruct (closed_lossless_l sched r) as [H1 H2].
  destruct (Nat.leb_spec (length (body_of bodies r) + 3) (p_pc (prun true bodies sched) r)).
  - rewrite H1 by assumption. apply seg_list_refl.
  - rewrite H2 by lia. reflexivity.
Qed.

(* ---- the honoured Get oracles are legal per the schedule-level spec ---------------- *)
Lemma step_pc s r pick : PInv s ->
  let s' := pstep true bodies s (r, pick) in
  (forall r', r' <> r -> p_pc s' r' = p_pc s r') /\
  (p_pc s r < plen r -> p_pc s' r = S (p_pc s r)) /\
  (plen r <= p_pc s r -> s' = s) /\
  (1 <= p_pc s r -> p_picks s' = p_picks s).
Proof.
  intro I. cbv zeta. unfold pstep, plen. set (bd := body_of bodies r). set (n := length bd).
  destruct (op_at_cases n (p_pc s r)) as [[Hpc ->]|[[Hpc ->]|[[Hpc ->]|[[Hpc ->]|[[Hpc ->]|[[Hpc ->]|[Hpc ->]]]]]]].
  - unfold apply_op. destruct (pick_writer s pick); cbn; unfold set_pc;
      (repeat split; intros; [now rewrite upd_other | now rewrite upd_same | lia | lia]).
  - destruct (i_ex s I r) as [w Hh]; [lia|]. unfold apply_op. rewrite Hh. cbn. unfold set_pc.
    repeat split; intros; [now rewrite upd_other | now rewrite upd_same | lia].
  - destruct (i_ex s I r) as [w Hh]; [lia|]. unfold apply_op. rewrite Hh. cbn. unfold set_pc.
    repeat split; intros; [now rewrite upd_other | now rewrite upd_same | lia].
  - destruct (i_ex s I r) as [w Hh]; [lia|]. unfold apply_op. rewrite Hh. cbn. unfold set_pc.
    repeat split; intros; [now rewrite upd_other | now rewrite upd_same | lia].
  - destruct (i_ex s I r) as [w Hh]; [lia|]. unfold apply_op. rewrite Hh. cbn. unfold set_pc.
    repeat split; intros; [now rewrite upd_other | now rewrite upd_same | lia].
  - destruct (i_ex s I r) as [w Hh]; [lia|]. unfold apply_op. rewrite Hh. cbn. unfold set_pc.
    repeat split; intros; [now rewrite upd_other | now rewrite upd_same | lia].
  - repeat split; intros; try reflexivity. lia.
Qed.

Lemma get_pick s r pick : PInv s -> p_pc s r = 0 ->
  exists p, p_picks (pstep true bodies s (r, pick)) = p :: p_picks s /\
            match p with Some r' => plen r' <= p_pc s r' | None => True end.
Proof.
  intros I Hpc. unfold pstep. set (n := length (body_of bodies r)).
  destruct (op_at_cases n (p_pc s r)) as [[_ ->]|[[H _]|[[H _]|[[H _]|[[H _]|[[H _]|[H _]]]]]]]; try lia.
  unfold apply_op. destruct (pick_writer s pick) as [w|] eqn:Ep.
  - apply pick_writer_some in Ep. destruct Ep as [r' [-> [Hr' Hin]]]. exists (Some r'). split; [reflexivity|].
    destruct (le_lt_dec (plen r') (p_pc s r')) as [|Hlt]; [assumption|]. exfalso.
    apply (i_xpool s I r' w); try assumption. split; [apply (i_some s I r' w Hr') | assumption].
  - exists None. now split.
Qed.

Lemma legal_gen sched : forall s cnt, PInv s ->
  (forall r, p_pc s r = Nat.min (cnt r) (plen r)) ->
  exists new, p_picks (fold_left (pstep true bodies) sched s) = rev new ++ p_picks s /\
              s_picks_legal bodies cnt (map fst sched) new = true.
Proof.
  induction sched as [|[r pick] t IH]; intros s cnt I Hc; cbn [fold_left map fst s_picks_legal].
  - exists []. now split.
  - pose proof (step_pc s r pick I) as [P1 [P2 [P3 P4]]]. cbv zeta in *.
    assert (Hlen : 5 <= plen r) by (unfold plen; lia).
    destruct (Nat.eqb_spec (cnt r) 0) as [Hz|Hnz].
    + assert (Hpc : p_pc s r = 0) by (rewrite Hc, Hz; reflexivity).
      destruct (get_pick s r pick I Hpc) as [p [Ep Hp]].
      destruct (IH (pstep true bodies s (r, pick)) (upd cnt r 1)) as [new [E1 E2]].
      * now apply step_inv.
      * intro r'. destruct (Nat.eq_dec r' r) as [->|Hn].
        -- rewrite upd_same, P2 by lia. rewrite Hpc. lia.
        -- rewrite upd_other, P1 by assumption. apply Hc.
      * exists (p :: new). split.
        -- rewrite E1, Ep. cbn [rev]. now rewrite <- app_assoc.
        -- rewrite E2, andb_true_r. destruct p as [r'|]; [|reflexivity].
           apply Nat.leb_le. fold (plen r'). rewrite Hc in Hp. lia.
    + assert (Hpc : 1 <= p_pc s r) by (rewrite Hc; lia).
      destruct (IH (pstep true bodies s (r, pick)) (upd cnt r (S (cnt r)))) as [new [E1 E2]].
      * now apply step_inv.
      * intro r'. destruct (Nat.eq_dec r' r) as [->|Hn].
        -- rewrite upd_same. destruct (le_lt_dec (plen r) (p_pc s r)) as [Hge|Hlt].
           ++ rewrite (P3 Hge). rewrite Hc in *. lia.
           ++ rewrite (P2 Hlt). rewrite Hc in *. lia.
        -- rewrite upd_other, P1 by assumption. apply Hc.
      * exists new. split; [|assumption]. rewrite E1. now rewrite (P4 Hpc).
Qed.

Lemma attach_fst rids : forall seen oracle, map fst (attach seen rids oracle) = rids.
Proof.
  induction rids as [|r t IH]; intros seen oracle; cbn [attach]; [reflexivity|].
  destruct (memn r seen); [cbn; now rewrite IH|].
  destruct oracle as [|o os]; cbn; now rewrite IH.
Qed.

Lemma model_picks_legal sched :
  s_picks_legal bodies (fun _ => 0) (map fst sched) (rev (p_picks (prun true bodies sched))) = true.
Proof.
  destruct (legal_gen sched p_init (fun _ => 0) init_inv) as [new [E1 E2]]; [intro r; reflexivity|].
  unfold prun. rewrite E1. cbn [p_picks p_init]. now rewrite app_nil_r, rev_involutive.
Qed.

End Pool.

(* ---- the other order (Put before Unpin) violates both facts ------------------------ *)
Definition wit_bodies : list (list N) := [[7%N]; [9%N; 10%N]].
(* A = 0 runs Get Reset Write CodecClose Put; B = 1 gets A's writer, resets it, writes
   its first chunk; A's late Unpin; B writes on, closes, puts, unpins *)
Definition wit_sched : list (nat * option nat) :=
  [(0, None); (0, None); (0, None); (0, None); (0, None);
   (1, Some 0); (1, None); (1, None);
   (0, None);
   (1, None); (1, None); (1, None); (1, None)].

Lemma legacy_lossless_refuted :
  let s := prun false wit_bodies wit_sched in
  length (body_of wit_bodies 1) + 3 <= p_pc s 1 /\ p_sink s 1 <> [Complete (body_of wit_bodies 1)].
Proof. cbv zeta. split; [vm_compute; lia | vm_compute; discriminate]. Qed.

Lemma legacy_pool_refuted :
  let s := prun false wit_bodies (firstn 5 wit_sched) in
  exists r w, In w (p_pool s) /\ p_hold s r = Some w /\ p_pc s r < plen wit_bodies r.
Proof. cbv zeta. exists 0, 0. vm_compute. repeat split; [now left | lia]. Qed.

(* the same schedule under the code's order is harmless (the oracle is not honoured) *)
Lemma witness_fixed_ok :
  map (resp_ok wit_bodies (prun true wit_bodies wit_sched)) [0; 1] = [true; true].
Proof. vm_compute. reflexivity. Qed.
